package rules

import (
	"fmt"
	"go/token"
	"go/types"
	"strings"

	"golang.org/x/tools/go/ssa"

	"kgv/internal/eng"
)

// C06 — local token bucket, wiring only. The numeric clause (admissions ≤ burst + qps·T,
// never stricter than configured) is a time-dependent property of client-go's bucket and
// is NOT decided here. What is decided: the gateway asks that bucket on every admission
// (R1), builds it with the schema's (QPS, Burst) in that order (R2) and remembers them
// faithfully (R2m), replaces it only when the schema changed so that an unchanged
// re-sync never hands out a fresh burst (R3), and answers 429 without forwarding when
// the bucket refuses (R4).

func init() {
	Register("C06", c06)
	RegisterFixture("C06", c06Fixtures)
}

const (
	c06TBSchema    = pkgV1alpha1 + ".TokenBucketFlowControlSchema"
	c06NewBucket   = "k8s.io/client-go/util/flowcontrol.NewTokenBucketRateLimiter"
	c06TryAccept   = "(k8s.io/client-go/util/flowcontrol.RateLimiter).TryAccept"
	c06TooMany     = "k8s.io/apimachinery/pkg/api/errors.NewTooManyRequests"
	c06InlineDepth = 3
)

// ---------------------------------------------------------------------------------------
// R1 template: where may a `true` returned by fn come from?

// c06Spec parameterises the true-origin template.
type c06Spec struct {
	// isSource: the call is an admission decision of a delegate (TryAcquire / TryAccept).
	isSource func(c *ssa.Call) bool
	// isDecrement: the call atomically takes tokens from a counter and returns the new value.
	isDecrement func(c *ssa.Call) bool
}

// c06ConstSite is an instruction that yields the constant true (a return, a store into
// the result cell, or the last instruction of the predecessor of a phi edge).
type c06ConstSite struct {
	fn  *ssa.Function
	pos token.Pos
	ok  bool
	why string
}

type c06Origin struct {
	sp        c06Spec
	seen      map[ssa.Value]bool
	seenFn    map[*ssa.Function]bool
	bad       []string
	undecided []string
	consts    []c06ConstSite
	sources   int
}

// c06TrueOrigin classifies every value fn may return. A returned value is accepted when
// it is the result of a source call, a comparison stating that a decrement left a
// non-negative balance, the constant false, or the constant true at a point that is
// control-dependent on a source call having returned true or on a decrement having left a
// non-negative balance. Local closures and repository callees are entered (bounded).
func c06TrueOrigin(fn *ssa.Function, sp c06Spec) *c06Origin {
	o := &c06Origin{sp: sp, seen: map[ssa.Value]bool{}, seenFn: map[*ssa.Function]bool{}}
	o.returnsOf(fn, 0, 0)
	return o
}

func (o *c06Origin) returnsOf(fn *ssa.Function, idx, depth int) {
	if o.seenFn[fn] {
		return
	}
	o.seenFn[fn] = true
	n := 0
	eng.Instrs(fn, func(ins ssa.Instruction) {
		r, ok := ins.(*ssa.Return)
		if !ok || idx >= len(r.Results) {
			return
		}
		n++
		o.classify(r.Results[idx], fn, eng.GuardsOf(r), r.Pos(), depth)
	})
	if n == 0 {
		o.undecided = append(o.undecided, eng.FuncName(fn)+" has no return")
	}
}

// edgeGuards returns the branch conditions that hold when block b is entered through its
// i-th predecessor.
func c06EdgeGuards(b *ssa.BasicBlock, i int) []eng.Guard {
	pred := b.Preds[i]
	gs := append([]eng.Guard{}, eng.GuardsOfBlock(pred)...)
	if len(pred.Instrs) > 0 {
		if iff, ok := pred.Instrs[len(pred.Instrs)-1].(*ssa.If); ok && pred.Succs[0] != pred.Succs[1] {
			if pred.Succs[0] == b {
				gs = append(gs, eng.Guard{If: iff, Branch: true})
			} else if pred.Succs[1] == b {
				gs = append(gs, eng.Guard{If: iff, Branch: false})
			}
		}
	}
	return gs
}

func (o *c06Origin) constTrueAllowed(gs []eng.Guard) bool {
	for _, g := range gs {
		r := g.Rel()
		if c06DecGuard(r, o.sp.isDecrement) {
			return true
		}
		if call, ok := r.X.(*ssa.Call); ok && o.sp.isSource(call) {
			if (r.Op == token.EQL && eng.IsBoolConst(r.Y, true)) || (r.Op == token.NEQ && eng.IsBoolConst(r.Y, false)) {
				return true
			}
		}
	}
	return false
}

// c06DecGuard reports whether r states "the value returned by a decrement is ≥ 0".
func c06DecGuard(r eng.Rel, isDec func(*ssa.Call) bool) bool {
	x, y, op := r.X, r.Y, r.Op
	if _, ok := x.(*ssa.Call); !ok {
		x, y, op = y, x, eng.FlipOp(op)
	}
	call, ok := x.(*ssa.Call)
	if !ok || !isDec(call) {
		return false
	}
	k, isK := eng.IntConst(y)
	if !isK {
		return false
	}
	switch op {
	case token.GEQ:
		return k >= 0
	case token.GTR:
		return k >= -1
	}
	return false
}

func (o *c06Origin) classify(v ssa.Value, fn *ssa.Function, gs []eng.Guard, pos token.Pos, depth int) {
	switch n := v.(type) {
	case *ssa.Const:
		if eng.IsBoolConst(n, false) {
			return
		}
		if eng.IsBoolConst(n, true) {
			ok := o.constTrueAllowed(gs)
			why := "constant true is control-dependent on a delegate's admission or on a token decrement that left a non-negative balance"
			if !ok {
				why = "constant true is produced without asking a limiter: neither a delegate's TryAcquire()/TryAccept() returned true nor a token decrement succeeded on this path"
				o.bad = append(o.bad, fmt.Sprintf("%s: %s", eng.FuncName(fn), why))
			}
			o.consts = append(o.consts, c06ConstSite{fn, pos, ok, why})
			return
		}
		o.undecided = append(o.undecided, "non-boolean constant returned")
		return
	}
	if o.seen[v] {
		return
	}
	o.seen[v] = true
	switch n := v.(type) {
	case *ssa.Call:
		if o.sp.isSource(n) {
			o.sources++
			return
		}
		callee := n.Call.StaticCallee()
		if callee != nil && callee.Blocks != nil && depth < c06InlineDepth && (callee.Parent() != nil || (callee.Pkg != nil && eng.IsRepoPkg(callee.Pkg.Pkg.Path())) || callee.Pkg == fn.Pkg) {
			o.returnsOf(callee, 0, depth+1)
			return
		}
		o.undecided = append(o.undecided, fmt.Sprintf("%s: result of call %s is returned as the admission decision", eng.FuncName(fn), c06CallName(n)))
	case *ssa.Phi:
		for i, e := range n.Edges {
			p := pos
			if pred := n.Block().Preds[i]; len(pred.Instrs) > 0 && pred.Instrs[len(pred.Instrs)-1].Pos().IsValid() {
				p = pred.Instrs[len(pred.Instrs)-1].Pos()
			}
			o.classify(e, fn, c06EdgeGuards(n.Block(), i), p, depth)
		}
	case *ssa.UnOp:
		if n.Op == token.MUL {
			if a, ok := n.X.(*ssa.Alloc); ok {
				// result cell / local variable: everything stored into it
				for _, f := range eng.WithClosures(c06Outermost(a.Parent())) {
					eng.Instrs(f, func(ins ssa.Instruction) {
						st, ok := ins.(*ssa.Store)
						if !ok || !c06AddrIs(st.Addr, a) {
							return
						}
						o.classify(st.Val, f, eng.GuardsOf(st), st.Pos(), depth)
					})
				}
				if c06Escapes(a) {
					o.undecided = append(o.undecided, eng.FuncName(fn)+": the returned variable's address is passed to a call")
				}
				// no store at all: the variable keeps its zero value, false
				return
			}
		}
		o.undecided = append(o.undecided, fmt.Sprintf("%s: returned value %s is computed by an operation the rule does not classify", eng.FuncName(fn), n.String()))
	case *ssa.BinOp:
		if c06DecGuard(eng.RelOf(n, true), o.sp.isDecrement) {
			return
		}
		o.undecided = append(o.undecided, fmt.Sprintf("%s: returned comparison %s is not a successful-decrement test", eng.FuncName(fn), n.String()))
	default:
		o.undecided = append(o.undecided, fmt.Sprintf("%s: returned value of kind %T is not derived from a limiter", eng.FuncName(fn), v))
	}
}

func c06CallName(c ssa.CallInstruction) string {
	if s := eng.FullName(c); s != "" {
		return shortName(s)
	}
	return "<dynamic>"
}

func c06Outermost(f *ssa.Function) *ssa.Function {
	for f.Parent() != nil {
		f = f.Parent()
	}
	return f
}

// c06AddrIs reports whether addr denotes cell a, directly or through a captured variable.
func c06AddrIs(addr ssa.Value, a *ssa.Alloc) bool {
	if addr == ssa.Value(a) {
		return true
	}
	fv, ok := addr.(*ssa.FreeVar)
	if !ok {
		return false
	}
	fn := fv.Parent()
	idx := -1
	for i, x := range fn.FreeVars {
		if x == fv {
			idx = i
		}
	}
	found := false
	if p := fn.Parent(); p != nil && idx >= 0 {
		eng.Instrs(p, func(ins ssa.Instruction) {
			if mc, ok := ins.(*ssa.MakeClosure); ok && mc.Fn == ssa.Value(fn) && idx < len(mc.Bindings) && c06AddrIs(mc.Bindings[idx], a) {
				found = true
			}
		})
	}
	return found
}

// c06Escapes reports whether the address of a is handed to a call (which could write it).
func c06Escapes(a *ssa.Alloc) bool {
	if a.Referrers() == nil {
		return false
	}
	for _, r := range *a.Referrers() {
		if ci, ok := r.(ssa.CallInstruction); ok {
			for _, arg := range ci.Common().Args {
				if arg == ssa.Value(a) {
					return true
				}
			}
		}
	}
	return false
}

// ---------------------------------------------------------------------------------------

// c06Impl is a FlowControl implementation declared under pkg/flowcontrols.
type c06Impl struct {
	named *types.Named
	tn    string
}

func c06Implementers(c *eng.Ctx, iface *types.Interface) []c06Impl {
	var out []c06Impl
	for _, n := range c.W.Implementers(iface) {
		if n.Obj().Pkg() == nil {
			continue
		}
		p := n.Obj().Pkg().Path()
		if p != pkgFCRoot && !strings.HasPrefix(p, pkgFCRoot+"/") {
			continue
		}
		out = append(out, c06Impl{n, eng.TypeName(n)})
	}
	return out
}

// c06StructOf returns the struct type of named (or nil).
func c06StructOf(n *types.Named) *types.Struct {
	st, _ := n.Underlying().(*types.Struct)
	return st
}

// c06FieldAddrOfType reports whether addr is &x.f with x of (pointer to) type tn; it returns f's name.
func c06FieldAddrOfType(addr ssa.Value, tn string) (string, bool) {
	fa, ok := addr.(*ssa.FieldAddr)
	if !ok {
		return "", false
	}
	t := fa.X.Type()
	if p, ok := t.Underlying().(*types.Pointer); ok {
		t = p.Elem()
	}
	if eng.TypeName(t) != tn {
		return "", false
	}
	st, ok := t.Underlying().(*types.Struct)
	if !ok || fa.Field >= st.NumFields() {
		return "", false
	}
	return st.Field(fa.Field).Name(), true
}

// c06FieldLoadOfType: v is *(&x.f) with x of type tn; returns f.
func c06FieldLoadOfType(v ssa.Value, tn string) (string, bool) {
	u, ok := v.(*ssa.UnOp)
	if !ok || u.Op != token.MUL {
		return "", false
	}
	return c06FieldAddrOfType(u.X, tn)
}

// c06StripConv removes numeric conversions.
func c06StripConv(v ssa.Value) ssa.Value {
	for {
		switch n := v.(type) {
		case *ssa.Convert:
			v = n.X
		case *ssa.ChangeType:
			v = n.X
		default:
			return v
		}
	}
}

// c06IsLocalTB reports whether v loads field `field` (QPS/Burst) of the token-bucket
// member named TokenBucket (the local bucket, not GlobalTokenBucket) of some schema/item.
// When the load sits in a helper that receives the token-bucket member (or an enclosing
// struct) as a parameter, the access path is continued into the argument of every call site
// of the helper: all of them must select the member TokenBucket.
func c06IsLocalTB(v ssa.Value, field string) bool {
	if !eng.FieldLoadOf(v, c06TBSchema, field) {
		return false
	}
	ups := eng.Current.AccessPathsUp(v)
	if len(ups) == 0 {
		return false
	}
	for _, up := range ups {
		path := up.Path
		if !(len(path) >= 2 && path[len(path)-1] == field && path[len(path)-2] == "TokenBucket") {
			return false
		}
	}
	return true
}

// c06IsResizeImpl reports whether fn is a Resize method (2 parameters after the receiver)
// of a type implementing FlowControl.
func c06IsResizeImpl(fn *ssa.Function, iface *types.Interface) bool {
	if fn == nil || fn.Name() != "Resize" || fn.Signature.Recv() == nil || len(fn.Params) != 3 {
		return false
	}
	return implementsIface(fn.Signature.Recv().Type(), iface)
}

// c06Sources returns the predicates "v is a QPS source" / "v is a Burst source": the
// schema's local token-bucket fields and the first / second parameter of a FlowControl.Resize
// implementation (the interface contract is Resize(n uint32, burst uint32)). Inside a Resize
// implementation only its own parameters count; elsewhere (a helper the body of Resize or of
// a constructor was spread over, reached by tracing the helper's parameters into its call
// sites) the parameters of any Resize implementation do.
func c06Sources(fn *ssa.Function, iface *types.Interface) (isQPS, isBurst func(ssa.Value) bool) {
	outer := c06Outermost(fn)
	own := c06IsResizeImpl(outer, iface)
	isParam := func(v ssa.Value, idx int) bool {
		p, ok := v.(*ssa.Parameter)
		if !ok {
			return false
		}
		if own {
			return p == outer.Params[idx]
		}
		return c06IsResizeImpl(p.Parent(), iface) && p == p.Parent().Params[idx]
	}
	isQPS = func(v ssa.Value) bool { return isParam(v, 1) || c06IsLocalTB(v, "QPS") }
	isBurst = func(v ssa.Value) bool { return isParam(v, 2) || c06IsLocalTB(v, "Burst") }
	return
}

// c06CheckPair checks that q derives from a QPS source only and b from a Burst source only.
func c06CheckPair(c *eng.Ctx, fn *ssa.Function, iface *types.Interface, q, b ssa.Value) (bool, string) {
	isQ, isB := c06Sources(fn, iface)
	sl := c.Slicer().WithUp() // the pair may reach a helper through its parameters
	var why []string
	if !sl.DerivesFrom(q, isQ) {
		why = append(why, "the rate argument does not derive from the token bucket's QPS")
	}
	if sl.DerivesFrom(q, isB) {
		why = append(why, "the rate argument derives from Burst")
	}
	if !sl.DerivesFrom(b, isB) {
		why = append(why, "the burst argument does not derive from the token bucket's Burst")
	}
	if sl.DerivesFrom(b, isQ) {
		why = append(why, "the burst argument derives from QPS")
	}
	if len(why) > 0 {
		return false, strings.Join(why, "; ") + " — a swapped or mixed pair admits burst·T instead of qps·T (or caps bursts at qps)"
	}
	return true, "(QPS, Burst) of the local token bucket, in that order"
}

func c06(c *eng.Ctx) {
	c.Rule("R5", "one bucket per schema name: the per-schema limiter table is keyed by the schema name verbatim (two schemas whose names differ, e.g. only by case, never share a bucket)", 3)
	checkSchemaTableKeys(c, "R5")
	c.Rule("R6", "a changed rate is always applied: in localWrapper.Sync every path from the edge 'schema type is TokenBucket' to an exit passes a Resize call (no test on the new values skips it)", 1)
	c05ResizeApplied(c, "R6", "TokenBucket")
	iface := fcIface(c)
	if iface == nil {
		return
	}
	c.Rule("R1", "every `true` returned by a FlowControl.TryAcquire implementation under pkg/flowcontrols is the answer of a delegate's TryAcquire()/TryAccept() or follows a successful atomic token decrement (result ≥ 0) — never an unconditional constant; a constant true admits requests the bucket never saw", 9)
	c.Rule("R2", "client-go's bucket is built with (QPS, Burst) of the schema's local token bucket in that order: at every NewTokenBucketRateLimiter whose result becomes a FlowControl's limiter, and at the token-bucket Resize issued by LocalFlowControlWrapper.Sync", 3)
	c.Rule("R2m", "a field in which a FlowControl remembers qps (burst) — compared with the Resize parameters to detect a change, or re-applied later through Resize(qps, burst) — is stored only from a QPS (Burst) source; a crossed store makes the next change test or re-application use the wrong number", 6)
	c.Rule("R3", "an unchanged re-sync never refills the bucket: the limiter replacement in Resize happens only on an edge where a remembered value differs from the requested one (both qps and burst are compared and re-recorded), and wrapper Sync returns before any effect when the new configuration equals the remembered one", 6)
	c.Rule("R4", "a refused TryAcquire is answered 429: in every caller outside the flow-control packages each path from the refused edge to the exit calls the error responder with a NewTooManyRequests status and never reaches endpoint selection or the proxy handler", 2)

	impls := c06Implementers(c, iface)
	if len(impls) == 0 {
		c.Fail("engine", nil, "unresolved-anchor FlowControl implementers under pkg/flowcontrols", 0, "none found")
		return
	}

	c06R1(c, iface, impls)
	c06R2(c, iface, impls)
	c06R3(c, iface, impls)
	c06R4(c, iface)
}

// ---- R1 --------------------------------------------------------------------------------

func c06R1(c *eng.Ctx, iface *types.Interface, impls []c06Impl) {
	for _, im := range impls {
		try := c.W.DeclaredMethod(im.named, "TryAcquire")
		if try == nil || try.Blocks == nil {
			// promoted: find the embedded field that provides it
			via := ""
			if st := c06StructOf(im.named); st != nil {
				for i := 0; i < st.NumFields(); i++ {
					f := st.Field(i)
					if !f.Embedded() {
						continue
					}
					if o, _, _ := types.LookupFieldOrMethod(f.Type(), true, im.named.Obj().Pkg(), "TryAcquire"); o != nil {
						via = f.Name() + " " + eng.TypeName(f.Type())
					}
				}
			}
			if via == "" {
				c.Undecided("R1", nil, "TryAcquire of "+shortName(im.tn), im.named.Obj().Pos(), "TryAcquire is neither declared nor promoted from an embedded field")
				continue
			}
			c.Pass("R1", nil, "TryAcquire of "+shortName(im.tn)+" promoted", im.named.Obj().Pos(), "the method is the embedded limiter's own ("+shortName(via)+"): it delegates by construction")
			continue
		}
		tn := im.tn
		sp := c06Spec{
			isSource: func(call *ssa.Call) bool {
				if isFCCall(call, iface, "TryAcquire") {
					// not a call of the method on its own receiver (that would be recursion, not delegation)
					return eng.Receiver(call) != ssa.Value(try.Params[0])
				}
				return eng.IsCall(call, c06TryAccept)
			},
			isDecrement: func(call *ssa.Call) bool {
				if !eng.IsCall(call, "sync/atomic.AddInt32", "sync/atomic.AddInt64") {
					return false
				}
				a := eng.Args(call)
				if len(a) != 2 {
					return false
				}
				if d, ok := eng.IntConst(a[1]); !ok || d >= 0 {
					return false
				}
				_, own := c06FieldAddrOfType(a[0], tn)
				return own
			},
		}
		o := c06TrueOrigin(try, sp)
		switch {
		case len(o.bad) > 0:
			c.Fail("R1", try, "true-origin", try.Pos(), strings.Join(dedup(o.bad), "; "))
		case len(o.undecided) > 0:
			c.Undecided("R1", try, "true-origin", try.Pos(), strings.Join(dedup(o.undecided), "; "))
		case o.sources == 0 && len(o.consts) == 0:
			c.Fail("R1", try, "true-origin", try.Pos(), "TryAcquire never consults a limiter (no delegate call, no token decrement): it cannot return true for a reason")
		default:
			c.Pass("R1", try, "true-origin", try.Pos(), fmt.Sprintf("every returned value is false, a delegate's answer (%d call sites) or a guarded constant (%d)", o.sources, len(o.consts)))
		}
		k := map[*ssa.Function]int{}
		for _, cs := range o.consts {
			k[cs.fn]++
			c.Check("R1", cs.fn, fmt.Sprintf("constant-true#%d", k[cs.fn]), cs.pos, cs.ok, cs.why)
		}
	}
}

// ---- R2 / R2m --------------------------------------------------------------------------

// c06Remembered discovers, per implementer, the fields that remember qps and burst:
// (i) fields whose loads are compared with the requested qps/burst (the first/second
// parameter of the type's own Resize, also when the comparison sits in a helper the body of
// Resize was spread over and the parameter is handed down to it), (ii) fields whose loads
// are passed as (arg0, arg1) of a FlowControl.Resize call somewhere in the type's package.
func c06Remembered(c *eng.Ctx, iface *types.Interface, im c06Impl) (qf, bf map[string]bool) {
	qf, bf = map[string]bool{}, map[string]bool{}
	if rs := c.W.DeclaredMethod(im.named, "Resize"); rs != nil && rs.Blocks != nil && len(rs.Params) == 3 {
		d := &c06Diff{w: c.W, tn: im.tn, rs: rs}
		for _, fn := range c.W.Region(rs) {
			eng.Instrs(fn, func(ins ssa.Instruction) {
				b, ok := ins.(*ssa.BinOp)
				if !ok || (b.Op != token.NEQ && b.Op != token.EQL) {
					return
				}
				for _, pr := range [][2]ssa.Value{{b.X, b.Y}, {b.Y, b.X}} {
					f, isF := c06FieldLoadOfType(c06StripConv(pr[0]), im.tn)
					if !isF {
						continue
					}
					switch d.reqDim(pr[1], nil, eng.LiftDepth) {
					case 1:
						qf[f] = true
					case 2:
						bf[f] = true
					}
				}
			})
		}
	}
	for _, fn := range c.W.FuncsOf(im.named.Obj().Pkg().Path()) {
		for _, ci := range eng.Calls(fn) {
			if !isFCCall(ci, iface, "Resize") {
				continue
			}
			a := eng.Args(ci)
			if len(a) != 2 {
				continue
			}
			f0, ok0 := c06FieldLoadOfType(c06StripConv(a[0]), im.tn)
			f1, ok1 := c06FieldLoadOfType(c06StripConv(a[1]), im.tn)
			if ok0 && ok1 {
				qf[f0] = true
				bf[f1] = true
			}
		}
	}
	return
}

func c06R2(c *eng.Ctx, iface *types.Interface, impls []c06Impl) {
	implTN := map[string]bool{}
	for _, im := range impls {
		implTN[im.tn] = true
	}
	// (a) constructor call sites whose result becomes the limiter of a FlowControl, directly
	// or through a same-package helper that returns the fresh bucket
	var fcFuncs []*ssa.Function
	for _, pkg := range c.W.RepoPackages() {
		p := pkg.Pkg.Path()
		if p == pkgFCRoot || strings.HasPrefix(p, pkgFCRoot+"/") {
			fcFuncs = append(fcFuncs, c.W.FuncsOf(p)...)
		}
	}
	// ownerOf: the FlowControl implementer into one of whose fields the call result is stored —
	// directly, or after it was handed as an argument to a repository function that stores the
	// corresponding parameter (an "install"/"set" helper)
	var ownerOfValue func(v ssa.Value, depth int) string
	ownerOfValue = func(v ssa.Value, depth int) string {
		if v.Referrers() == nil {
			return ""
		}
		for _, r := range *v.Referrers() {
			switch u := r.(type) {
			case *ssa.Store:
				if u.Val != v {
					continue
				}
				if fa, ok := u.Addr.(*ssa.FieldAddr); ok {
					t := fa.X.Type()
					if pt, ok := t.Underlying().(*types.Pointer); ok {
						t = pt.Elem()
					}
					if implTN[eng.TypeName(t)] {
						return eng.TypeName(t)
					}
				}
			case *ssa.Call:
				callee := u.Call.StaticCallee()
				if callee == nil || depth <= 0 || !eng.Analysable(callee) {
					continue
				}
				for i, a := range u.Call.Args {
					if a == v && i < len(callee.Params) {
						if o := ownerOfValue(callee.Params[i], depth-1); o != "" {
							return o
						}
					}
				}
			}
		}
		return ""
	}
	ownerOf := func(call *ssa.Call) string { return ownerOfValue(call, eng.LiftDepth) }
	returned := func(call *ssa.Call) bool {
		res := false
		eng.Instrs(call.Parent(), func(ins ssa.Instruction) {
			if r, ok := ins.(*ssa.Return); ok {
				for _, x := range r.Results {
					if x == ssa.Value(call) {
						res = true
					}
				}
			}
		})
		return res
	}
	// paramsOf: indexes of fn's parameters v is computed from; ok=false if anything else feeds it
	paramsOf := func(fn *ssa.Function, v ssa.Value) (idx []int, ok bool) {
		ok = true
		for _, leaf := range c.Slicer().Leaves(v, nil) {
			switch l := leaf.(type) {
			case *ssa.Parameter:
				for i, p := range fn.Params {
					if p == l {
						idx = append(idx, i)
					}
				}
			case *ssa.Const:
			default:
				ok = false
			}
		}
		return idx, ok && len(idx) > 0
	}
	n := 0
	perFn := map[*ssa.Function]int{}
	checkSite := func(fn *ssa.Function, pos token.Pos, owner string, qs, bs []ssa.Value) {
		perFn[fn]++
		n++
		ok, why := true, "(QPS, Burst) of the local token bucket, in that order"
		for _, q := range qs {
			for _, b := range bs {
				if o2, w2 := c06CheckPair(c, fn, iface, q, b); !o2 {
					ok, why = false, w2
				}
			}
		}
		c.Check("R2", fn, fmt.Sprintf("NewTokenBucketRateLimiter(QPS, Burst)#%d for %s", perFn[fn], shortName(owner)), pos, ok, why)
	}
	for _, fn := range fcFuncs {
		for _, ci := range eng.CallsTo(fn, c06NewBucket) {
			call, ok := ci.(*ssa.Call)
			a := eng.Args(ci)
			if !ok || len(a) != 2 {
				continue
			}
			if owner := ownerOf(call); owner != "" {
				checkSite(fn, call.Pos(), owner, []ssa.Value{a[0]}, []ssa.Value{a[1]})
				continue
			}
			if !returned(call) {
				c.Note("C06.R2: %s builds a token bucket that is not the limiter of a FlowControl (not a schema bucket, out of scope)", eng.FuncName(fn))
				continue
			}
			// helper returning the bucket: map its arguments to the helper's parameters
			used := false
			for _, caller := range fcFuncs {
				for _, cs := range eng.CallsToFn(caller, fn) {
					outer, ok := cs.(*ssa.Call)
					if !ok {
						continue
					}
					owner := ownerOf(outer)
					if owner == "" {
						continue
					}
					used = true
					pq, okq := paramsOf(fn, a[0])
					pb, okb := paramsOf(fn, a[1])
					if !okq || !okb {
						perFn[caller]++
						n++
						c.Undecided("R2", caller, fmt.Sprintf("NewTokenBucketRateLimiter(QPS, Burst)#%d for %s", perFn[caller], shortName(owner)), outer.Pos(),
							"the bucket is built by helper "+eng.FuncName(fn)+" from values other than its parameters; the (QPS, Burst) pair cannot be traced")
						continue
					}
					var qs, bs []ssa.Value
					for _, i := range pq {
						if i < len(outer.Call.Args) {
							qs = append(qs, outer.Call.Args[i])
						}
					}
					for _, i := range pb {
						if i < len(outer.Call.Args) {
							bs = append(bs, outer.Call.Args[i])
						}
					}
					checkSite(caller, outer.Pos(), owner, qs, bs)
				}
			}
			if !used {
				c.Note("C06.R2: helper %s returns a token bucket that no FlowControl stores (out of scope)", eng.FuncName(fn))
			}
		}
	}
	if n == 0 {
		c.Fail("R2", nil, "NewTokenBucketRateLimiter(QPS, Burst)", 0, "no FlowControl builds a client-go token bucket: the token-bucket schema is not enforced by a bucket")
	}

	// (b) the token-bucket Resize issued by LocalFlowControlWrapper.Sync
	if wi := c.W.Interface(pkgFCRemote, "LocalFlowControlWrapper"); wi == nil {
		c.Fail("engine", nil, "unresolved-anchor interface LocalFlowControlWrapper", 0, "not found")
	} else {
		for _, named := range c.W.Implementers(wi) {
			sync := c.W.DeclaredMethod(named, "Sync")
			if sync == nil || sync.Blocks == nil {
				c.Fail("R2", nil, "Sync of "+shortName(eng.TypeName(named)), named.Obj().Pos(), "no declared Sync")
				continue
			}
			k := 0
			for _, fn := range c.W.Region(sync) { // Sync and the helpers its body was spread over
				for _, ci := range eng.Calls(fn) {
					if !isFCCall(ci, iface, "Resize") {
						continue
					}
					a := eng.Args(ci)
					if len(a) != 2 {
						continue
					}
					if fn != sync && !c.W.OwnedBy(fn, sync) {
						continue // a helper shared with other callers: not (only) Sync's resize
					}
					// The two arguments are judged together, per joint alternative: when the
					// max-in-flight and the token-bucket branch share one Resize call the pair comes
					// from a helper returning (size, burst, …) or from variables assigned in branches;
					// every alternative is either the max-in-flight form (burst constant 0, C05) or a
					// (QPS, Burst) pair of the local token bucket of Sync's own schema.
					tb := 0
					ok, why := true, "(QPS, Burst) of the local token bucket, in that order"
					for _, cs := range eng.ExpandCases([]ssa.Value{a[0], a[1]}, nil, eng.LiftDepth) {
						if z, isK := eng.IntConst(c06StripConv(cs.Vals[1])); isK && z == 0 {
							continue // the max-in-flight form Resize(max, 0) belongs to C05
						}
						tb++
						at := fn
						if in, isIn := c06StripConv(cs.Vals[0]).(ssa.Instruction); isIn && in.Parent() != nil {
							at = in.Parent()
						}
						if o2, w2 := c06CheckPair(c, at, iface, cs.Vals[0], cs.Vals[1]); !o2 {
							ok, why = false, w2
							continue
						}
						// the pair must be read from Sync's own schema parameter
						for i, x := range cs.Vals {
							root, _, _ := cs.Frames[i].AccessPathIn(c06StripConv(x))
							good := len(sync.Params) >= 2 && root == ssa.Value(sync.Params[1])
							if !good && len(sync.Params) >= 2 {
								// a helper with several call sites: every site must hand over Sync's schema
								ups := c.W.AccessPathsUp(c06StripConv(x))
								good = len(ups) > 0
								for _, up := range ups {
									if up.Root != ssa.Value(sync.Params[1]) {
										good = false
									}
								}
							}
							if !good {
								ok, why = false, "the resized limits are not read from the schema handed to Sync"
							}
						}
					}
					if tb == 0 {
						continue
					}
					k++
					c.Check("R2", sync, fmt.Sprintf("Resize(QPS, Burst)#%d", k), ci.Pos(), ok, why)
				}
			}
			if k == 0 {
				c.Fail("R2", sync, "Resize(QPS, Burst)", sync.Pos(), "a changed token-bucket schema is never applied to the existing limiter (it keeps admitting at the old rate)")
			}
		}
	}

	// (c) remembered qps/burst fields
	for _, im := range impls {
		qf, bf := c06Remembered(c, iface, im)
		if len(qf) == 0 || len(bf) == 0 {
			// not a holder of a (qps, burst) pair (e.g. the max-in-flight limiter remembers one size)
			continue
		}
		for _, side := range []struct {
			fields map[string]bool
			what   string
		}{{qf, "qps"}, {bf, "burst"}} {
			for f := range side.fields {
				stores := eng.StoresToField(c.W.AllRepoFuncs(), im.tn, f)
				if len(stores) == 0 {
					c.Fail("R2m", nil, fmt.Sprintf("store %s.%s", shortName(im.tn), f), im.named.Obj().Pos(), "the remembered "+side.what+" is never recorded")
					continue
				}
				perFn := map[*ssa.Function]int{}
				for _, st := range stores {
					// a store in a helper that records one of its parameters stands for one
					// recording per call site of the helper: it is checked (and counted) in the
					// context of each caller, against the argument bound there
					for _, at := range c06StoreContexts(c.W, st, eng.LiftDepth) {
						fn := at.fn
						perFn[fn]++
						isQ, isB := c06Sources(fn, iface)
						want, other := isQ, isB
						if side.what == "burst" {
							want, other = isB, isQ
						}
						sl := c.Slicer().WithUp()
						ok := sl.DerivesFrom(at.val, want) && !sl.DerivesFrom(at.val, other)
						detail := "remembered " + side.what + " is recorded from a " + side.what + " source"
						if !ok {
							detail = fmt.Sprintf("field %s.%s remembers the %s of the bucket (it is compared with / re-applied as the %s argument of Resize) but is stored from a value that is not a %s source", shortName(im.tn), f, side.what, side.what, side.what)
						}
						c.Check("R2m", fn, fmt.Sprintf("store %s.%s#%d", shortName(im.tn), f, perFn[fn]), at.pos, ok, detail)
					}
				}
			}
		}
	}
}

// c06StoreCtx is a store seen from the function that supplies the stored value.
type c06StoreCtx struct {
	fn  *ssa.Function
	val ssa.Value
	pos token.Pos
}

// c06StoreContexts: the store itself, or — when it stores (a conversion of) a parameter of a
// helper whose callers are all known — one context per call site with the argument bound there.
func c06StoreContexts(w *eng.World, st *ssa.Store, depth int) []c06StoreCtx {
	var expand func(fn *ssa.Function, v ssa.Value, pos token.Pos, d int) []c06StoreCtx
	expand = func(fn *ssa.Function, v ssa.Value, pos token.Pos, d int) []c06StoreCtx {
		if p, ok := c06StripConv(v).(*ssa.Parameter); ok && d > 0 {
			if ups := w.UpArgSites(p); len(ups) > 0 {
				var out []c06StoreCtx
				for _, u := range ups {
					out = append(out, expand(u.Site.Parent(), u.Arg, u.Site.Pos(), d-1)...)
				}
				return out
			}
		}
		return []c06StoreCtx{{fn, v, pos}}
	}
	return expand(st.Parent(), st.Val, st.Pos(), depth)
}

// ---- R3 --------------------------------------------------------------------------------

func c06R3(c *eng.Ctx, iface *types.Interface, impls []c06Impl) {
	found := 0
	for _, im := range impls {
		rs := c.W.DeclaredMethod(im.named, "Resize")
		if rs == nil || rs.Blocks == nil || len(rs.Params) != 3 {
			continue
		}
		region := c.W.Region(rs)
		// stores of a fresh bucket into a field of the receiver type, in Resize or in the helpers
		// its body was spread over
		var repl []*ssa.Store
		for _, f := range region {
			eng.Instrs(f, func(ins ssa.Instruction) {
				st, ok := ins.(*ssa.Store)
				if !ok {
					return
				}
				if _, own := c06FieldAddrOfType(st.Addr, im.tn); !own {
					return
				}
				// (the fresh bucket may reach a helper of Resize through a parameter)
				if c.Slicer().WithUp().DerivesFrom(st.Val, func(v ssa.Value) bool { return eng.IsResultOf(v, c06NewBucket) }) {
					repl = append(repl, st)
				}
			})
		}
		if len(repl) == 0 {
			continue
		}
		found++
		qf, bf := c06Remembered(c, iface, im)
		d := &c06Diff{w: c.W, tn: im.tn, rs: rs, qf: qf, bf: bf}
		differs := d.fact()
		// which dimensions are compared at all
		cmpQ, cmpB := false, false
		for _, f := range region {
			eng.Instrs(f, func(ins ssa.Instruction) {
				if b, ok := ins.(*ssa.BinOp); ok && (b.Op == token.NEQ || b.Op == token.EQL) {
					switch d.cmpDim(b.X, b.Y, nil) {
					case 1:
						cmpQ = true
					case 2:
						cmpB = true
					}
				}
			})
		}
		for k, st := range repl {
			st := st
			// the replacement must be unreachable once every edge on which a remembered value is
			// known to differ from the requested one is removed
			reach := c.W.ReachFromEntryUp(rs, st, differs.edge)
			ok := !reach && cmpQ && cmpB
			detail := "the bucket is replaced only after qps or burst was seen to differ from the remembered value"
			switch {
			case reach:
				detail = "the bucket is replaced on a path where neither qps nor burst was seen to differ from the remembered values: every re-sync hands out a fresh burst (admissions exceed burst + qps·T)"
			case !cmpQ || !cmpB:
				detail = "only one of (qps, burst) is compared with its remembered value: a change of the other is never applied"
			}
			c.Check("R3", rs, fmt.Sprintf("limiter replaced only on change#%d", k+1), st.Pos(), ok, detail)

			// the applied pair is recorded (before or after the replacement, on the same paths)
			rec := true
			for _, fs := range []map[string]bool{qf, bf} {
				for f := range fs {
					f := f
					isRec := func(ins ssa.Instruction) bool {
						s2, ok := ins.(*ssa.Store)
						if !ok {
							return false
						}
						g, own := c06FieldAddrOfType(s2.Addr, im.tn)
						return own && g == f
					}
					if !c06AlwaysAfterUp(c.W, rs, st, isRec, eng.LiftDepth) && !eng.AlwaysBefore(st.Parent(), st, isRec) {
						rec = false
					}
				}
			}
			c.Check("R3", rs, fmt.Sprintf("replacement records the applied (qps, burst)#%d", k+1), st.Pos(), rec && len(qf) > 0 && len(bf) > 0,
				"after a replacement the remembered qps and burst must be updated, otherwise the next identical Resize looks like a change again and refills the bucket")
		}
	}
	if found == 0 {
		c.Fail("R3", nil, "limiter replaced only on change", 0, "no FlowControl.Resize replaces a client-go bucket: expected resizeableTokenBucket.Resize")
	}

	// wrapper Sync: unchanged configuration ⇒ return before any effect
	for _, ifn := range []string{"LocalFlowControlWrapper", "RemoteFlowControlWrapper"} {
		wi := c.W.Interface(pkgFCRemote, ifn)
		if wi == nil {
			c.Fail("engine", nil, "unresolved-anchor interface "+ifn, 0, "not found")
			continue
		}
		for _, named := range c.W.Implementers(wi) {
			sync := c.W.DeclaredMethod(named, "Sync")
			if sync == nil || sync.Blocks == nil || len(sync.Params) != 2 {
				c.Fail("R3", nil, "Sync of "+shortName(eng.TypeName(named)), named.Obj().Pos(), "no declared Sync(config)")
				continue
			}
			c06SyncUnchanged(c, iface, named, sync)
		}
	}
}

// c06AlwaysAfterUp: every path from ins to an exit of root passes pred; when ins sits in a
// helper of root's region and the helper may return first, the same must hold after every
// call site of the helper.
func c06AlwaysAfterUp(w *eng.World, root *ssa.Function, ins ssa.Instruction, pred func(ssa.Instruction) bool, depth int) bool {
	if eng.AlwaysAfter(ins, pred) {
		return true
	}
	fn := ins.Parent()
	if fn == root || depth <= 0 {
		return false
	}
	sites := w.GuardSites(fn)
	if len(sites) == 0 {
		return false
	}
	for _, s := range sites {
		if _, plain := s.(*ssa.Call); !plain {
			return false // go / defer: does not run here
		}
		if !c06AlwaysAfterUp(w, root, s, pred, depth-1) {
			return false
		}
	}
	return true
}

// c06Diff decides the fact "a remembered value was seen to differ from the requested one"
// for the Resize method rs of type tn (qf / bf: the fields remembering qps / burst).
type c06Diff struct {
	w      *eng.World
	tn     string
	rs     *ssa.Function
	qf, bf map[string]bool
}

// reqDim reports which requested value v is: 1 the qps parameter of rs, 2 its burst
// parameter, 0 neither. A parameter of a helper is the requested value when the argument
// bound to it is — at the call the helper was entered through, or at every call site of a
// helper whose callers are all known.
func (d *c06Diff) reqDim(v ssa.Value, fr *callBind, depth int) int {
	v = c06StripConv(v)
	p, ok := v.(*ssa.Parameter)
	if !ok {
		return 0
	}
	if p.Parent() == d.rs {
		switch p {
		case d.rs.Params[1]:
			return 1
		case d.rs.Params[2]:
			return 2
		}
		return 0
	}
	if depth <= 0 {
		return 0
	}
	if a, up, bound := fr.arg(p); bound {
		return d.reqDim(a, up, depth-1)
	}
	ups := d.w.UpArgSites(p)
	if len(ups) == 0 {
		return 0
	}
	dim := -1
	for _, u := range ups {
		x := d.reqDim(u.Arg, nil, depth-1)
		if dim >= 0 && x != dim {
			return 0
		}
		dim = x
	}
	if dim < 0 {
		return 0
	}
	return dim
}

// cmpDim: x and y are a remembered field of the receiver type and the requested value of
// the same dimension (in either order); it returns the dimension (0: not such a pair).
func (d *c06Diff) cmpDim(x, y ssa.Value, fr *callBind) int {
	for _, pr := range [][2]ssa.Value{{x, y}, {y, x}} {
		f, isF := c06FieldLoadOfType(c06StripConv(pr[0]), d.tn)
		if !isF {
			continue
		}
		switch d.reqDim(pr[1], fr, eng.LiftDepth) {
		case 1:
			if d.qf[f] {
				return 1
			}
		case 2:
			if d.bf[f] {
				return 2
			}
		}
	}
	return 0
}

// fact: the boolean fact "a remembered value differs from the requested one"; its atoms are
// the relations  remembered-field != requested-value.
func (d *c06Diff) fact() *boolFact {
	return &boolFact{w: d.w, atom: func(r eng.Rel, fr *callBind) bool {
		return r.Op == token.NEQ && d.cmpDim(r.X, r.Y, fr) != 0
	}}
}

// c06SyncUnchanged checks the early return of a wrapper's Sync(cfg): the new configuration
// is compared (DeepEqual) with the field that remembers the last one; on the equal edge
// nothing happens; every limiter effect lies on the unequal edge.
func c06SyncUnchanged(c *eng.Ctx, iface *types.Interface, named *types.Named, sync *ssa.Function) {
	tn := eng.TypeName(named)
	param := sync.Params[1]
	// the comparison may sit in Sync or in a helper its body was spread over (a predicate such as
	// `f.unchanged(schema)`): operands are traced through the helper's parameters
	sl := c.Slicer().WithUp()
	fromParam := func(v ssa.Value) bool {
		return sl.DerivesFrom(v, func(x ssa.Value) bool { return x == ssa.Value(param) })
	}
	memField := ""
	fromMem := func(v ssa.Value) bool {
		return sl.DerivesFrom(v, func(x ssa.Value) bool {
			f, ok := c06FieldLoadOfType(x, tn)
			if ok && types.Identical(x.Type(), param.Type()) {
				memField = f
				return true
			}
			return false
		})
	}
	var region []*ssa.Function
	for _, g := range c.W.Region(sync) {
		if g == sync || c.W.OwnedBy(g, sync) {
			region = append(region, g)
		}
	}
	var eq *ssa.Call
	for _, g := range region {
		for _, ci := range eng.Calls(g) {
			call, ok := ci.(*ssa.Call)
			if !ok || eq != nil {
				continue
			}
			if !eng.IsCall(call, "reflect.DeepEqual", "(*k8s.io/apimachinery/third_party/forked/golang/reflect.Equalities).DeepEqual", "(k8s.io/apimachinery/third_party/forked/golang/reflect.Equalities).DeepEqual") {
				continue
			}
			a := eng.Args(call)
			if len(a) != 2 {
				continue
			}
			if (fromParam(a[0]) && fromMem(a[1])) || (fromParam(a[1]) && fromMem(a[0])) {
				eq = call
			}
		}
	}
	if eq == nil {
		c.Fail("R3", sync, "unchanged configuration ⇒ no effect", sync.Pos(), "Sync does not compare the new configuration with the remembered one: an identical re-sync reaches Resize / limiter construction")
		return
	}
	isEffect0 := func(ins ssa.Instruction) bool {
		if ci, ok := ins.(ssa.CallInstruction); ok {
			if isFCCall(ci, iface, "Resize") {
				return true
			}
			if f := eng.CalleeFn(ci); f != nil && f.Pkg != nil && eng.IsRepoPkg(f.Pkg.Pkg.Path()) {
				// any repository callee returning a FlowControl builds or replaces a limiter
				if res := f.Signature.Results(); res.Len() == 1 && implementsIface(res.At(0).Type(), iface) {
					return true
				}
			}
		}
		if st, ok := ins.(*ssa.Store); ok {
			if f, own := c06FieldAddrOfType(st.Addr, tn); own && f != memField {
				return true
			}
		}
		return false
	}
	// a call of a helper in which an effect is reachable is an effect
	isEffect := eng.LiftMay(isEffect0)
	// "the comparison answered equal" / "… unequal" as facts: decided through negation, named
	// conditions, `a || b` chains and predicate helpers returning the comparison
	answered := func(want bool) *boolFact {
		return &boolFact{w: c.W, atom: func(r eng.Rel, _ *callBind) bool {
			if r.X != ssa.Value(eq) {
				return false
			}
			return (r.Op == token.EQL && eng.IsBoolConst(r.Y, want)) || (r.Op == token.NEQ && eng.IsBoolConst(r.Y, !want))
		}}
	}
	equal, unequal := answered(true), answered(false)
	edges := 0
	ok := true
	for _, g := range region {
		for _, b := range g.Blocks {
			if len(b.Instrs) == 0 {
				continue
			}
			if _, isIf := b.Instrs[len(b.Instrs)-1].(*ssa.If); !isIf {
				continue
			}
			for si := range b.Succs {
				if !equal.edge(b, si) {
					continue
				}
				edges++
				if eng.ReachFromBlock(b.Succs[si], eng.PathQuery{Target: isEffect}) != nil {
					ok = false
				}
			}
		}
	}
	if edges == 0 {
		c.Fail("R3", sync, "unchanged configuration ⇒ no effect", eq.Pos(), "the result of the comparison is not branched on")
		return
	}
	c.Check("R3", sync, "unchanged configuration ⇒ no effect", eq.Pos(), ok, "on the edge where the new configuration equals the remembered one no Resize, limiter construction or wrapper state change may be reached")
	// every effect is on the changed edge
	dom := true
	n := 0
	for _, g := range region {
		eng.Instrs(g, func(ins ssa.Instruction) {
			if !isEffect0(ins) {
				return
			}
			n++
			if !eng.GuardedByBool(ins, func(v ssa.Value) bool { return v == ssa.Value(eq) }, false) && !unequal.guardedByFact(ins, eng.LiftDepth) {
				dom = false
			}
		})
	}
	c.Check("R3", sync, "effects only after a detected change", eq.Pos(), dom && n > 0, fmt.Sprintf("%d limiter effects in Sync; each must be control-dependent on the configuration having changed", n))
}

// ---- R4 --------------------------------------------------------------------------------

func c06R4(c *eng.Ctx, iface *types.Interface) {
	sl := c.Slicer().WithArgs()
	sites := 0
	is429 := func(ins ssa.Instruction) bool {
		call, ok := ins.(*ssa.Call)
		if !ok {
			return false
		}
		// an error responder: a repository function receiving the 429 status
		f := eng.CalleeFn(call)
		if f == nil || f.Pkg == nil || !eng.IsRepoPkg(f.Pkg.Pkg.Path()) {
			return false
		}
		for _, a := range call.Call.Args {
			if sl.DerivesFrom(a, func(v ssa.Value) bool { return eng.IsResultOf(v, c06TooMany) }) {
				return true
			}
		}
		return false
	}
	isForward := func(ins ssa.Instruction) bool {
		call, ok := ins.(ssa.CallInstruction)
		if !ok {
			return false
		}
		if eng.IsCall(call, "("+pkgClusters+".EndpointPicker).Pop", pkgDispatcher+".NewUpgradeAwareHandler", pkgDispatcher+".newRequestForProxy", pkgRequest+".SetProxyForwarded") {
			return true
		}
		return eng.MethodNameIs(call, "ServeHTTP") || eng.MethodNameIs(call, "RoundTrip")
	}
	// the answer / the forwarding may have been moved into a helper: a call of a function
	// that answers 429 on every path counts as the answer, a call of a function in which
	// forwarding is reachable counts as forwarding
	answers429 := eng.LiftMust(is429)
	mayForward := eng.LiftMay(isForward)
	// refusedPaths: on the edges where the admission decision val is false, is the 429 answer
	// passed on every path to an exit / is forwarding unreachable
	refusedPaths := func(val ssa.Value) (branched, answered, notForwarded bool) {
		var brs []eng.BoolBranch
		if val != nil {
			brs = eng.BranchesOn(val)
		}
		if len(brs) == 0 {
			return false, false, false
		}
		answered, notForwarded = true, true
		for _, br := range brs {
			if eng.ReachFromBlock(br.OnFalse, eng.PathQuery{Target: eng.IsExit, Avoid: answers429}) != nil {
				answered = false
			}
			if eng.ReachFromBlock(br.OnFalse, eng.PathQuery{Target: mayForward}) != nil {
				notForwarded = false
			}
		}
		return true, answered, notForwarded
	}
	// helpers that acquire on behalf of their caller and report the outcome faithfully (C05.R1,
	// acquireWrapperParam): the refusal is answered either inside the helper or on the refused
	// edge of each of its call sites; forwarding must be unreachable from both
	wrappers := c05PairingSpec(c, iface).wrappers
	insideAnswered := map[*ssa.Function]bool{}
	for w := range wrappers {
		for _, ci := range eng.Calls(w) {
			if isFCCall(ci, iface, "TryAcquire") {
				_, a, _ := refusedPaths(eng.ResultValue(ci))
				insideAnswered[w] = a
			}
		}
	}
	for _, fn := range c.W.AllRepoFuncs() {
		if inFlowControlPkgs(fn) {
			continue
		}
		k := 0
		for _, ci := range eng.Calls(fn) {
			var wrapper *ssa.Function
			if !isFCCall(ci, iface, "TryAcquire") {
				f := ci.Common().StaticCallee()
				if _, isW := wrappers[f]; f == nil || !isW {
					continue
				}
				wrapper = f
			}
			k++
			sites++
			branched, answered, notForwarded := refusedPaths(eng.ResultValue(ci))
			_, selfWrapper := wrappers[fn]
			switch {
			case wrapper != nil:
				// a call of a wrapper: answered inside it or here
				answered = insideAnswered[wrapper] || (branched && answered)
			case selfWrapper && wrapper == nil:
				// the acquire inside a wrapper: answered here, or at every call site of the wrapper
				// (a faithful wrapper returns false exactly on refusal)
				if !(branched && answered) {
					all := len(c.W.LiftSites(fn)) > 0
					for _, s := range c.W.LiftSites(fn) {
						if b2, a2, _ := refusedPaths(eng.ResultValue(s)); !b2 || !a2 {
							all = false
						}
					}
					answered = all
					if !branched {
						// `return limiter.TryAcquire()`: the decision is taken by the callers
						branched, notForwarded = all, true
					}
				}
			}
			if !branched {
				c.Fail("R4", fn, fmt.Sprintf("refused#%d ⇒ 429", k), ci.Pos(), "the result of TryAcquire is not branched on")
				continue
			}
			c.Check("R4", fn, fmt.Sprintf("refused#%d ⇒ 429", k), ci.Pos(), answered, "every path from the refused edge to the exit must hand a NewTooManyRequests status to the error responder (otherwise the client sees no 429 / an empty 200)")
			c.Check("R4", fn, fmt.Sprintf("refused#%d ⇒ not forwarded", k), ci.Pos(), notForwarded, "from the refused edge neither endpoint selection nor the proxy handler may be reachable (a refused request must not reach the upstream)")
		}
	}
	if sites == 0 {
		c.Fail("R4", nil, "refused ⇒ 429", 0, "no caller of FlowControl.TryAcquire outside the flow-control packages: the limiter is never consulted on the request path")
	}
}

// ---------------------------------------------------------------------------------------

const c06FxSrc = `package fx
type L struct{ tokens int32; inner *L }
func dec(p *int32, d int32) int32 { *p += d; return *p }
func (l *L) ask() bool { return l.tokens > 0 }

func goodDelegate(l *L) bool { return l.inner.ask() }
func goodVar(l *L) bool {
	ok := l.inner.ask()
	if ok { l.tokens++ }
	return ok
}
func goodIf(l *L) bool {
	if l.inner.ask() { return true }
	return false
}
func goodSwitch(l *L) bool {
	switch {
	case !l.inner.ask():
		return false
	}
	return true
}
func goodDec(l *L) bool {
	take := func() bool {
		t := dec(&l.tokens, -1)
		if t < 0 { dec(&l.tokens, 1); return false }
		return true
	}
	ok := l.inner.ask()
	if !ok { return ok }
	ok = take()
	if !ok { ok = take() }
	return ok
}
func goodDefer(l *L) bool {
	defer func() { l.tokens = 0 }()
	a := false
	if l.tokens > 3 { a = l.inner.ask() }
	return a
}
func badConst(l *L) bool {
	if l.inner == nil { return true }
	return l.inner.ask()
}
func badNegated(l *L) bool {
	if !l.inner.ask() { return true }
	return false
}
func badDecUnguarded(l *L) bool {
	take := func() bool {
		dec(&l.tokens, -1)
		return true
	}
	return take()
}
func badDecWrongSign(l *L) bool {
	t := dec(&l.tokens, -1)
	if t < 0 { return true }
	return false
}
func badOr(l *L, force bool) bool { return force || l.inner.ask() }
`

func c06Fixtures(c *eng.Ctx) {
	p, _, err := eng.BuildFixture(c06FxSrc)
	if err != nil {
		c.Fixture("C06.true-origin/build", "ok", err.Error())
		return
	}
	sp := c06Spec{
		isSource: func(call *ssa.Call) bool { return eng.IsCall(call, "(*fx.L).ask") },
		isDecrement: func(call *ssa.Call) bool {
			if !eng.IsCall(call, "fx.dec") {
				return false
			}
			d, ok := eng.IntConst(call.Call.Args[1])
			return ok && d < 0
		},
	}
	for name, want := range map[string]string{
		"goodDelegate": "ok", "goodVar": "ok", "goodIf": "ok", "goodSwitch": "ok", "goodDec": "ok", "goodDefer": "ok",
		"badConst": "bad", "badNegated": "bad", "badDecUnguarded": "bad", "badDecWrongSign": "bad", "badOr": "bad",
	} {
		o := c06TrueOrigin(p.Func(name), sp)
		got := "ok"
		switch {
		case len(o.bad) > 0:
			got = "bad"
		case len(o.undecided) > 0:
			got = "undecided"
		}
		c.Fixture("C06.true-origin/"+name, want, got)
	}
}
