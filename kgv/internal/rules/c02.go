package rules

// C02 — identity propagation: the upstream acts as exactly the authenticated (or the
// authorised impersonated) user, and nothing identity-bearing the client sent is forwarded.
//
// What is decided here, on the resolved program:
//   R1  the handler chain nests the identity filters in the order their context keys need;
//   R2  in the impersonation filter every requested identity is authorised, by the target
//       cluster's authorizer, as the authenticated user, before the context user is swapped;
//   R3  the per-endpoint transports write Impersonate-User/-Group/-Extra-* from the context
//       user onto a clone of the request, and both transports are built from the config that
//       carries that wrapper;
//   R4  (dependency as resolved by go.mod) the authentication filter deletes the client's
//       Authorization header on every path to the next handler and forwards resp.User;
//   R5  no client header of the Impersonate-* family survives the impersonation filter.
//
// Not decided: byte-exactness of headerKeyEscape, behaviour of the authenticators.

import (
	"fmt"
	"go/constant"
	"go/token"
	"go/types"
	"sort"
	"strings"

	"golang.org/x/tools/go/ssa"

	"kgv/internal/eng"
)

func init() {
	Register("C02", c02)
	RegisterFixture("C02", c02Fixtures)
}

const (
	c02PkgGenFilters = "k8s.io/apiserver/pkg/endpoints/filters"
	c02PkgGenRequest = "k8s.io/apiserver/pkg/endpoints/request"
	c02PkgAuthorizer = "k8s.io/apiserver/pkg/authorization/authorizer"
	c02PkgRespWr     = "k8s.io/apiserver/pkg/endpoints/handlers/responsewriters"
	c02Authorize     = "(" + c02PkgAuthorizer + ".Authorizer).Authorize"
	c02UserFrom      = c02PkgGenRequest + ".UserFrom"
	c02WithUser      = c02PkgGenRequest + ".WithUser"
	c02ServeHTTP     = "(net/http.Handler).ServeHTTP"
	c02ReqContext    = "(*net/http.Request).Context"
	c02ReqWithCtx    = "(*net/http.Request).WithContext"
	c02TAttrs        = c02PkgAuthorizer + ".AttributesRecord"
	c02TDefaultInfo  = "k8s.io/apiserver/pkg/authentication/user.DefaultInfo"
	c02TRestConfig   = "k8s.io/client-go/rest.Config"
	c02TRoundTripper = pkgTransport + ".dynamicImpersonatingRoundTripper"
)

// ---------------------------------------------------------------------------------------
// generic helpers

func c02Found(why string) string {
	if why == "" {
		return ""
	}
	return "; found: " + why
}

func c02ConstInt(c *eng.Ctx, pkg, name string) (int64, bool) {
	p, ok := c.W.All[pkg]
	if !ok || p.Types == nil {
		return 0, false
	}
	k, ok := p.Types.Scope().Lookup(name).(*types.Const)
	if !ok || k.Val().Kind() != constant.Int {
		return 0, false
	}
	return constant.Int64Val(k.Val())
}

func c02IsBuiltin(v ssa.Value, name string) *ssa.Call {
	c, ok := v.(*ssa.Call)
	if !ok {
		return nil
	}
	if b, isB := c.Call.Value.(*ssa.Builtin); isB && b.Name() == name {
		return c
	}
	return nil
}

func c02IsHandlerType(t types.Type) bool { return eng.TypeName(t) == "net/http.Handler" }

func c02IsRequestPtr(t types.Type) bool {
	p, ok := t.(*types.Pointer)
	return ok && eng.TypeName(p.Elem()) == "net/http.Request"
}

// c02HandlerClosure returns the func(w, req) literal a filter constructor turns into its
// http.Handler (the only nested function with that signature), or nil.
func c02HandlerClosure(fn *ssa.Function) *ssa.Function {
	var out []*ssa.Function
	for _, a := range fn.AnonFuncs {
		if len(a.Params) == 2 && eng.TypeName(a.Params[0].Type()) == "net/http.ResponseWriter" && c02IsRequestPtr(a.Params[1].Type()) {
			out = append(out, a)
		}
	}
	if len(out) != 1 {
		return nil
	}
	return out[0]
}

// c02NextHandlerCalls returns the ServeHTTP invocations of cl whose receiver is the handler
// the filter constructor `outer` wraps (its first parameter; the slice resolves the captured
// variable back to the constructor's parameter).
func c02NextHandlerCalls(c *eng.Ctx, cl, outer *ssa.Function) []ssa.CallInstruction {
	var out []ssa.CallInstruction
	if len(outer.Params) == 0 || !c02IsHandlerType(outer.Params[0].Type()) {
		return nil
	}
	for _, ci := range eng.CallsTo(cl, c02ServeHTTP) {
		ls := c.Slicer().Leaves(eng.Receiver(ci), nil)
		ok := len(ls) > 0
		for _, l := range ls {
			if l != ssa.Value(outer.Params[0]) {
				ok = false
			}
		}
		if ok {
			out = append(out, ci)
		}
	}
	return out
}

// c02Roots resolves a *http.Request or http.Header value to the objects whose header map
// it may denote. req.WithContext(..) shares the receiver's Header map, so it resolves to
// the receiver; a load of X.Header resolves to the roots of X; phis and single-cell locals
// are joined. Anything else (Clone, CloneRequest, a parameter, a field) is its own root.
func c02Roots(v ssa.Value) map[ssa.Value]bool { return c02RootsOf(v, c02IsRequestPtr, c02ReqWithCtx) }

// c02RootsOf is c02Roots with the request type and the header-sharing copy method given
// (the fixtures use their own Request type).
func c02RootsOf(v ssa.Value, isRequest func(types.Type) bool, withCtx string) map[ssa.Value]bool {
	out := map[ssa.Value]bool{}
	seen := map[ssa.Value]bool{}
	var walk func(v ssa.Value)
	walk = func(v ssa.Value) {
		if v == nil || seen[v] {
			return
		}
		seen[v] = true
		switch n := v.(type) {
		case *ssa.Phi:
			for _, e := range n.Edges {
				walk(e)
			}
			return
		case *ssa.Call:
			if withCtx != "" && eng.IsCall(n, withCtx) {
				walk(n.Call.Args[0])
				return
			}
		case *ssa.ChangeType:
			walk(n.X)
			return
		case *ssa.UnOp:
			if n.Op == token.MUL {
				if fa, ok := n.X.(*ssa.FieldAddr); ok && isRequest(fa.X.Type()) && eng.FieldAddrOf(fa, "", "Header") {
					walk(fa.X)
					return
				}
				if a, ok := n.X.(*ssa.Alloc); ok && a.Referrers() != nil {
					stores, other := 0, false
					for _, r := range *a.Referrers() {
						switch u := r.(type) {
						case *ssa.Store:
							if u.Addr == ssa.Value(a) {
								stores++
								walk(u.Val)
							} else {
								other = true
							}
						case *ssa.UnOp, *ssa.DebugRef:
						default:
							other = true
						}
					}
					if stores > 0 && !other {
						return
					}
				}
			}
		}
		out[v] = true
	}
	walk(v)
	return out
}

// c02CtxRoots resolves a *http.Request value to the requests whose Context() it returns:
// a WithContext/Clone result carries another context and is its own root; the shallow
// copy made by utilnet.CloneRequest keeps the context of its argument.
func c02CtxRoots(v ssa.Value) map[ssa.Value]bool {
	out := map[ssa.Value]bool{}
	for r := range c02RootsOf(v, c02IsRequestPtr, "") {
		if cc, ok := r.(*ssa.Call); ok && eng.IsCall(cc, "k8s.io/apimachinery/pkg/util/net.CloneRequest") {
			for x := range c02CtxRoots(cc.Call.Args[0]) {
				out[x] = true
			}
			continue
		}
		out[r] = true
	}
	return out
}

func c02SameRoots(a, b map[ssa.Value]bool) bool {
	if len(a) == 0 || len(a) != len(b) {
		return false
	}
	for k := range a {
		if !b[k] {
			return false
		}
	}
	return true
}

// c02SCC returns the blocks on a common cycle with b (empty if b is not in a loop).
func c02SCC(b *ssa.BasicBlock) map[*ssa.BasicBlock]bool {
	fwd := map[*ssa.BasicBlock]bool{}
	work := append([]*ssa.BasicBlock{}, b.Succs...)
	for len(work) > 0 {
		x := work[len(work)-1]
		work = work[:len(work)-1]
		if fwd[x] {
			continue
		}
		fwd[x] = true
		work = append(work, x.Succs...)
	}
	if !fwd[b] {
		return nil
	}
	bwd := map[*ssa.BasicBlock]bool{}
	work = append([]*ssa.BasicBlock{}, b.Preds...)
	for len(work) > 0 {
		x := work[len(work)-1]
		work = work[:len(work)-1]
		if bwd[x] {
			continue
		}
		bwd[x] = true
		work = append(work, x.Preds...)
	}
	out := map[*ssa.BasicBlock]bool{}
	for x := range fwd {
		if bwd[x] {
			out[x] = true
		}
	}
	return out
}

// c02LoopHeaders returns the blocks of scc entered from outside.
func c02LoopHeaders(scc map[*ssa.BasicBlock]bool) []*ssa.BasicBlock {
	var hs []*ssa.BasicBlock
	for b := range scc {
		for _, p := range b.Preds {
			if !scc[p] {
				hs = append(hs, b)
				break
			}
		}
	}
	sort.Slice(hs, func(i, j int) bool { return hs[i].Index < hs[j].Index })
	return hs
}

// c02NilEdges returns, for every If of fn comparing v with nil, the successor taken when v
// is non-nil.
func c02NonNilSuccs(fn *ssa.Function, isV func(ssa.Value) bool) []*ssa.BasicBlock {
	var out []*ssa.BasicBlock
	for _, b := range fn.Blocks {
		if len(b.Instrs) == 0 {
			continue
		}
		iff, ok := b.Instrs[len(b.Instrs)-1].(*ssa.If)
		if !ok {
			continue
		}
		r := eng.RelOf(iff.Cond, true)
		var other ssa.Value
		switch {
		case isV(r.X):
			other = r.Y
		case isV(r.Y):
			other = r.X
		default:
			continue
		}
		if !eng.IsNilConst(other) {
			continue
		}
		switch r.Op {
		case token.NEQ:
			out = append(out, b.Succs[0])
		case token.EQL:
			out = append(out, b.Succs[1])
		}
	}
	return out
}

// ---------------------------------------------------------------------------------------

func c02(c *eng.Ctx) {
	defer c02Escape(c)
	c.Rule("R1", "filter order: the proxy handler chain is installed and nests, on every path of its builder, Authentication outside Impersonation outside Dispatcher, UpstreamInfo outside Authentication, ExtraRequestInfo outside UpstreamInfo, RequestInfo outside ExtraRequestInfo (each inner filter reads the context key its outer one writes: user, ExtraRequestInfo, RequestInfo); a filter wrapped the other way round runs before its input exists (e.g. impersonation authorised for no user, authenticator asked for no host)", 12)
	c.Rule("R2", "every impersonation is authorised: in the impersonation filter the context user is replaced only after a loop over all impersonation requests in which every iteration passes Authorize(ctx of the request, attributes of that element, user = authenticated user, verb impersonate); the only way to stay in the loop is err == nil and decision == DecisionAllow; every other way out of the loop, and a malformed request, is answered by the gateway and neither forwarded nor given a new user; the new user is built only from the authorised elements", 15)
	c.Rule("R3", "outbound impersonation headers come from the context user: WrapRequest writes only Impersonate-User/-Group/-Extra-<escaped key> with values from request.UserFrom(req.Context()) onto a clone of the request; RoundTrip sends what WrapRequest returned; addOrUpdateEndpoint stores the impersonating wrapper into the config from which both of the endpoint's transports are built", 10)
	c.Rule("R4", "the client's Authorization header is never forwarded and the context user is the authenticator's answer: in k8s.io/apiserver's WithAuthentication (as resolved by go.mod) every path to the next handler deletes Authorization from the forwarded request's header and stores resp.User with WithUser", 2)
	c.Rule("R5", "no client header of the Impersonate-* family survives: on every path of the impersonation filter to the next handler a complete sanitizer over the forwarded request's header (a range deleting every key whose case-folded form starts with the family prefix impersonate-) has run, or WrapRequest does the same on every returned request; otherwise e.g. `Impersonate-Uid: x` reaches the upstream under the gateway's credential", 2)

	c.Note("C02: accepted idioms — one Authorize call inside the filter's own range/index loop (R2); header sanitizers written as a map range with strings.HasPrefix on the key or its ToLower/Canonical form and Header.Del/delete on the match edge, inline or in a same-repo helper (R5); requests derived with Clone/CloneRequest are treated as separate header maps even when cloned after sanitising (R4/R5 fail closed)")
	c02R1(c)
	filter := c.MustFunc(pkgFilters, "WithNoLoggingImpersonation")
	var cl *ssa.Function
	if filter != nil {
		if cl = c02HandlerClosure(filter); cl == nil {
			c.Fail("engine", filter, "unresolved-anchor handler closure of WithNoLoggingImpersonation", filter.Pos(), "expected exactly one func(w, req) literal")
		}
	}
	if cl != nil {
		c02R2(c, filter, cl)
	}
	c02R3(c)
	c02R4(c)
	if cl != nil {
		c02R5(c, filter, cl)
	}
}

// ---------------------------------------------------------------------------------------
// R1 filter order

func c02R1(c *eng.Ctx) {
	builder := c.MustFunc(pkgApp, "buildProxyHandlerChainFunc")
	if builder == nil {
		return
	}
	var chain *ssa.Function
	for _, a := range builder.AnonFuncs {
		if len(a.Params) >= 1 && c02IsHandlerType(a.Params[0].Type()) && a.Signature.Results().Len() == 1 && c02IsHandlerType(a.Signature.Results().At(0).Type()) {
			if chain != nil {
				c.Fail("engine", builder, "unresolved-anchor chain closure", builder.Pos(), "more than one handler-chain literal")
				return
			}
			chain = a
		}
	}
	if chain == nil {
		c.Fail("engine", builder, "unresolved-anchor chain closure", builder.Pos(), "no func(http.Handler, *Config) http.Handler literal")
		return
	}

	// the chain is what the proxy server installs
	installed := false
	if cp := c.MustFunc(pkgApp, "CreateProxyConfig"); cp != nil {
		for _, st := range eng.StoresToField([]*ssa.Function{cp}, "k8s.io/apiserver/pkg/server.Config", "BuildHandlerChainFunc") {
			cc, _ := eng.CallResultOf(st.Val)
			installed = cc != nil && cc.Call.StaticCallee() == builder
		}
		c.Check("R1", cp, "proxy server installs buildProxyHandlerChainFunc", cp.Pos(), installed, "the generic server must build its handler chain with the gateway's chain function, otherwise none of the identity filters runs")
	}

	// a link is a call  f(handler, ...) http.Handler ; its role is decided by callee identity
	isLink := func(call *ssa.Call) bool {
		return len(call.Call.Args) > 0 && !call.Call.IsInvoke() && c02IsHandlerType(call.Type()) && c02IsHandlerType(call.Call.Args[0].Type())
	}
	reqInfoGlobalOK, reqInfoWhy := c02RequestInfoAlias(c)
	role := func(call *ssa.Call) string {
		if f := call.Call.StaticCallee(); f != nil && f.Pkg != nil {
			switch f.Pkg.Pkg.Path() + "." + f.Name() {
			case pkgFilters + ".WithDispatcher":
				return "Dispatcher"
			case pkgFilters + ".WithNoLoggingImpersonation":
				return "Impersonation"
			case c02PkgGenFilters + ".WithAuthentication":
				return "Authentication"
			case pkgFilters + ".WithUpstreamInfo":
				return "UpstreamInfo"
			case pkgFilters + ".WithExtraRequestInfo":
				return "ExtraRequestInfo"
			case c02PkgGenFilters + ".WithRequestInfo":
				return "RequestInfo"
			}
			return ""
		}
		// gatewayfilters.WithRequestInfo is a package variable aliasing the generic filter
		if ld, ok := call.Call.Value.(*ssa.UnOp); ok && ld.Op == token.MUL {
			if g, ok := ld.X.(*ssa.Global); ok && g.Pkg != nil && g.Pkg.Pkg.Path() == pkgFilters && g.Name() == "WithRequestInfo" {
				return "RequestInfo"
			}
		}
		return ""
	}
	// a same-package helper that builds part of the chain: func(handler, ...) http.Handler in
	// cmd/kube-gateway/app whose result passes its first parameter through links
	isHelper := func(call *ssa.Call) *ssa.Function {
		g := call.Call.StaticCallee()
		if g == nil || g.Blocks == nil || g.Pkg == nil || g.Pkg.Pkg.Path() != pkgApp || role(call) != "" {
			return nil
		}
		if len(g.Params) == 0 || !c02IsHandlerType(g.Params[0].Type()) {
			return nil
		}
		return g
	}
	// must(v): the links that are in the chain denoted by v on every path
	env := map[*ssa.Parameter]map[*ssa.Call]bool{}
	innerOf := map[*ssa.Call]map[*ssa.Call]bool{} // link -> links it wraps on every path (filled by the traversal from the returned chain)
	var must func(v ssa.Value, seen map[ssa.Value]bool) map[*ssa.Call]bool
	inter := func(acc, m map[*ssa.Call]bool) map[*ssa.Call]bool {
		if m == nil {
			return acc
		}
		if acc == nil {
			acc = map[*ssa.Call]bool{}
			for k := range m {
				acc[k] = true
			}
			return acc
		}
		for k := range acc {
			if !m[k] {
				delete(acc, k)
			}
		}
		return acc
	}
	must = func(v ssa.Value, seen map[ssa.Value]bool) map[*ssa.Call]bool {
		if seen[v] {
			return nil // cycle: neutral for the intersection
		}
		seen[v] = true
		defer delete(seen, v)
		switch n := v.(type) {
		case *ssa.Parameter:
			if m, ok := env[n]; ok {
				return inter(nil, m)
			}
		case *ssa.Call:
			if !isLink(n) {
				return map[*ssa.Call]bool{}
			}
			in := must(n.Call.Args[0], seen)
			if g := isHelper(n); g != nil {
				if _, busy := env[g.Params[0]]; !busy {
					env[g.Params[0]] = in
					var acc map[*ssa.Call]bool
					eng.Instrs(g, func(ins ssa.Instruction) {
						if r, ok := ins.(*ssa.Return); ok && len(r.Results) == 1 {
							acc = inter(acc, must(r.Results[0], seen))
						}
					})
					delete(env, g.Params[0])
					if acc == nil {
						acc = map[*ssa.Call]bool{}
					}
					return acc
				}
			}
			if in != nil {
				innerOf[n] = inter(innerOf[n], in)
			}
			out := map[*ssa.Call]bool{n: true}
			for k := range in {
				out[k] = true
			}
			return out
		case *ssa.Phi:
			var acc map[*ssa.Call]bool
			for _, e := range n.Edges {
				acc = inter(acc, must(e, seen))
			}
			if acc == nil {
				acc = map[*ssa.Call]bool{}
			}
			return acc
		case *ssa.MakeInterface:
			return must(n.X, seen)
		case *ssa.ChangeInterface:
			return must(n.X, seen)
		case *ssa.ChangeType:
			return must(n.X, seen)
		}
		return map[*ssa.Call]bool{}
	}

	byRole := map[string][]*ssa.Call{}
	scan := []*ssa.Function{chain}
	for i := 0; i < len(scan) && i < 8; i++ {
		for _, ci := range eng.Calls(scan[i]) {
			call, ok := ci.(*ssa.Call)
			if !ok || !isLink(call) {
				continue
			}
			if r := role(call); r != "" {
				byRole[r] = append(byRole[r], call)
			} else if g := isHelper(call); g != nil {
				dup := false
				for _, f := range scan {
					dup = dup || f == g
				}
				if !dup {
					scan = append(scan, g)
				}
			}
		}
	}
	var whole map[*ssa.Call]bool
	nRet := 0
	eng.Instrs(chain, func(ins ssa.Instruction) {
		if r, ok := ins.(*ssa.Return); ok && len(r.Results) == 1 {
			nRet++
			m := must(r.Results[0], map[ssa.Value]bool{})
			if whole == nil {
				whole = m
				return
			}
			for k := range whole {
				if !m[k] {
					delete(whole, k)
				}
			}
		}
	})
	roles := []string{"RequestInfo", "ExtraRequestInfo", "UpstreamInfo", "Authentication", "Impersonation", "Dispatcher"}
	the := map[string]*ssa.Call{}
	for _, r := range roles {
		calls := byRole[r]
		ok := len(calls) == 1 && nRet > 0 && whole[calls[0]]
		why := ""
		switch {
		case len(calls) != 1:
			why = fmt.Sprintf("%d calls of the filter constructor in the chain builder", len(calls))
		case !ok:
			why = "the filter is not part of the returned chain on every path (conditional or dropped)"
		}
		if r == "RequestInfo" && ok && len(calls) == 1 && calls[0].Call.StaticCallee() == nil && !reqInfoGlobalOK {
			ok, why = false, reqInfoWhy
		}
		pos := chain.Pos()
		if len(calls) > 0 {
			pos = calls[0].Pos()
		}
		c.Check("R1", chain, "filter "+r+" wraps every request exactly once", pos, ok, "each identity filter must be in the returned handler chain unconditionally"+c02Found(why))
		if len(calls) == 1 {
			the[r] = calls[0]
		}
	}
	type edge struct{ outer, inner, reason string }
	for _, e := range []edge{
		{"Authentication", "Impersonation", "the impersonation filter authorises as request.UserFrom(ctx), which WithAuthentication stores"},
		{"Impersonation", "Dispatcher", "the dispatcher's transports impersonate request.UserFrom(ctx), which the impersonation filter replaces after authorisation"},
		{"UpstreamInfo", "Authentication", "the token/SAR webhooks ask the cluster named by ExtraRequestInfo (C12); unknown clusters are answered 503 before any credential is examined"},
		{"ExtraRequestInfo", "UpstreamInfo", "WithUpstreamInfo reads the ExtraRequestInfo that WithExtraRequestInfo attaches"},
		{"RequestInfo", "ExtraRequestInfo", "NewExtraRequestInfo needs the RequestInfo that WithRequestInfo attaches (else it answers 500)"},
	} {
		o, i := the[e.outer], the[e.inner]
		ok := o != nil && i != nil && innerOf[o][i]
		pos := chain.Pos()
		if o != nil {
			pos = o.Pos()
		}
		c.Check("R1", chain, e.outer+" outside "+e.inner, pos, ok, e.reason)
	}
}

// c02RequestInfoAlias checks that the package variable gatewayfilters.WithRequestInfo is the
// generic WithRequestInfo and is never reassigned.
func c02RequestInfoAlias(c *eng.Ctx) (bool, string) {
	n, ok := 0, true
	why := ""
	for _, fn := range c.W.AllRepoFuncs() {
		eng.Instrs(fn, func(ins ssa.Instruction) {
			st, isSt := ins.(*ssa.Store)
			if !isSt {
				return
			}
			g, isG := st.Addr.(*ssa.Global)
			if !isG || g.Pkg == nil || g.Pkg.Pkg.Path() != pkgFilters || g.Name() != "WithRequestInfo" {
				return
			}
			n++
			f, isF := st.Val.(*ssa.Function)
			if !isF || f.Pkg == nil || f.Pkg.Pkg.Path() != c02PkgGenFilters || f.Name() != "WithRequestInfo" || fn.Synthetic == "" {
				ok = false
				why = "filters.WithRequestInfo is assigned in " + eng.FuncName(fn) + " with something else than the generic WithRequestInfo"
			}
		})
	}
	if n == 0 {
		return false, "filters.WithRequestInfo is never initialised"
	}
	return ok, why
}

// ---------------------------------------------------------------------------------------
// R2 every impersonation is authorised

func c02R2(c *eng.Ctx, filter, cl *ssa.Function) {
	req := ssa.Value(cl.Params[1])
	isReqRooted := func(v ssa.Value) bool {
		r := c02Roots(v)
		return len(r) == 1 && r[req]
	}
	isReqCtx := func(v ssa.Value) bool {
		cc, _ := eng.CallResultOf(v)
		if cc == nil || !eng.IsCall(cc, c02ReqContext) {
			return false
		}
		r := c02CtxRoots(cc.Call.Args[0])
		return len(r) == 1 && r[req]
	}

	builds := eng.CallsTo(cl, pkgFilters+".buildImpersonationRequests")
	if len(builds) != 1 {
		c.Fail("R2", cl, "single buildImpersonationRequests", cl.Pos(), fmt.Sprintf("expected one call, found %d", len(builds)))
		return
	}
	bc := builds[0].(*ssa.Call)
	isReqs := func(v ssa.Value) bool { cc, i := eng.CallResultOf(v); return cc == bc && i == 0 }
	isBuildErr := func(v ssa.Value) bool { cc, i := eng.CallResultOf(v); return cc == bc && i == 1 }
	{
		a := eng.Args(bc)
		ok := len(a) == 1 && isReqRooted(a[0])
		c.Check("R2", cl, "requests parsed from this request's header", bc.Pos(), ok, "buildImpersonationRequests must read the header of the request being served")
	}

	nexts := c02NextHandlerCalls(c, cl, filter)
	withUsers := eng.CallsTo(cl, c02WithUser)
	isForward := func(ins ssa.Instruction) bool {
		for _, x := range nexts {
			if ins == ssa.Instruction(x) {
				return true
			}
		}
		for _, x := range withUsers {
			if ins == ssa.Instruction(x) {
				return true
			}
		}
		return false
	}
	isResponder := func(ins ssa.Instruction) bool {
		ci, ok := ins.(*ssa.Call)
		if !ok {
			return false
		}
		o := eng.CalleeObj(ci)
		if o == nil || o.Pkg() == nil {
			return false
		}
		switch o.Pkg().Path() {
		case c02PkgRespWr:
			return o.Name() == "Forbidden" || o.Name() == "InternalError" || o.Name() == "ErrorNegotiated"
		case pkgResponse:
			return o.Name() == "TerminateWithError"
		}
		return false
	}
	// refused(b): from b on the request is answered by the gateway and neither forwarded nor re-identified
	refused := func(b *ssa.BasicBlock) string {
		if x := eng.ReachFromBlock(b, eng.PathQuery{Target: isForward}); x != nil {
			return "the next handler / WithUser is reachable after the refusal"
		}
		if x := eng.ReachFromBlock(b, eng.PathQuery{Target: eng.IsExit, Avoid: isResponder}); x != nil {
			return "a path returns without writing an error response"
		}
		return ""
	}

	// (1) malformed impersonation headers are answered by the gateway
	{
		succs := c02NonNilSuccs(cl, isBuildErr)
		why := ""
		if len(succs) == 0 {
			why = "the error of buildImpersonationRequests is never tested"
		}
		for _, s := range succs {
			if w := refused(s); w != "" {
				why = w
			}
		}
		c.Check("R2", cl, "malformed impersonation ⇒ answered, not forwarded", bc.Pos(), why == "", "on the err != nil edge of buildImpersonationRequests the filter must write an error and return"+c02Found(why))
	}

	// (1b) nothing is forwarded without having been parsed: the parse is the only place that
	// recognises a malformed header combination, so every forward lies behind it
	for i, nx := range nexts {
		ok := eng.AlwaysBefore(cl, nx.(ssa.Instruction), func(ins ssa.Instruction) bool { return ins == ssa.Instruction(bc) })
		c.Check("R2", cl, fmt.Sprintf("forward#%d only after the impersonation headers were parsed", i+1), nx.Pos(), ok,
			"a path reaches the next handler without buildImpersonationRequests: a malformed impersonation (groups/extras without a user) on that path is forwarded instead of being answered")
	}

	// (2) the authorisation loop
	var auths []*ssa.Call
	for _, ci := range eng.CallsTo(cl, c02Authorize) {
		if call, ok := ci.(*ssa.Call); ok {
			auths = append(auths, call)
		}
	}
	if len(auths) != 1 {
		// the accepted idiom is one Authorize call in the filter's own loop; a refactor that moves it
		// into a helper or splits it per kind is a shape this rule does not classify (fails closed)
		c.Undecided("R2", cl, "single Authorize in the loop", cl.Pos(), fmt.Sprintf("expected exactly one Authorize call in the filter's handler, found %d; the per-iteration authorisation facts cannot be established for this shape", len(auths)))
		return
	}
	A := auths[0]
	{
		// the authorizer is the one handed to the filter constructor
		ls := c.Slicer().Leaves(eng.Receiver(A), nil)
		ok := len(ls) > 0
		for _, l := range ls {
			p, isP := l.(*ssa.Parameter)
			if !isP || p.Parent() != filter {
				ok = false
			}
		}
		c.Check("R2", cl, "Authorize on the filter's authorizer", A.Pos(), ok, "the authorizer consulted is the one the chain builder passed (the multi-cluster SAR authorizer, C12)")
	}
	scc := c02SCC(A.Block())
	hs := c02LoopHeaders(scc)
	if len(scc) == 0 || len(hs) != 1 {
		c.Fail("R2", cl, "Authorize inside the loop over the impersonation requests", A.Pos(), "Authorize is not inside a single-entry loop")
		return
	}
	H := hs[0]
	allow, okAllow := c02ConstInt(c, c02PkgAuthorizer, "DecisionAllow")
	if !okAllow {
		c.Fail("engine", nil, "unresolved-anchor const authorizer.DecisionAllow", 0, "constant not found")
	}
	errV := func(v ssa.Value) bool { cc, i := eng.CallResultOf(v); return cc == A && i == 2 }
	decV := func(v ssa.Value) bool { cc, i := eng.CallResultOf(v); return cc == A && i == 0 }

	// (2a) the loop visits every request and every iteration passes Authorize
	{
		why := ""
		var idx ssa.Value
		if iff, ok := H.Instrs[len(H.Instrs)-1].(*ssa.If); ok {
			r := eng.RelOf(iff.Cond, true)
			ln := c02IsBuiltin(r.Y, "len")
			if r.Op == token.LSS && ln != nil && isReqs(ln.Call.Args[0]) && scc[H.Succs[0]] && !scc[H.Succs[1]] {
				idx = r.X
			}
		}
		if idx == nil {
			why = "the loop containing Authorize is not `for … range <result of buildImpersonationRequests>`"
		} else {
			// the index visits 0..len-1 in steps of one: either the range lowering
			// idx = phi(-1, idx) + 1, or the classic  i = phi(0, i+1)
			okStep := false
			stepOf := func(phi *ssa.Phi, start int64, next func(e ssa.Value) bool) bool {
				if phi.Block() != H {
					return false
				}
				starts := 0
				for _, e := range phi.Edges {
					if k, isK := eng.IntConst(e); isK && k == start {
						starts++
						continue
					}
					if !next(e) {
						return false
					}
				}
				return starts == 1
			}
			plusOne := func(v ssa.Value, of ssa.Value) bool {
				add, ok := v.(*ssa.BinOp)
				if !ok || add.Op != token.ADD {
					return false
				}
				one, isOne := eng.IntConst(add.Y)
				return isOne && one == 1 && add.X == of
			}
			switch x := idx.(type) {
			case *ssa.BinOp:
				if phi, isPhi := x.X.(*ssa.Phi); isPhi && plusOne(x, phi) {
					okStep = stepOf(phi, -1, func(e ssa.Value) bool { return e == idx })
				}
			case *ssa.Phi:
				okStep = stepOf(x, 0, func(e ssa.Value) bool { return plusOne(e, x) })
			}
			if !okStep {
				why = "the loop index does not visit every element once"
			}
		}
		if why == "" && A.Block() != H {
			// a cycle through the loop that avoids Authorize's block = an element accepted unauthorised
			seen := map[*ssa.BasicBlock]bool{}
			work := []*ssa.BasicBlock{}
			for _, s := range H.Succs {
				if scc[s] && s != A.Block() {
					work = append(work, s)
				}
			}
			for len(work) > 0 && why == "" {
				x := work[len(work)-1]
				work = work[:len(work)-1]
				if x == H {
					why = "an iteration can reach the next element without passing Authorize (continue before the check)"
					break
				}
				if seen[x] {
					continue
				}
				seen[x] = true
				for _, s := range x.Succs {
					if scc[s] && s != A.Block() {
						work = append(work, s)
					}
				}
			}
		}
		c.Check("R2", cl, "every requested identity passes Authorize", A.Pos(), why == "", "each element of the impersonation request list must be authorised in its own iteration"+c02Found(why))
	}

	// (2b) staying in the loop implies err == nil and decision == Allow
	{
		atHeader := func(ins ssa.Instruction) bool { return ins.Block() == H && ins == H.Instrs[0] }
		cut := func(match func(eng.Rel) bool) func(from *ssa.BasicBlock, si int) bool {
			return func(from *ssa.BasicBlock, si int) bool {
				iff, ok := from.Instrs[len(from.Instrs)-1].(*ssa.If)
				if !ok || !scc[from] {
					return false
				}
				return match(eng.RelOf(iff.Cond, si == 0))
			}
		}
		errNil := func(r eng.Rel) bool {
			return r.Op == token.EQL && ((errV(r.X) && eng.IsNilConst(r.Y)) || (errV(r.Y) && eng.IsNilConst(r.X)))
		}
		isAllow := func(v ssa.Value) bool { k, ok := eng.IntConst(v); return ok && okAllow && k == allow }
		decAllow := func(r eng.Rel) bool {
			return r.Op == token.EQL && ((decV(r.X) && isAllow(r.Y)) || (decV(r.Y) && isAllow(r.X)))
		}
		avoidA := func(ins ssa.Instruction) bool { return ins == ssa.Instruction(A) }
		x1 := eng.ReachAfter(A, eng.PathQuery{Target: atHeader, Avoid: avoidA, BlockEdge: cut(errNil)})
		c.Check("R2", cl, "next element only if Authorize returned no error", A.Pos(), x1 == nil, "the loop may continue only through the err == nil edge of this Authorize call; otherwise an authorizer outage lets the impersonation through")
		x2 := eng.ReachAfter(A, eng.PathQuery{Target: atHeader, Avoid: avoidA, BlockEdge: cut(decAllow)})
		c.Check("R2", cl, "next element only if decision == DecisionAllow", A.Pos(), x2 == nil, "the loop may continue only through the decision == DecisionAllow edge (equality with that constant: NoOpinion is refused); e.g. testing decision == DecisionDeny as the refusal lets NoOpinion impersonate")
	}

	// (2c) every other way out of the loop is a refusal
	{
		why := ""
		for b := range scc {
			if b == H {
				continue
			}
			for _, s := range b.Succs {
				if !scc[s] {
					if w := refused(s); w != "" {
						why = w
					}
				}
			}
		}
		c.Check("R2", cl, "leaving the loop early ⇒ answered, not forwarded", A.Pos(), why == "", "a denied, failed or unknown-kind impersonation request must end in an error response and return (also no break to the code after the loop)"+c02Found(why))
	}

	// (2d) what is authorised: this element, as the authenticated user, for this request's cluster
	{
		var rec ssa.Value
		if a := eng.Args(A); len(a) == 2 {
			if mi, ok := a[1].(*ssa.MakeInterface); ok {
				rec = mi.X
			}
			c.Check("R2", cl, "Authorize(ctx of this request)", A.Pos(), isReqCtx(a[0]), "the authorizer finds the target cluster in the request's context (ExtraRequestInfo); another context asks another cluster")
		}
		stores := map[string][]*ssa.Store{}
		if rec != nil {
			for _, f := range []string{"User", "Verb", "Name"} {
				for _, st := range eng.StoresToField([]*ssa.Function{cl}, c02TAttrs, f) {
					if st.Addr.(*ssa.FieldAddr).X == rec {
						stores[f] = append(stores[f], st)
					}
				}
			}
		}
		okUser := len(stores["User"]) > 0
		for _, st := range stores["User"] {
			cc, i := eng.CallResultOf(st.Val)
			if cc == nil || i != 0 || !eng.IsCall(cc, c02UserFrom) || !isReqCtx(cc.Call.Args[0]) {
				okUser = false
			}
		}
		c.Check("R2", cl, "attributes.User = authenticated user", A.Pos(), okUser, "the permission to impersonate is checked for request.UserFrom(req.Context()), the identity WithAuthentication established")
		okVerb := len(stores["Verb"]) > 0
		for _, st := range stores["Verb"] {
			if s, ok := eng.StringConst(st.Val); !ok || s != "impersonate" {
				okVerb = false
			}
		}
		c.Check("R2", cl, "attributes.Verb = impersonate", A.Pos(), okVerb, "")
		okName := len(stores["Name"]) > 0
		for _, st := range stores["Name"] {
			n := 0
			for _, l := range c02LeavesThroughMaps(c, st.Val, isReqs) {
				switch {
				case isReqs(l):
					n++
				default:
					if _, isCall := l.(*ssa.Call); !isCall { // calls handed the element's address are expanded into their operands
						okName = false
					}
				}
			}
			if n == 0 {
				okName = false
			}
		}
		c.Check("R2", cl, "attributes.Name = the element being authorised", A.Pos(), okName, "the name authorised must be the name of the impersonation request of this iteration")
	}

	// (2e) the context user is swapped only after the loop, and only when something was requested
	if len(withUsers) == 0 {
		c.Fail("R2", cl, "WithUser only after the authorisation loop", cl.Pos(), "the filter never installs the impersonated user")
	}
	for k, wu := range withUsers {
		why := ""
		switch {
		case scc[wu.Block()]:
			why = "WithUser inside the authorisation loop"
		case !H.Dominates(wu.Block()):
			why = "WithUser reachable without entering the authorisation loop"
		case !eng.GuardedBy(wu, func(r eng.Rel) bool {
			ln := c02IsBuiltin(r.X, "len")
			z, isZ := eng.IntConst(r.Y)
			return ln != nil && isReqs(ln.Call.Args[0]) && isZ && z == 0 && (r.Op == token.NEQ || r.Op == token.GTR)
		}):
			why = "WithUser not guarded by len(requests) != 0 (an empty loop would install an empty user)"
		case !isReqCtx(eng.Args(wu)[0]):
			why = "the new user is attached to a context that is not this request's"
		}
		c.Check("R2", cl, fmt.Sprintf("WithUser#%d only after the authorisation loop", k+1), wu.Pos(), why == "", "the identity is replaced only when every requested element was authorised"+c02Found(why))

		// (2f) the new identity consists of authorised elements only
		var info ssa.Value
		if mi, ok := eng.Args(wu)[1].(*ssa.MakeInterface); ok {
			info = mi.X
		}
		for _, f := range []string{"Name", "Groups", "Extra"} {
			n, bad := 0, ""
			for _, st := range eng.StoresToField([]*ssa.Function{cl}, c02TDefaultInfo, f) {
				if info == nil || st.Addr.(*ssa.FieldAddr).X != info {
					continue
				}
				n++
				for _, l := range c02LeavesThroughMaps(c, st.Val, isReqs) {
					switch x := l.(type) {
					case *ssa.Parameter, *ssa.FreeVar, *ssa.Global:
						bad = "derives from " + c02Describe(x)
					}
				}
			}
			if n == 0 {
				bad = "field never set"
			}
			c.Check("R2", cl, fmt.Sprintf("WithUser#%d new user.%s from authorised elements only", k+1, f), wu.Pos(), bad == "", "the impersonated identity must be assembled from the elements that went through the loop (and constants), never from the raw request or the requestor"+c02Found(bad))
		}
	}
}

// c02LeavesThroughMaps returns the leaves of v's slice (through call operands), following
// what is stored into maps made in the function (m[k] = x) as well.
func c02LeavesThroughMaps(c *eng.Ctx, v ssa.Value, stop func(ssa.Value) bool) []ssa.Value {
	sl := c.Slicer().WithArgs()
	var out []ssa.Value
	seen := map[ssa.Value]bool{}
	var visit func(v ssa.Value)
	visit = func(v ssa.Value) {
		for _, l := range sl.Leaves(v, stop) {
			if seen[l] {
				continue
			}
			seen[l] = true
			out = append(out, l)
			if cc, ok := l.(*ssa.Call); ok && (stop == nil || !stop(l)) {
				// a call that received the address of a sliced cell (possible writer): what it was given
				for _, a := range cc.Call.Args {
					visit(a)
				}
			}
			if mm, ok := l.(*ssa.MakeMap); ok && mm.Referrers() != nil {
				for _, r := range *mm.Referrers() {
					if mu, ok := r.(*ssa.MapUpdate); ok && mu.Map == ssa.Value(mm) {
						visit(mu.Key)
						visit(mu.Value)
					}
				}
			}
		}
	}
	visit(v)
	return out
}

func c02Describe(v ssa.Value) string {
	switch n := v.(type) {
	case *ssa.Const:
		return "constant " + n.String()
	case *ssa.Global:
		return "package variable " + n.Name()
	case *ssa.Parameter:
		return "parameter " + n.Name() + " of " + eng.FuncName(n.Parent())
	case *ssa.Call:
		return "call " + eng.FullName(n)
	case *ssa.Extract:
		if c, ok := n.Tuple.(*ssa.Call); ok {
			return fmt.Sprintf("result #%d of %s", n.Index, eng.FullName(c))
		}
	}
	return fmt.Sprintf("%T %s", v, v.Name())
}

// ---------------------------------------------------------------------------------------
// R3 outbound impersonation headers

func c02R3(c *eng.Ctx) {
	wr := c.MustMethod(pkgTransport, "dynamicImpersonatingRoundTripper", "WrapRequest")
	if wr != nil && len(wr.Params) == 2 {
		req := ssa.Value(wr.Params[1])
		// the context user of the request being sent
		var users []*ssa.Call
		for _, ci := range eng.CallsTo(wr, c02UserFrom) {
			cc := ci.(*ssa.Call)
			ctx, _ := eng.CallResultOf(cc.Call.Args[0])
			if ctx != nil && eng.IsCall(ctx, c02ReqContext) {
				if r := c02CtxRoots(ctx.Call.Args[0]); len(r) == 1 && r[req] {
					users = append(users, cc)
				}
			}
		}
		isUser := func(v ssa.Value) bool {
			cc, i := eng.CallResultOf(v)
			if cc == nil || i != 0 {
				return false
			}
			for _, u := range users {
				if cc == u {
					return true
				}
			}
			return false
		}
		// getter(v, name): every origin of v is <context user>.name()
		getter := func(v ssa.Value, name string) string {
			ls := c.Slicer().Leaves(v, nil)
			if len(ls) == 0 {
				return "value of unknown origin"
			}
			for _, l := range ls {
				cc, _ := eng.CallResultOf(l)
				if cc == nil || !cc.Call.IsInvoke() || cc.Call.Method.Name() != name || eng.TypeName(cc.Call.Value.Type()) != "k8s.io/apiserver/pkg/authentication/user.Info" || !isUser(cc.Call.Value) {
					return "value comes from " + c02Describe(l) + ", not from " + name + "() of request.UserFrom(req.Context())"
				}
			}
			return ""
		}
		isClone := func(v ssa.Value) bool {
			cc, _ := eng.CallResultOf(v)
			return cc != nil && (eng.IsCall(cc, "k8s.io/apimachinery/pkg/util/net.CloneRequest") || eng.IsCall(cc, "(*net/http.Request).Clone")) && c02Roots(cc.Call.Args[0])[req]
		}
		onClone := func(h ssa.Value) bool {
			r := c02Roots(h)
			if len(r) == 0 {
				return false
			}
			for x := range r {
				if !isClone(x) {
					return false
				}
			}
			return true
		}
		anyGetter := func(v ssa.Value) string {
			ls := c.Slicer().Leaves(v, nil)
			if len(ls) == 0 {
				return "value of unknown origin"
			}
			for _, l := range ls {
				cc, _ := eng.CallResultOf(l)
				if cc == nil || !cc.Call.IsInvoke() || !isUser(cc.Call.Value) {
					return "value comes from " + c02Describe(l) + ", not from the context user"
				}
			}
			return ""
		}
		seen := map[string]int{}
		for _, ci := range eng.Calls(wr) {
			if !eng.IsCall(ci, "(net/http.Header).Set", "(net/http.Header).Add") {
				continue
			}
			a := eng.Args(ci)
			verb := eng.CalleeObj(ci).Name()
			why := ""
			undecided := false
			var what string
			key, isConst := eng.StringConst(a[0])
			switch {
			case isConst && key == "Impersonate-User":
				what = "Impersonate-User"
				why = getter(a[1], "GetName")
				if verb != "Set" {
					why = "Impersonate-User must be Set (replace), not added"
				}
			case isConst && key == "Impersonate-Group":
				what = "Impersonate-Group"
				why = getter(a[1], "GetGroups")
			case isConst && strings.HasPrefix(strings.ToLower(key), "impersonate-"):
				// another member of the family (e.g. Impersonate-Uid): only from the context user
				what = key
				why = anyGetter(a[1])
			case isConst && strings.EqualFold(key, "Authorization"):
				what = key
				why = "the impersonating round tripper must not write credentials"
			case isConst:
				continue // a header that carries no identity
			default:
				what = "Impersonate-Extra-*"
				add, ok := a[0].(*ssa.BinOp)
				var esc *ssa.Call
				if ok && add.Op == token.ADD {
					if p, isP := eng.StringConst(add.X); isP && p == "Impersonate-Extra-" {
						esc, _ = eng.CallResultOf(add.Y)
					}
				}
				switch {
				case esc == nil || !eng.IsCall(esc, pkgTransport+".headerKeyEscape"):
					what = "computed header"
					undecided = true
					why = "header key is not a constant and not \"Impersonate-Extra-\"+headerKeyEscape(k): cannot tell what is written"
				default:
					if why = getter(esc.Call.Args[0], "GetExtra"); why == "" {
						why = getter(a[1], "GetExtra")
					}
				}
			}
			if why == "" && !onClone(eng.Receiver(ci)) {
				why = "the header written is not the header of a clone of the request (RoundTrippers must not mutate the caller's request, and the client's map would be shared)"
			}
			// a write executed once per value of a multi-valued attribute must accumulate: Set with
			// a key that does not change in the innermost loop keeps only the last value
			if why == "" && verb == "Set" {
				if l := eng.InnermostLoop(ci.Block()); l != nil && eng.LoopInvariant(a[0], l) && !eng.LoopInvariant(a[1], l) {
					why = "Header.Set inside a loop over the attribute's values with a key that is the same on every iteration: only the last value reaches the upstream (must be Add)"
				}
			}
			seen[what]++
			construct := fmt.Sprintf("%s %s#%d from the context user, on a clone", verb, what, seen[what])
			if undecided {
				c.Undecided("R3", wr, construct, ci.Pos(), why)
				continue
			}
			c.Check("R3", wr, construct, ci.Pos(), why == "", "generated impersonation headers carry exactly the context user's name/groups/extra"+c02Found(why))
		}
		for _, w := range []string{"Impersonate-User", "Impersonate-Group", "Impersonate-Extra-*"} {
			if seen[w] == 0 {
				c.Fail("R3", wr, "writes "+w, wr.Pos(), "WrapRequest does not generate this header")
			}
		}
		// no raw map writes into a header
		eng.Instrs(wr, func(ins ssa.Instruction) {
			if mu, ok := ins.(*ssa.MapUpdate); ok && eng.TypeName(mu.Map.Type()) == "net/http.Header" {
				c.Fail("R3", wr, "raw header map write", mu.Pos(), "headers must be written through Set/Add with values of the context user")
			}
		})
	}
	if rt := c.MustMethod(pkgTransport, "dynamicImpersonatingRoundTripper", "RoundTrip"); rt != nil && wr != nil {
		n := 0
		for _, ci := range eng.CallsTo(rt, "(net/http.RoundTripper).RoundTrip") {
			n++
			a := eng.Args(ci)
			cc, i := eng.CallResultOf(a[0])
			ok := cc != nil && i == 0 && cc.Call.StaticCallee() == wr && eng.FieldLoadOf(eng.Receiver(ci), c02TRoundTripper, "delegate")
			c.Check("R3", rt, fmt.Sprintf("delegate.RoundTrip(WrapRequest(req))#%d", n), ci.Pos(), ok, "what is sent upstream is the wrapped request, not the client's")
		}
		if n == 0 {
			c.Fail("R3", rt, "delegate.RoundTrip(WrapRequest(req))", rt.Pos(), "RoundTrip never calls its delegate")
		}
	}

	// wiring: both transports of an endpoint are built from the config carrying the wrapper
	au := c.MustMethod(pkgClusters, "ClusterInfo", "addOrUpdateEndpoint")
	ct := c.MustMethod(pkgClusters, "EndpointInfo", "createTransport")
	rs := c.MustMethod(pkgClusters, "EndpointInfo", "ResetTransport")
	ctor := c.MustFunc(pkgTransport, "NewDynamicImpersonatingRoundTripper")
	if au == nil || ct == nil || rs == nil || ctor == nil {
		return
	}
	isWrapStore := func(ins ssa.Instruction) (*ssa.Store, bool) {
		st, ok := ins.(*ssa.Store)
		if !ok || !eng.FieldAddrOf(st.Addr, c02TRestConfig, "WrapTransport") {
			return nil, false
		}
		return st, true
	}
	isCtor := func(v ssa.Value) bool {
		if ch, ok := v.(*ssa.ChangeType); ok {
			v = ch.X
		}
		return v == ssa.Value(ctor)
	}
	var wrapCfg ssa.Value
	var wrapStore *ssa.Store
	nWrap := 0
	for _, fn := range c.W.FuncsOf(pkgClusters) {
		eng.Instrs(fn, func(ins ssa.Instruction) {
			st, ok := isWrapStore(ins)
			if !ok {
				return
			}
			nWrap++
			good := fn == au && isCtor(st.Val)
			if good {
				wrapCfg = st.Addr.(*ssa.FieldAddr).X
				wrapStore = st
			}
			c.Check("R3", fn, fmt.Sprintf("WrapTransport = NewDynamicImpersonatingRoundTripper#%d", nWrap), st.Pos(), good, "the only wrapper installed on an endpoint's config is the impersonating round tripper")
		})
	}
	if nWrap == 0 || wrapCfg == nil {
		c.Fail("R3", au, "WrapTransport = NewDynamicImpersonatingRoundTripper", au.Pos(), "the impersonating wrapper is not installed on the endpoint's config")
		return
	}
	afterWrap := func(ins ssa.Instruction) bool {
		return eng.AlwaysBefore(au, ins, func(i ssa.Instruction) bool { return i == ssa.Instruction(wrapStore) })
	}
	// upgrade transport: TransportFor(&copy) where copy := wrapCfg's value taken after the store
	{
		n := 0
		var upgradeRT *ssa.Call
		for _, ci := range eng.CallsTo(au, "k8s.io/client-go/rest.TransportFor") {
			n++
			why := "TransportFor argument is not a local copy of the wrapped config"
			if cfg, ok := eng.Args(ci)[0].(*ssa.Alloc); ok {
				why = ""
				if cfg != wrapCfg {
					why = c02CopyAfter(cfg, wrapCfg, afterWrap)
				} else if !afterWrap(ci) {
					why = "TransportFor runs before the wrapper is stored"
				}
				why2 := ""
				for _, r := range *cfg.Referrers() {
					if fa, ok := r.(*ssa.FieldAddr); ok {
						if _, isW := c02StoreTo(fa); isW && eng.FieldAddrOf(fa, c02TRestConfig, "WrapTransport") {
							if fa.X != wrapCfg {
								why2 = "WrapTransport of the copy is overwritten"
							}
						}
					}
				}
				if why == "" {
					why = why2
				}
			}
			if why == "" {
				upgradeRT = ci.(*ssa.Call)
			}
			c.Check("R3", au, fmt.Sprintf("upgrade transport built from the wrapped config#%d", n), ci.Pos(), why == "", "rest.TransportFor must see WrapTransport = impersonating wrapper (copy taken after the store)"+c02Found(why))
		}
		if n == 0 {
			c.Fail("R3", au, "upgrade transport built from the wrapped config", au.Pos(), "no rest.TransportFor call")
		}
		sts := eng.StoresToField([]*ssa.Function{au}, tEndpointInfo, "PorxyUpgradeTransport")
		ok := len(sts) > 0 && upgradeRT != nil
		for _, st := range sts {
			if !c.Slicer().WithArgs().DerivesFrom(st.Val, func(v ssa.Value) bool { cc, i := eng.CallResultOf(v); return cc == upgradeRT && i == 0 }) {
				ok = false
			}
		}
		c.Check("R3", au, "PorxyUpgradeTransport = that transport", au.Pos(), ok, "the upgrade round tripper handed to the dispatcher derives from the transport built above")
	}
	// http2 transport: proxyConfig = &wrapCfg ; createTransport wraps with HTTPWrappersForConfig(e.proxyConfig, ts)
	{
		sts := eng.StoresToField(c.W.FuncsOf(pkgClusters), tEndpointInfo, "proxyConfig")
		ok := len(sts) > 0
		for _, st := range sts {
			if st.Parent() != au || st.Val != wrapCfg {
				ok = false
			}
		}
		c.Check("R3", au, "EndpointInfo.proxyConfig = the wrapped config", au.Pos(), ok, "proxyConfig must be the config whose WrapTransport is the impersonating wrapper")
		n := 0
		var wrapped *ssa.Call
		for _, ci := range eng.CallsTo(ct, "k8s.io/client-go/rest.HTTPWrappersForConfig") {
			n++
			a := eng.Args(ci)
			good := eng.FieldLoadOf(a[0], tEndpointInfo, "proxyConfig") && c02FieldBase(a[0]) == ssa.Value(ct.Params[0])
			if good {
				wrapped = ci.(*ssa.Call)
			}
			c.Check("R3", ct, fmt.Sprintf("HTTPWrappersForConfig(e.proxyConfig, …)#%d", n), ci.Pos(), good, "the proxy transport is wrapped according to the endpoint's own (wrapped) config")
		}
		if n == 0 {
			c.Fail("R3", ct, "HTTPWrappersForConfig(e.proxyConfig, …)", ct.Pos(), "the proxy transport is not wrapped with the config's wrappers (no credential, no impersonation)")
		}
		okRet := false
		eng.Instrs(ct, func(ins ssa.Instruction) {
			r, isRet := ins.(*ssa.Return)
			if !isRet || len(r.Results) != 4 || eng.IsNilConst(r.Results[1]) {
				return
			}
			cc, i := eng.CallResultOf(r.Results[1])
			okRet = wrapped != nil && cc == wrapped && i == 0
		})
		psts := eng.StoresToField(c.W.FuncsOf(pkgClusters), tEndpointInfo, "ProxyTransport")
		okSt := len(psts) > 0
		for _, st := range psts {
			cc, i := eng.CallResultOf(st.Val)
			if st.Parent() != rs || cc == nil || i != 1 || cc.Call.StaticCallee() != ct || eng.Receiver(cc) != st.Addr.(*ssa.FieldAddr).X {
				okSt = false
			}
		}
		c.Check("R3", rs, "ProxyTransport = createTransport()'s wrapped transport", rs.Pos(), okRet && okSt, "the round tripper the dispatcher forwards through is the one wrapped with the endpoint's config")
	}
}

// c02FieldBase returns the struct a field load selects from (nil if v is not one).
func c02FieldBase(v ssa.Value) ssa.Value {
	switch n := v.(type) {
	case *ssa.UnOp:
		if fa, ok := n.X.(*ssa.FieldAddr); ok {
			return fa.X
		}
	case *ssa.Field:
		return n.X
	}
	return nil
}

// c02StoreTo reports whether some Store writes through address a.
func c02StoreTo(a ssa.Value) (*ssa.Store, bool) {
	if a.Referrers() == nil {
		return nil, false
	}
	for _, r := range *a.Referrers() {
		if st, ok := r.(*ssa.Store); ok && st.Addr == a {
			return st, true
		}
	}
	return nil, false
}

// c02CopyAfter returns "" when local config dst is initialised by exactly one whole-value
// store `*dst = *src` executed after the wrapper store.
func c02CopyAfter(dst *ssa.Alloc, src ssa.Value, after func(ssa.Instruction) bool) string {
	n := 0
	why := ""
	for _, r := range *dst.Referrers() {
		st, ok := r.(*ssa.Store)
		if !ok || st.Addr != ssa.Value(dst) {
			continue
		}
		n++
		ld, isLd := st.Val.(*ssa.UnOp)
		switch {
		case !isLd || ld.Op != token.MUL || ld.X != src:
			why = "the config is not a copy of the wrapped config"
		case !after(ld):
			why = "the copy is taken before the wrapper is stored"
		}
	}
	if n != 1 && why == "" {
		why = fmt.Sprintf("the config is initialised %d times", n)
	}
	return why
}

// ---------------------------------------------------------------------------------------
// R4 Authorization header (dependency)

func c02R4(c *eng.Ctx) {
	outer := c.W.Func(c02PkgGenFilters, "WithAuthentication")
	if outer == nil || outer.Blocks == nil {
		c.Fail("engine", nil, "unresolved-anchor func "+c02PkgGenFilters+".WithAuthentication", 0, "the dependency is not loaded with function bodies")
		return
	}
	cl := c02HandlerClosure(outer)
	if cl == nil {
		c.Fail("engine", outer, "unresolved-anchor handler closure of WithAuthentication", outer.Pos(), "expected exactly one func(w, req) literal")
		return
	}
	nexts := c02NextHandlerCalls(c, cl, outer)
	if len(nexts) == 0 {
		c.Fail("R4", cl, "Authorization deleted before the next handler", cl.Pos(), "no call of the wrapped handler found")
		return
	}
	for k, site := range nexts {
		fwd := c02Roots(eng.Args(site)[1])
		isDel := func(ins ssa.Instruction) bool {
			if !eng.IsPlainCall(ins, "(net/http.Header).Del") {
				return false
			}
			ci := ins.(ssa.CallInstruction)
			key, ok := eng.StringConst(eng.Args(ci)[0])
			return ok && strings.EqualFold(key, "Authorization") && c02SameRoots(c02Roots(eng.Receiver(ci)), fwd)
		}
		ok := eng.AlwaysBefore(cl, site, isDel)
		c.Check("R4", cl, fmt.Sprintf("Authorization deleted before next-handler#%d", k+1), site.Pos(), ok, "every path to the wrapped handler must pass req.Header.Del(\"Authorization\") on the header map of the request it forwards; otherwise the client's bearer token/basic credential reaches the upstream next to the gateway's own")
		// the user stored is the authenticator's answer
		okUser := false
		ctxLeaves := c.Slicer().WithArgs()
		for _, wu := range eng.CallsTo(cl, c02WithUser) {
			if !ctxLeaves.DerivesFrom(eng.Args(site)[1], func(v ssa.Value) bool { return v == eng.ResultValue(wu) }) {
				continue
			}
			u := eng.Args(wu)[1]
			if eng.FieldLoadOf(u, "k8s.io/apiserver/pkg/authentication/authenticator.Response", "User") {
				cc, i := eng.CallResultOf(c02FieldBase(u))
				okUser = cc != nil && i == 0 && eng.IsCall(cc, "(k8s.io/apiserver/pkg/authentication/authenticator.Request).AuthenticateRequest")
			}
		}
		c.Check("R4", cl, fmt.Sprintf("context user of next-handler#%d = authenticator's resp.User", k+1), site.Pos(), okUser, "the identity every later filter and the transports act on is the one the authenticator returned for this request")
	}
	c.Note("C02.R4: WithAuthentication returns the wrapped handler unchanged when the authenticator is nil (authentication disabled); the gateway always configures one (proxy authenticator config), not decided here")
}

// ---------------------------------------------------------------------------------------
// R5 family sanitizer

// c02Vocab names the callees the sanitizer recogniser keys on (fixtures substitute their own).
type c02Vocab struct {
	hasPrefix string
	lower     []string // f with f(k) compared against the lower-case prefix
	canonical []string // f with f(k) compared against the canonical prefix
	del       string   // method deleting a (canonicalised) key from the header
	isHeader  func(t types.Type) bool
	isRequest func(t types.Type) bool
	withCtx   string // method returning a shallow copy that shares the header map ("" = none)
}

func (v c02Vocab) roots(x ssa.Value) map[ssa.Value]bool { return c02RootsOf(x, v.isRequest, v.withCtx) }

var c02RealVocab = c02Vocab{
	hasPrefix: "strings.HasPrefix",
	lower:     []string{"strings.ToLower"},
	canonical: []string{"net/textproto.CanonicalMIMEHeaderKey", "net/http.CanonicalHeaderKey"},
	del:       "(net/http.Header).Del",
	isHeader: func(t types.Type) bool {
		if eng.TypeName(t) == "net/http.Header" {
			return true
		}
		m, ok := t.Underlying().(*types.Map)
		if !ok {
			return false
		}
		s, ok := m.Elem().Underlying().(*types.Slice)
		return ok && types.Identical(m.Key(), types.Typ[types.String]) && types.Identical(s.Elem(), types.Typ[types.String])
	},
	isRequest: c02IsRequestPtr,
	withCtx:   c02ReqWithCtx,
}

// c02Sanitizer is one recognised "delete headers by prefix" construct.
type c02Sanitizer struct {
	at       ssa.Instruction // the range instruction (inline) or the helper call
	header   ssa.Value       // header (or request) value sanitised, in the function holding `at`
	prefix   string
	fold     string // "identity" | "lower" | "canonical"
	family   bool   // prefix/fold cover every Impersonate-* key
	complete bool   // every key is tested, every match deleted, the loop is never left early
	why      string
}

func (s c02Sanitizer) String() string {
	if s.family && s.complete {
		return "family"
	}
	d := fmt.Sprintf("prefix(%q,%s)", s.prefix, s.fold)
	if !s.complete {
		d += ",incomplete"
	}
	return d
}

// c02FindSanitizers recognises, in fn, (a) map-range loops over a header that delete the
// keys with a constant prefix and (b) calls of same-repo helpers that do so for one of
// their parameters on every path (depth-bounded).
func c02FindSanitizers(w *eng.World, fn *ssa.Function, voc c02Vocab, depth int) []c02Sanitizer {
	var out []c02Sanitizer
	for _, b := range fn.Blocks {
		for _, ins := range b.Instrs {
			switch n := ins.(type) {
			case *ssa.Range:
				if voc.isHeader(n.X.Type()) {
					out = append(out, c02RangeSanitizers(fn, n, voc)...)
				}
			case *ssa.Call:
				if depth <= 0 {
					continue
				}
				g := n.Call.StaticCallee()
				if g == nil || g.Blocks == nil || g == fn || (w != nil && (g.Pkg == nil || !eng.IsRepoPkg(g.Pkg.Pkg.Path()))) {
					continue
				}
				for i, p := range g.Params {
					if i >= len(n.Call.Args) || !(voc.isHeader(p.Type()) || voc.isRequest(p.Type())) {
						continue
					}
					for _, s := range c02FindSanitizers(w, g, voc, depth-1) {
						r := voc.roots(s.header)
						if len(r) != 1 || !r[p] {
							continue
						}
						// the sanitizer runs on every path through the helper
						if x := eng.ReachFromEntry(g, eng.PathQuery{Target: eng.IsExit, Avoid: func(i ssa.Instruction) bool { return i == s.at }}); x != nil {
							s.complete = false
							s.why = "the helper " + eng.FuncName(g) + " can return without sanitising"
						}
						s.at = n
						s.header = n.Call.Args[i]
						out = append(out, s)
					}
				}
			}
		}
	}
	return out
}

// c02RangeSanitizers analyses one `for k := range header` loop.
func c02RangeSanitizers(fn *ssa.Function, rng *ssa.Range, voc c02Vocab) []c02Sanitizer {
	var out []c02Sanitizer
	if rng.Referrers() == nil {
		return nil
	}
	var next *ssa.Next
	for _, r := range *rng.Referrers() {
		if nx, ok := r.(*ssa.Next); ok {
			if next != nil {
				return nil
			}
			next = nx
		}
	}
	if next == nil {
		return nil
	}
	var key ssa.Value
	for _, e := range eng.ExtractOf(next, 1) {
		key = e
	}
	var okv ssa.Value
	for _, e := range eng.ExtractOf(next, 0) {
		okv = e
	}
	if key == nil || okv == nil {
		return nil
	}
	H := next.Block()
	scc := c02SCC(H)
	if len(scc) == 0 {
		return nil
	}
	var body *ssa.BasicBlock
	for _, br := range eng.BranchesOn(okv) {
		if br.If.Block() == H {
			body = br.OnTrue
		}
	}
	if body == nil {
		return nil
	}
	hdr := voc.roots(rng.X)
	fullName := func(v ssa.Value, names []string) *ssa.Call {
		cc, _ := eng.CallResultOf(v)
		if cc != nil && len(names) > 0 && eng.IsCall(cc, names...) {
			return cc
		}
		return nil
	}
	// folded(v): v is key, lower(key) or canonical(key)
	folded := func(v ssa.Value) string {
		if v == key {
			return "identity"
		}
		if cc := fullName(v, voc.lower); cc != nil && cc.Call.Args[0] == key {
			return "lower"
		}
		if cc := fullName(v, voc.canonical); cc != nil && cc.Call.Args[0] == key {
			return "canonical"
		}
		return ""
	}
	isDelete := func(ins ssa.Instruction) bool {
		ci, ok := ins.(*ssa.Call)
		if !ok {
			return false
		}
		if eng.IsCall(ci, voc.del) {
			// Del canonicalises its argument: any fold of the key names the same entry
			return folded(eng.Args(ci)[0]) != "" && c02SameRoots(voc.roots(eng.Receiver(ci)), hdr)
		}
		if d := c02IsBuiltin(ci, "delete"); d != nil {
			return d.Call.Args[1] == key && c02SameRoots(voc.roots(d.Call.Args[0]), hdr)
		}
		return false
	}
	backOrOut := func(ins ssa.Instruction) bool { return ins == ssa.Instruction(next) || eng.IsExit(ins) }
	// the loop is left only through its header (no break / return inside the body)
	early := false
	for b := range scc {
		if b == H {
			continue
		}
		for _, s := range b.Succs {
			if !scc[s] {
				early = true
			}
		}
	}
	for b := range scc {
		for _, ins := range b.Instrs {
			hp, ok := ins.(*ssa.Call)
			if !ok || !eng.IsCall(hp, voc.hasPrefix) {
				continue
			}
			p, isConst := eng.StringConst(hp.Call.Args[1])
			fold := folded(hp.Call.Args[0])
			if !isConst || fold == "" {
				continue
			}
			s := c02Sanitizer{at: rng, header: rng.X, prefix: p, fold: fold, complete: true}
			switch fold {
			case "lower":
				s.family = p == "impersonate-"
			default:
				// keys of an incoming http.Header are canonical: a case-sensitive test must use the canonical prefix
				s.family = p == "Impersonate-"
			}
			if early {
				s.complete, s.why = false, "the loop can be left before all keys were visited"
			}
			if x := eng.ReachFromBlock(body, eng.PathQuery{Target: backOrOut, Avoid: func(i ssa.Instruction) bool { return i == ssa.Instruction(hp) }}); x != nil {
				s.complete, s.why = false, "some keys skip the prefix test"
			}
			brs := eng.BranchesOn(hp)
			deletes := false
			for _, br := range brs {
				if eng.ReachFromBlock(br.OnTrue, eng.PathQuery{Target: isDelete, Avoid: backOrOut}) != nil {
					deletes = true
				}
			}
			if !deletes {
				continue // a loop that only reads the matching keys is not a sanitizer
			}
			for _, br := range brs {
				if x := eng.ReachFromBlock(br.OnTrue, eng.PathQuery{Target: backOrOut, Avoid: isDelete}); x != nil {
					s.complete, s.why = false, "a matching key is not deleted from the ranged header on some path"
				}
			}
			out = append(out, s)
		}
	}
	return out
}

func c02R5(c *eng.Ctx, filter, cl *ssa.Function) {
	nexts := c02NextHandlerCalls(c, cl, filter)
	if len(nexts) == 0 {
		c.Fail("R5", cl, "family sanitizer before the next handler", cl.Pos(), "no call of the wrapped handler found")
		return
	}
	builds := eng.CallsTo(cl, pkgFilters+".buildImpersonationRequests")
	isReqs := func(v ssa.Value) bool {
		cc, i := eng.CallResultOf(v)
		return cc != nil && i == 0 && len(builds) == 1 && ssa.CallInstruction(cc) == builds[0]
	}
	sans := c02FindSanitizers(c.W, cl, c02RealVocab, c.Depth)

	// alternative: the transport sanitises every request it returns
	transportOK := false
	if wr := c.W.Method(pkgTransport, "dynamicImpersonatingRoundTripper", "WrapRequest"); wr != nil && wr.Blocks != nil {
		tsans := c02FindSanitizers(c.W, wr, c02RealVocab, c.Depth)
		transportOK = len(tsans) > 0
		n := 0
		eng.Instrs(wr, func(ins ssa.Instruction) {
			r, ok := ins.(*ssa.Return)
			if !ok || len(r.Results) != 2 || eng.IsNilConst(r.Results[0]) {
				return
			}
			n++
			roots := c02Roots(r.Results[0])
			if !eng.AlwaysBefore(wr, r, func(i ssa.Instruction) bool {
				for _, s := range tsans {
					if s.at == i && s.family && s.complete && c02SameRoots(c02Roots(s.header), roots) {
						return true
					}
				}
				return false
			}) {
				transportOK = false
			}
		})
		if n == 0 {
			transportOK = false
		}
	}

	seen := map[string]int{}
	for _, site := range nexts {
		kind := "impersonated"
		if eng.GuardedBy(site, func(r eng.Rel) bool {
			ln := c02IsBuiltin(r.X, "len")
			z, isZ := eng.IntConst(r.Y)
			return ln != nil && isReqs(ln.Call.Args[0]) && isZ && z == 0 && (r.Op == token.EQL || r.Op == token.LEQ)
		}) {
			kind = "pass-through"
		}
		fwd := c02Roots(eng.Args(site)[1])
		var related []string
		good := func(i ssa.Instruction) bool {
			for _, s := range sans {
				if s.at == i && s.family && s.complete && c02SameRoots(c02Roots(s.header), fwd) {
					return true
				}
			}
			return false
		}
		ok := eng.AlwaysBefore(cl, site, good)
		desc := "family"
		if !ok {
			// describe what is there instead: impersonation-prefix sanitizers that can run before the site
			for _, s := range sans {
				if !strings.HasPrefix(strings.ToLower(s.prefix), "impersonate") {
					continue
				}
				if eng.ReachAfter(s.at, eng.PathQuery{Target: func(i ssa.Instruction) bool { return i == ssa.Instruction(site) }}) != nil {
					related = append(related, s.String())
				}
			}
			sort.Strings(related)
			related = dedup(related)
			desc = "none"
			if len(related) > 0 {
				desc = strings.Join(related, "+")
			}
		}
		seen[kind]++
		construct := fmt.Sprintf("next-handler[%s] sanitizer=%s", kind, desc)
		if seen[kind] > 1 {
			construct = fmt.Sprintf("next-handler[%s]#%d sanitizer=%s", kind, seen[kind], desc)
		}
		detail := "every path to the wrapped handler must pass a complete sanitizer of the whole Impersonate-* family on the forwarded request's header"
		switch {
		case ok:
		case transportOK:
			detail += " (discharged by the equivalent sanitizer in WrapRequest)"
		case desc == "none":
			detail += "; found: no prefix sanitizer on this path — a client `Impersonate-Uid: x` (any family member the gateway does not consume) is forwarded under the gateway's credential"
		default:
			detail += "; found: only " + desc + " on some path — family members outside that prefix (e.g. `Impersonate-Uid`) are forwarded under the gateway's credential"
		}
		c.Check("R5", cl, construct, site.Pos(), ok || transportOK, detail)
	}
}

// ---------------------------------------------------------------------------------------
// fixtures for the sanitizer recogniser

const c02FxSrc = `package fx
type Header map[string][]string
func (h Header) Del(k string) { delete(h, k) }
type Request struct{ Header Header }
func hasPrefix(s, p string) bool { return len(s) >= len(p) && s[:len(p)] == p }
func lower(s string) string { return s }
func canon(s string) string { return s }
func next(r *Request) {}

func goodInline(r *Request) {
	for k := range r.Header {
		if hasPrefix(lower(k), "impersonate-") {
			delete(r.Header, k)
		}
	}
	next(r)
}
func strip(h Header) {
	for k := range h {
		if !hasPrefix(k, "Impersonate-") {
			continue
		}
		h.Del(k)
	}
}
func goodHelper(r *Request) { strip(r.Header); next(r) }
func goodCanon(r *Request) {
	for k := range r.Header {
		switch {
		case hasPrefix(canon(k), "Impersonate-"):
			r.Header.Del(k)
		}
	}
	next(r)
}
func badNarrow(r *Request) {
	for k := range r.Header {
		if hasPrefix(k, "Impersonate-Extra-") {
			r.Header.Del(k)
		}
	}
	next(r)
}
func badCase(r *Request) {
	for k := range r.Header {
		if hasPrefix(k, "impersonate-") {
			delete(r.Header, k)
		}
	}
	next(r)
}
func badBreak(r *Request) {
	for k := range r.Header {
		if hasPrefix(lower(k), "impersonate-") {
			delete(r.Header, k)
			break
		}
	}
	next(r)
}
func badSkip(r *Request, n int) {
	for k := range r.Header {
		if len(k) > n {
			continue
		}
		if hasPrefix(lower(k), "impersonate-") {
			delete(r.Header, k)
		}
	}
	next(r)
}
func badOtherMap(r, o *Request) {
	for k := range r.Header {
		if hasPrefix(lower(k), "impersonate-") {
			delete(o.Header, k)
		}
	}
	next(r)
}
func badDeleteFolded(r *Request) {
	for k := range r.Header {
		if hasPrefix(lower(k), "impersonate-") {
			delete(r.Header, lower(k))
		}
	}
	next(r)
}
func badBypass(r *Request, c bool) {
	if c {
		next(r)
		return
	}
	strip(r.Header)
	next(r)
}
func maybeStrip(h Header, c bool) {
	if c {
		return
	}
	strip(h)
}
func badHelperBypass(r *Request) { maybeStrip(r.Header, false); next(r) }
`

func c02Fixtures(c *eng.Ctx) {
	p, _, err := eng.BuildFixture(c02FxSrc)
	if err != nil {
		c.Fixture("C02.sanitizer/build", "ok", err.Error())
		return
	}
	voc := c02Vocab{
		hasPrefix: "fx.hasPrefix",
		lower:     []string{"fx.lower"},
		canonical: []string{"fx.canon"},
		del:       "(fx.Header).Del",
		isHeader:  func(t types.Type) bool { return eng.TypeName(t) == "fx.Header" },
		isRequest: func(t types.Type) bool {
			pt, ok := t.(*types.Pointer)
			return ok && eng.TypeName(pt.Elem()) == "fx.Request"
		},
	}
	want := map[string]bool{
		"goodInline": true, "goodHelper": true, "goodCanon": true,
		"badNarrow": false, "badCase": false, "badBreak": false, "badSkip": false, "badOtherMap": false,
		"badDeleteFolded": false, "badBypass": false, "badHelperBypass": false,
	}
	names := make([]string, 0, len(want))
	for n := range want {
		names = append(names, n)
	}
	sort.Strings(names)
	for _, name := range names {
		fn := p.Func(name)
		got := false
		if fn != nil {
			sans := c02FindSanitizers(nil, fn, voc, 2)
			got = true
			n := 0
			for _, ci := range eng.CallsTo(fn, "fx.next") {
				n++
				fwd := voc.roots(ci.Common().Args[0])
				if !eng.AlwaysBefore(fn, ci, func(i ssa.Instruction) bool {
					for _, s := range sans {
						if s.at == i && s.family && s.complete && c02SameRoots(voc.roots(s.header), fwd) {
							return true
						}
					}
					return false
				}) {
					got = false
				}
			}
			if n == 0 {
				got = false
			}
		}
		c.Fixture("C02.sanitizer/"+name, fmt.Sprint(want[name]), fmt.Sprint(got))
	}
}

// ---------------------------------------------------------------------------------------
// R3e (added after seeded change C02-1): the extra-key escaper escapes '%' and has no
// verbatim path. The upstream percent-decodes Impersonate-Extra-<key>; a key forwarded with
// a literal "%2f" would be read as "/" — an extra key the gateway never authenticated or
// authorised.
func c02Escape(c *eng.Ctx) {
	c.Rule("R3e", "extra keys are escaped injectively: the escaper's byte predicate is true for '%'; the escaper writes a byte raw only when the predicate is false for that byte; its result is built only from what it wrote (no path returns the key verbatim)", 3)
	esc := c.MustFunc(pkgTransport, "headerKeyEscape")
	if esc == nil {
		return
	}
	// the byte predicate: the bool function of one byte called in the escaper's loop
	var pred *ssa.Function
	var predCalls []*ssa.Call
	for _, ci := range eng.Calls(esc) {
		f := eng.CalleeFn(ci)
		call, isCall := ci.(*ssa.Call)
		if f == nil || !isCall || f.Pkg == nil || f.Pkg.Pkg.Path() != pkgTransport || len(f.Params) != 1 {
			continue
		}
		if b, ok := f.Signature.Results().At(0).Type().Underlying().(*types.Basic); ok && b.Kind() == types.Bool && eng.InLoop(call.Block()) {
			pred = f
			predCalls = append(predCalls, call)
		}
	}
	if pred == nil {
		c.Fail("R3e", esc, "byte predicate of the escaper", esc.Pos(), "the escaper does not consult a per-byte predicate")
		return
	}
	// (a) forcing: predicate('%') is true on every path
	in := &eng.Interp{W: c.W, Depth: 0}
	paths, err := in.Run(pred, []eng.AV{eng.AVInt('%')})
	ok := err == nil && len(paths) > 0
	for _, p := range paths {
		if p.LoopCut || p.Panicked || len(p.Ret) != 1 || !p.Ret[0].IsBool(true) {
			ok = false
		}
	}
	c.Check("R3e", pred, "'%' must be escaped", pred.Pos(), ok, "the predicate that decides which bytes are %-encoded must be true for '%' itself, otherwise \"a%2fb\" and \"a/b\" are sent as the same header name")
	// (b) raw writes only when the predicate is false for that byte
	rawOK, nRaw := true, 0
	for _, ci := range eng.Calls(esc) {
		if !eng.IsCall(ci, "(*strings.Builder).WriteByte", "(*strings.Builder).WriteRune", "(*strings.Builder).WriteString", "(*bytes.Buffer).WriteByte") {
			continue
		}
		nRaw++
		arg := eng.Args(ci)[0]
		guarded := eng.GuardedByBool(ci, func(v ssa.Value) bool {
			for _, pc := range predCalls {
				if v == ssa.Value(pc) && pc.Call.Args[0] == arg {
					return true
				}
			}
			return false
		}, false)
		if !guarded {
			rawOK = false
		}
	}
	c.Check("R3e", esc, "raw bytes only when the predicate is false", esc.Pos(), rawOK && nRaw > 0, "a byte is copied unescaped although the predicate was not consulted for it (or said it must be escaped)")
	// (c) no verbatim return
	verbatim := false
	sl := &eng.Slicer{W: c.W, Depth: 0}
	eng.Instrs(esc, func(ins ssa.Instruction) {
		r, isR := ins.(*ssa.Return)
		if !isR || r.Block() == esc.Recover {
			return
		}
		for _, v := range eng.ReturnResults(r) {
			if sl.DerivesFrom(v, func(x ssa.Value) bool { return x == ssa.Value(esc.Params[0]) }) {
				verbatim = true
			}
		}
	})
	c.Check("R3e", esc, "no verbatim path", esc.Pos(), !verbatim, "a path returns (part of) the key as it came in: any shortcut that bypasses the per-byte predicate (e.g. a \"plain token\" fast path that considers '%' plain) forwards keys the upstream decodes differently")
}
