package rules

// C02 — identity propagation: the upstream acts as exactly the authenticated (or the
// authorised impersonated) user, and nothing identity-bearing the client sent is forwarded.
//
// What is decided here, on the resolved program:
//   R1  the handler chain nests the identity filters in the order their context keys need;
//   R2  in the impersonation filter every requested identity is authorised, by the target
//       cluster's authorizer, as the authenticated user, before the context user is swapped;
//   R3  the per-endpoint transports write Impersonate-User/-Group/-Extra-* from the context
//       user onto a clone of the request, and both transports are built from the config that
//       carries that wrapper;
//   R4  (dependency as resolved by go.mod) the authentication filter deletes the client's
//       Authorization header on every path to the next handler and forwards resp.User;
//   R5  no client header of the Impersonate-* family survives the impersonation filter.
//
// Not decided: byte-exactness of headerKeyEscape, behaviour of the authenticators.

import (
	"fmt"
	"go/constant"
	"go/token"
	"go/types"
	"sort"
	"strings"

	"golang.org/x/tools/go/ssa"

	"kgv/internal/eng"
)

func init() {
	Register("C02", c02)
	RegisterFixture("C02", c02Fixtures)
}

const (
	c02PkgGenFilters = "k8s.io/apiserver/pkg/endpoints/filters"
	c02PkgGenRequest = "k8s.io/apiserver/pkg/endpoints/request"
	c02PkgAuthorizer = "k8s.io/apiserver/pkg/authorization/authorizer"
	c02PkgRespWr     = "k8s.io/apiserver/pkg/endpoints/handlers/responsewriters"
	c02Authorize     = "(" + c02PkgAuthorizer + ".Authorizer).Authorize"
	c02UserFrom      = c02PkgGenRequest + ".UserFrom"
	c02WithUser      = c02PkgGenRequest + ".WithUser"
	c02ServeHTTP     = "(net/http.Handler).ServeHTTP"
	c02ReqContext    = "(*net/http.Request).Context"
	c02ReqWithCtx    = "(*net/http.Request).WithContext"
	c02TAttrs        = c02PkgAuthorizer + ".AttributesRecord"
	c02TDefaultInfo  = "k8s.io/apiserver/pkg/authentication/user.DefaultInfo"
	c02TRestConfig   = "k8s.io/client-go/rest.Config"
	c02TRoundTripper = pkgTransport + ".dynamicImpersonatingRoundTripper"
)

// ---------------------------------------------------------------------------------------
// generic helpers

func c02Found(why string) string {
	if why == "" {
		return ""
	}
	return "; found: " + why
}

func c02ConstInt(c *eng.Ctx, pkg, name string) (int64, bool) {
	p, ok := c.W.All[pkg]
	if !ok || p.Types == nil {
		return 0, false
	}
	k, ok := p.Types.Scope().Lookup(name).(*types.Const)
	if !ok || k.Val().Kind() != constant.Int {
		return 0, false
	}
	return constant.Int64Val(k.Val())
}

func c02IsBuiltin(v ssa.Value, name string) *ssa.Call {
	c, ok := v.(*ssa.Call)
	if !ok {
		return nil
	}
	if b, isB := c.Call.Value.(*ssa.Builtin); isB && b.Name() == name {
		return c
	}
	return nil
}

func c02IsHandlerType(t types.Type) bool { return eng.TypeName(t) == "net/http.Handler" }

func c02IsRequestPtr(t types.Type) bool {
	p, ok := t.(*types.Pointer)
	return ok && eng.TypeName(p.Elem()) == "net/http.Request"
}

// c02HandlerClosure returns the func(w, req) literal a filter constructor turns into its
// http.Handler (the only nested function with that signature), or nil.
func c02HandlerClosure(fn *ssa.Function) *ssa.Function {
	var out []*ssa.Function
	for _, a := range fn.AnonFuncs {
		if len(a.Params) == 2 && eng.TypeName(a.Params[0].Type()) == "net/http.ResponseWriter" && c02IsRequestPtr(a.Params[1].Type()) {
			out = append(out, a)
		}
	}
	if len(out) != 1 {
		return nil
	}
	return out[0]
}

// c02NextHandlerCalls returns the ServeHTTP invocations of cl whose receiver is the handler
// the filter constructor `outer` wraps (its first parameter; the slice resolves the captured
// variable back to the constructor's parameter).
func c02NextHandlerCalls(c *eng.Ctx, cl, outer *ssa.Function) []ssa.CallInstruction {
	var out []ssa.CallInstruction
	if len(outer.Params) == 0 || !c02IsHandlerType(outer.Params[0].Type()) {
		return nil
	}
	for _, ci := range eng.CallsTo(cl, c02ServeHTTP) {
		ls := c.Slicer().Leaves(eng.Receiver(ci), nil)
		ok := len(ls) > 0
		for _, l := range ls {
			if l != ssa.Value(outer.Params[0]) {
				ok = false
			}
		}
		if ok {
			out = append(out, ci)
		}
	}
	return out
}

// c02Roots resolves a *http.Request or http.Header value to the objects whose header map
// it may denote. req.WithContext(..) shares the receiver's Header map, so it resolves to
// the receiver; a load of X.Header resolves to the roots of X; phis and single-cell locals
// are joined. Anything else (Clone, CloneRequest, a parameter, a field) is its own root.
func c02Roots(v ssa.Value) map[ssa.Value]bool { return c02RootsOf(v, c02IsRequestPtr, c02ReqWithCtx) }

// c02RootsOf is c02Roots with the request type and the header-sharing copy method given
// (the fixtures use their own Request type).
func c02RootsOf(v ssa.Value, isRequest func(types.Type) bool, withCtx string) map[ssa.Value]bool {
	out := map[ssa.Value]bool{}
	seen := map[ssa.Value]bool{}
	var walk func(v ssa.Value)
	walk = func(v ssa.Value) {
		if v == nil || seen[v] {
			return
		}
		seen[v] = true
		switch n := v.(type) {
		case *ssa.Phi:
			for _, e := range n.Edges {
				walk(e)
			}
			return
		case *ssa.Call:
			if withCtx != "" && eng.IsCall(n, withCtx) {
				walk(n.Call.Args[0])
				return
			}
		case *ssa.ChangeType:
			walk(n.X)
			return
		case *ssa.UnOp:
			if n.Op == token.MUL {
				if fa, ok := n.X.(*ssa.FieldAddr); ok && isRequest(fa.X.Type()) && eng.FieldAddrOf(fa, "", "Header") {
					walk(fa.X)
					return
				}
				if a, ok := n.X.(*ssa.Alloc); ok && a.Referrers() != nil {
					stores, other := 0, false
					for _, r := range *a.Referrers() {
						switch u := r.(type) {
						case *ssa.Store:
							if u.Addr == ssa.Value(a) {
								stores++
								walk(u.Val)
							} else {
								other = true
							}
						case *ssa.UnOp, *ssa.DebugRef:
						default:
							other = true
						}
					}
					if stores > 0 && !other {
						return
					}
				}
			}
		}
		out[v] = true
	}
	walk(v)
	return out
}

// c02CtxRoots resolves a *http.Request value to the requests whose Context() it returns:
// a WithContext/Clone result carries another context and is its own root; the shallow
// copy made by utilnet.CloneRequest keeps the context of its argument.
func c02CtxRoots(v ssa.Value) map[ssa.Value]bool {
	out := map[ssa.Value]bool{}
	for r := range c02RootsOf(v, c02IsRequestPtr, "") {
		if cc, ok := r.(*ssa.Call); ok && eng.IsCall(cc, "k8s.io/apimachinery/pkg/util/net.CloneRequest") {
			for x := range c02CtxRoots(cc.Call.Args[0]) {
				out[x] = true
			}
			continue
		}
		out[r] = true
	}
	return out
}

// c02RootsUp is c02Roots for a value that may live in an extracted helper: a root that is a
// parameter of a helper whose call sites are all known is replaced by the roots of the
// arguments bound to it (union over the call sites, depth ≤ LiftDepth).
func c02RootsUp(w *eng.World, v ssa.Value) map[ssa.Value]bool {
	return c02LiftRoots(w, v, c02Roots)
}

// c02CtxRootsUp is c02CtxRoots lifted through helper parameters in the same way.
func c02CtxRootsUp(w *eng.World, v ssa.Value) map[ssa.Value]bool {
	return c02LiftRoots(w, v, c02CtxRoots)
}

func c02LiftRoots(w *eng.World, v ssa.Value, roots func(ssa.Value) map[ssa.Value]bool) map[ssa.Value]bool {
	out := map[ssa.Value]bool{}
	var rec func(v ssa.Value, depth int)
	rec = func(v ssa.Value, depth int) {
		for r := range roots(v) {
			if p, ok := r.(*ssa.Parameter); ok && depth > 0 {
				if ups := w.UpArgSites(p); len(ups) > 0 {
					for _, u := range ups {
						rec(u.Arg, depth-1)
					}
					continue
				}
			}
			out[r] = true
		}
	}
	rec(v, eng.LiftDepth)
	return out
}

func c02SameRoots(a, b map[ssa.Value]bool) bool {
	if len(a) == 0 || len(a) != len(b) {
		return false
	}
	for k := range a {
		if !b[k] {
			return false
		}
	}
	return true
}

// c02SCC returns the blocks on a common cycle with b (empty if b is not in a loop).
func c02SCC(b *ssa.BasicBlock) map[*ssa.BasicBlock]bool {
	fwd := map[*ssa.BasicBlock]bool{}
	work := append([]*ssa.BasicBlock{}, b.Succs...)
	for len(work) > 0 {
		x := work[len(work)-1]
		work = work[:len(work)-1]
		if fwd[x] {
			continue
		}
		fwd[x] = true
		work = append(work, x.Succs...)
	}
	if !fwd[b] {
		return nil
	}
	bwd := map[*ssa.BasicBlock]bool{}
	work = append([]*ssa.BasicBlock{}, b.Preds...)
	for len(work) > 0 {
		x := work[len(work)-1]
		work = work[:len(work)-1]
		if bwd[x] {
			continue
		}
		bwd[x] = true
		work = append(work, x.Preds...)
	}
	out := map[*ssa.BasicBlock]bool{}
	for x := range fwd {
		if bwd[x] {
			out[x] = true
		}
	}
	return out
}

// c02LoopHeaders returns the blocks of scc entered from outside.
func c02LoopHeaders(scc map[*ssa.BasicBlock]bool) []*ssa.BasicBlock {
	var hs []*ssa.BasicBlock
	for b := range scc {
		for _, p := range b.Preds {
			if !scc[p] {
				hs = append(hs, b)
				break
			}
		}
	}
	sort.Slice(hs, func(i, j int) bool { return hs[i].Index < hs[j].Index })
	return hs
}

// c02EdgesWhere returns the successor blocks entered through an if-edge of fn on which a
// relation satisfying match is known to hold: the branch condition itself, or what it implies
// through named conditions, short-circuit values, predicate helpers and the ok / error results
// of helpers (eng.EdgeFactsDeep).
func c02EdgesWhere(fn *ssa.Function, match func(eng.Rel) bool) []*ssa.BasicBlock {
	var out []*ssa.BasicBlock
	for _, b := range fn.Blocks {
		if len(b.Instrs) == 0 || b == fn.Recover {
			continue
		}
		iff, ok := b.Instrs[len(b.Instrs)-1].(*ssa.If)
		if !ok || len(b.Succs) != 2 || b.Succs[0] == b.Succs[1] {
			continue
		}
		for si := 0; si < 2; si++ {
			hit := match(eng.RelOf(iff.Cond, si == 0))
			if !hit {
				for _, f := range eng.EdgeFactsDeep(b, si) {
					if match(eng.Rel{Op: f.Rel.Op, X: f.X(), Y: f.Y()}) {
						hit = true
						break
					}
				}
			}
			if hit {
				out = append(out, b.Succs[si])
			}
		}
	}
	return out
}

// ---------------------------------------------------------------------------------------

func c02(c *eng.Ctx) {
	var escapers []*ssa.Function
	defer func() { c02Escape(c, escapers) }()
	c.Rule("R1", "filter order: the proxy handler chain is installed and nests, on every path of its builder, Authentication outside Impersonation outside Dispatcher, UpstreamInfo outside Authentication, ExtraRequestInfo outside UpstreamInfo, RequestInfo outside ExtraRequestInfo (each inner filter reads the context key its outer one writes: user, ExtraRequestInfo, RequestInfo); a filter wrapped the other way round runs before its input exists (e.g. impersonation authorised for no user, authenticator asked for no host)", 12)
	c.Rule("R2", "every impersonation is authorised: in the impersonation filter the context user is replaced only after a loop over all impersonation requests in which every iteration passes Authorize(ctx of the request, attributes of that element, user = authenticated user, verb impersonate); the only way to stay in the loop is err == nil and decision == DecisionAllow; every other way out of the loop, and a malformed request, is answered by the gateway and neither forwarded nor given a new user; the new user is built only from the authorised elements", 15)
	c.Rule("R3", "outbound impersonation headers come from the context user: WrapRequest writes only Impersonate-User/-Group/-Extra-<escaped key> with values from request.UserFrom(req.Context()) onto a clone of the request; RoundTrip sends what WrapRequest returned; addOrUpdateEndpoint stores the impersonating wrapper into the config from which both of the endpoint's transports are built", 10)
	c.Rule("R4", "the client's Authorization header is never forwarded and the context user is the authenticator's answer: in k8s.io/apiserver's WithAuthentication (as resolved by go.mod) every path to the next handler deletes Authorization from the forwarded request's header and stores resp.User with WithUser", 2)
	c.Rule("R5", "no client header of the Impersonate-* family survives: on every path of the impersonation filter to the next handler a complete sanitizer over the forwarded request's header (a range deleting every key whose case-folded form starts with the family prefix impersonate-) has run, or WrapRequest does the same on every returned request; otherwise e.g. `Impersonate-Uid: x` reaches the upstream under the gateway's credential", 2)

	c.Note("C02: accepted idioms — one Authorize call inside the filter's own range/index loop (R2); header sanitizers written as a map range with strings.HasPrefix on the key or its ToLower/Canonical form and Header.Del/delete on the match edge, inline or in a same-repo helper (R5); requests derived with Clone/CloneRequest are treated as separate header maps even when cloned after sanitising (R4/R5 fail closed)")
	c02R1(c)
	filter := c.MustFunc(pkgFilters, "WithNoLoggingImpersonation")
	var cl *c02Handler
	if filter != nil {
		if cl = c02FindHandler(c, filter); cl == nil {
			c.Fail("engine", filter, "unresolved-anchor handler closure of WithNoLoggingImpersonation", filter.Pos(), "expected the filter to return exactly one handler body: a func(w, req) literal, a method value or an object with a ServeHTTP method")
		}
	}
	if cl != nil {
		c02R2(c, filter, cl)
	}
	escapers = c02R3(c)
	c02R4(c)
	if cl != nil {
		c02R5(c, filter, cl)
	}
}

// ---------------------------------------------------------------------------------------
// R1 filter order

func c02R1(c *eng.Ctx) {
	// The chain function is found by its role: it is the function value the proxy server's
	// config is given as BuildHandlerChainFunc — a literal returned by a builder function
	// (today's shape), a method value, or a plain function.
	cp := c.MustFunc(pkgApp, "CreateProxyConfig")
	if cp == nil {
		return
	}
	isChainSig := func(f *ssa.Function) bool {
		return f != nil && f.Blocks != nil && len(f.Params) >= 1 && f.Signature.Results().Len() == 1 && c02IsHandlerType(f.Signature.Results().At(0).Type()) &&
			(c02IsHandlerType(f.Params[0].Type()) || (f.Signature.Recv() != nil && len(f.Params) >= 2 && c02IsHandlerType(f.Params[1].Type())))
	}
	var funcValues func(v ssa.Value, depth int) []*ssa.Function
	funcValues = func(v ssa.Value, depth int) []*ssa.Function {
		if f := c.W.FuncOfValue(v); f != nil {
			return []*ssa.Function{f}
		}
		cc, _ := eng.CallResultOf(v)
		if cc == nil || depth <= 0 {
			return []*ssa.Function{nil}
		}
		g := cc.Call.StaticCallee()
		if g == nil || !eng.Analysable(g) {
			return []*ssa.Function{nil}
		}
		var out []*ssa.Function
		eng.Instrs(g, func(ins ssa.Instruction) {
			if r, ok := ins.(*ssa.Return); ok && len(r.Results) == 1 && r.Block() != g.Recover {
				out = append(out, funcValues(r.Results[0], depth-1)...)
			}
		})
		return out
	}
	var chain *ssa.Function
	installed, nStores := true, 0
	for _, st := range eng.StoresToField(c.W.Region(cp), "k8s.io/apiserver/pkg/server.Config", "BuildHandlerChainFunc") {
		nStores++
		for _, f := range funcValues(st.Val, 2) {
			if !isChainSig(f) || (chain != nil && chain != f) {
				installed = false
				continue
			}
			if p := eng.Outermost(f); p.Pkg == nil || p.Pkg.Pkg.Path() != pkgApp {
				installed = false
				continue
			}
			chain = f
		}
	}
	installed = installed && nStores > 0 && chain != nil
	c.Check("R1", cp, "proxy server installs buildProxyHandlerChainFunc", cp.Pos(), installed, "the generic server must build its handler chain with the gateway's chain function, otherwise none of the identity filters runs")
	if chain == nil {
		c.Fail("engine", cp, "unresolved-anchor chain closure", cp.Pos(), "the function installed as BuildHandlerChainFunc could not be resolved to a function of cmd/kube-gateway/app")
		return
	}

	// a link is a call  f(handler, ...) http.Handler  (or a method helper x.f(handler, ...)); its
	// role is decided by callee identity. inIdx is the position of the handler it wraps.
	inIdx := func(call *ssa.Call) int {
		if len(call.Call.Args) > 0 && c02IsHandlerType(call.Call.Args[0].Type()) {
			return 0
		}
		if g := call.Call.StaticCallee(); g != nil && g.Signature.Recv() != nil && len(call.Call.Args) > 1 && c02IsHandlerType(call.Call.Args[1].Type()) {
			return 1
		}
		return -1
	}
	isLink := func(call *ssa.Call) bool {
		return !call.Call.IsInvoke() && c02IsHandlerType(call.Type()) && inIdx(call) >= 0
	}
	reqInfoGlobalOK, reqInfoWhy := c02RequestInfoAlias(c)
	role := func(call *ssa.Call) string {
		if f := call.Call.StaticCallee(); f != nil && f.Pkg != nil {
			switch f.Pkg.Pkg.Path() + "." + f.Name() {
			case pkgFilters + ".WithDispatcher":
				return "Dispatcher"
			case pkgFilters + ".WithNoLoggingImpersonation":
				return "Impersonation"
			case c02PkgGenFilters + ".WithAuthentication":
				return "Authentication"
			case pkgFilters + ".WithUpstreamInfo":
				return "UpstreamInfo"
			case pkgFilters + ".WithExtraRequestInfo":
				return "ExtraRequestInfo"
			case c02PkgGenFilters + ".WithRequestInfo":
				return "RequestInfo"
			}
			return ""
		}
		// gatewayfilters.WithRequestInfo is a package variable aliasing the generic filter
		if ld, ok := call.Call.Value.(*ssa.UnOp); ok && ld.Op == token.MUL {
			if g, ok := ld.X.(*ssa.Global); ok && g.Pkg != nil && g.Pkg.Pkg.Path() == pkgFilters && g.Name() == "WithRequestInfo" {
				return "RequestInfo"
			}
		}
		return ""
	}
	// a same-package helper that builds part of the chain: func(handler, ...) http.Handler in
	// cmd/kube-gateway/app whose result passes its first parameter through links
	isHelper := func(call *ssa.Call) *ssa.Function {
		g := call.Call.StaticCallee()
		if g == nil || g.Blocks == nil || g.Pkg == nil || g.Pkg.Pkg.Path() != pkgApp || role(call) != "" {
			return nil
		}
		if i := inIdx(call); i < 0 || i >= len(g.Params) {
			return nil
		}
		return g
	}
	// must(v): the links that are in the chain denoted by v on every path
	env := map[*ssa.Parameter]map[*ssa.Call]bool{}
	innerOf := map[*ssa.Call]map[*ssa.Call]bool{} // link -> links it wraps on every path (filled by the traversal from the returned chain)
	var must func(v ssa.Value, seen map[ssa.Value]bool) map[*ssa.Call]bool
	inter := func(acc, m map[*ssa.Call]bool) map[*ssa.Call]bool {
		if m == nil {
			return acc
		}
		if acc == nil {
			acc = map[*ssa.Call]bool{}
			for k := range m {
				acc[k] = true
			}
			return acc
		}
		for k := range acc {
			if !m[k] {
				delete(acc, k)
			}
		}
		return acc
	}
	must = func(v ssa.Value, seen map[ssa.Value]bool) map[*ssa.Call]bool {
		if seen[v] {
			return nil // cycle: neutral for the intersection
		}
		seen[v] = true
		defer delete(seen, v)
		switch n := v.(type) {
		case *ssa.Parameter:
			if m, ok := env[n]; ok {
				return inter(nil, m)
			}
		case *ssa.Call:
			if !isLink(n) {
				return map[*ssa.Call]bool{}
			}
			in := must(n.Call.Args[inIdx(n)], seen)
			if g := isHelper(n); g != nil {
				gp := g.Params[inIdx(n)]
				if _, busy := env[gp]; !busy {
					env[gp] = in
					var acc map[*ssa.Call]bool
					eng.Instrs(g, func(ins ssa.Instruction) {
						if r, ok := ins.(*ssa.Return); ok && len(r.Results) == 1 {
							acc = inter(acc, must(r.Results[0], seen))
						}
					})
					delete(env, gp)
					if acc == nil {
						acc = map[*ssa.Call]bool{}
					}
					return acc
				}
			}
			if in != nil {
				innerOf[n] = inter(innerOf[n], in)
			}
			out := map[*ssa.Call]bool{n: true}
			for k := range in {
				out[k] = true
			}
			return out
		case *ssa.Phi:
			var acc map[*ssa.Call]bool
			for _, e := range n.Edges {
				acc = inter(acc, must(e, seen))
			}
			if acc == nil {
				acc = map[*ssa.Call]bool{}
			}
			return acc
		case *ssa.MakeInterface:
			return must(n.X, seen)
		case *ssa.ChangeInterface:
			return must(n.X, seen)
		case *ssa.ChangeType:
			return must(n.X, seen)
		}
		return map[*ssa.Call]bool{}
	}

	byRole := map[string][]*ssa.Call{}
	scan := []*ssa.Function{chain}
	for i := 0; i < len(scan) && i < 8; i++ {
		for _, ci := range eng.Calls(scan[i]) {
			call, ok := ci.(*ssa.Call)
			if !ok || !isLink(call) {
				continue
			}
			if r := role(call); r != "" {
				byRole[r] = append(byRole[r], call)
			} else if g := isHelper(call); g != nil {
				dup := false
				for _, f := range scan {
					dup = dup || f == g
				}
				if !dup {
					scan = append(scan, g)
				}
			}
		}
	}
	var whole map[*ssa.Call]bool
	nRet := 0
	eng.Instrs(chain, func(ins ssa.Instruction) {
		if r, ok := ins.(*ssa.Return); ok && len(r.Results) == 1 {
			nRet++
			m := must(r.Results[0], map[ssa.Value]bool{})
			if whole == nil {
				whole = m
				return
			}
			for k := range whole {
				if !m[k] {
					delete(whole, k)
				}
			}
		}
	})
	roles := []string{"RequestInfo", "ExtraRequestInfo", "UpstreamInfo", "Authentication", "Impersonation", "Dispatcher"}
	the := map[string]*ssa.Call{}
	for _, r := range roles {
		calls := byRole[r]
		ok := len(calls) == 1 && nRet > 0 && whole[calls[0]]
		why := ""
		switch {
		case len(calls) != 1:
			why = fmt.Sprintf("%d calls of the filter constructor in the chain builder", len(calls))
		case !ok:
			why = "the filter is not part of the returned chain on every path (conditional or dropped)"
		}
		if r == "RequestInfo" && ok && len(calls) == 1 && calls[0].Call.StaticCallee() == nil && !reqInfoGlobalOK {
			ok, why = false, reqInfoWhy
		}
		pos := chain.Pos()
		if len(calls) > 0 {
			pos = calls[0].Pos()
		}
		c.Check("R1", chain, "filter "+r+" wraps every request exactly once", pos, ok, "each identity filter must be in the returned handler chain unconditionally"+c02Found(why))
		if len(calls) == 1 {
			the[r] = calls[0]
		}
	}
	type edge struct{ outer, inner, reason string }
	for _, e := range []edge{
		{"Authentication", "Impersonation", "the impersonation filter authorises as request.UserFrom(ctx), which WithAuthentication stores"},
		{"Impersonation", "Dispatcher", "the dispatcher's transports impersonate request.UserFrom(ctx), which the impersonation filter replaces after authorisation"},
		{"UpstreamInfo", "Authentication", "the token/SAR webhooks ask the cluster named by ExtraRequestInfo (C12); unknown clusters are answered 503 before any credential is examined"},
		{"ExtraRequestInfo", "UpstreamInfo", "WithUpstreamInfo reads the ExtraRequestInfo that WithExtraRequestInfo attaches"},
		{"RequestInfo", "ExtraRequestInfo", "NewExtraRequestInfo needs the RequestInfo that WithRequestInfo attaches (else it answers 500)"},
	} {
		o, i := the[e.outer], the[e.inner]
		ok := o != nil && i != nil && innerOf[o][i]
		pos := chain.Pos()
		if o != nil {
			pos = o.Pos()
		}
		c.Check("R1", chain, e.outer+" outside "+e.inner, pos, ok, e.reason)
	}
}

// c02RequestInfoAlias checks that the package variable gatewayfilters.WithRequestInfo is the
// generic WithRequestInfo and is never reassigned.
func c02RequestInfoAlias(c *eng.Ctx) (bool, string) {
	n, ok := 0, true
	why := ""
	for _, fn := range c.W.AllRepoFuncs() {
		eng.Instrs(fn, func(ins ssa.Instruction) {
			st, isSt := ins.(*ssa.Store)
			if !isSt {
				return
			}
			g, isG := st.Addr.(*ssa.Global)
			if !isG || g.Pkg == nil || g.Pkg.Pkg.Path() != pkgFilters || g.Name() != "WithRequestInfo" {
				return
			}
			n++
			f, isF := st.Val.(*ssa.Function)
			if !isF || f.Pkg == nil || f.Pkg.Pkg.Path() != c02PkgGenFilters || f.Name() != "WithRequestInfo" || fn.Synthetic == "" {
				ok = false
				why = "filters.WithRequestInfo is assigned in " + eng.FuncName(fn) + " with something else than the generic WithRequestInfo"
			}
		})
	}
	if n == 0 {
		return false, "filters.WithRequestInfo is never initialised"
	}
	return ok, why
}

// ---------------------------------------------------------------------------------------
// R2 every impersonation is authorised
//
// The rule is stated over the filter's handler closure, but its constructs may sit in helpers
// of the closure's Region (the Authorize call behind a named predicate, the forward behind a
// shared "strip and serve" tail, the attribute record filled by a helper). Every construct is
// therefore looked up in the Region, lifted to the instruction of the closure under which it
// executes (SitesUp), and every value of a helper is related to the closure's values through
// the complete list of the helper's call sites (UpVals / UpChains).

// c02Handler is the body a filter constructor turns into its http.Handler: a func(w, req)
// literal (which captures the constructor's parameters), a method value `f.serve`, or the
// ServeHTTP method of an object the constructor builds (whose fields then hold what the
// literal captured).
type c02Handler struct {
	fn   *ssa.Function
	req  *ssa.Parameter
	recv *ssa.Alloc // the receiver object built by the constructor (nil for a literal)
}

// c02FindHandler resolves what constructor `outer` returns to its handler body.
func c02FindHandler(c *eng.Ctx, outer *ssa.Function) *c02Handler {
	var found []*c02Handler
	add := func(fn *ssa.Function, recv *ssa.Alloc) {
		if fn == nil || fn.Blocks == nil {
			return
		}
		n := len(fn.Params)
		if n < 2 || eng.TypeName(fn.Params[n-2].Type()) != "net/http.ResponseWriter" || !c02IsRequestPtr(fn.Params[n-1].Type()) {
			return
		}
		for _, h := range found {
			if h.fn == fn {
				return
			}
		}
		found = append(found, &c02Handler{fn: fn, req: fn.Params[n-1], recv: recv})
	}
	eng.Instrs(outer, func(ins ssa.Instruction) {
		r, ok := ins.(*ssa.Return)
		if !ok || len(r.Results) != 1 || r.Block() == outer.Recover {
			return
		}
		for _, l := range c.Slicer().Leaves(r.Results[0], func(v ssa.Value) bool {
			switch v.(type) {
			case *ssa.MakeClosure, *ssa.Alloc, *ssa.Function:
				return true
			}
			return false
		}) {
			switch n := l.(type) {
			case *ssa.Function:
				add(n, nil)
			case *ssa.MakeClosure:
				fn, _ := n.Fn.(*ssa.Function)
				if fn != nil && fn.Synthetic != "" && len(n.Bindings) == 1 {
					recv, _ := c.W.ResolveCtx(n.Bindings[0], nil, false).V.(*ssa.Alloc)
					add(c.W.FuncOfValue(n), recv)
				} else {
					add(fn, nil)
				}
			case *ssa.Alloc:
				pt, _ := n.Type().Underlying().(*types.Pointer)
				if pt == nil {
					continue
				}
				if named, isNamed := pt.Elem().(*types.Named); isNamed {
					add(c.W.DeclaredMethod(named, "ServeHTTP"), n)
				}
			}
		}
	})
	if len(found) != 1 {
		return nil
	}
	return found[0]
}

// leaves returns the leaves of v's slice in calling context ch; a load of a field of the
// handler's receiver object is continued in what the constructor stored into that field
// (the variable the literal would have captured).
func (h *c02Handler) leaves(c *eng.Ctx, ch eng.UpChain, v ssa.Value) []ssa.Value {
	sl := c.Slicer()
	if h.recv == nil || h.fn.Signature.Recv() == nil {
		return ch.Leaves(sl, v, nil)
	}
	field := func(x ssa.Value) (int, bool) {
		ld, ok := x.(*ssa.UnOp)
		if !ok || ld.Op != token.MUL {
			return 0, false
		}
		fa, ok := ld.X.(*ssa.FieldAddr)
		if !ok || c.W.ResolveUp(fa.X) != ssa.Value(h.fn.Params[0]) {
			return 0, false
		}
		return fa.Field, true
	}
	var out []ssa.Value
	for _, l := range ch.Leaves(sl, v, func(x ssa.Value) bool { _, ok := field(x); return ok }) {
		if f, ok := field(l); ok {
			if sv := eng.SingleFieldStoreOf(h.recv, f); sv != nil {
				out = append(out, sl.Leaves(sv, nil)...)
				continue
			}
		}
		out = append(out, l)
	}
	return out
}

// c02Forward is one place of the filter's handler from which the wrapped handler runs.
type c02Forward struct {
	site ssa.Instruction     // instruction of the handler closure under which the call executes
	call ssa.CallInstruction // the ServeHTTP invocation itself (== site when it sits in the handler)
}

// c02Forwards returns the invocations of the handler that filter constructor `outer` wraps (its
// first parameter) made by handler closure cl or by a helper of its Region, one entry per site
// in cl (a ServeHTTP call in a helper shared by two paths of the closure counts twice).
func c02Forwards(c *eng.Ctx, h *c02Handler, outer *ssa.Function) []c02Forward {
	if len(outer.Params) == 0 || !c02IsHandlerType(outer.Params[0].Type()) {
		return nil
	}
	cl := h.fn
	stop := func(f *ssa.Function) bool { return f == cl }
	var out []c02Forward
	for _, fn := range c.W.Region(cl) {
		for _, ci := range eng.CallsTo(fn, c02ServeHTTP) {
			ok := true
			for _, ch := range c.W.UpChains(fn, stop) {
				ls := h.leaves(c, ch, eng.Receiver(ci))
				if len(ls) == 0 {
					ok = false
				}
				for _, l := range ls {
					if l != ssa.Value(outer.Params[0]) {
						ok = false
					}
				}
			}
			if !ok {
				continue
			}
			for _, s := range c.W.SitesUp(cl, ci) {
				out = append(out, c02Forward{s, ci})
			}
		}
	}
	sort.SliceStable(out, func(i, j int) bool { return c02Before(cl, out[i].site, out[j].site) })
	return out
}

// c02Before orders instructions canonically: those of fn first, in block order.
func c02Before(fn *ssa.Function, a, b ssa.Instruction) bool {
	ka, kb := c02OrderKey(fn, a), c02OrderKey(fn, b)
	for i := range ka {
		if ka[i] != kb[i] {
			return ka[i] < kb[i]
		}
	}
	return false
}

func c02OrderKey(fn *ssa.Function, a ssa.Instruction) [3]int {
	k := [3]int{1, 0, 0}
	if a.Parent() == fn {
		k[0] = 0
	}
	if a.Block() != nil {
		k[1] = a.Block().Index
		k[2] = eng.InstrIndex(a)
	}
	return k
}

// c02ParseCall finds the call that turns the client's impersonation headers into the list of
// requested identities: buildImpersonationRequests, or — should it be renamed — the only call
// in the handler's Region of a function of the filters package that takes the request's header
// and returns (list, error).
func c02ParseCall(c *eng.Ctx, region []*ssa.Function) ([]*ssa.Call, string) {
	var named, byRole []*ssa.Call
	for _, fn := range region {
		for _, ci := range eng.Calls(fn) {
			call, ok := ci.(*ssa.Call)
			if !ok {
				continue
			}
			g := call.Call.StaticCallee()
			if g == nil || g.Pkg == nil || g.Pkg.Pkg.Path() != pkgFilters {
				continue
			}
			if g.Name() == "buildImpersonationRequests" {
				named = append(named, call)
				continue
			}
			res := g.Signature.Results()
			if res.Len() != 2 || eng.TypeName(res.At(1).Type()) != "error" || len(call.Call.Args) != 1 || !c02RealVocab.isHeader(call.Call.Args[0].Type()) {
				continue
			}
			if sl, isSl := res.At(0).Type().Underlying().(*types.Slice); isSl && eng.TypeName(sl.Elem()) == "k8s.io/api/core/v1.ObjectReference" {
				byRole = append(byRole, call)
			}
		}
	}
	if len(named) > 0 {
		return named, "buildImpersonationRequests"
	}
	return byRole, "the header parser"
}

func c02R2(c *eng.Ctx, filter *ssa.Function, hd *c02Handler) {
	cl := hd.fn
	req := ssa.Value(hd.req)
	region := c.W.Region(cl)
	allUp := func(v ssa.Value, pred func(ssa.Value) bool) bool {
		vs := c.W.UpVals(v)
		for _, x := range vs {
			if !pred(x) {
				return false
			}
		}
		return len(vs) > 0
	}
	isReqRooted := func(v ssa.Value) bool {
		r := c02RootsUp(c.W, v)
		return len(r) == 1 && r[req]
	}
	isReqCtx := func(v ssa.Value) bool {
		return allUp(v, func(x ssa.Value) bool {
			cc, _ := eng.CallResultOf(x)
			if cc == nil || !eng.IsCall(cc, c02ReqContext) {
				return false
			}
			r := c02CtxRootsUp(c.W, cc.Call.Args[0])
			return len(r) == 1 && r[req]
		})
	}

	builds, parserName := c02ParseCall(c, region)
	if len(builds) != 1 {
		c.Fail("R2", cl, "single buildImpersonationRequests", cl.Pos(), fmt.Sprintf("expected one call, found %d", len(builds)))
		return
	}
	bc := builds[0]
	if bc.Parent() != cl {
		c.Undecided("R2", cl, "single buildImpersonationRequests", bc.Pos(), "the impersonation headers are parsed outside the filter's handler closure (in "+eng.FuncName(bc.Parent())+"); the list the authorisation loop ranges over cannot be related to the parse for this shape")
		return
	}
	isReqs := func(v ssa.Value) bool { cc, i := eng.CallResultOf(v); return cc == bc && i == 0 }
	isBuildErr := func(v ssa.Value) bool { cc, i := eng.CallResultOf(v); return cc == bc && i == 1 }
	{
		a := eng.Args(bc)
		ok := len(a) == 1 && isReqRooted(a[0])
		c.Check("R2", cl, "requests parsed from this request's header", bc.Pos(), ok, parserName+" must read the header of the request being served")
	}

	nexts := c02Forwards(c, hd, filter)
	fwdCall := map[ssa.Instruction]bool{}
	for _, x := range nexts {
		fwdCall[x.call] = true
	}
	// the context user is swapped by request.WithUser, wherever in the Region it is called
	type c02Swap struct {
		site ssa.Instruction
		call ssa.CallInstruction
	}
	var withUsers []c02Swap
	for _, fn := range region {
		for _, wu := range eng.CallsTo(fn, c02WithUser) {
			sites := c.W.SitesUp(cl, wu)
			if len(sites) == 0 {
				sites = []ssa.Instruction{wu} // callers unknown: judged where it stands (fails the position checks)
			}
			for _, s := range sites {
				withUsers = append(withUsers, c02Swap{s, wu})
			}
		}
	}
	sort.SliceStable(withUsers, func(i, j int) bool { return c02Before(cl, withUsers[i].site, withUsers[j].site) })
	// a call of a helper in which a forward / a swap of the user is reachable counts as one
	isForward := eng.LiftMay(func(ins ssa.Instruction) bool {
		return fwdCall[ins] || eng.IsCall(ins, c02WithUser)
	})
	// a call of a helper that writes an error response on every path counts as a responder
	isResponder := eng.LiftMust(func(ins ssa.Instruction) bool {
		ci, ok := ins.(*ssa.Call)
		if !ok {
			return false
		}
		o := eng.CalleeObj(ci)
		if o == nil || o.Pkg() == nil {
			return false
		}
		switch o.Pkg().Path() {
		case c02PkgRespWr:
			return o.Name() == "Forbidden" || o.Name() == "InternalError" || o.Name() == "ErrorNegotiated"
		case pkgResponse:
			return o.Name() == "TerminateWithError"
		}
		return false
	})
	// respondedBy: boolean v having value b shows that an error response was written — v is the
	// result of a helper that answers the request on every path on which it yields b (the
	// "handled" flag of a block that was extracted together with its early return)
	respondedBy := func(v ssa.Value, b bool) bool {
		call, idx := eng.CallResultOf(v)
		if call == nil {
			return false
		}
		g := call.Call.StaticCallee()
		if g == nil || !eng.Analysable(g) {
			return false
		}
		if idx < 0 {
			idx = 0
		}
		if res := g.Signature.Results(); idx >= res.Len() || !types.Identical(res.At(idx).Type().Underlying(), types.Typ[types.Bool]) {
			return false
		}
		n, ok := 0, true
		eng.Instrs(g, func(ins ssa.Instruction) {
			r, isRet := ins.(*ssa.Return)
			if !isRet || r.Block() == g.Recover {
				return
			}
			if vals := eng.ReturnResults(r); idx >= len(vals) || eng.IsBoolConst(vals[idx], !b) {
				return
			}
			n++
			if !eng.AlwaysBefore(g, r, isResponder) {
				ok = false
			}
		})
		return ok && n > 0
	}
	responded := func(b *ssa.BasicBlock) bool {
		if len(b.Instrs) == 0 {
			return false
		}
		for _, r := range eng.RelsAt(b.Instrs[0]) {
			if r.Op != token.EQL && r.Op != token.NEQ {
				continue
			}
			for _, val := range []bool{true, false} {
				if eng.IsBoolConst(r.Y, val) && respondedBy(r.X, val == (r.Op == token.EQL)) {
					return true
				}
			}
		}
		return false
	}
	// refused(b): from b on the request is answered by the gateway and neither forwarded nor
	// re-identified. When b sits in a helper of the handler (the extracted authorisation loop)
	// the search continues behind the helper's call, under what the return statement taken
	// tells the caller (`return "", nil, false` makes the caller's `if !ok { return }` certain).
	var refusedAfter func(site ssa.Instruction, assume eng.BoolFacts, answered bool, depth int) string
	continueInCaller := func(fn *ssa.Function, rets []*ssa.Return, open map[*ssa.Return]bool, depth int) string {
		if fn == cl || len(rets) == 0 {
			return ""
		}
		sites := c.W.GuardSites(fn)
		if len(sites) == 0 || depth <= 0 {
			return "the refusal happens in " + eng.FuncName(fn) + ", whose callers are not all known"
		}
		for _, site := range sites {
			call, isCall := site.(*ssa.Call)
			if !isCall || call.Call.StaticCallee() != fn {
				return "the refusal happens in " + eng.FuncName(fn) + ", which does not run as a plain call"
			}
			for _, r := range rets {
				if w := refusedAfter(call, eng.ReturnAssumptions(call, r), !open[r], depth-1); w != "" {
					return w
				}
			}
		}
		return ""
	}
	// returnsFrom: the returns of the function reachable by a search, and those among them reachable without a responder
	returnsOf := func(reach func(q eng.PathQuery) ssa.Instruction, fn *ssa.Function) (all []*ssa.Return, open map[*ssa.Return]bool) {
		open = map[*ssa.Return]bool{}
		eng.Instrs(fn, func(ins ssa.Instruction) {
			r, isRet := ins.(*ssa.Return)
			if !isRet || r.Block() == fn.Recover {
				return
			}
			is := func(i ssa.Instruction) bool { return i == ssa.Instruction(r) }
			if reach(eng.PathQuery{Target: is}) != nil {
				all = append(all, r)
				if reach(eng.PathQuery{Target: is, Avoid: isResponder}) != nil {
					open[r] = true
				}
			}
		})
		return all, open
	}
	refusedAfter = func(site ssa.Instruction, assume eng.BoolFacts, answered bool, depth int) string {
		fn := site.Parent()
		fq := func(q eng.PathQuery) ssa.Instruction {
			return eng.FactReachAfter(site, eng.FactQuery{Assume: assume, Avoid: q.Avoid,
				Target: func(i ssa.Instruction, _ eng.KnownFn) bool { return q.Target(i) }})
		}
		if fq(eng.PathQuery{Target: isForward}) != nil {
			return "the next handler / WithUser is reachable after the refusal"
		}
		if fn == cl {
			if !answered && fq(eng.PathQuery{Target: eng.IsExit, Avoid: isResponder}) != nil {
				return "a path returns without writing an error response"
			}
			return ""
		}
		rets, open := returnsOf(fq, fn)
		if answered {
			open = map[*ssa.Return]bool{}
		}
		return continueInCaller(fn, rets, open, depth)
	}
	refused := func(b *ssa.BasicBlock) string {
		fn := b.Parent()
		from := func(q eng.PathQuery) ssa.Instruction { return eng.ReachFromBlock(b, q) }
		if from(eng.PathQuery{Target: isForward}) != nil {
			return "the next handler / WithUser is reachable after the refusal"
		}
		answered := responded(b)
		if fn == cl {
			if !answered && from(eng.PathQuery{Target: eng.IsExit, Avoid: isResponder}) != nil {
				return "a path returns without writing an error response"
			}
			return ""
		}
		rets, open := returnsOf(from, fn)
		if answered {
			open = map[*ssa.Return]bool{}
		}
		return continueInCaller(fn, rets, open, eng.LiftDepth)
	}

	// (1) malformed impersonation headers are answered by the gateway
	{
		// the edges on which the parse error is known to be non-nil: `err != nil` itself, or a
		// condition that implies it (a named condition, a helper testing the error it is handed)
		succs := c02EdgesWhere(cl, func(r eng.Rel) bool {
			return r.Op == token.NEQ && ((eng.IsNilConst(r.Y) && isBuildErr(r.X)) || (eng.IsNilConst(r.X) && isBuildErr(r.Y)))
		})
		why := ""
		if len(succs) == 0 {
			why = "the error of " + parserName + " is never tested"
		}
		for _, s := range succs {
			if w := refused(s); w != "" {
				why = w
			}
		}
		c.Check("R2", cl, "malformed impersonation ⇒ answered, not forwarded", bc.Pos(), why == "", "on the err != nil edge of "+parserName+" the filter must write an error and return"+c02Found(why))
	}

	// (1b) nothing is forwarded without having been parsed: the parse is the only place that
	// recognises a malformed header combination, so every forward lies behind it
	for i, nx := range nexts {
		ok := eng.AlwaysBefore(nx.site.Parent(), nx.site, func(ins ssa.Instruction) bool { return ins == ssa.Instruction(bc) })
		c.Check("R2", cl, fmt.Sprintf("forward#%d only after the impersonation headers were parsed", i+1), nx.site.Pos(), ok,
			"a path reaches the next handler without "+parserName+": a malformed impersonation (groups/extras without a user) on that path is forwarded instead of being answered")
	}

	// (2) the authorisation loop
	var auths []*ssa.Call
	for _, fn := range region {
		for _, ci := range eng.CallsTo(fn, c02Authorize) {
			if call, ok := ci.(*ssa.Call); ok {
				auths = append(auths, call)
			}
		}
	}
	if len(auths) != 1 {
		// the accepted idiom is one Authorize call per element (in the loop or in a helper the loop calls); a
		// refactor that splits it per kind is a shape this rule does not classify (fails closed)
		c.Undecided("R2", cl, "single Authorize in the loop", cl.Pos(), fmt.Sprintf("expected exactly one Authorize call in the filter's handler (or a helper of it), found %d; the per-iteration authorisation facts cannot be established for this shape", len(auths)))
		return
	}
	A := auths[0]
	isA := func(ins ssa.Instruction) bool { return ins == ssa.Instruction(A) }
	// L: the instruction under which Authorize executes in the function that holds the loop over
	// the requests — A itself, or the call of the helper holding it. The loop normally sits in
	// the handler; when the whole loop was extracted, LF is that helper and S its call in the handler.
	var L ssa.Instruction = A
	for i := 0; i <= eng.LiftDepth && len(c02SCC(L.Block())) == 0 && L.Parent() != cl; i++ {
		sites := c.W.GuardSites(L.Parent())
		if len(sites) != 1 {
			c.Undecided("R2", cl, "single Authorize in the loop", A.Pos(), fmt.Sprintf("Authorize sits in helper %s which is reached through %d sites; the per-iteration authorisation facts cannot be established for this shape", eng.FuncName(L.Parent()), len(sites)))
			return
		}
		L = sites[0]
	}
	LF := L.Parent()
	var S ssa.Instruction // the call in the handler under which the loop runs (nil: the loop is in the handler)
	if LF != cl {
		sites := c.W.SitesUp(cl, L)
		if len(sites) != 1 || sites[0].Parent() != cl {
			c.Undecided("R2", cl, "single Authorize in the loop", A.Pos(), fmt.Sprintf("the authorisation loop sits in %s which the filter's handler reaches through %d sites; the per-iteration authorisation facts cannot be established for this shape", eng.FuncName(LF), len(sites)))
			return
		}
		S = sites[0]
	}
	chainsA := c.W.UpChains(A.Parent(), func(f *ssa.Function) bool { return f == cl })
	{
		// the authorizer is the one handed to the filter constructor
		ok := true
		for _, ch := range chainsA {
			ls := hd.leaves(c, ch, eng.Receiver(A))
			if len(ls) == 0 {
				ok = false
			}
			for _, l := range ls {
				p, isP := l.(*ssa.Parameter)
				if !isP || p.Parent() != filter {
					ok = false
				}
			}
		}
		c.Check("R2", cl, "Authorize on the filter's authorizer", A.Pos(), ok, "the authorizer consulted is the one the chain builder passed (the multi-cluster SAR authorizer, C12)")
	}
	scc := c02SCC(L.Block())
	hs := c02LoopHeaders(scc)
	if len(scc) == 0 || len(hs) != 1 {
		c.Fail("R2", cl, "Authorize inside the loop over the impersonation requests", A.Pos(), "Authorize is not inside a single-entry loop")
		return
	}
	H := hs[0]
	allow, okAllow := c02ConstInt(c, c02PkgAuthorizer, "DecisionAllow")
	if !okAllow {
		c.Fail("engine", nil, "unresolved-anchor const authorizer.DecisionAllow", 0, "constant not found")
	}
	// a value is result #idx of this Authorize call: the Extract itself, or what a helper on the way hands on unchanged
	resOfA := func(v ssa.Value, idx int) bool {
		if cc, i := eng.CallResultOf(v); cc == A {
			return i == idx
		}
		ls := c.W.CtxLeaves(v, nil, func(x ssa.Value) bool { cc, _ := eng.CallResultOf(x); return cc == A }, eng.LiftDepth, false)
		for _, l := range ls {
			if cc, i := eng.CallResultOf(l.V); cc != A || i != idx {
				return false
			}
		}
		return len(ls) > 0
	}
	errV := func(v ssa.Value) bool { return resOfA(v, 2) }
	decV := func(v ssa.Value) bool { return resOfA(v, 0) }

	// (2a) the loop visits every request and every iteration passes Authorize
	{
		why := ""
		var idx ssa.Value
		if iff, ok := H.Instrs[len(H.Instrs)-1].(*ssa.If); ok {
			r := eng.RelOf(iff.Cond, true)
			ln := c02IsBuiltin(r.Y, "len")
			if r.Op == token.LSS && ln != nil && allUp(ln.Call.Args[0], isReqs) && scc[H.Succs[0]] && !scc[H.Succs[1]] {
				idx = r.X
			}
		}
		if idx == nil {
			why = "the loop containing Authorize is not `for … range <result of " + parserName + ">`"
		} else {
			// the index visits 0..len-1 in steps of one: either the range lowering
			// idx = phi(-1, idx) + 1, or the classic  i = phi(0, i+1)
			okStep := false
			stepOf := func(phi *ssa.Phi, start int64, next func(e ssa.Value) bool) bool {
				if phi.Block() != H {
					return false
				}
				starts := 0
				for _, e := range phi.Edges {
					if k, isK := eng.IntConst(e); isK && k == start {
						starts++
						continue
					}
					if !next(e) {
						return false
					}
				}
				return starts == 1
			}
			plusOne := func(v ssa.Value, of ssa.Value) bool {
				add, ok := v.(*ssa.BinOp)
				if !ok || add.Op != token.ADD {
					return false
				}
				one, isOne := eng.IntConst(add.Y)
				return isOne && one == 1 && add.X == of
			}
			switch x := idx.(type) {
			case *ssa.BinOp:
				if phi, isPhi := x.X.(*ssa.Phi); isPhi && plusOne(x, phi) {
					okStep = stepOf(phi, -1, func(e ssa.Value) bool { return e == idx })
				}
			case *ssa.Phi:
				okStep = stepOf(x, 0, func(e ssa.Value) bool { return plusOne(e, x) })
			}
			if !okStep {
				why = "the loop index does not visit every element once"
			}
		}
		if why == "" && L != ssa.Instruction(A) && !eng.LiftMust(isA)(L) {
			why = "the helper " + eng.FuncName(A.Parent()) + " called in the loop has a path that returns without calling Authorize"
		}
		if why == "" && L.Block() != H {
			// a cycle through the loop that avoids Authorize's block = an element accepted unauthorised
			seen := map[*ssa.BasicBlock]bool{}
			work := []*ssa.BasicBlock{}
			for _, s := range H.Succs {
				if scc[s] && s != L.Block() {
					work = append(work, s)
				}
			}
			for len(work) > 0 && why == "" {
				x := work[len(work)-1]
				work = work[:len(work)-1]
				if x == H {
					why = "an iteration can reach the next element without passing Authorize (continue before the check)"
					break
				}
				if seen[x] {
					continue
				}
				seen[x] = true
				for _, s := range x.Succs {
					if scc[s] && s != L.Block() {
						work = append(work, s)
					}
				}
			}
		}
		c.Check("R2", cl, "every requested identity passes Authorize", A.Pos(), why == "", "each element of the impersonation request list must be authorised in its own iteration"+c02Found(why))
	}

	// (2b) staying in the loop implies err == nil and decision == Allow. The facts of an edge are
	// those its condition implies, through named conditions (`allowed := err == nil && …`), De
	// Morgan forms, and the ok flag / error result of a helper that wraps the Authorize call.
	{
		atHeader := func(ins ssa.Instruction) bool { return ins.Block() == H && ins == H.Instrs[0] }
		cut := func(match func(eng.Rel) bool) func(from *ssa.BasicBlock, si int) bool {
			memo := map[[2]int]bool{}
			return func(from *ssa.BasicBlock, si int) bool {
				iff, ok := from.Instrs[len(from.Instrs)-1].(*ssa.If)
				if !ok || !scc[from] {
					return false
				}
				k := [2]int{from.Index, si}
				if r, seen := memo[k]; seen {
					return r
				}
				res := match(eng.RelOf(iff.Cond, si == 0))
				if !res {
					for _, f := range eng.EdgeFactsDeep(from, si) {
						if match(eng.Rel{Op: f.Rel.Op, X: f.X(), Y: f.Y()}) {
							res = true
							break
						}
					}
				}
				memo[k] = res
				return res
			}
		}
		errNil := func(r eng.Rel) bool {
			return r.Op == token.EQL && ((eng.IsNilConst(r.Y) && errV(r.X)) || (eng.IsNilConst(r.X) && errV(r.Y)))
		}
		isAllow := func(v ssa.Value) bool { k, ok := eng.IntConst(v); return ok && okAllow && k == allow }
		decAllow := func(r eng.Rel) bool {
			return r.Op == token.EQL && ((isAllow(r.Y) && decV(r.X)) || (isAllow(r.X) && decV(r.Y)))
		}
		avoidL := func(ins ssa.Instruction) bool { return ins == L }
		x1 := eng.ReachAfter(L, eng.PathQuery{Target: atHeader, Avoid: avoidL, BlockEdge: cut(errNil)})
		c.Check("R2", cl, "next element only if Authorize returned no error", A.Pos(), x1 == nil, "the loop may continue only through the err == nil edge of this Authorize call; otherwise an authorizer outage lets the impersonation through")
		x2 := eng.ReachAfter(L, eng.PathQuery{Target: atHeader, Avoid: avoidL, BlockEdge: cut(decAllow)})
		c.Check("R2", cl, "next element only if decision == DecisionAllow", A.Pos(), x2 == nil, "the loop may continue only through the decision == DecisionAllow edge (equality with that constant: NoOpinion is refused); e.g. testing decision == DecisionDeny as the refusal lets NoOpinion impersonate")
	}

	// (2c) every other way out of the loop is a refusal
	{
		why := ""
		for b := range scc {
			if b == H {
				continue
			}
			for _, s := range b.Succs {
				if !scc[s] {
					if w := refused(s); w != "" {
						why = w
					}
				}
			}
		}
		c.Check("R2", cl, "leaving the loop early ⇒ answered, not forwarded", A.Pos(), why == "", "a denied, failed or unknown-kind impersonation request must end in an error response and return (also no break to the code after the loop)"+c02Found(why))
	}

	// (2d) what is authorised: this element, as the authenticated user, for this request's cluster
	{
		isAttrs := func(v ssa.Value) bool {
			a, ok := v.(*ssa.Alloc)
			return ok && eng.TypeName(a.Type().(*types.Pointer).Elem()) == c02TAttrs
		}
		recs := map[ssa.Value]bool{}
		if a := eng.Args(A); len(a) == 2 {
			for _, l := range c02LeavesUpStop(c, a[1], isAttrs) {
				if isAttrs(l) {
					recs[l] = true
				}
			}
			c.Check("R2", cl, "Authorize(ctx of this request)", A.Pos(), isReqCtx(a[0]), "the authorizer finds the target cluster in the request's context (ExtraRequestInfo); another context asks another cluster")
		}
		stores := map[string][]*ssa.Store{}
		for _, f := range []string{"User", "Verb", "Name"} {
			for _, st := range eng.StoresToField(region, c02TAttrs, f) {
				for _, b := range c.W.UpVals(st.Addr.(*ssa.FieldAddr).X) {
					if recs[b] {
						stores[f] = append(stores[f], st)
						break
					}
				}
			}
		}
		okUser := len(stores["User"]) > 0
		for _, st := range stores["User"] {
			if !allUp(st.Val, func(x ssa.Value) bool {
				cc, i := eng.CallResultOf(x)
				return cc != nil && i == 0 && eng.IsCall(cc, c02UserFrom) && isReqCtx(cc.Call.Args[0])
			}) {
				okUser = false
			}
		}
		c.Check("R2", cl, "attributes.User = authenticated user", A.Pos(), okUser, "the permission to impersonate is checked for request.UserFrom(req.Context()), the identity WithAuthentication established")
		okVerb := len(stores["Verb"]) > 0
		for _, st := range stores["Verb"] {
			if !allUp(st.Val, func(x ssa.Value) bool { s, ok := eng.StringConst(x); return ok && s == "impersonate" }) {
				okVerb = false
			}
		}
		c.Check("R2", cl, "attributes.Verb = impersonate", A.Pos(), okVerb, "")
		okName := len(stores["Name"]) > 0
		for _, st := range stores["Name"] {
			n := 0
			for _, l := range c02LeavesThroughMaps(c, st.Val, isReqs) {
				switch {
				case isReqs(l):
					n++
				default:
					if _, isCall := l.(*ssa.Call); !isCall { // calls handed the element's address are expanded into their operands
						okName = false
					}
				}
			}
			if n == 0 {
				okName = false
			}
		}
		c.Check("R2", cl, "attributes.Name = the element being authorised", A.Pos(), okName, "the name authorised must be the name of the impersonation request of this iteration")
	}

	// (2e) the context user is swapped only after the loop, and only when something was requested
	if len(withUsers) == 0 {
		c.Fail("R2", cl, "WithUser only after the authorisation loop", cl.Pos(), "the filter never installs the impersonated user")
	}
	isInfo := func(v ssa.Value) bool {
		a, ok := v.(*ssa.Alloc)
		return ok && eng.TypeName(a.Type().(*types.Pointer).Elem()) == c02TDefaultInfo
	}
	for k, wu := range withUsers {
		why := ""
		// where the swap stands relative to the loop: judged in the function that holds the loop
		// when the swap runs as part of it, otherwise in the handler relative to the call S of
		// the function holding the loop
		pos := wu.site
		if LF != cl && c.W.OwnedBy(wu.call.Parent(), LF) {
			if ls := c.W.SitesUp(LF, wu.call); len(ls) == 1 && ls[0].Parent() == LF {
				pos = ls[0]
			}
		}
		afterLoop := ""
		switch {
		case pos.Parent() == LF:
			if scc[pos.Block()] {
				afterLoop = "WithUser inside the authorisation loop"
			} else if !H.Dominates(pos.Block()) {
				afterLoop = "WithUser reachable without entering the authorisation loop"
			}
		case S != nil && pos.Parent() == cl:
			isS := func(i ssa.Instruction) bool { return i == S }
			if !eng.AlwaysBefore(cl, pos, isS) {
				afterLoop = "WithUser reachable without entering the authorisation loop"
				break
			}
			// not after a return of the loop's function that did not go through the loop
			eng.Instrs(LF, func(ins ssa.Instruction) {
				r, isRet := ins.(*ssa.Return)
				if !isRet || r.Block() == LF.Recover || H.Dominates(r.Block()) {
					return
				}
				if call, isCall := S.(*ssa.Call); isCall {
					if eng.FactReachAfter(S, eng.FactQuery{Assume: eng.ReturnAssumptions(call, r),
						Target: func(i ssa.Instruction, _ eng.KnownFn) bool { return i == pos }}) != nil {
						afterLoop = "WithUser reachable without entering the authorisation loop"
					}
				}
			})
		default:
			afterLoop = "WithUser runs in " + eng.FuncName(pos.Parent()) + ", whose callers are not all in the filter's handler"
		}
		switch {
		case afterLoop != "":
			why = afterLoop
		case !eng.GuardedBy(wu.site, func(r eng.Rel) bool {
			r = eng.NormRel(r)
			ln := c02IsBuiltin(r.X, "len")
			z, isZ := eng.IntConst(r.Y)
			return ln != nil && allUp(ln.Call.Args[0], isReqs) && isZ && z == 0 && (r.Op == token.NEQ || r.Op == token.GTR)
		}):
			why = "WithUser not guarded by len(requests) != 0 (an empty loop would install an empty user)"
		case !isReqCtx(eng.Args(wu.call)[0]):
			why = "the new user is attached to a context that is not this request's"
		}
		c.Check("R2", cl, fmt.Sprintf("WithUser#%d only after the authorisation loop", k+1), wu.call.Pos(), why == "", "the identity is replaced only when every requested element was authorised"+c02Found(why))

		// (2f) the new identity consists of authorised elements only
		infos := map[ssa.Value]bool{}
		for _, l := range c02LeavesUpStop(c, eng.Args(wu.call)[1], isInfo) {
			if isInfo(l) {
				infos[l] = true
			}
		}
		for _, f := range []string{"Name", "Groups", "Extra"} {
			n, bad := 0, ""
			for _, st := range eng.StoresToField(region, c02TDefaultInfo, f) {
				mine := false
				for _, b := range c.W.UpVals(st.Addr.(*ssa.FieldAddr).X) {
					mine = mine || infos[b]
				}
				if !mine {
					continue
				}
				n++
				for _, l := range c02LeavesThroughMaps(c, st.Val, isReqs) {
					switch x := l.(type) {
					case *ssa.Parameter, *ssa.FreeVar, *ssa.Global:
						bad = "derives from " + c02Describe(x)
					}
				}
			}
			if n == 0 {
				bad = "field never set"
			}
			c.Check("R2", cl, fmt.Sprintf("WithUser#%d new user.%s from authorised elements only", k+1, f), wu.call.Pos(), bad == "", "the impersonated identity must be assembled from the elements that went through the loop (and constants), never from the raw request or the requestor"+c02Found(bad))
		}
	}
}

// c02LeavesThroughMaps returns the leaves of v's slice with data dependence through calls
// that are not followed into their callee (their operands stand for them), through the
// results of same-repository helpers (what they return, in the context of the call), through
// parameters of extracted helpers (what the call sites pass) and through maps made on the way
// (what is stored into them: m[k] = x).
func c02LeavesThroughMaps(c *eng.Ctx, v ssa.Value, stop func(ssa.Value) bool) []ssa.Value {
	type key struct {
		v  ssa.Value
		fr *eng.DFrame
	}
	var out []ssa.Value
	seen := map[key]bool{}
	listed := map[ssa.Value]bool{}
	var visit func(v ssa.Value, fr *eng.DFrame)
	visit = func(v ssa.Value, fr *eng.DFrame) {
		for _, l := range c.W.CtxLeavesArgs(v, fr, stop, c.Depth+1, true) {
			if seen[key{l.V, l.Fr}] {
				continue
			}
			seen[key{l.V, l.Fr}] = true
			if !listed[l.V] {
				listed[l.V] = true
				out = append(out, l.V)
			}
			if mm, ok := l.V.(*ssa.MakeMap); ok && mm.Referrers() != nil && (stop == nil || !stop(l.V)) {
				for _, r := range *mm.Referrers() {
					if mu, ok := r.(*ssa.MapUpdate); ok && mu.Map == ssa.Value(mm) {
						visit(mu.Key, l.Fr)
						visit(mu.Value, l.Fr)
					}
				}
			}
		}
	}
	visit(v, nil)
	return out
}

func c02Describe(v ssa.Value) string {
	switch n := v.(type) {
	case *ssa.Const:
		return "constant " + n.String()
	case *ssa.Global:
		return "package variable " + n.Name()
	case *ssa.Parameter:
		return "parameter " + n.Name() + " of " + eng.FuncName(n.Parent())
	case *ssa.Call:
		return "call " + eng.FullName(n)
	case *ssa.Extract:
		if c, ok := n.Tuple.(*ssa.Call); ok {
			return fmt.Sprintf("result #%d of %s", n.Index, eng.FullName(c))
		}
	}
	return fmt.Sprintf("%T %s", v, v.Name())
}

// ---------------------------------------------------------------------------------------
// R3 outbound impersonation headers

func c02R3(c *eng.Ctx) (escapers []*ssa.Function) {
	wr := c.MustMethod(pkgTransport, "dynamicImpersonatingRoundTripper", "WrapRequest")
	if wr != nil && len(wr.Params) == 2 {
		req := ssa.Value(wr.Params[1])
		// the body of WrapRequest may be spread over helpers (the header writes behind a
		// "set the impersonation headers" function): constructs are looked up in the Region and the
		// helper's values are related to WrapRequest's through the helper's call sites
		region := c.W.Region(wr)
		allUp := func(v ssa.Value, pred func(ssa.Value) bool) bool {
			vs := c.W.UpVals(v)
			for _, x := range vs {
				if !pred(x) {
					return false
				}
			}
			return len(vs) > 0
		}
		// the context user of the request being sent
		users := map[*ssa.Call]bool{}
		for _, fn := range region {
			for _, ci := range eng.CallsTo(fn, c02UserFrom) {
				cc := ci.(*ssa.Call)
				if allUp(cc.Call.Args[0], func(x ssa.Value) bool {
					ctx, _ := eng.CallResultOf(x)
					if ctx == nil || !eng.IsCall(ctx, c02ReqContext) {
						return false
					}
					r := c02CtxRootsUp(c.W, ctx.Call.Args[0])
					return len(r) == 1 && r[req]
				}) {
					users[cc] = true
				}
			}
		}
		isUserRes := func(x ssa.Value) bool {
			cc, i := eng.CallResultOf(x)
			return cc != nil && i == 0 && users[cc]
		}
		seen := map[string]int{}
		atWr := func(f *ssa.Function) bool { return f == wr }
		for _, fn := range region {
			// a helper shared by several writes (`addAll(header, name, values)`) writes a different
			// header in each calling context: every write is judged once per context, with the
			// helper's parameters bound to what that context passes
			chains := c.W.UpChains(fn, atWr)
			for _, ci := range eng.Calls(fn) {
				if !eng.IsCall(ci, "(net/http.Header).Set", "(net/http.Header).Add") {
					continue
				}
				for _, ch := range chains {
					what, why, undecided, escs := c02HeaderWrite(c, ci, ch, req, isUserRes)
					if what == "" {
						continue // a header that carries no identity
					}
					escapers = append(escapers, escs...)
					verb := eng.CalleeObj(ci).Name()
					seen[what]++
					construct := fmt.Sprintf("%s %s#%d from the context user, on a clone", verb, what, seen[what])
					if undecided {
						c.Undecided("R3", wr, construct, ci.Pos(), why)
						continue
					}
					c.Check("R3", wr, construct, ci.Pos(), why == "", "generated impersonation headers carry exactly the context user's name/groups/extra"+c02Found(why))
				}
			}
		}
		for _, w := range []string{"Impersonate-User", "Impersonate-Group", "Impersonate-Extra-*"} {
			if seen[w] == 0 {
				c.Fail("R3", wr, "writes "+w, wr.Pos(), "WrapRequest does not generate this header")
			}
		}
		// no raw map writes into a header
		for _, fn := range region {
			eng.Instrs(fn, func(ins ssa.Instruction) {
				if mu, ok := ins.(*ssa.MapUpdate); ok && eng.TypeName(mu.Map.Type()) == "net/http.Header" {
					c.Fail("R3", wr, "raw header map write", mu.Pos(), "headers must be written through Set/Add with values of the context user")
				}
			})
		}
	}
	if rt := c.MustMethod(pkgTransport, "dynamicImpersonatingRoundTripper", "RoundTrip"); rt != nil && wr != nil {
		n := 0
		isWrapped := func(v ssa.Value) bool {
			cc, i := eng.CallResultOf(v)
			return cc != nil && i == 0 && cc.Call.StaticCallee() == wr
		}
		for _, fn := range c.W.Region(rt) {
			for _, ci := range eng.CallsTo(fn, "(net/http.RoundTripper).RoundTrip") {
				n++
				a := eng.Args(ci)
				ls := c02LeavesUpStop(c, a[0], isWrapped)
				ok := len(ls) > 0 && eng.FieldLoadOf(eng.Receiver(ci), c02TRoundTripper, "delegate")
				for _, l := range ls {
					if !isWrapped(l) {
						ok = false
					}
				}
				c.Check("R3", rt, fmt.Sprintf("delegate.RoundTrip(WrapRequest(req))#%d", n), ci.Pos(), ok, "what is sent upstream is the wrapped request, not the client's")
			}
		}
		if n == 0 {
			c.Fail("R3", rt, "delegate.RoundTrip(WrapRequest(req))", rt.Pos(), "RoundTrip never calls its delegate")
		}
	}

	// wiring: both transports of an endpoint are built from the config carrying the wrapper.
	// The functions are found by what they do: the one that registers a new endpoint in its
	// cluster's table (and everything it is spread over), the ones that store an endpoint's
	// proxy transport and that wrap a transport with a config's wrappers.
	au := c02EndpointAdder(c)
	ctor := c.MustFunc(pkgTransport, "NewDynamicImpersonatingRoundTripper")
	if au == nil || ctor == nil {
		return escapers
	}
	auRegion := c.W.Region(au)
	cf := &c02CfgFacts{c: c, ctor: ctor, memo: map[*ssa.Alloc]string{}, busy: map[*ssa.Alloc]bool{}, inits: map[*ssa.Alloc]ssa.Instruction{}}
	nWrap := 0
	for _, fn := range c.W.FuncsOf(pkgClusters) {
		eng.Instrs(fn, func(ins ssa.Instruction) {
			st, ok := ins.(*ssa.Store)
			if !ok || !eng.FieldAddrOf(st.Addr, c02TRestConfig, "WrapTransport") {
				return
			}
			nWrap++
			owned := c.W.OwnedBy(fn, au)
			at := fn
			if owned {
				at = au
			}
			c.Check("R3", at, fmt.Sprintf("WrapTransport = NewDynamicImpersonatingRoundTripper#%d", nWrap), st.Pos(), owned && cf.isCtor(st.Val), "the only wrapper installed on an endpoint's config is the impersonating round tripper")
		})
	}
	if nWrap == 0 {
		c.Fail("R3", au, "WrapTransport = NewDynamicImpersonatingRoundTripper", au.Pos(), "the impersonating wrapper is not installed on the endpoint's config")
		return escapers
	}
	// upgrade transport: TransportFor(cfg) where cfg carries the wrapper when it is handed over
	{
		n := 0
		goodTF := map[*ssa.Call]bool{}
		for _, fn := range auRegion {
			for _, ci := range eng.CallsTo(fn, "k8s.io/client-go/rest.TransportFor") {
				n++
				why := cf.allWrapped(eng.Args(ci)[0], "TransportFor argument")
				if call, isCall := ci.(*ssa.Call); isCall && why == "" {
					goodTF[call] = true
				}
				c.Check("R3", au, fmt.Sprintf("upgrade transport built from the wrapped config#%d", n), ci.Pos(), why == "", "rest.TransportFor must see WrapTransport = impersonating wrapper (copy taken after the store)"+c02Found(why))
			}
		}
		if n == 0 {
			c.Fail("R3", au, "upgrade transport built from the wrapped config", au.Pos(), "no rest.TransportFor call")
		}
		sts := eng.StoresToField(auRegion, tEndpointInfo, "PorxyUpgradeTransport")
		ok := len(sts) > 0 && len(goodTF) > 0
		for _, st := range sts {
			if !c.Slicer().WithArgs().WithUp().DerivesFrom(st.Val, func(v ssa.Value) bool { cc, i := eng.CallResultOf(v); return cc != nil && goodTF[cc] && i == 0 }) {
				ok = false
			}
		}
		c.Check("R3", au, "PorxyUpgradeTransport = that transport", au.Pos(), ok, "the upgrade round tripper handed to the dispatcher derives from the transport built above")
	}
	// http2 transport: proxyConfig = the wrapped config; the proxy transport is HTTPWrappersForConfig(own proxyConfig, ts)
	{
		sts := eng.StoresToField(c.W.FuncsOf(pkgClusters), tEndpointInfo, "proxyConfig")
		ok, why := len(sts) > 0, ""
		for _, st := range sts {
			if !c.W.OwnedBy(st.Parent(), au) {
				ok, why = false, "proxyConfig is also written in "+eng.FuncName(st.Parent())
				continue
			}
			if w := cf.allWrapped(st.Val, "proxyConfig"); w != "" {
				ok, why = false, w
			}
		}
		c.Check("R3", au, "EndpointInfo.proxyConfig = the wrapped config", au.Pos(), ok, "proxyConfig must be the config whose WrapTransport is the impersonating wrapper"+c02Found(why))

		isWrapResult := func(v ssa.Value) bool {
			cc, i := eng.CallResultOf(v)
			return cc != nil && i == 0 && eng.IsCall(cc, "k8s.io/client-go/rest.HTTPWrappersForConfig")
		}
		// ownConfig: the config argument of wrapper call h (entered through fr) is the proxyConfig field of
		// endpoint `of` (nil: of whatever endpoint the enclosing function works on — a receiver or parameter)
		ownConfig := func(h *ssa.Call, fr *eng.DFrame, of *eng.CtxVal) bool {
			cfg := c.W.ResolveCtx(eng.Args(h)[0], fr, true)
			if !eng.FieldLoadOf(cfg.V, tEndpointInfo, "proxyConfig") {
				return false
			}
			base := c.W.ResolveCtx(c02FieldBase(cfg.V), cfg.Fr, true)
			if of != nil {
				return base.V == of.V
			}
			_, isParam := base.V.(*ssa.Parameter)
			return isParam
		}
		n := 0
		ord := map[*ssa.Function]int{}
		for _, fn := range c.W.FuncsOf(pkgClusters) {
			for _, ci := range eng.CallsTo(fn, "k8s.io/client-go/rest.HTTPWrappersForConfig") {
				h, isCall := ci.(*ssa.Call)
				if !isCall {
					continue
				}
				n++
				ord[fn]++
				// in every calling context the config is an endpoint's own proxyConfig
				good := true
				for _, u := range c.W.UpVals(eng.Args(h)[0]) {
					if !eng.FieldLoadOf(u, tEndpointInfo, "proxyConfig") {
						good = false
					}
				}
				good = good && ownConfig(h, nil, nil)
				c.Check("R3", fn, fmt.Sprintf("HTTPWrappersForConfig(e.proxyConfig, …)#%d", ord[fn]), ci.Pos(), good, "the proxy transport is wrapped according to the endpoint's own (wrapped) config")
			}
		}
		if n == 0 {
			c.Fail("R3", au, "HTTPWrappersForConfig(e.proxyConfig, …)", au.Pos(), "the proxy transport is not wrapped with the config's wrappers (no credential, no impersonation)")
		}
		psts := eng.StoresToField(c.W.FuncsOf(pkgClusters), tEndpointInfo, "ProxyTransport")
		if len(psts) == 0 {
			c.Fail("R3", au, "ProxyTransport = createTransport()'s wrapped transport", au.Pos(), "the endpoint's proxy transport is never set")
		}
		pord := map[*ssa.Function]int{}
		for _, st := range psts {
			fn := st.Parent()
			pord[fn]++
			of := c.W.ResolveCtx(st.Addr.(*ssa.FieldAddr).X, nil, true)
			ls := c.W.CtxLeaves(st.Val, nil, isWrapResult, eng.LiftDepth, true)
			okSt, nWrapped := true, 0
			for _, l := range ls {
				if eng.IsNilConst(l.V) {
					continue // the failure return of the builder: no transport at all
				}
				h, _ := eng.CallResultOf(l.V)
				if !isWrapResult(l.V) || !ownConfig(h, l.Fr, &of) {
					okSt = false
					continue
				}
				nWrapped++
			}
			okSt = okSt && nWrapped > 0
			construct := "ProxyTransport = createTransport()'s wrapped transport"
			if pord[fn] > 1 {
				construct += fmt.Sprintf("#%d", pord[fn])
			}
			c.Check("R3", fn, construct, fn.Pos(), okSt, "the round tripper the dispatcher forwards through is the one wrapped with the endpoint's config")
		}
	}
	return escapers
}

// c02HeaderWrite classifies one Header.Set/Add of WrapRequest's Region in calling context ch
// (the chain of call sites from the writing helper up to WrapRequest): what identity header it
// writes ("" = none), why it is wrong ("" = fine), whether the shape could not be classified,
// and the escapers applied to extra keys. req is WrapRequest's request parameter, isUserRes
// recognises the result of request.UserFrom(req.Context()).
func c02HeaderWrite(c *eng.Ctx, ci ssa.CallInstruction, ch eng.UpChain, req ssa.Value, isUserRes func(ssa.Value) bool) (what, why string, undecided bool, escapers []*ssa.Function) {
	sl := c.Slicer()
	a := eng.Args(ci)
	verb := eng.CalleeObj(ci).Name()
	strip := func(v ssa.Value) ssa.Value {
		for i := 0; i < 8; i++ {
			v = ch.Resolve(v)
			if ct, ok := v.(*ssa.ChangeType); ok {
				v = ct.X
				continue
			}
			break
		}
		return v
	}
	// the value is what UserFrom returned for this request: directly, or handed back by a
	// helper that looks the user up (whose other returns yield no user at all)
	isUser := func(v ssa.Value) bool {
		n := 0
		for _, l := range ch.Leaves(sl, v, isUserRes) {
			switch {
			case isUserRes(l):
				n++
			case eng.IsNilConst(l):
			default:
				return false
			}
		}
		return n > 0
	}
	// getter(v, name): every origin of v is <context user>.name() ("" = any getter)
	getter := func(v ssa.Value, name string) string {
		ls := ch.Leaves(sl, v, nil)
		if len(ls) == 0 {
			return "value of unknown origin"
		}
		for _, l := range ls {
			cc, _ := eng.CallResultOf(l)
			fromUser := cc != nil && cc.Call.IsInvoke() && isUser(cc.Call.Value)
			if fromUser && (name == "" || (cc.Call.Method.Name() == name && eng.TypeName(cc.Call.Value.Type()) == "k8s.io/apiserver/pkg/authentication/user.Info")) {
				continue
			}
			if name == "" {
				return "value comes from " + c02Describe(l) + ", not from the context user"
			}
			return "value comes from " + c02Describe(l) + ", not from " + name + "() of request.UserFrom(req.Context())"
		}
		return ""
	}
	var rootsIn func(v ssa.Value, depth int) map[ssa.Value]bool
	rootsIn = func(v ssa.Value, depth int) map[ssa.Value]bool {
		out := map[ssa.Value]bool{}
		for r := range c02Roots(v) {
			if b := ch.Resolve(r); b != r && depth > 0 {
				for x := range rootsIn(b, depth-1) {
					out[x] = true
				}
				continue
			}
			out[r] = true
		}
		return out
	}
	onClone := func(h ssa.Value) bool {
		r := rootsIn(h, eng.LiftDepth+1)
		for x := range r {
			cc, _ := eng.CallResultOf(x)
			if cc == nil || !(eng.IsCall(cc, "k8s.io/apimachinery/pkg/util/net.CloneRequest") || eng.IsCall(cc, "(*net/http.Request).Clone")) || !rootsIn(cc.Call.Args[0], eng.LiftDepth+1)[req] {
				return false
			}
		}
		return len(r) > 0
	}
	// extraKey decides a computed header name: "Impersonate-Extra-" + escape(k), written in
	// place, hoisted into a local, handed to a helper as a parameter or produced by a
	// one-return naming helper. It returns the escaped operand (a value of a function on the
	// chain) and the escaper.
	extraKey := func(v ssa.Value) (ssa.Value, *ssa.Function, bool) {
		cv := eng.CtxVal{V: v}
		if cc, isCall := v.(*ssa.Call); isCall {
			if g := cc.Call.StaticCallee(); g != nil && eng.Analysable(g) {
				var rets []*ssa.Return
				eng.Instrs(g, func(ins ssa.Instruction) {
					if r, ok := ins.(*ssa.Return); ok && r.Block() != g.Recover {
						rets = append(rets, r)
					}
				})
				if len(rets) == 1 && len(rets[0].Results) == 1 {
					cv = eng.CtxVal{V: eng.ReturnResults(rets[0])[0], Fr: &eng.DFrame{Call: cc, Callee: g}}
				}
			}
		}
		add, ok := cv.V.(*ssa.BinOp)
		if !ok || add.Op != token.ADD {
			return nil, nil, false
		}
		if p, isP := eng.StringConst(add.X); !isP || p != "Impersonate-Extra-" {
			return nil, nil, false
		}
		esc, _ := eng.CallResultOf(add.Y)
		if esc == nil {
			return nil, nil, false
		}
		g := esc.Call.StaticCallee()
		if g == nil || g.Pkg == nil || g.Pkg.Pkg.Path() != pkgTransport || len(esc.Call.Args) != 1 || g.Signature.Results().Len() != 1 ||
			!types.Identical(g.Signature.Results().At(0).Type(), types.Typ[types.String]) || !types.Identical(esc.Call.Args[0].Type(), types.Typ[types.String]) {
			return nil, nil, false
		}
		return c.W.ResolveCtx(esc.Call.Args[0], cv.Fr, false).V, g, true
	}
	keyV := strip(a[0])
	key, isConst := eng.StringConst(keyV)
	switch {
	case isConst && key == "Impersonate-User":
		what = "Impersonate-User"
		why = getter(a[1], "GetName")
		if verb != "Set" {
			why = "Impersonate-User must be Set (replace), not added"
		}
	case isConst && key == "Impersonate-Group":
		what = "Impersonate-Group"
		why = getter(a[1], "GetGroups")
	case isConst && strings.HasPrefix(strings.ToLower(key), "impersonate-"):
		// another member of the family (e.g. Impersonate-Uid): only from the context user
		what = key
		why = getter(a[1], "")
	case isConst && strings.EqualFold(key, "Authorization"):
		what = key
		why = "the impersonating round tripper must not write credentials"
	case isConst:
		return "", "", false, nil
	default:
		what = "Impersonate-Extra-*"
		arg, esc, ok := extraKey(keyV)
		if !ok {
			return "computed header", "header key is not a constant and not \"Impersonate-Extra-\"+<escaper of this package>(k): cannot tell what is written", true, nil
		}
		escapers = append(escapers, esc)
		if why = getter(arg, "GetExtra"); why == "" {
			why = getter(a[1], "GetExtra")
		}
	}
	if why == "" && !onClone(eng.Receiver(ci)) {
		why = "the header written is not the header of a clone of the request (RoundTrippers must not mutate the caller's request, and the client's map would be shared)"
	}
	// a write executed once per value of a multi-valued attribute must accumulate: Set with a
	// key that does not change in the loop over the values keeps only the last value. The loop
	// may enclose the write itself or, when the write sits in a helper, the helper's call site.
	if why == "" && verb == "Set" {
		ins, k, v := ssa.Instruction(ci), a[0], a[1]
		for level := 0; ; level++ {
			if l := eng.InnermostLoop(ins.Block()); l != nil && eng.LoopInvariant(k, l) && !eng.LoopInvariant(v, l) {
				why = "Header.Set inside a loop over the attribute's values with a key that is the same on every iteration: only the last value reaches the upstream (must be Add)"
				break
			}
			if level >= len(ch) || ch[level].Fn != ins.Parent() || !ch[level].Direct {
				break
			}
			vp, isVP := v.(*ssa.Parameter)
			if !isVP {
				break
			}
			if kp, isKP := k.(*ssa.Parameter); isKP {
				k = ch[level].Bind(kp)
			} else if _, isK := k.(*ssa.Const); !isK {
				break
			}
			v = ch[level].Bind(vp)
			ins = ch[level].Call
			if k == nil || v == nil {
				break
			}
		}
	}
	return what, why, false, escapers
}

// c02EndpointAdder returns the function that adds a new endpoint to a cluster:
// (*ClusterInfo).addOrUpdateEndpoint, or — should it be renamed — the function of pkg/clusters
// that (itself or through its helpers) registers an EndpointInfo in a ClusterInfo's Endpoints
// table. A failure to find it is an unresolved anchor.
func c02EndpointAdder(c *eng.Ctx) *ssa.Function {
	if f := c.W.Method(pkgClusters, "ClusterInfo", "addOrUpdateEndpoint"); f != nil && f.Blocks != nil {
		return f
	}
	cands := map[*ssa.Function]bool{}
	for _, fn := range c.W.FuncsOf(pkgClusters) {
		for _, ci := range eng.CallsTo(fn, "(*"+tEndpointInfoMap+").Store") {
			if !eng.FieldLoadOf(eng.Receiver(ci), tClusterInfo, "Endpoints") {
				continue
			}
			top := eng.Outermost(fn)
			for i := 0; i < eng.LiftDepth; i++ {
				sites := c.W.GuardSites(top)
				if len(sites) == 0 {
					break
				}
				p := eng.Outermost(sites[0].Parent())
				same := true
				for _, s := range sites {
					same = same && eng.Outermost(s.Parent()) == p
				}
				if !same {
					break
				}
				top = p
			}
			cands[top] = true
		}
	}
	if len(cands) == 1 {
		for f := range cands {
			return f
		}
	}
	c.Fail("engine", nil, "unresolved-anchor method ("+pkgClusters+".ClusterInfo).addOrUpdateEndpoint", token.NoPos, fmt.Sprintf("anchor method not found by name, and %d functions register endpoints in ClusterInfo.Endpoints", len(cands)))
	return nil
}

// c02CfgFacts decides which local rest.Config objects carry the impersonating wrapper.
type c02CfgFacts struct {
	c     *eng.Ctx
	ctor  *ssa.Function
	memo  map[*ssa.Alloc]string
	busy  map[*ssa.Alloc]bool
	inits map[*ssa.Alloc]ssa.Instruction
}

func (f *c02CfgFacts) isCtor(v ssa.Value) bool {
	if ch, ok := v.(*ssa.ChangeType); ok {
		v = ch.X
	}
	return v == ssa.Value(f.ctor)
}

func c02IsCfgAlloc(v ssa.Value) bool {
	a, ok := v.(*ssa.Alloc)
	return ok && eng.TypeName(a.Type().(*types.Pointer).Elem()) == c02TRestConfig
}

// allocs returns the rest.Config objects pointer value v may denote (through tuple results of
// helpers and helper parameters); ok=false when something else than a local object is reached.
func (f *c02CfgFacts) allocs(v ssa.Value) ([]*ssa.Alloc, bool) {
	var out []*ssa.Alloc
	ls := f.c.W.CtxLeaves(v, nil, c02IsCfgAlloc, eng.LiftDepth, true)
	for _, l := range ls {
		a, ok := l.V.(*ssa.Alloc)
		if !ok || !c02IsCfgAlloc(a) {
			if eng.IsNilConst(l.V) {
				continue // the failure return of a helper
			}
			return nil, false
		}
		out = append(out, a)
	}
	return out, len(out) > 0
}

// allWrapped returns "" when every config object v may denote carries the wrapper.
func (f *c02CfgFacts) allWrapped(v ssa.Value, what string) string {
	as, ok := f.allocs(v)
	if !ok {
		return what + " is not a local copy of the wrapped config"
	}
	for _, a := range as {
		if w := f.wrapped(a); w != "" {
			return w
		}
	}
	return ""
}

// wrapped returns "" when config object a has WrapTransport = the impersonating wrapper at
// every point where it is handed on (passed to a call, stored, returned, captured): it is
// given the wrapper by exactly one store (directly or by a helper it is passed to) that is
// never undone, or it is initialised once as a copy of such a config taken after that store —
// and in both cases the initialisation precedes every hand-over.
func (f *c02CfgFacts) wrapped(a *ssa.Alloc) string {
	if w, ok := f.memo[a]; ok {
		return w
	}
	if f.busy[a] {
		return "the config is defined in terms of itself"
	}
	f.busy[a] = true
	defer delete(f.busy, a)
	w := f.wrapped1(a)
	f.memo[a] = w
	return w
}

func (f *c02CfgFacts) wrapped1(a *ssa.Alloc) string {
	fn := a.Parent()
	if a.Referrers() == nil {
		return "the config is never initialised"
	}
	var wraps []ssa.Instruction // instructions that set WrapTransport
	wrapOK := true
	var whole []*ssa.Store
	var escapes []ssa.Instruction
	for _, r := range *a.Referrers() {
		switch u := r.(type) {
		case *ssa.FieldAddr:
			if u.X != ssa.Value(a) || u.Referrers() == nil {
				continue
			}
			isWrapField := eng.FieldAddrOf(u, c02TRestConfig, "WrapTransport")
			for _, rr := range *u.Referrers() {
				switch x := rr.(type) {
				case *ssa.Store:
					if x.Addr == ssa.Value(u) && isWrapField {
						wraps = append(wraps, x)
						wrapOK = wrapOK && f.isCtor(x.Val)
					}
				case *ssa.UnOp, *ssa.DebugRef, *ssa.FieldAddr:
				default:
					if isWrapField {
						wrapOK = false // the field's address escapes
					}
				}
			}
		case *ssa.Store:
			if u.Addr == ssa.Value(a) {
				whole = append(whole, u)
			} else {
				escapes = append(escapes, u)
			}
		case *ssa.UnOp, *ssa.DebugRef:
		case ssa.CallInstruction:
			// a helper that installs the wrapper on the config it is given, on every path
			if g := u.Common().StaticCallee(); g != nil && eng.Analysable(g) {
				set := false
				for i, arg := range u.Common().Args {
					if arg != ssa.Value(a) || i >= len(g.Params) {
						continue
					}
					for _, st := range eng.StoresToField([]*ssa.Function{g}, c02TRestConfig, "WrapTransport") {
						if st.Addr.(*ssa.FieldAddr).X == ssa.Value(g.Params[i]) {
							set = true
							wrapOK = wrapOK && f.isCtor(st.Val) && eng.LiftMust(func(x ssa.Instruction) bool { return x == ssa.Instruction(st) })(u)
						}
					}
				}
				if set {
					wraps = append(wraps, u)
					continue
				}
			}
			escapes = append(escapes, u)
		default:
			escapes = append(escapes, r)
		}
	}
	var init ssa.Instruction
	switch {
	case len(wraps) > 1:
		return "WrapTransport of the config is written more than once"
	case len(wraps) == 1:
		if !wrapOK {
			return "WrapTransport of the config is not the impersonating round tripper"
		}
		init = wraps[0]
		for _, w := range whole {
			if eng.ReachAfter(init, eng.PathQuery{Target: func(i ssa.Instruction) bool { return i == ssa.Instruction(w) }}) != nil {
				return "the config is overwritten after the wrapper was stored"
			}
		}
	default:
		if len(whole) != 1 {
			return fmt.Sprintf("the config is initialised %d times", len(whole))
		}
		ld, isLd := whole[0].Val.(*ssa.UnOp)
		if !isLd || ld.Op != token.MUL {
			return "the config is not a copy of the wrapped config"
		}
		srcs, ok := f.allocs(ld.X)
		if !ok {
			return "the config is not a copy of the wrapped config"
		}
		for _, s := range srcs {
			if w := f.wrapped(s); w != "" {
				return "the config is not a copy of the wrapped config"
			}
			if s.Parent() == fn {
				si := f.initOf(s)
				if si == nil || !eng.AlwaysBefore(fn, ld, func(i ssa.Instruction) bool { return i == si }) {
					return "the copy is taken before the wrapper is stored"
				}
			}
		}
		init = whole[0]
	}
	for _, e := range escapes {
		if e.Parent() != fn {
			continue
		}
		if !eng.AlwaysBefore(fn, e, func(i ssa.Instruction) bool { return i == init }) {
			if eng.IsCall(e, "k8s.io/client-go/rest.TransportFor") {
				return "TransportFor runs before the wrapper is stored"
			}
			return "the config is handed on before the wrapper is stored"
		}
	}
	f.setInit(a, init)
	return ""
}

func (f *c02CfgFacts) setInit(a *ssa.Alloc, i ssa.Instruction) { f.inits[a] = i }

// initOf returns the instruction from which on config object a carries the wrapper (nil: never).
func (f *c02CfgFacts) initOf(a *ssa.Alloc) ssa.Instruction {
	if f.wrapped(a) != "" {
		return nil
	}
	return f.inits[a]
}

// c02LeavesUpStop returns the leaves of v's slice (values satisfying stop are leaves); a leaf
// that is a parameter of an extracted helper (complete set of call sites known) is replaced by
// the leaves of the arguments bound to it at the call sites.
func c02LeavesUpStop(c *eng.Ctx, v ssa.Value, stop func(ssa.Value) bool) []ssa.Value {
	sl := c.Slicer()
	var out []ssa.Value
	seen := map[ssa.Value]bool{}
	done := map[ssa.Value]bool{}
	var visit func(v ssa.Value, depth int)
	visit = func(v ssa.Value, depth int) {
		if done[v] {
			return
		}
		done[v] = true
		for _, l := range sl.Leaves(v, stop) {
			if p, ok := l.(*ssa.Parameter); ok && depth > 0 && (stop == nil || !stop(l)) {
				if ups := c.W.UpArgSites(p); len(ups) > 0 {
					for _, u := range ups {
						visit(u.Arg, depth-1)
					}
					continue
				}
			}
			if !seen[l] {
				seen[l] = true
				out = append(out, l)
			}
		}
	}
	visit(v, eng.LiftDepth)
	return out
}

// c02FieldBase returns the struct a field load selects from (nil if v is not one).
func c02FieldBase(v ssa.Value) ssa.Value {
	switch n := v.(type) {
	case *ssa.UnOp:
		if fa, ok := n.X.(*ssa.FieldAddr); ok {
			return fa.X
		}
	case *ssa.Field:
		return n.X
	}
	return nil
}

// ---------------------------------------------------------------------------------------
// R4 Authorization header (dependency)

func c02R4(c *eng.Ctx) {
	outer := c.W.Func(c02PkgGenFilters, "WithAuthentication")
	if outer == nil || outer.Blocks == nil {
		c.Fail("engine", nil, "unresolved-anchor func "+c02PkgGenFilters+".WithAuthentication", 0, "the dependency is not loaded with function bodies")
		return
	}
	cl := c02HandlerClosure(outer)
	if cl == nil {
		c.Fail("engine", outer, "unresolved-anchor handler closure of WithAuthentication", outer.Pos(), "expected exactly one func(w, req) literal")
		return
	}
	nexts := c02NextHandlerCalls(c, cl, outer)
	if len(nexts) == 0 {
		c.Fail("R4", cl, "Authorization deleted before the next handler", cl.Pos(), "no call of the wrapped handler found")
		return
	}
	for k, site := range nexts {
		fwd := c02Roots(eng.Args(site)[1])
		isDel := func(ins ssa.Instruction) bool {
			if !eng.IsPlainCall(ins, "(net/http.Header).Del") {
				return false
			}
			ci := ins.(ssa.CallInstruction)
			key, ok := eng.StringConst(eng.Args(ci)[0])
			return ok && strings.EqualFold(key, "Authorization") && c02SameRoots(c02Roots(eng.Receiver(ci)), fwd)
		}
		ok := eng.AlwaysBefore(cl, site, isDel)
		c.Check("R4", cl, fmt.Sprintf("Authorization deleted before next-handler#%d", k+1), site.Pos(), ok, "every path to the wrapped handler must pass req.Header.Del(\"Authorization\") on the header map of the request it forwards; otherwise the client's bearer token/basic credential reaches the upstream next to the gateway's own")
		// the user stored is the authenticator's answer
		okUser := false
		ctxLeaves := c.Slicer().WithArgs()
		for _, wu := range eng.CallsTo(cl, c02WithUser) {
			if !ctxLeaves.DerivesFrom(eng.Args(site)[1], func(v ssa.Value) bool { return v == eng.ResultValue(wu) }) {
				continue
			}
			u := eng.Args(wu)[1]
			if eng.FieldLoadOf(u, "k8s.io/apiserver/pkg/authentication/authenticator.Response", "User") {
				cc, i := eng.CallResultOf(c02FieldBase(u))
				okUser = cc != nil && i == 0 && eng.IsCall(cc, "(k8s.io/apiserver/pkg/authentication/authenticator.Request).AuthenticateRequest")
			}
		}
		c.Check("R4", cl, fmt.Sprintf("context user of next-handler#%d = authenticator's resp.User", k+1), site.Pos(), okUser, "the identity every later filter and the transports act on is the one the authenticator returned for this request")
	}
	c.Note("C02.R4: WithAuthentication returns the wrapped handler unchanged when the authenticator is nil (authentication disabled); the gateway always configures one (proxy authenticator config), not decided here")
}

// ---------------------------------------------------------------------------------------
// R5 family sanitizer

// c02Vocab names the callees the sanitizer recogniser keys on (fixtures substitute their own).
type c02Vocab struct {
	hasPrefix string
	lower     []string // f with f(k) compared against the lower-case prefix
	canonical []string // f with f(k) compared against the canonical prefix
	del       string   // method deleting a (canonicalised) key from the header
	isHeader  func(t types.Type) bool
	isRequest func(t types.Type) bool
	withCtx   string // method returning a shallow copy that shares the header map ("" = none)
}

func (v c02Vocab) roots(x ssa.Value) map[ssa.Value]bool { return c02RootsOf(x, v.isRequest, v.withCtx) }

var c02RealVocab = c02Vocab{
	hasPrefix: "strings.HasPrefix",
	lower:     []string{"strings.ToLower"},
	canonical: []string{"net/textproto.CanonicalMIMEHeaderKey", "net/http.CanonicalHeaderKey"},
	del:       "(net/http.Header).Del",
	isHeader: func(t types.Type) bool {
		if eng.TypeName(t) == "net/http.Header" {
			return true
		}
		m, ok := t.Underlying().(*types.Map)
		if !ok {
			return false
		}
		s, ok := m.Elem().Underlying().(*types.Slice)
		return ok && types.Identical(m.Key(), types.Typ[types.String]) && types.Identical(s.Elem(), types.Typ[types.String])
	},
	isRequest: c02IsRequestPtr,
	withCtx:   c02ReqWithCtx,
}

// c02Sanitizer is one recognised "delete headers by prefix" construct.
type c02Sanitizer struct {
	at       ssa.Instruction // the range instruction (inline) or the helper call
	header   ssa.Value       // header (or request) value sanitised, in the function holding `at`
	prefix   string
	fold     string // "identity" | "lower" | "canonical"
	family   bool   // prefix/fold cover every Impersonate-* key
	complete bool   // every key is tested, every match deleted, the loop is never left early
	why      string
}

func (s c02Sanitizer) String() string {
	if s.family && s.complete {
		return "family"
	}
	d := fmt.Sprintf("prefix(%q,%s)", s.prefix, s.fold)
	if !s.complete {
		d += ",incomplete"
	}
	return d
}

// c02FindSanitizers recognises, in fn, (a) map-range loops over a header that delete the
// keys with a constant prefix and (b) calls of same-repo helpers that do so for one of
// their parameters on every path (depth-bounded).
func c02FindSanitizers(w *eng.World, fn *ssa.Function, voc c02Vocab, depth int) []c02Sanitizer {
	var out []c02Sanitizer
	for _, b := range fn.Blocks {
		for _, ins := range b.Instrs {
			switch n := ins.(type) {
			case *ssa.Range:
				if voc.isHeader(n.X.Type()) {
					out = append(out, c02RangeSanitizers(fn, n, voc)...)
				}
			case *ssa.Call:
				if depth <= 0 {
					continue
				}
				g := n.Call.StaticCallee()
				if g == nil || g.Blocks == nil || g == fn || (w != nil && (g.Pkg == nil || !eng.IsRepoPkg(g.Pkg.Pkg.Path()))) {
					continue
				}
				for i, p := range g.Params {
					if i >= len(n.Call.Args) || !(voc.isHeader(p.Type()) || voc.isRequest(p.Type())) {
						continue
					}
					for _, s := range c02FindSanitizers(w, g, voc, depth-1) {
						r := voc.roots(s.header)
						if len(r) != 1 || !r[p] {
							continue
						}
						// the sanitizer runs on every path through the helper
						if x := eng.ReachFromEntry(g, eng.PathQuery{Target: eng.IsExit, Avoid: func(i ssa.Instruction) bool { return i == s.at }}); x != nil {
							s.complete = false
							s.why = "the helper " + eng.FuncName(g) + " can return without sanitising"
						}
						s.at = n
						s.header = n.Call.Args[i]
						out = append(out, s)
					}
				}
			}
		}
	}
	return out
}

// c02RangeSanitizers analyses one `for k := range header` loop.
func c02RangeSanitizers(fn *ssa.Function, rng *ssa.Range, voc c02Vocab) []c02Sanitizer {
	var out []c02Sanitizer
	if rng.Referrers() == nil {
		return nil
	}
	var next *ssa.Next
	for _, r := range *rng.Referrers() {
		if nx, ok := r.(*ssa.Next); ok {
			if next != nil {
				return nil
			}
			next = nx
		}
	}
	if next == nil {
		return nil
	}
	var key ssa.Value
	for _, e := range eng.ExtractOf(next, 1) {
		key = e
	}
	var okv ssa.Value
	for _, e := range eng.ExtractOf(next, 0) {
		okv = e
	}
	if key == nil || okv == nil {
		return nil
	}
	H := next.Block()
	scc := c02SCC(H)
	if len(scc) == 0 {
		return nil
	}
	var body *ssa.BasicBlock
	for _, br := range eng.BranchesOn(okv) {
		if br.If.Block() == H {
			body = br.OnTrue
		}
	}
	if body == nil {
		return nil
	}
	hdr := voc.roots(rng.X)
	fullName := func(v ssa.Value, names []string) *ssa.Call {
		cc, _ := eng.CallResultOf(v)
		if cc != nil && len(names) > 0 && eng.IsCall(cc, names...) {
			return cc
		}
		return nil
	}
	// folded(v): v is key, lower(key) or canonical(key)
	folded := func(v ssa.Value) string {
		if v == key {
			return "identity"
		}
		if cc := fullName(v, voc.lower); cc != nil && cc.Call.Args[0] == key {
			return "lower"
		}
		if cc := fullName(v, voc.canonical); cc != nil && cc.Call.Args[0] == key {
			return "canonical"
		}
		return ""
	}
	isDelete := func(ins ssa.Instruction) bool {
		ci, ok := ins.(*ssa.Call)
		if !ok {
			return false
		}
		if eng.IsCall(ci, voc.del) {
			// Del canonicalises its argument: any fold of the key names the same entry
			return folded(eng.Args(ci)[0]) != "" && c02SameRoots(voc.roots(eng.Receiver(ci)), hdr)
		}
		if d := c02IsBuiltin(ci, "delete"); d != nil {
			return d.Call.Args[1] == key && c02SameRoots(voc.roots(d.Call.Args[0]), hdr)
		}
		return false
	}
	backOrOut := func(ins ssa.Instruction) bool { return ins == ssa.Instruction(next) || eng.IsExit(ins) }
	// the loop is left only through its header (no break / return inside the body)
	early := false
	for b := range scc {
		if b == H {
			continue
		}
		for _, s := range b.Succs {
			if !scc[s] {
				early = true
			}
		}
	}
	for b := range scc {
		for _, ins := range b.Instrs {
			call, ok := ins.(*ssa.Call)
			if !ok {
				continue
			}
			// the prefix test: strings.HasPrefix(fold(key), "…") itself, or a predicate helper that
			// answers `match` whenever that test is true for its argument
			test, found := c02PrefixTest(call, voc, folded, 2)
			if !found {
				continue
			}
			hp := call
			s := c02Sanitizer{at: rng, header: rng.X, prefix: test.prefix, fold: test.fold, complete: true}
			switch test.fold {
			case "lower":
				s.family = test.prefix == "impersonate-"
			default:
				// keys of an incoming http.Header are canonical: a case-sensitive test must use the canonical prefix
				s.family = test.prefix == "Impersonate-"
			}
			if early {
				s.complete, s.why = false, "the loop can be left before all keys were visited"
			}
			if x := eng.ReachFromBlock(body, eng.PathQuery{Target: backOrOut, Avoid: func(i ssa.Instruction) bool { return i == ssa.Instruction(hp) }}); x != nil {
				s.complete, s.why = false, "some keys skip the prefix test"
			}
			// the blocks entered when the key has the prefix
			var matchBlocks []*ssa.BasicBlock
			for _, br := range eng.BranchesOn(hp) {
				if test.match {
					matchBlocks = append(matchBlocks, br.OnTrue)
				} else {
					matchBlocks = append(matchBlocks, br.OnFalse)
				}
			}
			deletes := false
			for _, mb := range matchBlocks {
				if eng.ReachFromBlock(mb, eng.PathQuery{Target: isDelete, Avoid: backOrOut}) != nil {
					deletes = true
				}
			}
			if !deletes {
				continue // a loop that only reads the matching keys is not a sanitizer
			}
			for _, mb := range matchBlocks {
				if x := eng.ReachFromBlock(mb, eng.PathQuery{Target: backOrOut, Avoid: isDelete}); x != nil {
					s.complete, s.why = false, "a matching key is not deleted from the ranged header on some path"
				}
			}
			out = append(out, s)
		}
	}
	return out
}

// c02Prefix describes a boolean call that tests a header key against a constant prefix.
type c02Prefix struct {
	prefix string
	fold   string // how the key is folded before the comparison: "identity" | "lower" | "canonical"
	match  bool   // the value the call yields whenever the (folded) key has the prefix
}

// c02PrefixTest recognises call as a prefix test of the ranged key: voc.hasPrefix(fold(key),
// const), or a call p(fold(key)) of a same-repository predicate helper that contains exactly
// one such test of its parameter and — decided by forcing that inner test to true in the
// path-enumerating interpreter — yields one and the same boolean constant on every path on
// which the key has the prefix (so `return HasPrefix(…)`, `if !HasPrefix(…) { return false };
// return true` and the negated "isOther" forms are all accepted, while a helper that also
// consults something else is not). folded tells how a value relates to the ranged key.
func c02PrefixTest(call *ssa.Call, voc c02Vocab, folded func(ssa.Value) string, depth int) (c02Prefix, bool) {
	if eng.IsCall(call, voc.hasPrefix) {
		p, isConst := eng.StringConst(call.Call.Args[1])
		fold := folded(call.Call.Args[0])
		if !isConst || fold == "" {
			return c02Prefix{}, false
		}
		return c02Prefix{prefix: p, fold: fold, match: true}, true
	}
	g := call.Call.StaticCallee()
	if depth <= 0 || g == nil || g.Blocks == nil || g.Pkg == nil || call.Call.IsInvoke() {
		return c02Prefix{}, false
	}
	if path := g.Pkg.Pkg.Path(); !eng.IsRepoPkg(path) && path != "fx" {
		return c02Prefix{}, false
	}
	if res := g.Signature.Results(); res.Len() != 1 || !types.Identical(res.At(0).Type().Underlying(), types.Typ[types.Bool]) {
		return c02Prefix{}, false
	}
	// the argument that carries the key, and how it is folded at the call site
	outer, pidx := "", -1
	for i, a := range call.Call.Args {
		if f := folded(a); f != "" && i < len(g.Params) {
			if pidx >= 0 {
				return c02Prefix{}, false
			}
			outer, pidx = f, i
		}
	}
	if pidx < 0 {
		return c02Prefix{}, false
	}
	param := ssa.Value(g.Params[pidx])
	innerFolded := func(v ssa.Value) string {
		if v == param {
			return "identity"
		}
		cc, _ := eng.CallResultOf(v)
		if cc != nil && len(voc.lower) > 0 && eng.IsCall(cc, voc.lower...) && cc.Call.Args[0] == param {
			return "lower"
		}
		if cc != nil && len(voc.canonical) > 0 && eng.IsCall(cc, voc.canonical...) && cc.Call.Args[0] == param {
			return "canonical"
		}
		return ""
	}
	var inner *ssa.Call
	var test c02Prefix
	n := 0
	for _, ci := range eng.Calls(g) {
		ic, ok := ci.(*ssa.Call)
		if !ok {
			continue
		}
		if t, found := c02PrefixTest(ic, voc, innerFolded, depth-1); found {
			inner, test = ic, t
			n++
		}
	}
	if n != 1 {
		return c02Prefix{}, false
	}
	// forcing: whenever the inner test says "has the prefix", g returns the same constant
	in := &eng.Interp{W: eng.Current, Depth: 0, MaxPaths: 256, PinCall: func(c *ssa.Call, idx int, st *eng.State) (eng.AV, bool) {
		if c == inner {
			return eng.AVBool(test.match), true
		}
		return eng.AV{}, false
	}}
	paths, err := in.Run(g, nil)
	if err != nil || len(paths) == 0 {
		return c02Prefix{}, false
	}
	var val *bool
	for _, p := range paths {
		if p.LoopCut || p.Panicked || len(p.Ret) != 1 {
			return c02Prefix{}, false
		}
		for _, b := range []bool{true, false} {
			if p.Ret[0].IsBool(b) {
				b := b
				if val != nil && *val != b {
					return c02Prefix{}, false
				}
				val = &b
			}
		}
		if !p.Ret[0].IsBool(true) && !p.Ret[0].IsBool(false) {
			return c02Prefix{}, false
		}
	}
	if val == nil {
		return c02Prefix{}, false
	}
	// folding: the fold applied last decides (lower(canonical(k)) is a lower-case key, canonical(lower(k)) a canonical one)
	fold := test.fold
	if fold == "identity" {
		fold = outer
	}
	return c02Prefix{prefix: test.prefix, fold: fold, match: *val}, true
}

// c02SanitizedBefore decides whether every execution of x, which forwards request reqVal,
// is preceded by a complete family sanitizer over that request's header: inside x's own
// function, or — when x sits in an extracted helper that receives the request as a parameter
// (the shared "strip the headers and serve" tail) — before every call site of the helper, on
// the request passed there.
func c02SanitizedBefore(c *eng.Ctx, x ssa.Instruction, reqVal ssa.Value, depth int) bool {
	fn := x.Parent()
	sans := c02FindSanitizers(c.W, fn, c02RealVocab, c.Depth)
	fwd := c02Roots(reqVal)
	good := func(i ssa.Instruction) bool {
		for _, s := range sans {
			if s.at == i && s.family && s.complete && c02SameRoots(c02Roots(s.header), fwd) {
				return true
			}
		}
		return false
	}
	if eng.ReachFromEntry(fn, eng.PathQuery{
		Target: func(i ssa.Instruction) bool { return i == x },
		Avoid:  func(i ssa.Instruction) bool { return i != x && good(i) },
	}) == nil {
		return true
	}
	if depth <= 0 || len(fwd) != 1 {
		return false
	}
	var p *ssa.Parameter
	for r := range fwd {
		p, _ = r.(*ssa.Parameter)
	}
	if p == nil || p.Parent() != fn {
		return false
	}
	ups := c.W.UpArgSites(p)
	if len(ups) == 0 {
		return false
	}
	for _, u := range ups {
		if !c02SanitizedBefore(c, u.Site, u.Arg, depth-1) {
			return false
		}
	}
	return true
}

func c02R5(c *eng.Ctx, filter *ssa.Function, hd *c02Handler) {
	cl := hd.fn
	nexts := c02Forwards(c, hd, filter)
	if len(nexts) == 0 {
		c.Fail("R5", cl, "family sanitizer before the next handler", cl.Pos(), "no call of the wrapped handler found")
		return
	}
	builds, _ := c02ParseCall(c, c.W.Region(cl))
	isReqs := func(v ssa.Value) bool {
		cc, i := eng.CallResultOf(v)
		return cc != nil && i == 0 && len(builds) == 1 && cc == builds[0]
	}

	// alternative: the transport sanitises every request it returns
	transportOK := false
	if wr := c.W.Method(pkgTransport, "dynamicImpersonatingRoundTripper", "WrapRequest"); wr != nil && wr.Blocks != nil {
		tsans := c02FindSanitizers(c.W, wr, c02RealVocab, c.Depth)
		transportOK = len(tsans) > 0
		n := 0
		eng.Instrs(wr, func(ins ssa.Instruction) {
			r, ok := ins.(*ssa.Return)
			if !ok || len(r.Results) != 2 || eng.IsNilConst(r.Results[0]) {
				return
			}
			n++
			roots := c02Roots(r.Results[0])
			if !eng.AlwaysBefore(wr, r, func(i ssa.Instruction) bool {
				for _, s := range tsans {
					if s.at == i && s.family && s.complete && c02SameRoots(c02Roots(s.header), roots) {
						return true
					}
				}
				return false
			}) {
				transportOK = false
			}
		})
		if n == 0 {
			transportOK = false
		}
	}

	seen := map[string]int{}
	for _, nx := range nexts {
		site := nx.site
		kind := "impersonated"
		if eng.GuardedBy(site, func(r eng.Rel) bool {
			r = eng.NormRel(r)
			ln := c02IsBuiltin(r.X, "len")
			z, isZ := eng.IntConst(r.Y)
			return ln != nil && isReqs(ln.Call.Args[0]) && isZ && z == 0 && (r.Op == token.EQL || r.Op == token.LEQ)
		}) {
			kind = "pass-through"
		}
		ok := c02SanitizedBefore(c, nx.call, eng.Args(nx.call)[1], eng.LiftDepth)
		desc := "family"
		if !ok {
			// describe what is there instead: impersonation-prefix sanitizers that can run before the forward
			var related []string
			for _, at := range []ssa.Instruction{nx.call, site} {
				for _, s := range c02FindSanitizers(c.W, at.Parent(), c02RealVocab, c.Depth) {
					if !strings.HasPrefix(strings.ToLower(s.prefix), "impersonate") {
						continue
					}
					if eng.ReachAfter(s.at, eng.PathQuery{Target: func(i ssa.Instruction) bool { return i == at }}) != nil {
						related = append(related, s.String())
					}
				}
			}
			sort.Strings(related)
			related = dedup(related)
			desc = "none"
			if len(related) > 0 {
				desc = strings.Join(related, "+")
			}
		}
		seen[kind]++
		construct := fmt.Sprintf("next-handler[%s] sanitizer=%s", kind, desc)
		if seen[kind] > 1 {
			construct = fmt.Sprintf("next-handler[%s]#%d sanitizer=%s", kind, seen[kind], desc)
		}
		detail := "every path to the wrapped handler must pass a complete sanitizer of the whole Impersonate-* family on the forwarded request's header"
		switch {
		case ok:
		case transportOK:
			detail += " (discharged by the equivalent sanitizer in WrapRequest)"
		case desc == "none":
			detail += "; found: no prefix sanitizer on this path — a client `Impersonate-Uid: x` (any family member the gateway does not consume) is forwarded under the gateway's credential"
		default:
			detail += "; found: only " + desc + " on some path — family members outside that prefix (e.g. `Impersonate-Uid`) are forwarded under the gateway's credential"
		}
		c.Check("R5", cl, construct, site.Pos(), ok || transportOK, detail)
	}
}

// ---------------------------------------------------------------------------------------
// fixtures for the sanitizer recogniser

const c02FxSrc = `package fx
type Header map[string][]string
func (h Header) Del(k string) { delete(h, k) }
type Request struct{ Header Header }
func hasPrefix(s, p string) bool { return len(s) >= len(p) && s[:len(p)] == p }
func lower(s string) string { return s }
func canon(s string) string { return s }
func next(r *Request) {}

func goodInline(r *Request) {
	for k := range r.Header {
		if hasPrefix(lower(k), "impersonate-") {
			delete(r.Header, k)
		}
	}
	next(r)
}
func strip(h Header) {
	for k := range h {
		if !hasPrefix(k, "Impersonate-") {
			continue
		}
		h.Del(k)
	}
}
func goodHelper(r *Request) { strip(r.Header); next(r) }
func goodCanon(r *Request) {
	for k := range r.Header {
		switch {
		case hasPrefix(canon(k), "Impersonate-"):
			r.Header.Del(k)
		}
	}
	next(r)
}
func badNarrow(r *Request) {
	for k := range r.Header {
		if hasPrefix(k, "Impersonate-Extra-") {
			r.Header.Del(k)
		}
	}
	next(r)
}
func badCase(r *Request) {
	for k := range r.Header {
		if hasPrefix(k, "impersonate-") {
			delete(r.Header, k)
		}
	}
	next(r)
}
func badBreak(r *Request) {
	for k := range r.Header {
		if hasPrefix(lower(k), "impersonate-") {
			delete(r.Header, k)
			break
		}
	}
	next(r)
}
func badSkip(r *Request, n int) {
	for k := range r.Header {
		if len(k) > n {
			continue
		}
		if hasPrefix(lower(k), "impersonate-") {
			delete(r.Header, k)
		}
	}
	next(r)
}
func badOtherMap(r, o *Request) {
	for k := range r.Header {
		if hasPrefix(lower(k), "impersonate-") {
			delete(o.Header, k)
		}
	}
	next(r)
}
func badDeleteFolded(r *Request) {
	for k := range r.Header {
		if hasPrefix(lower(k), "impersonate-") {
			delete(r.Header, lower(k))
		}
	}
	next(r)
}
func badBypass(r *Request, c bool) {
	if c {
		next(r)
		return
	}
	strip(r.Header)
	next(r)
}
func isImp(k string) bool { return hasPrefix(lower(k), "impersonate-") }
func goodPredicate(r *Request) {
	for k := range r.Header {
		if !isImp(k) {
			continue
		}
		delete(r.Header, k)
	}
	next(r)
}
func notImp(k string) bool {
	if hasPrefix(lower(k), "impersonate-") {
		return false
	}
	return true
}
func goodNegPredicate(r *Request) {
	for k := range r.Header {
		if notImp(k) {
			continue
		}
		r.Header.Del(k)
	}
	next(r)
}
func isImpButUid(k string) bool {
	return hasPrefix(lower(k), "impersonate-") && !hasPrefix(lower(k), "impersonate-uid")
}
func badPredicateSpares(r *Request) {
	for k := range r.Header {
		if isImpButUid(k) {
			delete(r.Header, k)
		}
	}
	next(r)
}
func isImpLong(k string, n int) bool { return len(k) > n && hasPrefix(lower(k), "impersonate-") }
func badPredicateExtraCond(r *Request) {
	for k := range r.Header {
		if isImpLong(k, 12) {
			delete(r.Header, k)
		}
	}
	next(r)
}
func badPredicateInverted(r *Request) {
	for k := range r.Header {
		if notImp(k) {
			delete(r.Header, k)
		}
	}
	next(r)
}
func maybeStrip(h Header, c bool) {
	if c {
		return
	}
	strip(h)
}
func badHelperBypass(r *Request) { maybeStrip(r.Header, false); next(r) }
`

func c02Fixtures(c *eng.Ctx) {
	p, _, err := eng.BuildFixture(c02FxSrc)
	if err != nil {
		c.Fixture("C02.sanitizer/build", "ok", err.Error())
		return
	}
	voc := c02Vocab{
		hasPrefix: "fx.hasPrefix",
		lower:     []string{"fx.lower"},
		canonical: []string{"fx.canon"},
		del:       "(fx.Header).Del",
		isHeader:  func(t types.Type) bool { return eng.TypeName(t) == "fx.Header" },
		isRequest: func(t types.Type) bool {
			pt, ok := t.(*types.Pointer)
			return ok && eng.TypeName(pt.Elem()) == "fx.Request"
		},
	}
	want := map[string]bool{
		"goodInline": true, "goodHelper": true, "goodCanon": true, "goodPredicate": true, "goodNegPredicate": true,
		"badPredicateSpares": false, "badPredicateExtraCond": false, "badPredicateInverted": false,
		"badNarrow": false, "badCase": false, "badBreak": false, "badSkip": false, "badOtherMap": false,
		"badDeleteFolded": false, "badBypass": false, "badHelperBypass": false,
	}
	names := make([]string, 0, len(want))
	for n := range want {
		names = append(names, n)
	}
	sort.Strings(names)
	for _, name := range names {
		fn := p.Func(name)
		got := false
		if fn != nil {
			sans := c02FindSanitizers(nil, fn, voc, 2)
			got = true
			n := 0
			for _, ci := range eng.CallsTo(fn, "fx.next") {
				n++
				fwd := voc.roots(ci.Common().Args[0])
				if !eng.AlwaysBefore(fn, ci, func(i ssa.Instruction) bool {
					for _, s := range sans {
						if s.at == i && s.family && s.complete && c02SameRoots(voc.roots(s.header), fwd) {
							return true
						}
					}
					return false
				}) {
					got = false
				}
			}
			if n == 0 {
				got = false
			}
		}
		c.Fixture("C02.sanitizer/"+name, fmt.Sprint(want[name]), fmt.Sprint(got))
	}
}

// ---------------------------------------------------------------------------------------
// R3e (added after seeded change C02-1): the extra-key escaper escapes '%' and has no
// verbatim path. The upstream percent-decodes Impersonate-Extra-<key>; a key forwarded with
// a literal "%2f" would be read as "/" — an extra key the gateway never authenticated or
// authorised.
func c02Escape(c *eng.Ctx, escapers []*ssa.Function) {
	c.Rule("R3e", "extra keys are escaped injectively: the escaper's byte predicate is true for '%'; the escaper writes a byte raw only when the predicate is false for that byte; its result is built only from what it wrote (no path returns the key verbatim)", 3)
	// the escaper is the function WrapRequest applies to the extra key (found by R3 in the
	// header-name expression); by name only when R3 did not get that far
	var escs []*ssa.Function
	for _, e := range escapers {
		dup := false
		for _, x := range escs {
			dup = dup || x == e
		}
		if !dup && e != nil && e.Blocks != nil {
			escs = append(escs, e)
		}
	}
	if len(escs) == 0 {
		if esc := c.MustFunc(pkgTransport, "headerKeyEscape"); esc != nil {
			escs = append(escs, esc)
		}
	}
	for _, esc := range escs {
		c02Escape1(c, esc)
	}
}

func c02Escape1(c *eng.Ctx, esc *ssa.Function) {
	// the byte predicate: the bool function of one byte called in the escaper's loop (there may
	// be none when the test is written in place, or it may be the "legal byte" test with the
	// '%' case written next to it)
	var pred *ssa.Function
	var predCalls []*ssa.Call
	preds := map[*ssa.Function]bool{}
	for _, ci := range eng.Calls(esc) {
		f := eng.CalleeFn(ci)
		call, isCall := ci.(*ssa.Call)
		if f == nil || !isCall || f.Pkg == nil || f.Pkg.Pkg.Path() != pkgTransport || len(f.Params) != 1 {
			continue
		}
		if b, ok := f.Signature.Results().At(0).Type().Underlying().(*types.Basic); ok && b.Kind() == types.Bool && eng.InLoop(call.Block()) {
			pred = f
			preds[f] = true
			predCalls = append(predCalls, call)
		}
	}
	if len(preds) > 1 {
		pred = nil
	}
	// the raw writes, and for each whether the facts under which it executes — the escaper's
	// own guards, with predicate helpers expanded — say that the byte written is not '%'
	var raws []ssa.CallInstruction
	for _, ci := range eng.Calls(esc) {
		if eng.IsCall(ci, "(*strings.Builder).WriteByte", "(*strings.Builder).WriteRune", "(*strings.Builder).WriteString", "(*bytes.Buffer).WriteByte") {
			raws = append(raws, ci)
		}
	}
	isPercent := func(v ssa.Value) bool { k, ok := eng.IntConst(v); return ok && k == '%' }
	sameByte := func(v, arg ssa.Value) bool {
		strip := func(x ssa.Value) ssa.Value {
			for {
				switch n := x.(type) {
				case *ssa.Convert:
					x = n.X
					continue
				case *ssa.ChangeType:
					x = n.X
					continue
				}
				return x
			}
		}
		return eng.SameValue(strip(v), strip(arg))
	}
	neverPercent := len(raws) > 0
	for _, ci := range raws {
		arg := eng.Args(ci)[0]
		if !eng.HoldsAt(ci, func(r eng.Rel) bool {
			return r.Op == token.NEQ && ((isPercent(r.Y) && sameByte(r.X, arg)) || (isPercent(r.X) && sameByte(r.Y, arg)))
		}) {
			neverPercent = false
		}
	}
	// (a) '%' is escaped: forcing — the predicate is true for '%' on every path (and, by (b), raw
	// writes happen only when it is false) — or, whatever the predicate is, every raw write
	// executes under byte != '%'
	okForce := false
	if pred != nil {
		in := &eng.Interp{W: c.W, Depth: 0}
		paths, err := in.Run(pred, []eng.AV{eng.AVInt('%')})
		okForce = err == nil && len(paths) > 0
		for _, p := range paths {
			if p.LoopCut || p.Panicked || len(p.Ret) != 1 || !p.Ret[0].IsBool(true) {
				okForce = false
			}
		}
	}
	// (b) raw writes only when the predicate is false for that byte
	rawOK := len(raws) > 0 && pred != nil
	for _, ci := range raws {
		arg := eng.Args(ci)[0]
		guarded := eng.GuardedByBool(ci, func(v ssa.Value) bool {
			for _, pc := range predCalls {
				if v == ssa.Value(pc) && pc.Call.Args[0] == arg {
					return true
				}
			}
			return false
		}, false)
		if !guarded {
			rawOK = false
		}
	}
	at := esc
	if pred != nil {
		at = pred
	}
	c.Check("R3e", at, "'%' must be escaped", at.Pos(), (okForce && rawOK) || neverPercent, "the test that decides which bytes are %-encoded must hold for '%' itself, otherwise \"a%2fb\" and \"a/b\" are sent as the same header name")
	c.Check("R3e", esc, "raw bytes only when the predicate is false", esc.Pos(), rawOK || neverPercent, "a byte is copied unescaped although the predicate was not consulted for it (or said it must be escaped)")
	// (c) no verbatim return
	verbatim := false
	sl := &eng.Slicer{W: c.W, Depth: 0}
	eng.Instrs(esc, func(ins ssa.Instruction) {
		r, isR := ins.(*ssa.Return)
		if !isR || r.Block() == esc.Recover {
			return
		}
		for _, v := range eng.ReturnResults(r) {
			if sl.DerivesFrom(v, func(x ssa.Value) bool { return x == ssa.Value(esc.Params[0]) }) {
				verbatim = true
			}
		}
	})
	c.Check("R3e", esc, "no verbatim path", esc.Pos(), !verbatim, "a path returns (part of) the key as it came in: any shortcut that bypasses the per-byte predicate (e.g. a \"plain token\" fast path that considers '%' plain) forwards keys the upstream decodes differently")
}
