package rules

import "kgv/internal/eng"

// C06.R7 = C05.R3b (a schema whose type changed gets a new limiter cache; the same type keeps the
// registered one): re-using the cache of an exempt schema for a token bucket leaves the infinite
// limiter in place — every request is admitted although the configuration says token bucket.
func init() {
	RegisterExtra("C06", func(c *eng.Ctx) {
		c.Rule("R7", "a schema whose type changed gets a new limiter cache (same obligation as C05.R3b): with the loaded cache's type forced different from the new schema's type every path creates a new cache before Sync; with equal types the registered cache is kept", 2)
		c05TypeChangeNewCache(c, "R7")
	})
}
