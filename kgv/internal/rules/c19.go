package rules

// C19 — API-backed limiter store: acknowledged state survives crashes, per shard.
//
// R1  objectStore.Save, write-through mode: API write before the local write, API error returned.
// R2  createOrUpdate: the retry function reports "done" only with the API write's own outcome.
// R3  Delete / DeleteUpstream: API delete (not-found tolerated) before the local delete.
// R4  Stop: flush succeeded before anything is shut down; the flush writes every own-shard
//     item and returns the first error.
// R5  = C13.R4 shard filter of Save/Load (c13ShardFilter in c13.go).
// R6  the limiter acknowledges a status update / cluster update only after Save succeeded.
//
// Shared helpers come from c13.go: c13Path/c13Alias (value identity through cells and
// closures), c13Returned (spilled results), c13CutNilEdges, c13Performs/c13ContainsCall,
// c13IfaceCall, c13OwnShardRel, c13ShardFilter.

import (
	"fmt"
	"go/token"
	"go/types"
	"strings"

	"golang.org/x/tools/go/ssa"

	"kgv/internal/eng"
)

func init() {
	Register("C19", c19)
	RegisterFixture("C19", c19Fixtures)
}

const (
	c19CondIface  = c13CondIface
	c19IsNotFound = "k8s.io/apimachinery/pkg/api/errors.IsNotFound"
)

// c19ErrMatcher matches the error result of call w (the call itself when it returns only an
// error, otherwise its last component), also through single-store cells.
func c19ErrMatcher(w *ssa.Call) func(ssa.Value) bool {
	n := 1
	if t, ok := w.Type().(*types.Tuple); ok {
		n = t.Len()
	}
	return func(v ssa.Value) bool {
		r, ok := c13Alias(v)
		if !ok {
			return false
		}
		cc, idx := eng.CallResultOf(r)
		if cc != w {
			return false
		}
		if n == 1 {
			return idx == -1
		}
		return idx == n-1
	}
}

func c19ReturnsError(w *ssa.Call) bool {
	if t, ok := w.Type().(*types.Tuple); ok {
		return t.Len() > 0 && c13IsErrorType(t.At(t.Len()-1).Type())
	}
	return c13IsErrorType(w.Type())
}

// c19ErrorGates is the template "the outcome of w gates what follows":
// (1) no instruction satisfying after is reachable from w except over an edge on which w's
// error is nil; (2) the error is tested, and on every edge where it is non-nil each return
// that is reached carries an error derived from it. It returns "" or the reason.
func c19ErrorGates(c *eng.Ctx, fn *ssa.Function, w *ssa.Call, after func(ssa.Instruction) bool, what string) string {
	if !c19ReturnsError(w) {
		return "the call has no error result"
	}
	isErr := c19ErrMatcher(w)
	if x := eng.ReachAfter(w, eng.PathQuery{Target: after, BlockEdge: c13CutNilEdges(isErr, true)}); x != nil {
		return what + " is reachable although the call may have failed (its error is ignored or only logged)"
	}
	errIdx := c13ErrIdx(fn)
	sa := c.Slicer().WithArgs()
	tested := false
	for _, b := range fn.Blocks {
		if _, ok := b.Instrs[len(b.Instrs)-1].(*ssa.If); !ok {
			continue
		}
		for si := 0; si < 2; si++ {
			if !c13CutNilEdges(isErr, false)(b, si) {
				continue
			}
			tested = true
			if errIdx < 0 {
				continue
			}
			bad := eng.ReachFromBlock(b.Succs[si], eng.PathQuery{Target: func(x ssa.Instruction) bool {
				ret, ok := x.(*ssa.Return)
				if !ok {
					return false
				}
				ev := c13Returned(ret, errIdx)
				return ev == nil || eng.IsNilConst(ev) || !sa.DerivesFrom(ev, isErr)
			}})
			if bad != nil {
				return "on the failure edge a return does not carry the call's error (the caller would acknowledge)"
			}
		}
	}
	if !tested {
		// never compared: the outcome still gates the acknowledgement when the function hands
		// the call's own error on (`return s.save(x)`, `err := w(); return err`): every return
		// reached from the call carries it
		if errIdx >= 0 {
			nRet := 0
			bad := eng.ReachAfter(w, eng.PathQuery{Target: func(x ssa.Instruction) bool {
				ret, ok := x.(*ssa.Return)
				if !ok || ret.Block() == fn.Recover {
					return false
				}
				nRet++
				ev := c13Returned(ret, errIdx)
				return ev == nil || eng.IsNilConst(ev) || !sa.DerivesFrom(ev, isErr)
			}})
			if bad == nil && nRet > 0 {
				return ""
			}
		}
		return "the call's error is never compared with nil"
	}
	return ""
}

// c19NilReturn matches the returns of fn that report success (a nil constant as error result).
func c19NilReturn(fn *ssa.Function) func(ssa.Instruction) bool {
	errIdx := c13ErrIdx(fn)
	return func(x ssa.Instruction) bool {
		ret, ok := x.(*ssa.Return)
		if !ok {
			return false
		}
		ev := c13Returned(ret, errIdx)
		return ev != nil && eng.IsNilConst(ev)
	}
}

// c19AckGate decides "anchor reports success only if call w succeeded" when w sits in anchor
// or in a helper of its Region: the error gates the nil return of the function that holds w,
// and — when that is a helper — every call of the helper inside the Region gates in turn the
// nil return of its caller, up to anchor. It returns "" or the reason.
func c19AckGate(c *eng.Ctx, anchor *ssa.Function, region map[*ssa.Function]bool, w *ssa.Call, depth int) string {
	g := w.Parent()
	if c13ErrIdx(g) < 0 {
		return eng.FuncName(g) + " has no error result: the failure cannot reach the caller"
	}
	if why := c19ErrorGates(c, g, w, c19NilReturn(g), "a nil-error return"); why != "" {
		return why
	}
	if g == anchor {
		return ""
	}
	sites := c.W.GuardSites(g)
	if len(sites) == 0 || depth <= 0 {
		return "the callers of " + eng.FuncName(g) + " are not completely known"
	}
	n := 0
	for _, s := range sites {
		if !region[s.Parent()] {
			continue // another entry point using the same helper
		}
		n++
		sc, ok := s.(*ssa.Call)
		if !ok || sc.Call.StaticCallee() != g {
			return eng.FuncName(g) + " is started with go/defer or handed on as a callback: its error is lost"
		}
		if why := c19AckGate(c, anchor, region, sc, depth-1); why != "" {
			return why
		}
	}
	if n == 0 {
		return eng.FuncName(g) + " is not called from " + eng.FuncName(anchor)
	}
	return ""
}

// c19FuncArgs returns the functions handed to a call as values: function literals, method
// values (`w.tryWrite`, resolved to the method) and named functions.
func c19FuncArgs(w *eng.World, ci ssa.CallInstruction) []*ssa.Function {
	var out []*ssa.Function
	for _, a := range ci.Common().Args {
		if _, isSig := a.Type().Underlying().(*types.Signature); !isSig {
			continue
		}
		if f := w.FuncOfValue(a); f != nil && f.Blocks != nil {
			out = append(out, f)
		}
	}
	return out
}

// c19Contains reports whether fn, its closures, the functions it hands on as values, or the
// repository functions it calls statically (to the given depth) contain a call satisfying
// pred. It is c13ContainsCall made insensitive to the form of a callback: a function literal,
// a method value of a small state struct, or a named function.
func c19Contains(w *eng.World, fn *ssa.Function, pred func(ssa.CallInstruction) bool, depth int, seen map[*ssa.Function]bool) bool {
	if fn == nil || fn.Blocks == nil || seen[fn] {
		return false
	}
	seen[fn] = true
	defer delete(seen, fn)
	for _, f := range eng.WithClosures(fn) {
		for _, ci := range eng.Calls(f) {
			if pred(ci) {
				return true
			}
			for _, g := range c19FuncArgs(w, ci) {
				if g.Parent() == nil && c19Contains(w, g, pred, depth, seen) {
					return true
				}
			}
			if depth > 0 {
				if g := eng.CalleeFn(ci); g != nil && g != fn && g.Pkg != nil && eng.IsRepoPkg(g.Pkg.Pkg.Path()) && c19Contains(w, g, pred, depth-1, seen) {
					return true
				}
			}
		}
	}
	return false
}

// c19Performs reports whether executing call ci performs a call satisfying pred: directly,
// inside a function value it receives, or inside the repository function it calls.
func c19Performs(w *eng.World, ci ssa.CallInstruction, pred func(ssa.CallInstruction) bool, depth int) bool {
	if pred(ci) {
		return true
	}
	for _, fn := range c19FuncArgs(w, ci) {
		if c19Contains(w, fn, pred, depth, map[*ssa.Function]bool{}) {
			return true
		}
	}
	if g := eng.CalleeFn(ci); g != nil && g.Pkg != nil && eng.IsRepoPkg(g.Pkg.Pkg.Path()) {
		return c19Contains(w, g, pred, depth, map[*ssa.Function]bool{})
	}
	return false
}

func c19Is(target ssa.Instruction) func(ssa.Instruction) bool {
	return func(x ssa.Instruction) bool { return x == target }
}

// c19ListLoop finds the loop-head If `i < len(xs)` whose xs derives from a value matching
// isList; it returns the If and the successor entered for each element.
func c19ListLoops(c *eng.Ctx, fn *ssa.Function, isList func(ssa.Value) bool) []*ssa.If {
	sl := c.Slicer()
	var out []*ssa.If
	for _, b := range fn.Blocks {
		iff, ok := b.Instrs[len(b.Instrs)-1].(*ssa.If)
		if !ok {
			continue
		}
		r := eng.RelOf(iff.Cond, true)
		bound, op := r.Y, r.Op
		if lc, isCall := r.X.(*ssa.Call); isCall && c13IsBuiltin(lc, "len") {
			bound, op = r.X, eng.FlipOp(op)
		}
		lc, isCall := bound.(*ssa.Call)
		if !isCall || !c13IsBuiltin(lc, "len") || op != token.LSS || !sl.DerivesFrom(lc.Call.Args[0], isList) {
			continue
		}
		out = append(out, iff)
	}
	return out
}

func c19(c *eng.Ctx) {
	defer c19Fresh(c)
	c.Rule("R1", "write-through order in objectStore.Save: on every path that does not take the syncPeriod != 0 edge the API write (createOrUpdate) precedes the write to the local store, the local write is reachable from the API write only over its err == nil edge, and the failure edge returns that error. Otherwise a condition is acknowledged (and served from memory) that a crash or an API fault loses", 2)
	c.Rule("R2", "createOrUpdate: the function retried by ExponentialBackoff returns done=true only together with the own error of the last API write on that path (nil ⇒ persisted), `err == nil` of Create, or under a nil-error guard; a conflict retries; createOrUpdate returns the backoff's error. `return true, nil` on a conflict would acknowledge an update that was never written", 2) // ≥ one return of the retried function + the hand-over of the backoff's error (an attempt that forwards to a tuple-returning helper has a single return)
	c.Rule("R3", "delete order: in Delete and DeleteUpstream the API delete (NotFound tolerated, every other error returned) precedes the local delete, which is reachable only over the err == nil edge; DeleteUpstream API-deletes every listed condition of the upstream before dropping it locally. A local-first delete that then fails (or crashes) leaves a persisted condition that the next leader loads again", 10)
	c.Rule("R4", "flush on stop: in objectStore.Stop closing stopCh, stopping the local store and setting stopped are control-dependent on the flush (doSyncLocked) having returned nil; the flush lists every local condition, API-writes every own-shard item and returns the first error instead of continuing. Otherwise a graceful stop in periodic mode drops pending conditions", 8)
	c.Rule("R5", "shard filter of the API-backed store (= C13.R4): Save refuses and Load skips conditions of other shards, Load stores every listed own-shard condition and fails when the list fails", 7)
	c.Rule("R6", "acknowledge after persist: in the limiter's UpdateRateLimitConditionStatus and UpstreamConditionHandler a nil-error return is reachable from LimitStore.Save only over its err == nil edge and the failure edge returns the error", 3)

	storeIface := c.W.Interface(pkgRLStoreIf, "LimitStore")
	if storeIface == nil {
		c.Fail("engine", nil, "unresolved-anchor interface LimitStore", 0, "not found")
		return
	}
	local := func(method string) func(ssa.Instruction) bool {
		return func(x ssa.Instruction) bool {
			ci, ok := x.(ssa.CallInstruction)
			return ok && c13IfaceCall(ci, storeIface, method) && eng.FieldLoadOf(eng.Receiver(ci), c13TObjectStore, "localStore")
		}
	}
	isAPIWrite := func(ci ssa.CallInstruction) bool {
		return eng.IsCall(ci, c19CondIface+".Update", c19CondIface+".Create")
	}
	isAPIDelete := func(ci ssa.CallInstruction) bool { return eng.IsCall(ci, c19CondIface+".Delete") }
	// performers returns the plain calls of fn whose execution performs pred (directly, in a
	// function literal they receive, or in the repository function they call).
	performers := func(fn *ssa.Function, pred func(ssa.CallInstruction) bool, depth int) []*ssa.Call {
		var out []*ssa.Call
		for _, ci := range eng.Calls(fn) {
			if call, ok := ci.(*ssa.Call); ok && c19Performs(c.W, ci, pred, depth) {
				out = append(out, call)
			}
		}
		return out
	}
	inSet := func(cs []*ssa.Call) func(ssa.Instruction) bool {
		return func(x ssa.Instruction) bool {
			for _, w := range cs {
				if x == ssa.Instruction(w) {
					return true
				}
			}
			return false
		}
	}

	c19R1(c, local, performers, inSet, isAPIWrite)
	c19R2(c, isAPIWrite)
	c19R3(c, local, performers, inSet, isAPIDelete, storeIface)
	c19R4(c, local, performers, inSet, isAPIWrite, storeIface)
	c13ShardFilter(c, "R5")
	c19LoadListError(c, local)
	c19R6(c, storeIface)
}

type c19Local = func(string) func(ssa.Instruction) bool
type c19Performers = func(*ssa.Function, func(ssa.CallInstruction) bool, int) []*ssa.Call
type c19InSet = func([]*ssa.Call) func(ssa.Instruction) bool

// ---- R1 ---------------------------------------------------------------------------------

// c19WriteThroughPaths enumerates the paths of objectStore.Save in write-through mode by
// forcing: every load of objectStore.syncPeriod yields 0, same-package callees are followed
// (so it does not matter whether the mode test sits in Save, in a helper that returns the
// object to keep, or in a predicate), errors made by fmt.Errorf / errors.New are non-nil.
// isEvent recognises the API write on a path: the invocation itself, or the call that hands a
// function performing it to the retry helper (which runs it at least once).
func c19WriteThroughPaths(c *eng.Ctx, save *ssa.Function, isAPIWrite func(ssa.CallInstruction) bool) (paths []eng.PathResult, isEvent func(ssa.CallInstruction) bool, consulted bool, err error) {
	return c19SavePaths(c, save, isAPIWrite, 0)
}

// c19SavePaths enumerates the paths of Save with every load of syncPeriod yielding period.
func c19SavePaths(c *eng.Ctx, save *ssa.Function, isAPIWrite func(ssa.CallInstruction) bool, period int64) (paths []eng.PathResult, isEvent func(ssa.CallInstruction) bool, consulted bool, err error) {
	in := &eng.Interp{W: c.W, Depth: eng.LiftDepth + 2, MaxPaths: 1 << 14,
		PinLoad: func(ld *ssa.UnOp, _ string) (eng.AV, bool) {
			if eng.FieldAddrOf(ld.X, c13TObjectStore, "syncPeriod") {
				consulted = true
				return eng.AVInt(period), true
			}
			return eng.AV{}, false
		},
		PinCall: c19PinErrors(nil),
	}
	memo := map[ssa.CallInstruction]bool{}
	isEvent = func(ci ssa.CallInstruction) bool {
		if v, ok := memo[ci]; ok {
			return v
		}
		v := isAPIWrite(ci)
		if g := eng.CalleeFn(ci); !v && (g == nil || g.Pkg == nil || !eng.IsRepoPkg(g.Pkg.Pkg.Path())) {
			for _, f := range c19FuncArgs(c.W, ci) {
				v = v || c19Contains(c.W, f, isAPIWrite, eng.LiftDepth, map[*ssa.Function]bool{})
			}
		}
		memo[ci] = v
		return v
	}
	paths, err = in.Run(save, nil)
	return
}

func c19R1(c *eng.Ctx, local c19Local, performers c19Performers, inSet c19InSet, isAPIWrite func(ssa.CallInstruction) bool) {
	save := c.MustMethod(pkgRLStoreK8s, "objectStore", "Save")
	if save == nil {
		return
	}
	writes := performers(save, isAPIWrite, eng.LiftDepth)
	// the local write may sit in Save or in a helper that is part of it
	var locals []ssa.Instruction
	for _, f := range c.W.Region(save) {
		eng.Instrs(f, func(x ssa.Instruction) {
			if local("Save")(x) {
				locals = append(locals, x)
			}
		})
	}
	if len(writes) == 0 {
		c.Fail("R1", save, "API write before the local write", save.Pos(), "Save performs no API write at all")
	}
	if len(locals) == 0 {
		c.Fail("R1", save, "API write before the local write", save.Pos(), "Save never writes the local store")
	}
	// write-through order, decided on the paths that are feasible with syncPeriod == 0
	paths, isEvent, _, err := c19WriteThroughPaths(c, save, isAPIWrite)
	for k, l := range locals {
		construct := fmt.Sprintf("write-through: API write before local write#%d", k+1)
		if err != nil {
			c.Undecided("R1", save, construct, l.Pos(), "the paths of Save cannot be enumerated: "+err.Error())
			continue
		}
		ok, cut, met := true, false, false
		for _, pr := range paths {
			written := false
			for _, ci := range pr.Calls {
				if isEvent(ci) {
					written = true
				}
				if ci == l.(ssa.CallInstruction) {
					met = true
					if !written {
						ok = false
					}
					cut = cut || pr.LoopCut
				}
			}
		}
		if !met {
			// not executed in write-through mode: fine for a write of the periodic mode only —
			// which must then show up on the paths with syncPeriod != 0
			periodic, _, _, perr := c19SavePaths(c, save, isAPIWrite, 1)
			for _, pr := range periodic {
				for _, ci := range pr.Calls {
					met = met || ci == l.(ssa.CallInstruction)
				}
			}
			if perr != nil || !met {
				c.Undecided("R1", save, construct, l.Pos(), "the local write is not met on any enumerated path of Save (too deep, or behind a loop)")
				continue
			}
		}
		if ok && cut {
			c.Undecided("R1", save, construct, l.Pos(), "the local write sits in a loop: its paths cannot be enumerated")
			continue
		}
		c.Check("R1", save, construct, l.Pos(), ok,
			"a path reaches the local write without the API write and without taking the syncPeriod != 0 edge: the caller is acknowledged and later readers see a condition that a crash loses")
	}
	for k, w := range writes {
		why := c19ErrorGates(c, save, w, func(x ssa.Instruction) bool { return local("Save")(x) }, "the local write")
		if why == "" {
			// a local write that moved into a helper called after w is found by the lifted predicate
			lifted := eng.LiftMay(func(x ssa.Instruction) bool { return local("Save")(x) })
			why = c19ErrorGates(c, save, w, func(x ssa.Instruction) bool { return x != ssa.Instruction(w) && lifted(x) }, "the local write")
		}
		c.Check("R1", save, fmt.Sprintf("API write#%d: error ⇒ returned, no local write", k+1), w.Pos(), why == "", c13Why("the API write's outcome must gate the local write and the acknowledgement", why))
	}
}

// ---- R2 ---------------------------------------------------------------------------------

// c19Retry is one place where an API write is retried: function `in` hands `retried` — a
// function literal, a method value or a named function performing the write — to the error
// returning call `backoff`.
type c19Retry struct {
	in      *ssa.Function
	backoff *ssa.Call
	retried *ssa.Function
}

// c19FindRetries locates the retried API writes of the store package by what they do. The
// method named createOrUpdate is the primary anchor; when it is gone (renamed, merged) every
// function of the package with that role is taken.
func c19FindRetries(c *eng.Ctx, isAPIWrite func(ssa.CallInstruction) bool) []c19Retry {
	scan := func(fn *ssa.Function) []c19Retry {
		var out []c19Retry
		for _, ci := range eng.Calls(fn) {
			call, ok := ci.(*ssa.Call)
			if !ok || !c19ReturnsError(call) || isAPIWrite(ci) {
				continue
			}
			if g := eng.CalleeFn(ci); g != nil && g.Pkg != nil && eng.IsRepoPkg(g.Pkg.Pkg.Path()) {
				continue // a repository function taking a callback is not the retry helper itself
			}
			for _, f := range c19FuncArgs(c.W, ci) {
				if c19Contains(c.W, f, isAPIWrite, eng.LiftDepth, map[*ssa.Function]bool{}) {
					out = append(out, c19Retry{fn, call, f})
				}
			}
		}
		return out
	}
	if cu := c.W.Method(pkgRLStoreK8s, "objectStore", "createOrUpdate"); cu != nil && cu.Blocks != nil {
		if rs := scan(cu); len(rs) > 0 {
			return rs
		}
	}
	var out []c19Retry
	for _, fn := range c.W.FuncsOf(pkgRLStoreK8s) {
		out = append(out, scan(fn)...)
	}
	return out
}

// c19APIWritesOf lists the API write invocations that executing fn may perform itself or in
// the same-package functions it calls (depth ≤ LiftDepth): the calls an attempt consists of.
func c19APIWritesOf(fn *ssa.Function, isAPIWrite func(ssa.CallInstruction) bool) []*ssa.Call {
	var out []*ssa.Call
	seen := map[*ssa.Function]bool{}
	var rec func(f *ssa.Function, depth int)
	rec = func(f *ssa.Function, depth int) {
		if f == nil || f.Blocks == nil || seen[f] {
			return
		}
		seen[f] = true
		for _, g := range eng.WithClosures(f) {
			for _, ci := range eng.Calls(g) {
				call, ok := ci.(*ssa.Call)
				if !ok {
					continue
				}
				if isAPIWrite(ci) {
					out = append(out, call)
				} else if h := call.Call.StaticCallee(); h != nil && depth > 0 && h.Pkg != nil && eng.IsRepoPkg(h.Pkg.Pkg.Path()) {
					rec(h, depth-1)
				}
			}
		}
	}
	rec(fn, eng.LiftDepth)
	return out
}

// c19PinErrors builds the PinCall hook of a forced run: the error result of every call in
// outcome is fixed to nil / non-nil, and errors that are non-nil by construction
// (fmt.Errorf, errors.New) are known to be so.
func c19PinErrors(outcome map[*ssa.Call]bool) func(*ssa.Call, int, *eng.State) (eng.AV, bool) {
	return func(call *ssa.Call, idx int, _ *eng.State) (eng.AV, bool) {
		if c13FreshError(call) && idx == -1 {
			return eng.AV{K: eng.NonNilV}, true
		}
		failed, ok := outcome[call]
		if !ok {
			return eng.AV{}, false
		}
		n := 1
		if t, isT := call.Type().(*types.Tuple); isT {
			n = t.Len()
		}
		if (n == 1 && idx == -1) || (n > 1 && idx == n-1) {
			if failed {
				return eng.AV{K: eng.NonNilV}, true
			}
			return eng.AV{K: eng.NilV}, true
		}
		return eng.AV{}, false
	}
}

func c19R2(c *eng.Ctx, isAPIWrite func(ssa.CallInstruction) bool) {
	retries := c19FindRetries(c, isAPIWrite)
	if len(retries) == 0 {
		cu := c.MustMethod(pkgRLStoreK8s, "objectStore", "createOrUpdate")
		c.Fail("R2", cu, "retried function", 0, "createOrUpdate no longer hands a function performing the API write to a retry helper")
		return
	}
	for ri, rt := range retries {
		cu, backoff, retried := rt.in, rt.backoff, rt.retried
		sfx := ""
		if ri > 0 {
			sfx = fmt.Sprintf(" (retry#%d)", ri+1)
		}
		if retried.Signature.Results().Len() != 2 {
			c.Fail("R2", retried, "retried function"+sfx, retried.Pos(), "the retried function is not a (done bool, err error) condition")
			continue
		}
		// One attempt is decided by forcing: the outcome of every API write the attempt may
		// perform is fixed (nil / non-nil, all combinations) and the paths of the retried function
		// — through the same-package helpers it calls — are enumerated. wait.ExponentialBackoff
		// stops with success only on (done, nil); so on every path that can return done with an
		// error not known to be non-nil, the LAST API write executed on the path must have been
		// fixed to succeed. `return true, nil` after a conflict, `done` taken from the error of
		// a write that is not the last one, or an attempt that writes nothing all violate it.
		writes := c19APIWritesOf(retried, isAPIWrite)
		var rets []*ssa.Return
		for _, b := range retried.Blocks {
			if ret, ok := b.Instrs[len(b.Instrs)-1].(*ssa.Return); ok && b != retried.Recover {
				rets = append(rets, ret)
			}
		}
		if len(rets) == 0 {
			c.Fail("R2", retried, "return: done ⇒ the API write's own outcome"+sfx, retried.Pos(), "no return found")
		}
		if len(writes) == 0 || len(writes) > 6 {
			c.Undecided("R2", retried, "retried function"+sfx, retried.Pos(), fmt.Sprintf("%d API writes in one attempt: cannot enumerate their outcomes", len(writes)))
			continue
		}
		bad := map[ssa.Instruction]string{}
		reached := map[ssa.Instruction]bool{}
		undecided := ""
		for mask := 0; mask < 1<<uint(len(writes)); mask++ {
			outcome := map[*ssa.Call]bool{}
			for i, w := range writes {
				outcome[w] = mask&(1<<uint(i)) != 0
			}
			in := &eng.Interp{W: c.W, Depth: eng.LiftDepth, PinCall: c19PinErrors(outcome)}
			paths, err := in.Run(retried, nil)
			if err != nil {
				undecided = err.Error()
				break
			}
			for _, pr := range paths {
				if pr.Panicked {
					continue
				}
				if pr.LoopCut || pr.Exit == nil || len(pr.Ret) != 2 {
					undecided = "an attempt contains a loop: its paths cannot be enumerated"
					continue
				}
				reached[pr.Exit] = true
				if pr.Ret[0].IsBool(false) || pr.Ret[1].K == eng.NonNilV {
					continue // retried, or given up with an error
				}
				var last *ssa.Call
				for _, ci := range pr.Calls {
					if call, ok := ci.(*ssa.Call); ok && isAPIWrite(ci) {
						last = call
					}
				}
				switch {
				case last == nil:
					bad[pr.Exit] = "done can be reported on a path that performs no API write"
				case outcome[last]:
					bad[pr.Exit] = "done can be reported with a nil error although the last API write of the attempt (" + shortName(eng.FullName(last)) + ") failed: the retry loop stops and createOrUpdate reports success although nothing was persisted (e.g. `return true, nil` after a conflict)"
				}
			}
		}
		for n, ret := range rets {
			construct := fmt.Sprintf("return#%d: done ⇒ the API write's own outcome%s", n+1, sfx)
			switch {
			case bad[ret] != "":
				c.Fail("R2", retried, construct, ret.Pos(), bad[ret])
			case !reached[ret]:
				if undecided == "" {
					undecided = "no enumerated path ends in this return"
				}
				c.Undecided("R2", retried, construct, ret.Pos(), undecided)
			default:
				c.Pass("R2", retried, construct, ret.Pos(), "on every path: not done, a non-nil error, or the last API write succeeded")
			}
		}
		// the function holding the retry hands the backoff's verdict to its caller
		ok := false
		nRet := 0
		for _, b := range cu.Blocks {
			if ret, isRet := b.Instrs[len(b.Instrs)-1].(*ssa.Return); isRet && b != cu.Recover {
				nRet++
				ok = c19ErrMatcher(backoff)(c13Returned(ret, c13ErrIdx(cu)))
				if !ok {
					break
				}
			}
		}
		c.Check("R2", cu, "createOrUpdate returns the retry helper's error"+sfx, backoff.Pos(), ok && nRet > 0, "every return of createOrUpdate must carry the error of the retry helper (timeout after conflicts, API error); dropping it acknowledges an unwritten condition")
	}
}

// ---- R3 ---------------------------------------------------------------------------------

// c19DeleteTolerance checks, inside the function g that invokes the API delete d: NotFound is
// tolerated (returns nil) and no other failure is turned into nil.
func c19DeleteTolerance(g *ssa.Function, d *ssa.Call) (tolerated, notSwallowed bool) {
	isErr := c19ErrMatcher(d)
	nilReturn := func(x ssa.Instruction) bool {
		ret, ok := x.(*ssa.Return)
		if !ok {
			return false
		}
		ev := c13Returned(ret, c13ErrIdx(g))
		return ev != nil && eng.IsNilConst(ev)
	}
	nonNilReturn := func(x ssa.Instruction) bool {
		_, ok := x.(*ssa.Return)
		return ok && !nilReturn(x)
	}
	// edges on which IsNotFound(err) holds
	var nfCalls []*ssa.Call
	for _, ci := range eng.CallsTo(g, c19IsNotFound) {
		if call, ok := ci.(*ssa.Call); ok && isErr(call.Call.Args[0]) {
			nfCalls = append(nfCalls, call)
		}
	}
	notFoundEdge := func(from *ssa.BasicBlock, si int) bool {
		iff, ok := from.Instrs[len(from.Instrs)-1].(*ssa.If)
		if !ok {
			return false
		}
		r := eng.RelOf(iff.Cond, si == 0)
		holds := (r.Op == token.EQL && eng.IsBoolConst(r.Y, true)) || (r.Op == token.NEQ && eng.IsBoolConst(r.Y, false))
		if !holds {
			return false
		}
		for _, nf := range nfCalls {
			if r.X == ssa.Value(nf) {
				return true
			}
		}
		return false
	}
	for _, nf := range nfCalls {
		for _, br := range eng.BranchesOn(nf) {
			if eng.ReachFromBlock(br.OnTrue, eng.PathQuery{Target: nonNilReturn}) == nil {
				tolerated = true
			}
		}
	}
	nilEdge := c13CutNilEdges(isErr, true)
	notSwallowed = eng.ReachAfter(d, eng.PathQuery{Target: nilReturn, BlockEdge: func(from *ssa.BasicBlock, si int) bool {
		return nilEdge(from, si) || notFoundEdge(from, si)
	}}) == nil
	return
}

// c19Hop is one step of a call chain: call Call located in function In.
type c19Hop struct {
	In   *ssa.Function
	Call *ssa.Call
}

// c19ChainDepth bounds the number of hops below the analysed function.
const c19ChainDepth = 6

// c19Chains lists the call chains by which executing call w of the analysed function performs
// an invocation satisfying pred: chain[0] is w itself, chain[i+1] is a call inside a function
// literal (or bound method) chain[i].Call receives or inside the repository function it calls,
// the last hop is the invocation. However many helpers / methods / retry wrappers a
// refactoring puts between the analysed function and the API call, the chain names them all.
// One chain (the longest, i.e. the one naming every hop) is kept per invocation.
func c19Chains(w *ssa.Call, pred func(ssa.CallInstruction) bool) [][]c19Hop {
	var all [][]c19Hop
	var rec func(d *ssa.Call, prefix []c19Hop, onPath map[*ssa.Function]bool)
	rec = func(d *ssa.Call, prefix []c19Hop, onPath map[*ssa.Function]bool) {
		chain := append(append([]c19Hop{}, prefix...), c19Hop{d.Parent(), d})
		if pred(d) {
			all = append(all, chain)
			return
		}
		if len(chain) > c19ChainDepth {
			return
		}
		var fns []*ssa.Function
		for _, f := range c13ClosureArgs(d) {
			fns = append(fns, eng.WithClosures(f)...)
		}
		if g := d.Call.StaticCallee(); g != nil && g.Blocks != nil {
			if (g.Pkg != nil && eng.IsRepoPkg(g.Pkg.Pkg.Path())) || g.Parent() != nil {
				fns = append(fns, eng.WithClosures(g)...)
			}
		}
		for _, f := range fns {
			if onPath[f] {
				continue
			}
			onPath[f] = true
			for _, ci := range eng.Calls(f) {
				if x, ok := ci.(*ssa.Call); ok {
					rec(x, chain, onPath)
				}
			}
			delete(onPath, f)
		}
	}
	rec(w, nil, map[*ssa.Function]bool{w.Parent(): true})
	best := map[*ssa.Call]int{}
	for i, ch := range all {
		site := ch[len(ch)-1].Call
		if j, ok := best[site]; !ok || len(ch) > len(all[j]) {
			best[site] = i
		}
	}
	var out [][]c19Hop
	for i, ch := range all {
		if best[ch[len(ch)-1].Call] == i {
			out = append(out, ch)
		}
	}
	return out
}

// c19RefUp re-expresses an operand v of the last hop of a chain in the context of the analysed
// function (chain[0].In): values captured by function literals are resolved to the enclosing
// function's (c13Path), a plain parameter of a helper on the chain becomes the actual argument
// of the hop that calls the helper, the receiver of a method value `x.m` handed on as a
// function becomes x, and a field of a struct value built locally (the state a closure was
// turned into) becomes the value stored into that field — repeatedly, up the chain.
func c19RefUp(chain []c19Hop, v ssa.Value) c13Ref {
	r := c13RefOf(v)
	cur := len(chain) - 1
	join := func(ar c13Ref) { r = c13Ref{ar.Root, c13Join(ar.Path, r.Path)} }
	for step := 0; step < 32; step++ {
		switch root := r.Root.(type) {
		case *ssa.Parameter:
			up := -1
			for j := cur - 1; j >= 0; j-- {
				if chain[j].Call.Call.StaticCallee() == root.Parent() {
					up = j
					break
				}
			}
			k := c13ParamIndex(root)
			if up < 0 || k < 0 || k >= len(chain[up].Call.Call.Args) {
				return r
			}
			join(c13RefOf(chain[up].Call.Call.Args[k]))
			cur = up
			continue
		case *ssa.FreeVar:
			// the synthetic wrapper of a method value: its free variable is the receiver
			// expression at the site that created the method value
			f := root.Parent()
			if f == nil || f.Synthetic == "" {
				return r
			}
			var bound ssa.Value
			up := -1
			for j := cur - 1; j >= 0 && bound == nil; j-- {
				for _, a := range chain[j].Call.Call.Args {
					mc, ok := c13StripConvert(a).(*ssa.MakeClosure)
					if !ok || mc.Fn != ssa.Value(f) {
						continue
					}
					for i, fv := range f.FreeVars {
						if fv == root && i < len(mc.Bindings) {
							bound, up = mc.Bindings[i], j
						}
					}
				}
			}
			if bound == nil {
				return r
			}
			join(c13RefOf(bound))
			cur = up
			continue
		}
		// field of a struct built locally: the single value stored into that field
		val, rest, ok := c19LocalField(r)
		if !ok {
			return r
		}
		ar := c13RefOf(val)
		r = c13Ref{ar.Root, c13Join(ar.Path, rest)}
	}
	return r
}

// c19LocalField resolves the first field step of a reference rooted at a local struct (an
// alloc, or a load of one) to the only value ever stored into that field.
func c19LocalField(r c13Ref) (ssa.Value, string, bool) {
	if r.Path == "" {
		return nil, "", false
	}
	first, rest := r.Path, ""
	if i := strings.Index(r.Path, "."); i >= 0 {
		first, rest = r.Path[:i], r.Path[i+1:]
	}
	al, _ := r.Root.(*ssa.Alloc)
	if ld, ok := r.Root.(*ssa.UnOp); ok && ld.Op == token.MUL {
		al, _ = ld.X.(*ssa.Alloc)
	}
	if al == nil || al.Referrers() == nil {
		return nil, "", false
	}
	var val ssa.Value
	n := 0
	for _, ref := range *al.Referrers() {
		fa, ok := ref.(*ssa.FieldAddr)
		if !ok || c13FieldName(al.Type(), fa.Field) != first || fa.Referrers() == nil {
			continue
		}
		for _, rr := range *fa.Referrers() {
			if st, isSt := rr.(*ssa.Store); isSt && st.Addr == ssa.Value(fa) {
				val = st.Val
				n++
			}
		}
	}
	if n != 1 {
		return nil, "", false
	}
	return val, rest, true
}

// c19ChainTolerance decides the handling of the API delete's outcome along a chain, level by
// level below the analysed function (whose own handling c19ErrorGates decides): each level
// sees the error of the hop it executes. NotFound must be turned into nil at some level; at no
// level may another failure become a nil return; and no level may return nil without having
// executed a call that performs the delete.
func c19ChainTolerance(chain []c19Hop, pred func(ssa.CallInstruction) bool) (tolerated, kept, performed bool) {
	kept, performed = true, true
	for i := 1; i < len(chain); i++ {
		h := chain[i]
		t, k := c19DeleteTolerance(h.In, h.Call)
		tolerated = tolerated || t
		kept = kept && k
		var perf []ssa.Instruction
		for _, ci := range eng.Calls(h.In) {
			if x, ok := ci.(*ssa.Call); ok && (x == h.Call || c19Performs(eng.Current, ci, pred, 3)) {
				perf = append(perf, x)
			}
		}
		errIdx := c13ErrIdx(h.In)
		skip := eng.ReachFromEntry(h.In, eng.PathQuery{
			Target: func(x ssa.Instruction) bool {
				ret, ok := x.(*ssa.Return)
				if !ok || ret.Block() == h.In.Recover {
					return false
				}
				if errIdx < 0 {
					return true
				}
				ev := c13Returned(ret, errIdx)
				return ev == nil || eng.IsNilConst(ev)
			},
			Avoid: func(x ssa.Instruction) bool {
				for _, q := range perf {
					if x == q {
						return true
					}
				}
				return false
			},
		})
		performed = performed && skip == nil
	}
	return
}

func c19R3(c *eng.Ctx, local c19Local, performers c19Performers, inSet c19InSet, isAPIDelete func(ssa.CallInstruction) bool, storeIface *types.Interface) {
	sl := c.Slicer()
	for _, name := range []string{"Delete", "DeleteUpstream"} {
		fn := c.MustMethod(pkgRLStoreK8s, "objectStore", name)
		if fn == nil {
			continue
		}
		apis := performers(fn, isAPIDelete, 3)
		var locals []ssa.Instruction
		eng.Instrs(fn, func(x ssa.Instruction) {
			if local(name)(x) {
				locals = append(locals, x)
			}
		})
		if len(apis) == 0 {
			c.Fail("R3", fn, "API delete before the local delete", fn.Pos(), "no API delete found: the persisted condition survives and is loaded by the next leader")
			continue
		}
		if len(locals) == 0 {
			c.Fail("R3", fn, "API delete before the local delete", fn.Pos(), "no delete on the local store found")
			continue
		}
		own := map[*ssa.Function]bool{}
		for _, f := range eng.WithClosures(fn) {
			own[f] = true
		}
		chainsOf := map[*ssa.Call][][]c19Hop{}
		n := 0
		for k, w := range apis {
			why := c19ErrorGates(c, fn, w, func(x ssa.Instruction) bool { return local(name)(x) }, "the local delete")
			c.Check("R3", fn, fmt.Sprintf("API delete#%d: error ⇒ returned, no local delete", k+1), w.Pos(), why == "", c13Why("a failed API delete must leave the local state in place and be reported", why))
			// NotFound tolerated, other errors kept — decided in the functions between the analysed
			// function and the API invocation (function literal of the retry helper, extracted
			// methods), level by level
			chainsOf[w] = c19Chains(w, isAPIDelete)
			for _, ch := range chainsOf[w] {
				n++
				site := ch[len(ch)-1]
				at := site.In // a site moved out of the method's own literals is reported against the method
				if !own[at] {
					at = fn
				}
				tol, kept, performed := c19ChainTolerance(ch, isAPIDelete)
				c.Check("R3", at, fmt.Sprintf("API delete#%d: NotFound tolerated", n), site.Call.Pos(), tol, "a condition that is already gone from the API server must count as deleted (IsNotFound ⇒ nil), otherwise the local copy stays and is flushed back")
				c.Check("R3", at, fmt.Sprintf("API delete#%d: other errors are returned", n), site.Call.Pos(), kept, "a nil return is reachable from the API delete over an edge that is neither err == nil nor IsNotFound(err)")
				c.Check("R3", at, fmt.Sprintf("API delete#%d: performed whenever nil is reported", n), site.Call.Pos(), performed, "a function between "+name+" and the API invocation can return nil without having executed the delete: the local delete follows although the condition is still persisted")
			}
			if len(chainsOf[w]) == 0 {
				c.Undecided("R3", fn, fmt.Sprintf("API delete#%d: NotFound tolerated", k+1), w.Pos(), "cannot locate the API invocation inside the call")
			}
		}
		if name == "Delete" {
			for k, l := range locals {
				c.Check("R3", fn, fmt.Sprintf("API delete before local delete#%d", k+1), l.Pos(), eng.AlwaysBefore(fn, l, inSet(apis)),
					"a path reaches the local delete without the API delete: a crash right after it leaves a persisted condition that reappears on the next Load")
				// same name
				ok := false
				la := eng.Args(l.(ssa.CallInstruction))
				for _, w := range apis {
					for _, ch := range chainsOf[w] {
						if a := eng.Args(ch[len(ch)-1].Call); len(a) >= 2 && len(la) == 2 && c19RefUp(ch, a[1]) == c13RefOf(la[1]) {
							ok = true
						}
					}
				}
				c.Check("R3", fn, fmt.Sprintf("API and local delete name the same condition#%d", k+1), l.Pos(), ok, "the condition removed from the API server must be the one removed locally")
			}
			continue
		}
		// DeleteUpstream: every listed condition of the upstream is API-deleted before the local drop
		isUpList := func(v ssa.Value) bool {
			cc, ok := v.(*ssa.Call)
			return ok && c13IfaceCall(cc, storeIface, "ListUpstream") && eng.FieldLoadOf(eng.Receiver(cc), c13TObjectStore, "localStore")
		}
		loops := c19ListLoops(c, fn, isUpList)
		if len(loops) == 0 {
			c.Fail("R3", fn, "loop over the upstream's conditions", fn.Pos(), "no loop over localStore.ListUpstream(cluster) found")
			continue
		}
		for k, l := range locals {
			lc := l.(ssa.CallInstruction)
			// the list is of the same upstream that is dropped
			sameUp := false
			for _, ci := range eng.Calls(fn) {
				if v, ok := ci.(*ssa.Call); ok && isUpList(v) && c13RefOf(eng.Args(ci)[0]) == c13RefOf(eng.Args(lc)[0]) {
					sameUp = true
				}
			}
			// the local drop is reached only after the loop is exhausted …
			exhausted := false
			for _, iff := range loops {
				for _, g := range eng.GuardsOf(l) {
					if g.If == iff && !g.Branch {
						exhausted = true
					}
				}
			}
			c.Check("R3", fn, fmt.Sprintf("local drop#%d only after the loop over ListUpstream(same upstream) is exhausted", k+1), l.Pos(), sameUp && exhausted,
				"dropping the upstream locally before all its conditions are deleted in the API server leaves persisted conditions that reappear")
		}
		for k, iff := range loops {
			// … and every iteration API-deletes its item
			miss := eng.ReachFromBlock(iff.Block().Succs[0], eng.PathQuery{
				Target: func(x ssa.Instruction) bool { return x == ssa.Instruction(iff) || local(name)(x) },
				Avoid:  inSet(apis),
			})
			c.Check("R3", fn, fmt.Sprintf("every listed condition is API-deleted#%d", k+1), iff.Pos(), miss == nil, "an iteration can reach the next one (or the local drop) without an API delete")
		}
		for k, w := range apis {
			named := false
			for _, ch := range chainsOf[w] {
				if a := eng.Args(ch[len(ch)-1].Call); len(a) >= 2 && sl.DerivesFrom(c19RefUp(ch, a[1]).Root, isUpList) {
					named = true
				}
			}
			c.Check("R3", fn, fmt.Sprintf("API delete#%d names the listed condition", k+1), w.Pos(), named, "the name given to the API delete must come from the item of the upstream's list")
		}
	}
}

// ---- R4 ---------------------------------------------------------------------------------

func c19R4(c *eng.Ctx, local c19Local, performers c19Performers, inSet c19InSet, isAPIWrite func(ssa.CallInstruction) bool, storeIface *types.Interface) {
	sl := c.Slicer()
	if stop := c.MustMethod(pkgRLStoreK8s, "objectStore", "Stop"); stop != nil {
		flushes := performers(stop, isAPIWrite, 3)
		if len(flushes) == 0 {
			c.Fail("R4", stop, "flush before shutdown", stop.Pos(), "Stop performs no flush of the local conditions to the API server")
		}
		flushedOK := func(x ssa.Instruction) bool {
			for _, f := range flushes {
				if eng.GuardedByNil(x, c19ErrMatcher(f), true) {
					return true
				}
			}
			return false
		}
		why := "must be control-dependent on the flush having returned nil: in periodic mode conditions saved since the last sync exist only in memory, and the caller (stopLimitStoreWithRetry) retries Stop only while it reports an error"
		nClose, nStopped, nLocal := 0, 0, 0
		// the shutdown steps may sit in Stop itself or in helpers its body was spread over; the guard
		// queries lift to the helper's call sites in Stop
		var stopInstrs []ssa.Instruction
		for _, g := range c.W.Region(stop) {
			eng.Instrs(g, func(x ssa.Instruction) { stopInstrs = append(stopInstrs, x) })
		}
		forEach := func(f func(x ssa.Instruction)) {
			for _, x := range stopInstrs {
				f(x)
			}
		}
		forEach(func(x ssa.Instruction) {
			switch u := x.(type) {
			case *ssa.Call:
				if c13IsBuiltin(u, "close") && len(u.Call.Args) == 1 && eng.FieldLoadOf(u.Call.Args[0], c13TObjectStore, "stopCh") {
					nClose++
					c.Check("R4", stop, fmt.Sprintf("close(stopCh)#%d after a successful flush", nClose), x.Pos(), flushedOK(x), "closing stopCh (ends the periodic sync) "+why)
				} else if local("Stop")(x) {
					nLocal++
					c.Check("R4", stop, fmt.Sprintf("localStore.Stop()#%d after a successful flush", nLocal), x.Pos(), flushedOK(x), "stopping the local store "+why)
				}
			case *ssa.Store:
				if eng.FieldAddrOf(u.Addr, c13TObjectStore, "stopped") && !eng.IsBoolConst(u.Val, false) {
					nStopped++
					c.Check("R4", stop, fmt.Sprintf("stopped = true#%d after a successful flush", nStopped), x.Pos(), flushedOK(x), "marking the store stopped (later Stop calls return nil at once) "+why)
				}
			}
		})
		if nClose == 0 {
			c.Fail("R4", stop, "close(stopCh) after a successful flush", stop.Pos(), "Stop never closes stopCh")
		}
		if nStopped == 0 {
			c.Fail("R4", stop, "stopped = true after a successful flush", stop.Pos(), "Stop never records that it stopped")
		}
		for k, f := range flushes {
			why := c19ErrorGates(c, stop, f, func(x ssa.Instruction) bool {
				ret, ok := x.(*ssa.Return)
				if !ok {
					return false
				}
				ev := c13Returned(ret, c13ErrIdx(stop))
				return ev != nil && eng.IsNilConst(ev)
			}, "a nil return")
			c.Check("R4", stop, fmt.Sprintf("flush#%d: error ⇒ Stop returns it", k+1), f.Pos(), why == "", c13Why("a failed flush must be reported so that the caller retries", why))
		}
	}

	// the flush itself
	var flushFn *ssa.Function
	if stop := c.W.Method(pkgRLStoreK8s, "objectStore", "Stop"); stop != nil {
		for _, f := range performers(stop, isAPIWrite, 3) {
			flushFn = f.Call.StaticCallee()
		}
	}
	// follow trivial forwarding (Flush() { return s.doSyncLocked() })
	for i := 0; i < 3 && flushFn != nil && len(c19ListLoops(c, flushFn, func(ssa.Value) bool { return true })) == 0; i++ {
		var next *ssa.Function
		for _, f := range performers(flushFn, isAPIWrite, 3) {
			next = f.Call.StaticCallee()
		}
		flushFn = next
	}
	if flushFn == nil || flushFn.Blocks == nil {
		c.Fail("R4", nil, "flush function", 0, "cannot resolve the function Stop flushes with")
		return
	}
	recv := ssa.Value(flushFn.Params[0])
	isLocalList := func(v ssa.Value) bool {
		cc, ok := v.(*ssa.Call)
		return ok && c13IfaceCall(cc, storeIface, "List") && eng.FieldLoadOf(eng.Receiver(cc), c13TObjectStore, "localStore")
	}
	nList := 0
	for _, ci := range eng.Calls(flushFn) {
		if v, ok := ci.(*ssa.Call); ok && isLocalList(v) {
			nList++
			sel, _ := c13Alias(eng.Args(ci)[0])
			all := false
			if sc, isCall := sel.(*ssa.Call); isCall && eng.IsCall(sc, "k8s.io/apimachinery/pkg/labels.Everything") {
				all = true
			}
			c.Check("R4", flushFn, fmt.Sprintf("flush lists every local condition#%d", nList), ci.Pos(), all, "the flush must start from localStore.List(labels.Everything()); a narrower selector leaves conditions unflushed")
		}
	}
	if nList == 0 {
		c.Fail("R4", flushFn, "flush lists every local condition", flushFn.Pos(), "the flush does not list the local store")
	}
	writes := performers(flushFn, isAPIWrite, 2)
	loops := c19ListLoops(c, flushFn, isLocalList)
	if len(loops) == 0 || len(writes) == 0 {
		c.Fail("R4", flushFn, "flush writes every own-shard item", flushFn.Pos(), "no loop over the listed conditions performing an API write found")
		return
	}
	foreign := func(from *ssa.BasicBlock, si int) bool {
		f, ok := from.Instrs[len(from.Instrs)-1].(*ssa.If)
		return ok && c13OwnShardRel(eng.RelOf(f.Cond, si == 0), false, recv, nil, c.Depth)
	}
	for k, iff := range loops {
		miss := eng.ReachFromBlock(iff.Block().Succs[0], eng.PathQuery{
			Target:    func(x ssa.Instruction) bool { return x == ssa.Instruction(iff) || eng.IsExit(x) },
			Avoid:     inSet(writes),
			BlockEdge: foreign,
		})
		c.Check("R4", flushFn, fmt.Sprintf("flush writes every own-shard item#%d", k+1), iff.Pos(), miss == nil, "an iteration may skip the API write only on the foreign-shard edge; any other skip leaves a pending condition unwritten at a graceful stop")
	}
	for k, w := range writes {
		item := ssa.Value(nil)
		if a := w.Call.Args; len(a) > 0 {
			item = a[len(a)-1]
		}
		fromList := item != nil && sl.DerivesFrom(item, isLocalList)
		c.Check("R4", flushFn, fmt.Sprintf("flush write#%d writes the listed item", k+1), w.Pos(), fromList, "the object written must be the element of the local list")
		why := c19ErrorGates(c, flushFn, w, func(x ssa.Instruction) bool {
			for _, iff := range loops {
				if x == ssa.Instruction(iff) {
					return true
				}
			}
			ret, ok := x.(*ssa.Return)
			if !ok {
				return false
			}
			ev := c13Returned(ret, c13ErrIdx(flushFn))
			return ev != nil && eng.IsNilConst(ev)
		}, "the next iteration or a nil return")
		c.Check("R4", flushFn, fmt.Sprintf("flush write#%d: first error is returned", k+1), w.Pos(), why == "", c13Why("a failed write must abort the flush with an error (Stop then refuses to stop)", why))
	}
}

// c19LoadListError (R5): a failed List must fail Load — a new leader that starts from an
// empty store after a transient API error has silently lost every persisted condition.
func c19LoadListError(c *eng.Ctx, local c19Local) {
	load := c.MustMethod(pkgRLStoreK8s, "objectStore", "Load")
	if load == nil {
		return
	}
	n := 0
	for _, ci := range eng.CallsTo(load, c19CondIface+".List") {
		w, ok := ci.(*ssa.Call)
		if !ok {
			continue
		}
		n++
		why := c19ErrorGates(c, load, w, func(x ssa.Instruction) bool {
			if local("Save")(x) {
				return true
			}
			ret, ok := x.(*ssa.Return)
			if !ok {
				return false
			}
			ev := c13Returned(ret, c13ErrIdx(load))
			return ev != nil && eng.IsNilConst(ev)
		}, "a local write or a nil return")
		c.Check("R5", load, fmt.Sprintf("Load: List#%d error ⇒ returned", n), w.Pos(), why == "", c13Why("Load may report success only after the conditions were listed", why))
	}
	if n == 0 {
		c.Fail("R5", load, "Load: List error ⇒ returned", load.Pos(), "Load does not list the persisted conditions")
	}
}

// ---- R6 ---------------------------------------------------------------------------------

func c19R6(c *eng.Ctx, storeIface *types.Interface) {
	for _, name := range []string{"UpdateRateLimitConditionStatus", "UpstreamConditionHandler"} {
		fn := c.MustMethod(pkgLimiter, "rateLimiter", name)
		if fn == nil {
			continue
		}
		// the Save may sit in the method or in a helper that is part of it (Region); the gate is
		// decided level by level up to the method and reported against the method
		region := map[*ssa.Function]bool{}
		n := 0
		fns := c.W.Region(fn)
		for _, f := range fns {
			region[f] = true
		}
		for _, f := range fns {
			for _, ci := range eng.Calls(f) {
				w, ok := ci.(*ssa.Call)
				if !ok || !c13IfaceCall(ci, storeIface, "Save") {
					continue
				}
				n++
				why := c19AckGate(c, fn, region, w, eng.LiftDepth)
				c.Check("R6", fn, fmt.Sprintf("Save#%d: acknowledged only when persisted", n), w.Pos(), why == "", c13Why("the caller (gateway / controller queue) is told success only if the store accepted the condition", why))
			}
		}
		if n == 0 {
			c.Fail("R6", fn, "Save: acknowledged only when persisted", fn.Pos(), "no LimitStore.Save found")
		}
	}
}

// ---------------------------------------------------------------------------------------
// Self-test of the error-gate template (runs before the rules on every invocation).

const c19FxSrc = `package fx
func write() error { return nil }
func local()       {}
func logf(error)   {}
func wrap(error) error { return nil }

func good() error {
	err := write()
	if err != nil { return err }
	local()
	return nil
}
func goodNested() error {
	err := write()
	if err == nil { local(); return nil }
	return wrap(err)
}
func goodSwitch() error {
	err := write()
	switch { case err != nil: return err }
	local()
	return nil
}
func goodDefer() (e error) {
	defer logf(nil)
	if err := write(); err != nil { return wrap(err) }
	local()
	return nil
}
func badIgnored() error { _ = write(); local(); return nil }
func badLogged() error {
	err := write()
	if err != nil { logf(err) }
	local()
	return nil
}
func badNilReturn() error {
	err := write()
	if err != nil { return nil }
	local()
	return nil
}
func badLocalFirst() error {
	err := write()
	local()
	if err != nil { return err }
	return nil
}
func goodForward() error { return write() }
func goodForwardWrapped() error { err := write(); return wrap(err) }
func badForwardLocal() error { err := write(); local(); return err }
`

func c19Fixtures(c *eng.Ctx) {
	p, _, err := eng.BuildFixture(c19FxSrc)
	if err != nil {
		c.Fixture("C19.errorgate/build", "ok", err.Error())
		return
	}
	for _, t := range []struct {
		name string
		want bool
	}{{"good", true}, {"goodNested", true}, {"goodSwitch", true}, {"goodDefer", true}, {"badIgnored", false}, {"badLogged", false}, {"badNilReturn", false}, {"badLocalFirst", false}, {"goodForward", true}, {"goodForwardWrapped", true}, {"badForwardLocal", false}} {
		fn := p.Func(t.name)
		got := false
		for _, ci := range eng.CallsTo(fn, "fx.write") {
			w := ci.(*ssa.Call)
			got = c19ErrorGates(c, fn, w, func(x ssa.Instruction) bool { return eng.IsCall(x, "fx.local") }, "local") == ""
		}
		c.Fixture("C19.errorgate/"+t.name, fmt.Sprint(t.want), fmt.Sprint(got))
	}
}

// ---------------------------------------------------------------------------------------
// Added after seeded change C19-1: every loaded/flushed item is its own object.
func c19Fresh(c *eng.Ctx) {
	c.Rule("R7", "each persisted condition is loaded as its own object: in objectStore.Load (and the flush) the object handed to the local store / API for a listed item is a per-item value (a copy made in the iteration or the list element itself), never the address of a loop-carried cell such as the range variable — otherwise every key of the shard aliases the last listed item, possibly one of another shard", 1)
	n := 0
	for _, name := range []string{"Load", "doSyncLocked"} {
		fn := c.W.Method(pkgRLStoreK8s, "objectStore", name)
		if fn == nil || fn.Blocks == nil {
			continue
		}
		for _, ci := range eng.Calls(fn) {
			if !eng.InLoop(ci.Block()) || eng.RecvTypeName(ci) == pkgV1alpha1+".RateLimitCondition" {
				continue // methods of the condition itself (DeepCopy, getters) only read it
			}
			for _, a := range ci.Common().Args {
				if eng.TypeName(a.Type()) != pkgV1alpha1+".RateLimitCondition" {
					continue
				}
				if _, isPtr := a.Type().Underlying().(*types.Pointer); !isPtr {
					continue
				}
				n++
				al, isAlloc := a.(*ssa.Alloc)
				bad := isAlloc && eng.LoopCarriedCell(al)
				c.Check("R7", fn, fmt.Sprintf("%s: per-item object#%d", name, n), ci.Pos(), !bad,
					"the address of the loop's own variable is stored for every item: after the loop all entries point at the last item listed")
			}
		}
	}
	if n == 0 {
		c.Fail("R7", nil, "per-item objects in Load", 0, "no condition object handed on inside the load loop")
	}
}
