package rules

import (
	"fmt"

	"golang.org/x/tools/go/ssa"

	"kgv/internal/eng"
)

func init() { RegisterExtra("C13", c13LeaderTableKeys) }

// c13LeaderTableKeys (C13.R6): the gateway's shard → leader table is keyed by the shard id the
// server reported FOR THAT leader. In clientSets.sync every write of a reported leader
// (leaderEndpoints.Store(k, v), setLeaderStatus(k, v, _)) whose value v is the Leader member of
// a reported endpoint has a key k that derives from the ShardID member of the same endpoint;
// every keyed read of the table in sync uses such a key too. The position of the endpoint in
// the reply is not its shard: a shard without a leader is simply absent from the reply.
func c13LeaderTableKeys(c *eng.Ctx) {
	c.Rule("R6", "leader table keyed by the reported shard id: in clientSets.sync a reported endpoint's Leader is stored / marked ready only under a key derived from the ShardID of the same endpoint, and the table is read under such a key", 3)
	// clientSets.sync by name, or the function that records the reported leaders
	sy := c13Anchor(c, pkgClientsets, "clientSets", "sync", func(fn *ssa.Function) bool {
		for _, rf := range c.W.Region(fn) {
			for _, ci := range eng.CallsTo(rf, "(*sync.Map).Store") {
				if eng.FieldAddrOf(eng.Receiver(ci), pkgClientsets+".clientSets", "leaderEndpoints") {
					return len(eng.Current.LiftSites(fn)) == 0
				}
			}
		}
		return false
	})
	if sy == nil {
		return
	}
	sl := c.Slicer().WithUp()
	memberOf := func(v ssa.Value, field string) []ssa.Value {
		// bases (struct addresses / values) whose member `field` v derives from
		var out []ssa.Value
		sl.Walk(v, func(n eng.Node) bool {
			x := n.V
			if u, ok := x.(*ssa.UnOp); ok {
				if fa, ok := u.X.(*ssa.FieldAddr); ok && c13xFieldName(fa) == field {
					out = append(out, fa.X)
				}
			}
			if f, ok := x.(*ssa.Field); ok && c13xFieldNameV(f) == field {
				out = append(out, f.X)
			}
			return true
		})
		return out
	}
	sameElem := func(as, bs []ssa.Value) bool {
		for _, a := range as {
			for _, b := range bs {
				if a == b || sameLoad(a, b) || c13SameIndexAddr(a, b) {
					return true
				}
			}
		}
		return false
	}
	n := 0
	for _, fn := range c.W.Region(sy) {
		for _, ci := range eng.Calls(fn) {
			var key, val ssa.Value
			what := ""
			switch {
			case eng.IsCall(ci, "(*sync.Map).Store") && eng.FieldAddrOf(eng.Receiver(ci), pkgClientsets+".clientSets", "leaderEndpoints"):
				a := eng.Args(ci)
				key, val, what = a[0], a[1], "leaderEndpoints.Store"
			case eng.IsCall(ci, "(*sync.Map).Load") && eng.FieldAddrOf(eng.Receiver(ci), pkgClientsets+".clientSets", "leaderEndpoints"):
				key, what = eng.Args(ci)[0], "leaderEndpoints.Load"
			case eng.IsCall(ci, "(*"+pkgClientsets+".clientSets).setLeaderStatus"):
				a := eng.Args(ci)
				key, val, what = a[0], a[1], "setLeaderStatus"
			default:
				continue
			}
			n++
			shardOf := memberOf(key, "ShardID")
			ok := len(shardOf) > 0
			if ok && val != nil {
				leaderOf := memberOf(val, "Leader")
				ok = len(leaderOf) > 0 && sameElem(shardOf, leaderOf)
			}
			c.Check("R6", sy, fmt.Sprintf("%s#%d keyed by the endpoint's own ShardID", what, n), ci.Pos(), ok,
				"the key is not the ShardID reported with this leader (e.g. the position in the reply): when a lower shard has no leader the gateway records every later leader under the wrong shard and addresses requests to servers that refuse them")
		}
	}
	if n == 0 {
		c.Fail("R6", sy, "keyed accesses of the leader table", sy.Pos(), "none found in clientSets.sync")
	}
}

func c13xFieldName(fa *ssa.FieldAddr) string { return fieldNameOf(c10Deref(fa.X.Type()), fa.Field) }
func c13xFieldNameV(f *ssa.Field) string     { return fieldNameOf(f.X.Type(), f.Field) }

func c13SameIndexAddr(a, b ssa.Value) bool {
	ia, ok1 := a.(*ssa.IndexAddr)
	ib, ok2 := b.(*ssa.IndexAddr)
	if !ok1 || !ok2 {
		return false
	}
	return (ia.X == ib.X || sameLoad(ia.X, ib.X)) && ia.Index == ib.Index
}
