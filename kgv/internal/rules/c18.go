package rules

import (
	"fmt"
	"go/token"
	"go/types"
	"sort"
	"strings"

	"golang.org/x/tools/go/ssa"

	"kgv/internal/eng"
)

// C18 — quota of dead gateway instances is reclaimed, live instances are left alone.
//
// The rules are organised around the two kinds of deletion the limiter server performs:
//
//	DEL  LimitStore.Delete(upstream, condition)        a stored per-instance condition (its quotas)
//	DIS  LimitStore.DeleteInstanceState(instance)      the in-flight counts kept for an instance
//
// Every such call outside the store packages is found by callee identity, lifted through
// same-package helpers whose operands are their own parameters (deleteCondition,
// deleteGlobalFlowControl today) and then classified at the place where the store and
// the instance/condition are chosen:
//
//	R1 completeness  every expired client loses its heartbeat entry and starts a pass that,
//	                 for every store, lists the conditions labelled with the instance,
//	                 deletes each of them and calls DeleteInstanceState; DeleteInstanceState
//	                 reaches SetState(instance, _, <0) on every flow control of every
//	                 upstream; a negative SetState removes the instance's entry and
//	                 subtracts its count.
//	R2 safety        each deletion is control-dependent on `now > last + timeout` of the very
//	                 client it deletes, or on the instance being absent from the heartbeat
//	                 snapshot (which is complete before it is consulted); records with an
//	                 empty instance (the <upstream>.state record) are never deleted; the
//	                 heartbeat refreshes the time stamp the expiry test reads.
//	R3 agreement     the label key written when a condition is stored and the key of the
//	                 cleanup selector are the same constant; the labelled value is an
//	                 instance name.
//
// Both passes (the per-second timeout pass and the 30 s sweep of unknown instances) must
// be scheduled with `go wait.Until` (R1): the sweep is what reclaims conditions the
// timeout pass cannot select.
//
// Not decided: timing (3 s / 30 s) and races between a heartbeat and a cleanup pass.

func init() {
	Register("C18", c18)
	RegisterFixture("C18", c18Fixtures)
}

const (
	c18LimitStore = pkgRLStoreIf + ".LimitStore"
	c18Cond       = pkgV1alpha1 + ".RateLimitCondition"
	c18Spec       = pkgV1alpha1 + ".RateLimitSpec"
	c18ObjectMeta = "k8s.io/apimachinery/pkg/apis/meta/v1.ObjectMeta"
)

// ---------------------------------------------------------------------------------------
// small SSA helpers

// c18Loop is a `for k, v := range m` loop over a map.
type c18Loop struct {
	next *ssa.Next
	rng  *ssa.Range
	body *ssa.BasicBlock // first block of the loop body
}

func c18LoopOf(n *ssa.Next) (c18Loop, bool) {
	r, ok := n.Iter.(*ssa.Range)
	if !ok {
		return c18Loop{}, false
	}
	for _, e := range eng.ExtractOf(n, 0) {
		for _, br := range eng.BranchesOn(e) {
			return c18Loop{n, r, br.OnTrue}, true
		}
	}
	return c18Loop{}, false
}

// c18Loops returns the map-range loops of fn whose ranged map satisfies isMap.
func c18Loops(fn *ssa.Function, isMap func(ssa.Value) bool) []c18Loop {
	var out []c18Loop
	eng.Instrs(fn, func(ins ssa.Instruction) {
		if n, ok := ins.(*ssa.Next); ok {
			if l, ok := c18LoopOf(n); ok && isMap(l.rng.X) {
				out = append(out, l)
			}
		}
	})
	return out
}

// c18NextExtract: v = extract (next …) #idx.
func c18NextExtract(v ssa.Value) (*ssa.Next, int) {
	e, ok := v.(*ssa.Extract)
	if !ok {
		return nil, -1
	}
	n, ok := e.Tuple.(*ssa.Next)
	if !ok {
		return nil, -1
	}
	return n, e.Index
}

// c18EveryIteration is the iteration template: every path from the start of the loop body
// to the next iteration or to a function exit executes an instruction satisfying must
// (no `continue`, `break`, `return` or extra condition skips it).
func c18EveryIteration(l c18Loop, must func(ssa.Instruction) bool) bool {
	return c18AlwaysFromBlock(l.body, l.next, must, nil)
}

// c18AlwaysFromBlock: every path from block b to `until` or to an exit passes must;
// edges selected by cut are not followed.
func c18AlwaysFromBlock(b *ssa.BasicBlock, until ssa.Instruction, must func(ssa.Instruction) bool, cut func(*ssa.BasicBlock, int) bool) bool {
	return eng.ReachFromBlock(b, eng.PathQuery{
		Target:    func(i ssa.Instruction) bool { return eng.IsExit(i) || (until != nil && i == until) },
		Avoid:     must,
		BlockEdge: cut,
	}) == nil
}

// c18FieldChain strips one load and the FieldAddr chain below it: for *(&(&b.f).g) it
// returns (b, [f g]).
func c18FieldChain(v ssa.Value) (ssa.Value, []string) {
	u, ok := v.(*ssa.UnOp)
	if !ok || u.Op != token.MUL {
		return v, nil
	}
	var path []string
	cur := u.X
	for {
		fa, ok := cur.(*ssa.FieldAddr)
		if !ok {
			break
		}
		t := fa.X.Type()
		if p, ok := t.Underlying().(*types.Pointer); ok {
			t = p.Elem()
		}
		name := "?"
		if st, ok := t.Underlying().(*types.Struct); ok && fa.Field < st.NumFields() {
			name = st.Field(fa.Field).Name()
		}
		path = append([]string{name}, path...)
		cur = fa.X
	}
	if len(path) == 0 {
		return v, nil
	}
	return cur, path
}

func c18PathIs(p []string, want ...string) bool {
	if len(p) != len(want) {
		return false
	}
	for i := range p {
		if p[i] != want[i] {
			return false
		}
	}
	return true
}

// c18SameObject: a and b denote the same object — the same SSA value, or two loads of the
// same slice element / the same access path.
func c18SameObject(a, b ssa.Value) bool {
	if a == b {
		return true
	}
	ua, ok1 := a.(*ssa.UnOp)
	ub, ok2 := b.(*ssa.UnOp)
	if ok1 && ok2 && ua.Op == token.MUL && ub.Op == token.MUL {
		ia, ok1 := ua.X.(*ssa.IndexAddr)
		ib, ok2 := ub.X.(*ssa.IndexAddr)
		if ok1 && ok2 {
			return ia.X == ib.X && ia.Index == ib.Index
		}
	}
	return false
}

// c18IsField reports whether v is field path... of object base.
func c18IsField(v, base ssa.Value, path ...string) bool {
	b, p := c18FieldChain(v)
	return c18PathIs(p, path...) && c18SameObject(b, base)
}

func c18IsBuiltin(ci ssa.CallInstruction, name string) bool {
	b, ok := ci.Common().Value.(*ssa.Builtin)
	return ok && b.Name() == name
}

// c18BoolRel decomposes a relation of the form  X == true/false  (or != …) into X and the
// truth value it asserts for X.
func c18BoolRel(r eng.Rel) (ssa.Value, bool, bool) {
	if r.Op != token.EQL && r.Op != token.NEQ {
		return nil, false, false
	}
	if !eng.IsBoolConst(r.Y, true) && !eng.IsBoolConst(r.Y, false) {
		return nil, false, false
	}
	return r.X, eng.IsBoolConst(r.Y, true) == (r.Op == token.EQL), true
}

// c18ParamIndex returns the index of p among its function's parameters.
func c18ParamIndex(p *ssa.Parameter) int {
	for i, q := range p.Parent().Params {
		if q == p {
			return i
		}
	}
	return -1
}

// ---------------------------------------------------------------------------------------

type c18State struct {
	c       *eng.Ctx
	ls      *types.Interface // LimitStore
	gfc     *types.Interface // GlobalFlowControl
	sl, sa  *eng.Slicer
	funcs   []*ssa.Function // every repository function
	cacheTN string          // ClientCache
	tbl     string          // its heartbeat table field (a sync.Map)
	snapFns map[*ssa.Function]bool
	// label keys used by cleanup selectors (R3 reader side)
	readerKeys map[string]token.Pos
	readerFn   map[string]*ssa.Function
	// instructions of the expiry function that start reclamation for the expired client,
	// per kind of deletion ("DEL", "DIS")
	starts map[string]map[ssa.Instruction]bool
	tag    string
	// functions holding a snapshot-membership sweep: condition removal / instance-state removal
	sweepDEL map[*ssa.Function]token.Pos
	sweepDIS map[*ssa.Function]bool
	// functions holding the timeout pass / the sweep (for the scheduling obligation)
	passes map[*ssa.Function]string
}

func (k *c18State) addStart(i ssa.Instruction) {
	if k.tag == "" {
		return
	}
	if k.starts[k.tag] == nil {
		k.starts[k.tag] = map[ssa.Instruction]bool{}
	}
	k.starts[k.tag][i] = true
}

func (k *c18State) isStoreCall(ci ssa.CallInstruction, name string) bool {
	if !eng.MethodNameIs(ci, name) {
		return false
	}
	r := eng.Receiver(ci)
	return r != nil && implementsIface(r.Type(), k.ls)
}

func (k *c18State) inStorePkgs(fn *ssa.Function) bool {
	if fn.Pkg == nil {
		return false
	}
	p := fn.Pkg.Pkg.Path()
	return strings.HasPrefix(p, mod+"/pkg/ratelimiter/store")
}

// isStoreMap: v is a field holding the shard → LimitStore table.
func (k *c18State) isStoreMap(v ssa.Value) bool {
	m, ok := v.Type().Underlying().(*types.Map)
	if !ok || eng.TypeName(m.Elem()) != c18LimitStore {
		return false
	}
	_, p := c18FieldChain(v)
	return len(p) > 0
}

// storeLoopOf: v is the LimitStore of one iteration over the store table.
func (k *c18State) storeLoopOf(v ssa.Value) (c18Loop, bool) {
	if n, idx := c18NextExtract(v); n != nil && idx == 2 {
		if l, ok := c18LoopOf(n); ok && k.isStoreMap(l.rng.X) {
			return l, true
		}
	}
	if lk, ok := v.(*ssa.Lookup); ok && k.isStoreMap(lk.X) {
		if n, idx := c18NextExtract(lk.Index); n != nil && idx == 1 {
			if l, ok := c18LoopOf(n); ok && k.isStoreMap(l.rng.X) {
				return l, true
			}
		}
	}
	return c18Loop{}, false
}

// isSnapshot: v is the map returned by the heartbeat table's snapshot method.
func (k *c18State) isSnapshot(v ssa.Value) bool {
	return k.sl.DerivesFrom(v, func(x ssa.Value) bool {
		call, idx := eng.CallResultOf(x)
		if call == nil || idx != 0 {
			return false
		}
		f := call.Call.StaticCallee()
		return f != nil && k.snapFns[f]
	})
}

// ---- expiry test ------------------------------------------------------------------------

// expiry classifies a relation as "the client of loop l has expired" (now is later than
// its last heartbeat plus a positive constant), "has not expired", or unrelated.
func (k *c18State) expiry(r eng.Rel, l c18Loop) (expired, recognised bool) {
	isHB := func(v ssa.Value) bool { n, i := c18NextExtract(v); return n == l.next && i == 2 }
	fromHB := func(v ssa.Value) bool { return k.sa.DerivesFrom(v, isHB) }
	isNow := func(v ssa.Value) bool {
		return !fromHB(v) && k.sa.DerivesFrom(v, func(x ssa.Value) bool { return eng.IsResultOf(x, "time.Now") })
	}
	isDeadline := func(v ssa.Value) bool {
		return k.sa.DerivesFrom(v, func(x ssa.Value) bool {
			call, _ := eng.CallResultOf(x)
			if call == nil || !eng.IsCall(call, "(time.Time).Add") || len(call.Call.Args) != 2 {
				return false
			}
			d, ok := eng.IntConst(call.Call.Args[1])
			return ok && d > 0 && fromHB(call.Call.Args[0])
		})
	}
	if x, truth, ok := c18BoolRel(r); ok {
		call, _ := x.(*ssa.Call)
		if call == nil || !eng.IsCall(call, "(time.Time).After", "(time.Time).Before") || len(call.Call.Args) != 2 {
			return false, false
		}
		later, earlier := call.Call.Args[0], call.Call.Args[1]
		if eng.IsCall(call, "(time.Time).Before") {
			later, earlier = earlier, later
		}
		if !truth {
			later, earlier = earlier, later
		}
		switch {
		case isNow(later) && isDeadline(earlier):
			return true, true
		case isNow(earlier) && isDeadline(later):
			return false, true
		}
		return false, false
	}
	// elapsed-time forms: time.Since(last) > T, now.Sub(last) > T
	isElapsed := func(v ssa.Value) bool {
		call, _ := v.(*ssa.Call)
		if call == nil {
			return false
		}
		if eng.IsCall(call, "time.Since") {
			return fromHB(call.Call.Args[0])
		}
		if eng.IsCall(call, "(time.Time).Sub") && len(call.Call.Args) == 2 {
			return isNow(call.Call.Args[0]) && fromHB(call.Call.Args[1])
		}
		return false
	}
	x, y, op := r.X, r.Y, r.Op
	if isElapsed(y) {
		x, y, op = y, x, eng.FlipOp(op)
	}
	if isElapsed(x) {
		if d, ok := eng.IntConst(y); ok && d > 0 {
			switch op {
			case token.GTR, token.GEQ:
				return true, true
			case token.LSS, token.LEQ:
				return false, true
			}
		}
	}
	return false, false
}

// expiredSuccs returns, for the loop l, the blocks entered on an "expired" edge.
func (k *c18State) expiredSuccs(l c18Loop) (blocks []*ssa.BasicBlock) {
	for _, b := range l.next.Parent().Blocks {
		if len(b.Instrs) == 0 {
			continue
		}
		iff, ok := b.Instrs[len(b.Instrs)-1].(*ssa.If)
		if !ok {
			continue
		}
		exp, rec := k.expiry(eng.RelOf(iff.Cond, true), l)
		if !rec {
			continue
		}
		if exp {
			blocks = append(blocks, b.Succs[0])
		} else {
			blocks = append(blocks, b.Succs[1])
		}
	}
	return
}

// deadAt: instruction `at` executes only for the expired client of loop l. For an
// instruction inside a closure every creation site of the closure must be invoked under
// the expiry guard. It returns the instruction of the loop's function that carries the guard.
func (k *c18State) deadAt(at ssa.Instruction, l c18Loop, depth int) (bool, []ssa.Instruction) {
	fn := at.Parent()
	if fn == l.next.Parent() {
		ok := eng.HoldsAt(at, func(r eng.Rel) bool {
			exp, rec := k.expiry(r, l)
			return rec && exp
		})
		return ok, []ssa.Instruction{at}
	}
	if fn.Parent() == nil || depth > 3 {
		return false, nil
	}
	var starts []ssa.Instruction
	n := 0
	all := true
	eng.Instrs(fn.Parent(), func(ins ssa.Instruction) {
		mc, ok := ins.(*ssa.MakeClosure)
		if !ok || mc.Fn != ssa.Value(fn) {
			return
		}
		n++
		invoked := false
		if mc.Referrers() != nil {
			for _, r := range *mc.Referrers() {
				if ci, ok := r.(ssa.CallInstruction); ok && ci.Common().Value == ssa.Value(mc) {
					invoked = true
					ok2, st := k.deadAt(ci, l, depth+1)
					if !ok2 {
						all = false
					}
					starts = append(starts, st...)
				}
			}
		}
		if !invoked {
			all = false
		}
	})
	return n > 0 && all, starts
}

// ---- liveness by snapshot membership -----------------------------------------------------

// notLive: the relation states that key (accepted by keyOK) is absent from the heartbeat
// snapshot: a lookup in the snapshot map itself, or in a local set filled — completely,
// before the lookup — with the snapshot's keys.
func (k *c18State) notLive(r eng.Rel, keyOK func(ssa.Value) bool) (bool, string) {
	x, truth, ok := c18BoolRel(r)
	if !ok || truth {
		return false, ""
	}
	var lk *ssa.Lookup
	switch n := x.(type) {
	case *ssa.Lookup:
		if !n.CommaOk {
			lk = n
		}
	case *ssa.Extract:
		if l2, ok := n.Tuple.(*ssa.Lookup); ok && l2.CommaOk && n.Index == 1 {
			lk = l2
		}
	}
	if lk == nil || !keyOK(lk.Index) {
		return false, ""
	}
	if k.isSnapshot(lk.X) {
		return true, ""
	}
	mm, ok := lk.X.(*ssa.MakeMap)
	if !ok || mm.Referrers() == nil {
		return false, ""
	}
	updates := 0
	for _, ref := range *mm.Referrers() {
		switch u := ref.(type) {
		case *ssa.MapUpdate:
			if u.Map != ssa.Value(mm) {
				return false, "the membership set is stored into another map"
			}
			updates++
			n, idx := c18NextExtract(u.Key)
			if n == nil || idx != 1 {
				return false, "the membership set receives a key that is not a key of the heartbeat snapshot"
			}
			if l, ok := c18LoopOf(n); !ok || !k.isSnapshot(l.rng.X) {
				return false, "the membership set is filled from a map other than the heartbeat snapshot"
			}
			if !eng.IsBoolConst(u.Value, true) {
				return false, "the membership set records a value other than true"
			}
			// complete before consulted: no update is reachable after the lookup
			if eng.ReachAfter(lk, eng.PathQuery{Target: func(i ssa.Instruction) bool { return i == ssa.Instruction(u) }}) != nil {
				return false, "the membership set is still being filled after it is consulted (the liveness decision is taken on an incomplete heartbeat snapshot)"
			}
			if eng.ReachAfter(u, eng.PathQuery{Target: func(i ssa.Instruction) bool { return i == ssa.Instruction(lk) }}) == nil {
				return false, "the membership set is filled on a path that does not lead to the lookup"
			}
		case *ssa.Lookup, *ssa.DebugRef, *ssa.Range:
		default:
			if ci, ok := ref.(ssa.CallInstruction); ok && c18IsBuiltin(ci, "len") {
				continue
			}
			return false, "the membership set escapes"
		}
	}
	if updates == 0 {
		return false, "the membership set is never filled"
	}
	return true, ""
}

// ---- where an instance name comes from ---------------------------------------------------

type c18Origin struct {
	ok   bool
	why  string
	kind string // "an expired client" | "absent from the heartbeat snapshot"
}

// instanceOrigin decides whether instance value v, used at instruction at, names a dead
// instance: (α) the key of an iteration over the heartbeat snapshot, with `at` executing
// only when that client expired; (β) a key of a local set every insertion into which is
// control-dependent on the inserted instance being absent from the snapshot; (γ) a
// parameter of a named function: decided at each of its call sites.
func (k *c18State) instanceOrigin(v ssa.Value, at ssa.Instruction, depth int) c18Origin {
	stop := func(x ssa.Value) bool {
		if n, _ := c18NextExtract(x); n != nil {
			return true
		}
		_, isP := x.(*ssa.Parameter)
		return isP
	}
	leaves := k.sl.Leaves(v, stop)
	if len(leaves) == 0 {
		return c18Origin{false, "the instance value has no traceable origin", ""}
	}
	res := c18Origin{ok: true}
	for _, leaf := range leaves {
		if n, idx := c18NextExtract(leaf); n != nil {
			l, ok := c18LoopOf(n)
			if !ok || idx != 1 {
				return c18Origin{false, "the instance is not the key of a recognised iteration", ""}
			}
			if k.isSnapshot(l.rng.X) {
				ok, st := k.deadAt(at, l, 0)
				if !ok {
					return c18Origin{false, "the deletion is not control-dependent on `now > last heartbeat + timeout` of the client it deletes (a live instance loses its quota)", ""}
				}
				for _, s := range st {
					k.addStart(s)
				}
				res.kind = "an expired client"
				continue
			}
			if mm, isMM := l.rng.X.(*ssa.MakeMap); isMM {
				if ok, why := k.deadSet(mm); !ok {
					return c18Origin{false, why, ""}
				}
				res.kind = "absent from the heartbeat snapshot"
				continue
			}
			return c18Origin{false, "the instance ranges over a map that is neither the heartbeat snapshot nor a set of unknown instances", ""}
		}
		if p, isP := leaf.(*ssa.Parameter); isP {
			fn := p.Parent()
			idx := c18ParamIndex(p)
			if fn.Parent() != nil || idx < 0 || depth > 2 {
				return c18Origin{false, "the instance is a parameter whose callers cannot be enumerated", ""}
			}
			n := 0
			for _, caller := range k.funcs {
				for _, cs := range eng.CallsToFn(caller, fn) {
					n++
					if idx >= len(cs.Common().Args) {
						return c18Origin{false, "arity mismatch at a call site", ""}
					}
					sub := k.instanceOrigin(cs.Common().Args[idx], cs, depth+1)
					if !sub.ok {
						return sub
					}
					res.kind = sub.kind
				}
			}
			if n == 0 {
				return c18Origin{false, "the instance is a parameter of a function without static callers", ""}
			}
			continue
		}
		return c18Origin{false, fmt.Sprintf("the instance may come from %s (%T), which is neither an expired client nor an instance absent from the heartbeat snapshot", leaf.Name(), leaf), ""}
	}
	return res
}

// deadSet: every insertion into the local set mm is control-dependent on the inserted
// instance being absent from the heartbeat snapshot.
func (k *c18State) deadSet(mm *ssa.MakeMap) (bool, string) {
	if mm.Referrers() == nil {
		return false, "set of unknown instances is never filled"
	}
	n := 0
	for _, ref := range *mm.Referrers() {
		u, ok := ref.(*ssa.MapUpdate)
		if !ok || u.Map != ssa.Value(mm) {
			continue
		}
		n++
		why := ""
		ok = eng.HoldsAt(u, func(r eng.Rel) bool {
			good, w := k.notLive(r, func(key ssa.Value) bool { return c18SameValue(key, u.Key) })
			if w != "" {
				why = w
			}
			return good
		})
		if !ok {
			if why == "" {
				why = "an instance is scheduled for deletion without having been found absent from the heartbeat snapshot (a live instance loses its counted requests)"
			}
			return false, why
		}
	}
	if n == 0 {
		return false, "set of unknown instances is never filled"
	}
	return true, ""
}

// c18SameValue: the same SSA value or two loads of the same field of the same object.
func c18SameValue(a, b ssa.Value) bool {
	if a == b {
		return true
	}
	ba, pa := c18FieldChain(a)
	bb, pb := c18FieldChain(b)
	return len(pa) > 0 && c18PathIs(pa, pb...) && c18SameObject(ba, bb)
}

// ---- sites --------------------------------------------------------------------------------

// c18Site is a deletion seen from the function that chooses its operands.
type c18Site struct {
	call  ssa.CallInstruction
	fn    *ssa.Function
	store ssa.Value
	arg   ssa.Value // DIS: instance; DEL: the condition object
	via   string
}

// lift replaces a site whose operands are parameters of a named function by the call
// sites of that function (at most two levels).
func (k *c18State) lift(s c18Site, depth int) []c18Site {
	ps, ok1 := s.store.(*ssa.Parameter)
	pa, ok2 := s.arg.(*ssa.Parameter)
	if !ok1 || !ok2 || s.fn.Parent() != nil || ps.Parent() != s.fn || pa.Parent() != s.fn || depth >= 2 {
		return []c18Site{s}
	}
	is, ia := c18ParamIndex(ps), c18ParamIndex(pa)
	var out []c18Site
	for _, caller := range k.funcs {
		for _, cs := range eng.CallsToFn(caller, s.fn) {
			a := cs.Common().Args
			if is >= len(a) || ia >= len(a) {
				continue
			}
			out = append(out, k.lift(c18Site{cs, caller, a[is], a[ia], "helper"}, depth+1)...)
		}
	}
	if len(out) == 0 {
		return []c18Site{s}
	}
	return out
}

// instanceEmpty classifies a relation about the instance field of condition object base.
func c18InstanceEmpty(r eng.Rel, base ssa.Value) (empty, recognised bool) {
	isInst := func(v ssa.Value) bool { return c18IsField(v, base, "Spec", "Instance") }
	x, y, op := r.X, r.Y, r.Op
	if call, ok := x.(*ssa.Call); ok && c18IsBuiltin(call, "len") && isInst(call.Call.Args[0]) {
		if z, isK := eng.IntConst(y); isK {
			switch {
			case z == 0 && (op == token.EQL || op == token.LEQ), z == 1 && op == token.LSS:
				return true, true
			case z == 0 && (op == token.NEQ || op == token.GTR), z == 1 && op == token.GEQ:
				return false, true
			}
		}
		return false, false
	}
	if s, ok := eng.StringConst(y); ok && s == "" && isInst(x) {
		switch op {
		case token.EQL:
			return true, true
		case token.NEQ:
			return false, true
		}
	}
	if s, ok := eng.StringConst(x); ok && s == "" && isInst(y) {
		switch op {
		case token.EQL:
			return true, true
		case token.NEQ:
			return false, true
		}
	}
	return false, false
}

// selectorKey: sel is a label selector built from a one-entry label set {K: v}; it
// returns K's constant and v.
func (k *c18State) selectorKey(sel ssa.Value) (key string, val ssa.Value, pos token.Pos, ok bool) {
	var mm *ssa.MakeMap
	k.sa.Walk(sel, func(n eng.Node) bool {
		if m, isM := n.V.(*ssa.MakeMap); isM && mm == nil {
			mm = m
		}
		return mm == nil
	})
	if mm == nil || mm.Referrers() == nil {
		return "", nil, 0, false
	}
	n := 0
	for _, ref := range *mm.Referrers() {
		if u, isU := ref.(*ssa.MapUpdate); isU && u.Map == ssa.Value(mm) {
			n++
			s, isS := eng.StringConst(u.Key)
			if !isS {
				return "", nil, 0, false
			}
			key, val, pos = s, u.Value, u.Pos()
		}
	}
	return key, val, pos, n == 1
}

// ---------------------------------------------------------------------------------------

func c18(c *eng.Ctx) {
	defer c18Extra(c)
	c.Rule("R1", "reclamation is complete: an expired client loses its heartbeat entry and starts a pass that, for every limit store, deletes every condition labelled with the instance and calls DeleteInstanceState(instance); unknown instances found by the periodic sweep get the same treatment; DeleteInstanceState reaches SetState(instance, _, <0) on every flow control of every upstream, which removes the instance's entry and subtracts its count", 25)
	c.Rule("R2", "live instances are kept: every deletion (heartbeat entry, condition, instance state) is control-dependent on `now > last heartbeat + timeout` of the client it deletes or on the instance being absent from a heartbeat snapshot that is complete before it is consulted; records with an empty instance are never deleted; a heartbeat stores the current time in the table the expiry test reads", 10)
	c.Rule("R3", "writer/reader label agreement: the label key under which a stored condition records its instance equals the key of the cleanup selector, the labelled value is an instance name and the labelled object is the one saved", 3)

	k := &c18State{c: c, sl: c.Slicer(), sa: c.Slicer().WithArgs(), funcs: c.W.AllRepoFuncs(),
		snapFns: map[*ssa.Function]bool{}, readerKeys: map[string]token.Pos{}, readerFn: map[string]*ssa.Function{}, starts: map[string]map[ssa.Instruction]bool{},
		sweepDEL: map[*ssa.Function]token.Pos{}, sweepDIS: map[*ssa.Function]bool{}, passes: map[*ssa.Function]string{}}
	k.ls = c.W.Interface(pkgRLStoreIf, "LimitStore")
	k.gfc = c.W.Interface(pkgRLStoreFC, "GlobalFlowControl")
	cache := c.W.Named(pkgLimiter, "ClientCache")
	if k.ls == nil || k.gfc == nil || cache == nil {
		c.Fail("engine", nil, "unresolved-anchor LimitStore / GlobalFlowControl / ClientCache", 0, "type not found")
		return
	}
	k.cacheTN = eng.TypeName(cache)
	if !c18HeartbeatTable(k, cache) {
		return
	}
	delSites, disSites := c18Sinks(k)
	c18TimeoutPass(k, delSites, disSites)
	c18Conditions(k, delSites)
	c18InstanceStates(k, disSites)
	if len(k.sweepDEL) == 0 {
		c.Fail("R1", nil, "unknown-instance sweep", 0, "no pass removes the conditions of instances absent from the heartbeat snapshot: a condition that the timeout pass cannot select (e.g. reported once, label still empty; limiter restarted and heartbeat table empty) keeps its quota forever")
	}
	sweepFns := make([]*ssa.Function, 0, len(k.sweepDEL))
	for fn := range k.sweepDEL {
		sweepFns = append(sweepFns, fn)
	}
	sort.Slice(sweepFns, func(i, j int) bool { return eng.FuncName(sweepFns[i]) < eng.FuncName(sweepFns[j]) })
	for _, fn := range sweepFns {
		pos := k.sweepDEL[fn]
		c.Check("R1", fn, "unknown instance ⇒ its counted requests are deleted as well", pos, k.sweepDIS[fn], "the sweep that deletes the conditions of unknown instances must also call DeleteInstanceState for them")
	}
	c18Scheduled(k)
	c18Sweepers(k)
	c18NegativeState(k)
	c18Labels(k)
	c18Notes(k)
}

// ---- heartbeat table (R2) ---------------------------------------------------------------

// c18HeartbeatTable resolves ClientCache's table and checks its three accessors:
// heartbeat stores time.Now() under the instance, the snapshot copies (instance, time)
// pairs, removal deletes exactly the given instance.
func c18HeartbeatTable(k *c18State, cache *types.Named) bool {
	c := k.c
	st, _ := cache.Underlying().(*types.Struct)
	if st != nil {
		for i := 0; i < st.NumFields(); i++ {
			if eng.TypeName(st.Field(i).Type()) == "sync.Map" {
				if k.tbl != "" {
					c.Undecided("R2", nil, "heartbeat table", cache.Obj().Pos(), "ClientCache has more than one sync.Map; cannot tell which one holds the heartbeats")
					return false
				}
				k.tbl = st.Field(i).Name()
			}
		}
	}
	if k.tbl == "" {
		c.Fail("engine", nil, "unresolved-anchor heartbeat table of ClientCache", 0, "no sync.Map field")
		return false
	}
	onTbl := func(ci ssa.CallInstruction, method string) bool {
		return eng.IsCall(ci, "(*sync.Map)."+method) && eng.FieldAddrOf(eng.Receiver(ci), k.cacheTN, k.tbl)
	}
	stores, deletes := 0, 0
	for _, fn := range k.funcs {
		for _, ci := range eng.Calls(fn) {
			switch {
			case onTbl(ci, "Store"):
				stores++
				a := eng.Args(ci)
				outer := c06Outermost(fn)
				keyOK := len(a) == 2 && k.sl.DerivesFrom(a[0], func(v ssa.Value) bool { p, ok := v.(*ssa.Parameter); return ok && p.Parent() == outer })
				nowOK := len(a) == 2 && k.sl.DerivesFrom(a[1], func(v ssa.Value) bool { return eng.IsResultOf(v, "time.Now") })
				always := eng.ReachFromEntry(fn, eng.PathQuery{Target: eng.IsExit, Avoid: func(i ssa.Instruction) bool { return i == ssa.Instruction(ci) }}) == nil
				c.Check("R2", fn, "heartbeat stores the current time under the instance", ci.Pos(), keyOK && nowOK && always,
					"every heartbeat must overwrite the instance's entry with time.Now(); otherwise a live instance looks silent to the expiry test and loses its quota")
				// callers forward unconditionally
				if fn.Parent() == nil {
					for _, caller := range k.funcs {
						for _, cs := range eng.CallsToFn(caller, fn) {
							cs := cs
							fw := eng.ReachFromEntry(caller, eng.PathQuery{Target: func(i ssa.Instruction) bool { _, isRet := i.(*ssa.Return); return isRet }, Avoid: func(i ssa.Instruction) bool { return i == ssa.Instruction(cs) }}) == nil
							_, isP := eng.Args(cs)[0].(*ssa.Parameter)
							c.Check("R2", caller, "heartbeat forwarded to the table", cs.Pos(), fw && isP, "the limiter's Heartbeat must record every heartbeat of the reporting instance")
						}
					}
				}
			case onTbl(ci, "Delete"):
				deletes++
				a := eng.Args(ci)
				isP := len(a) == 1 && k.sl.DerivesFrom(a[0], func(v ssa.Value) bool { p, ok := v.(*ssa.Parameter); return ok && p.Parent() == fn })
				c.Check("R2", fn, "heartbeat entry removal deletes the given instance", ci.Pos(), isP && fn.Parent() == nil, "the removed key must be the instance handed in by the caller")
			case onTbl(ci, "LoadOrStore"), onTbl(ci, "LoadAndDelete"), onTbl(ci, "CompareAndSwap"), onTbl(ci, "CompareAndDelete"), onTbl(ci, "Swap"):
				c.Undecided("R2", fn, "heartbeat table access "+shortName(eng.FullName(ci)), ci.Pos(), "the heartbeat table is written through an operation the rule does not classify")
			case onTbl(ci, "Range"):
				// snapshot: the callback copies (key, value) into the returned map and never stops early
				a := eng.Args(ci)
				// the callback: a literal, a method value or the literal built by a constructor (c18Callback);
				// its last two parameters are the entry's key and value
				cb, _ := c18Callback(k, a[0], func(ssa.Value) bool { return false })
				ok := false
				if cb != nil && cb.Signature.Params().Len() == 2 && len(cb.Params) >= 2 {
					pKey, pVal := cb.Params[len(cb.Params)-2], cb.Params[len(cb.Params)-1]
					ok = true
					copied := false
					eng.Instrs(cb, func(ins ssa.Instruction) {
						switch n := ins.(type) {
						case *ssa.Return:
							if len(n.Results) != 1 || !eng.IsBoolConst(n.Results[0], true) {
								ok = false
							}
						case *ssa.MapUpdate:
							if k.sl.DerivesFrom(n.Key, func(v ssa.Value) bool { return v == ssa.Value(pKey) }) &&
								k.sl.DerivesFrom(n.Value, func(v ssa.Value) bool { return v == ssa.Value(pVal) }) {
								copied = true
							}
						}
					})
					isCopy := func(i ssa.Instruction) bool {
						u, isU := i.(*ssa.MapUpdate)
						return isU && k.sl.DerivesFrom(u.Key, func(v ssa.Value) bool { return v == ssa.Value(pKey) })
					}
					ok = ok && copied && eng.ReachFromEntry(cb, eng.PathQuery{Target: eng.IsExit, Avoid: isCopy}) == nil
				}
				if ok && fn.Parent() == nil {
					k.snapFns[fn] = true
				}
				c.Check("R2", fn, "snapshot copies every (instance, heartbeat) pair", ci.Pos(), ok, "the liveness snapshot must contain every instance of the table with its last heartbeat time (an instance missing from it is treated as dead)")
			}
		}
	}
	if stores == 0 {
		c.Fail("R2", nil, "heartbeat stores the current time under the instance", cache.Obj().Pos(), "no Store into the heartbeat table: heartbeats never refresh an instance's time stamp")
	}
	if deletes == 0 {
		c.Fail("R1", nil, "heartbeat entry removal", cache.Obj().Pos(), "no Delete on the heartbeat table: dead clients are counted as live forever")
	}
	if len(k.snapFns) == 0 {
		c.Fail("engine", nil, "unresolved-anchor heartbeat snapshot method", 0, "no method of ClientCache copies the table into a map")
		return false
	}
	return true
}

// ---- sinks ------------------------------------------------------------------------------

func c18Sinks(k *c18State) (del, dis []c18Site) {
	c := k.c
	nDirect := map[*ssa.Function]int{}
	for _, fn := range k.funcs {
		if k.inStorePkgs(fn) {
			continue
		}
		for _, ci := range eng.Calls(fn) {
			switch {
			case k.isStoreCall(ci, "DeleteInstanceState"):
				a := eng.Args(ci)
				s := c18Site{ci, fn, eng.Receiver(ci), a[0], ""}
				lifted := k.lift(s, 0)
				// one obligation per call of DeleteInstanceState, wherever it sits: a helper that is
				// handed the store and the instance must forward unconditionally; a call written in
				// place is judged where it stands (c18InstanceStates)
				if len(lifted) != 1 || lifted[0].call != ci {
					ci := ci
					ok := eng.ReachFromEntry(fn, eng.PathQuery{Target: eng.IsExit, Avoid: func(i ssa.Instruction) bool { return i == ssa.Instruction(ci) }}) == nil
					c.Check("R1", fn, "helper always calls DeleteInstanceState(instance) on its store", ci.Pos(), ok, "a path through the helper skips DeleteInstanceState: the in-flight counts of the dead instance stay in the global totals")
				} else {
					nDirect[fn]++
					c.Pass("R1", fn, fmt.Sprintf("DeleteInstanceState(instance) called in place#%d", nDirect[fn]), ci.Pos(), "no forwarding helper between the pass and the store")
				}
				dis = append(dis, lifted...)
			case k.isStoreCall(ci, "Delete"):
				a := eng.Args(ci)
				if len(a) != 2 {
					continue
				}
				// the function that chooses the operands: Delete's own, or — when the call was moved
				// into a helper that receives the (upstream, name) pair and the store as parameters —
				// the helper's single caller (the guards of both levels count)
				site, sfn := ssa.Instruction(ci), fn
				a0, a1, store := a[0], a[1], eng.Receiver(ci)
				guards := eng.GuardsOf(ci)
				for up := 0; up < 2; up++ {
					_, pN := c18FieldChain(a1)
					_, pU := c18FieldChain(a0)
					if len(pN) > 0 && len(pU) > 0 {
						break
					}
					sites := eng.Current.LiftSites(sfn)
					if len(sites) != 1 {
						break
					}
					cs, isCall := sites[0].(*ssa.Call)
					if !isCall {
						break
					}
					bind := func(v ssa.Value) ssa.Value {
						if p, isP := v.(*ssa.Parameter); isP && p.Parent() == sfn {
							if i := c18ParamIndex(p); i >= 0 && i < len(cs.Call.Args) {
								return cs.Call.Args[i]
							}
						}
						return v
					}
					a0, a1, store = bind(a0), bind(a1), bind(store)
					site, sfn = cs, cs.Parent()
					guards = append(guards, eng.GuardsOf(cs)...)
				}
				baseN, pN := c18FieldChain(a1)
				baseU, pU := c18FieldChain(a0)
				okArgs := c18PathIs(pN, "ObjectMeta", "Name") && c18PathIs(pU, "Spec", "UpstreamCluster") && c18SameObject(baseN, baseU) && eng.TypeName(baseN.Type()) == c18Cond
				c.Check("R1", sfn, "Delete(condition.Spec.UpstreamCluster, condition.Name) of one condition", ci.Pos(), okArgs,
					"the store entry removed must be the condition's own (upstream, name) pair; otherwise the dead instance's quota stays allocated or another record is removed")
				if !okArgs {
					continue
				}
				// guards: only leadership and a non-empty instance may keep a condition
				// every dominating branch is accounted for; a branch on a named flag or on a short-circuit
				// value (`deletable := false; if leader { if len(inst) != 0 { deletable = true } }; if deletable`)
				// stands for the conditions under which the flag is set (eng.GuardLeaves)
				extra := ""
				nonEmpty := false
				for _, g := range guards {
					leaves, _ := eng.GuardLeaves(g)
					for _, r := range leaves {
						if e, rec := c18InstanceEmpty(r, baseN); rec {
							if !e {
								nonEmpty = true
							}
							continue
						}
						if x, truth, ok := c18BoolRel(r); ok && truth {
							if call, _ := x.(*ssa.Call); call != nil && eng.MethodNameIs(call, "IsLeader") {
								continue
							}
						}
						extra = "the deletion is skipped under a condition other than lost leadership or an empty instance"
					}
				}
				c.Check("R1", sfn, "condition removal is unconditional for a dead instance", ci.Pos(), extra == "", strings.TrimSuffix("only `not leader of the shard` and `empty instance` may keep a condition handed to the removal; "+extra, "; "))
				c.Check("R2", sfn, "records without an instance are never deleted", ci.Pos(), nonEmpty, "Delete must be control-dependent on len(condition.Spec.Instance) > 0: the <upstream>.state record has no instance and must survive every cleanup")
				del = append(del, k.lift(c18Site{site.(ssa.CallInstruction), sfn, store, baseN, ""}, 0)...)
			}
		}
	}
	if len(dis) == 0 {
		c.Fail("R1", nil, "DeleteInstanceState call", 0, "no caller of LimitStore.DeleteInstanceState: the in-flight counts of dead instances are never reclaimed")
	}
	if len(del) == 0 {
		c.Fail("R1", nil, "condition removal", 0, "no caller of LimitStore.Delete: the quotas of dead instances are never reclaimed")
	}
	return
}

func c18SiteName(s c18Site, what string, n int) string {
	if s.via != "" {
		return fmt.Sprintf("%s via %s#%d", what, s.via, n)
	}
	return fmt.Sprintf("%s#%d", what, n)
}

// ---- conditions (DEL) -------------------------------------------------------------------

func c18Conditions(k *c18State, sites []c18Site) {
	c := k.c
	per := map[*ssa.Function]int{}
	for _, s := range sites {
		s := s
		per[s.fn]++
		name := c18SiteName(s, "condition removal", per[s.fn])
		isSite := func(i ssa.Instruction) bool { return i == ssa.Instruction(s.call) }
		// the condition is an element of a List result of the very store it is deleted from
		var list *ssa.Call
		elem := s.arg
		if u, ok := elem.(*ssa.UnOp); ok && u.Op == token.MUL {
			if ia, ok := u.X.(*ssa.IndexAddr); ok {
				if call, _ := eng.CallResultOf(ia.X); call != nil && k.isStoreCall(call, "List") {
					list = call
				}
			}
		}
		if list == nil {
			c.Fail("R2", s.fn, name+": condition listed from the store", s.call.Pos(), "the condition handed to the removal is not an element of LimitStore.List(...): its instance cannot be tied to a liveness decision")
			continue
		}
		if eng.Receiver(list) != s.store {
			c.Fail("R1", s.fn, name+": condition listed from the store", s.call.Pos(), "the condition is listed from one store and deleted from another")
			continue
		}
		sl, inStoreLoop := k.storeLoopOf(s.store)
		if key, val, pos, ok := k.selectorKey(eng.Args(list)[0]); ok {
			// (α) selected by the instance label of an expired client
			k.readerKeys[key] = pos
			k.readerFn[key] = s.fn
			o := k.instanceOrigin(val, s.call, 0)
			detail := "conditions are selected by the instance label of " + o.kind
			if !o.ok {
				detail = o.why
			}
			c.Check("R2", s.fn, name+": only the dead instance's conditions", s.call.Pos(), o.ok, detail)
			every := inStoreLoop && c18EveryIteration(sl, func(i ssa.Instruction) bool { return i == ssa.Instruction(list) })
			c.Check("R1", s.fn, name+": every store lists the instance's conditions", list.Pos(), every, "each iteration over the limit stores must list the conditions labelled with the dead instance (a skipped store keeps the instance's quota allocated)")
			c.Check("R1", s.fn, name+": every listed condition is removed", s.call.Pos(), eng.AlwaysAfter(elem.(ssa.Instruction), isSite), "each element of the listed conditions must reach the removal (no continue/break/extra condition)")
			continue
		}
		// (β) every condition of every store, filtered by absence from the heartbeat snapshot
		var edge *ssa.BasicBlock
		why := ""
		for _, g := range eng.GuardsOf(s.call) {
			good, w := k.notLive(g.Rel(), func(key ssa.Value) bool { return c18IsField(key, elem, "Spec", "Instance") })
			if w != "" {
				why = w
			}
			if good {
				if g.Branch {
					edge = g.If.Block().Succs[0]
				} else {
					edge = g.If.Block().Succs[1]
				}
			}
		}
		if why == "" {
			why = "the removal is not control-dependent on the condition's instance being absent from the heartbeat snapshot: conditions of live instances are deleted"
		}
		if edge != nil {
			why = "the removal is control-dependent on the condition's own Spec.Instance being absent from a complete heartbeat snapshot"
		}
		c.Check("R2", s.fn, name+": only conditions of instances absent from the snapshot", s.call.Pos(), edge != nil, why)
		if edge != nil {
			k.sweepDEL[s.fn] = s.call.Pos()
			k.passes[s.fn] = "unknown-instance sweep"
		}
		if edge != nil {
			cut := func(from *ssa.BasicBlock, si int) bool {
				iff, ok := from.Instrs[len(from.Instrs)-1].(*ssa.If)
				if !ok {
					return false
				}
				e, rec := c18InstanceEmpty(eng.RelOf(iff.Cond, si == 0), elem)
				return rec && e
			}
			c.Check("R1", s.fn, name+": every condition of an unknown instance is removed", s.call.Pos(), c18AlwaysFromBlock(edge, nil, isSite, cut),
				"from the `instance not in the snapshot` edge every path must reach the removal unless the instance is empty")
			every := inStoreLoop && c18EveryIteration(sl, func(i ssa.Instruction) bool { return i == ssa.Instruction(list) })
			c.Check("R1", s.fn, name+": every store is swept", list.Pos(), every, "each iteration over the limit stores must list its conditions")
		}
	}
}

// ---- instance states (DIS) --------------------------------------------------------------

func c18InstanceStates(k *c18State, sites []c18Site) {
	c := k.c
	per := map[*ssa.Function]int{}
	for _, s := range sites {
		s := s
		per[s.fn]++
		name := c18SiteName(s, "DeleteInstanceState", per[s.fn])
		isSite := func(i ssa.Instruction) bool { return i == ssa.Instruction(s.call) }
		o := k.instanceOrigin(s.arg, s.call, 0)
		detail := "the instance is " + o.kind
		if !o.ok {
			detail = o.why
		}
		c.Check("R2", s.fn, name+": only for a dead instance", s.call.Pos(), o.ok, detail)
		if o.ok && o.kind == "absent from the heartbeat snapshot" {
			k.sweepDIS[s.fn] = true
		}
		sl, ok := k.storeLoopOf(s.store)
		if !ok {
			c.Fail("R1", s.fn, name+": every store", s.call.Pos(), "the store is not an element of an iteration over the limiter's store table: other shards keep the dead instance's counts")
			continue
		}
		c.Check("R1", s.fn, name+": every store", s.call.Pos(), c18EveryIteration(sl, isSite), "each iteration over the limit stores must call DeleteInstanceState (no continue/return/extra condition before it)")
		// (β): every unknown instance starts an iteration over the stores
		if n, idx := c18NextExtract(s.arg); n != nil && idx == 1 && n.Parent() == s.fn {
			if outer, ok := c18LoopOf(n); ok {
				c.Check("R1", s.fn, name+": every unknown instance", s.call.Pos(), c18EveryIteration(outer, func(i ssa.Instruction) bool { return i == ssa.Instruction(sl.rng) }),
					"each unknown instance must start an iteration over the limit stores")
				// and every unknown instance is recorded: from the not-live edge the insertion is reached unless the instance is empty
				if mm, isMM := outer.rng.X.(*ssa.MakeMap); isMM && mm.Referrers() != nil {
					for _, ref := range *mm.Referrers() {
						u, isU := ref.(*ssa.MapUpdate)
						if !isU {
							continue
						}
						base, p := c18FieldChain(u.Key)
						if !c18PathIs(p, "Spec", "Instance") {
							continue
						}
						for _, g := range eng.GuardsOf(u) {
							good, _ := k.notLive(g.Rel(), func(key ssa.Value) bool { return c18SameValue(key, u.Key) })
							if !good {
								continue
							}
							edge := g.If.Block().Succs[1]
							if g.Branch {
								edge = g.If.Block().Succs[0]
							}
							cut := func(from *ssa.BasicBlock, si int) bool {
								iff, ok := from.Instrs[len(from.Instrs)-1].(*ssa.If)
								if !ok {
									return false
								}
								e, rec := c18InstanceEmpty(eng.RelOf(iff.Cond, si == 0), base)
								return rec && e
							}
							c.Check("R1", s.fn, name+": every instance absent from the snapshot is recorded", u.Pos(),
								c18AlwaysFromBlock(edge, nil, func(i ssa.Instruction) bool { return i == ssa.Instruction(u) }, cut),
								"from the `instance not in the snapshot` edge the instance must be recorded for state deletion unless it is empty")
						}
					}
				}
			}
		}
	}
}

// ---- the timeout pass (expiry function) -------------------------------------------------

func c18TimeoutPass(k *c18State, del, dis []c18Site) {
	c := k.c
	// resolve the origins first so that k.starts is known
	k.tag = "DIS"
	for _, s := range dis {
		k.instanceOrigin(s.arg, s.call, 0)
	}
	k.tag = "DEL"
	for _, s := range del {
		if u, ok := s.arg.(*ssa.UnOp); ok && u.Op == token.MUL {
			if ia, ok := u.X.(*ssa.IndexAddr); ok {
				if call, _ := eng.CallResultOf(ia.X); call != nil && k.isStoreCall(call, "List") {
					if _, val, _, ok := k.selectorKey(eng.Args(call)[0]); ok {
						k.instanceOrigin(val, s.call, 0)
					}
				}
			}
		}
	}
	k.tag = ""
	found := 0
	for _, fn := range k.funcs {
		if k.inStorePkgs(fn) {
			continue
		}
		usesSnapshot := false
		for _, ci := range eng.Calls(fn) {
			if f := eng.CalleeFn(ci); f != nil && k.snapFns[f] {
				usesSnapshot = true
			}
		}
		var loops []c18Loop
		if usesSnapshot {
			loops = c18Loops(fn, k.isSnapshot)
		}
		for _, l := range loops {
			blocks := k.expiredSuccs(l)
			// unclassified time comparisons on the heartbeat are undecided
			eng.Instrs(fn, func(ins ssa.Instruction) {
				iff, ok := ins.(*ssa.If)
				if !ok {
					return
				}
				x, _, isB := c18BoolRel(eng.RelOf(iff.Cond, true))
				call, _ := x.(*ssa.Call)
				if !isB || call == nil || !eng.IsCall(call, "(time.Time).After", "(time.Time).Before") {
					return
				}
				isHB := func(v ssa.Value) bool { n, i := c18NextExtract(v); return n == l.next && i == 2 }
				if !k.sa.DerivesFrom(call, isHB) {
					return
				}
				if _, rec := k.expiry(eng.RelOf(iff.Cond, true), l); !rec {
					c.Undecided("R2", fn, "expiry test", iff.Pos(), "a time comparison on the last heartbeat could not be classified as `now > last + timeout`")
				}
			})
			if len(blocks) == 0 {
				continue
			}
			found++
			// heartbeat entry removal
			isDrop := func(i ssa.Instruction) bool {
				ci, ok := i.(ssa.CallInstruction)
				if !ok {
					return false
				}
				f := eng.CalleeFn(ci)
				if f == nil || !c18DropsHeartbeat(k, f) {
					return false
				}
				a := eng.Args(ci)
				return len(a) == 1 && k.sl.DerivesFrom(a[0], func(v ssa.Value) bool { n, i := c18NextExtract(v); return n == l.next && i == 1 })
			}
			k.passes[fn] = "timeout pass"
			okDrop := true
			okStart := map[string]bool{"DEL": len(k.starts["DEL"]) > 0, "DIS": len(k.starts["DIS"]) > 0}
			for _, b := range blocks {
				if !c18AlwaysFromBlock(b, l.next, isDrop, nil) {
					okDrop = false
				}
				for _, tag := range []string{"DEL", "DIS"} {
					tag := tag
					if !c18AlwaysFromBlock(b, l.next, func(i ssa.Instruction) bool { return k.starts[tag][i] }, nil) {
						okStart[tag] = false
					}
				}
			}
			c.Check("R1", fn, "expired ⇒ heartbeat entry removed", blocks[0].Instrs[0].Pos(), okDrop, "from the `now > last + timeout` edge every path to the next client must delete that client's heartbeat entry (otherwise the instance count used for allocation never shrinks)")
			c.Check("R1", fn, "expired ⇒ pass deleting the instance's conditions started", blocks[0].Instrs[0].Pos(), okStart["DEL"], "from the `now > last + timeout` edge every path to the next client must start a pass in which LimitStore.Delete is reached for the conditions labelled with that client (its allocated quotas)")
			c.Check("R1", fn, "expired ⇒ pass deleting the instance's counted requests started", blocks[0].Instrs[0].Pos(), okStart["DIS"], "from the `now > last + timeout` edge every path to the next client must start a pass in which LimitStore.DeleteInstanceState is reached for that client (its in-flight counts)")
		}
		// every removal of a heartbeat entry is for an expired client
		for _, ci := range eng.Calls(fn) {
			f := eng.CalleeFn(ci)
			if f == nil || !c18DropsHeartbeat(k, f) {
				continue
			}
			o := k.instanceOrigin(eng.Args(ci)[0], ci, 0)
			ok := o.ok && o.kind == "an expired client"
			detail := "the removed heartbeat entry belongs to the client whose expiry was tested"
			if !ok {
				detail = "a heartbeat entry is removed without `now > last heartbeat + timeout` having been established for that client: " + o.why
			}
			c.Check("R2", fn, "heartbeat entry removed only when expired", ci.Pos(), ok, detail)
		}
	}
	if found == 0 {
		c.Fail("R2", nil, "expiry test", 0, "no iteration over the heartbeat snapshot tests `now > last heartbeat + timeout`: either nothing is ever reclaimed or deletions do not depend on silence")
	}
}

// c18DropsHeartbeat: f deletes its parameter from the heartbeat table.
func c18DropsHeartbeat(k *c18State, f *ssa.Function) bool {
	if f.Blocks == nil || f.Parent() != nil {
		return false
	}
	for _, ci := range eng.Calls(f) {
		if eng.IsCall(ci, "(*sync.Map).Delete") && eng.FieldAddrOf(eng.Receiver(ci), k.cacheTN, k.tbl) {
			return true
		}
	}
	return false
}

// ---- scheduling --------------------------------------------------------------------------

// c18Scheduled: the function holding the timeout pass and the one holding the
// unknown-instance sweep are run periodically: each is the function handed to a
// wait.Until started with `go`, or is called on every path by such a function.
func c18Scheduled(k *c18State) {
	c := k.c
	var roots []*ssa.Function
	for _, fn := range k.funcs {
		if k.inStorePkgs(fn) {
			continue
		}
		for _, ci := range eng.Calls(fn) {
			if _, isGo := ci.(*ssa.Go); !isGo || !eng.IsCall(ci, "k8s.io/apimachinery/pkg/util/wait.Until") {
				continue
			}
			switch f := ci.Common().Args[0].(type) {
			case *ssa.MakeClosure:
				roots = append(roots, f.Fn.(*ssa.Function))
			case *ssa.Function:
				roots = append(roots, f)
			}
		}
	}
	var reaches func(f, target *ssa.Function, depth int) bool
	reaches = func(f, target *ssa.Function, depth int) bool {
		if f == target {
			return true
		}
		if depth == 0 || f.Blocks == nil {
			return false
		}
		for _, ci := range eng.Calls(f) {
			ci := ci
			g := eng.CalleeFn(ci)
			if _, plain := ci.(*ssa.Call); !plain || g == nil || g.Blocks == nil {
				continue
			}
			always := eng.ReachFromEntry(f, eng.PathQuery{Target: eng.IsExit, Avoid: func(i ssa.Instruction) bool { return i == ssa.Instruction(ci) }}) == nil
			if always && reaches(g, target, depth-1) {
				return true
			}
		}
		return false
	}
	fns := make([]*ssa.Function, 0, len(k.passes))
	for fn := range k.passes {
		fns = append(fns, fn)
	}
	sort.Slice(fns, func(i, j int) bool { return eng.FuncName(fns[i]) < eng.FuncName(fns[j]) })
	for _, fn := range fns {
		target := c06Outermost(fn)
		ok := false
		for _, r := range roots {
			if reaches(r, target, 3) {
				ok = true
			}
		}
		c.Check("R1", target, "the "+k.passes[fn]+" runs periodically", target.Pos(), ok, "the pass must be (called on every path by) the function of a `go wait.Until(f, period, stop)`; a pass that is never scheduled reclaims nothing")
	}
}

// ---- DeleteInstanceState implementations ------------------------------------------------

// c18Sweepers: every LimitStore.DeleteInstanceState either forwards to a delegate store on
// every path, or sweeps: nested sync.Map.Range callbacks that never stop early and, on
// every path, call SetState(instance, _, negative) on each GlobalFlowControl.
func c18Sweepers(k *c18State) {
	c := k.c
	n := 0
	allSwept := map[string]bool{}
	for _, named := range c.W.Implementers(k.ls) {
		fn := c.W.DeclaredMethod(named, "DeleteInstanceState")
		if fn == nil || fn.Blocks == nil {
			c.Undecided("R1", nil, "DeleteInstanceState of "+shortName(eng.TypeName(named)), named.Obj().Pos(), "not declared on the type itself")
			continue
		}
		n++
		inst := fn.Params[1]
		isInst := func(v ssa.Value) bool {
			return k.sl.DerivesFrom(v, func(x ssa.Value) bool { return x == ssa.Value(inst) })
		}
		swept := map[string]bool{}
		ok, why := c18SweepAll(k, fn, isInst, nil, swept, 0)
		for t := range swept {
			allSwept[t] = true
		}
		if !ok && why == "" {
			why = "a path through DeleteInstanceState reaches neither a delegate store nor SetState(instance, _, <0) of every flow control"
		}
		if ok {
			why = "every path forwards to a delegate store or sweeps every upstream and every flow control with SetState(instance, _, negative constant); no callback stops the sweep early"
		}
		c.Check("R1", fn, "reaches SetState(instance, _, <0) on every flow control", fn.Pos(), ok, why)
	}
	if n == 0 {
		c.Fail("R1", nil, "DeleteInstanceState implementations", 0, "none found")
	}
	// agreement with registration: every sync.Map field into which the store packages put
	// a GlobalFlowControl, or an object holding such a table, is one of the swept tables
	holders := map[string]bool{} // struct types owning a flow-control table
	type reg struct {
		fn    *ssa.Function
		pos   token.Pos
		owner string // struct type owning the table
		table string // owner.field
		val   ssa.Value
	}
	var regs []reg
	for _, fn := range k.funcs {
		if !k.inStorePkgs(fn) {
			continue
		}
		for _, ci := range eng.CallsTo(fn, "(*sync.Map).Store", "(*sync.Map).LoadOrStore") {
			fa, isFA := eng.Receiver(ci).(*ssa.FieldAddr)
			a := eng.Args(ci)
			if !isFA || len(a) != 2 {
				continue
			}
			f, tn := c18FieldOfAddr(fa)
			regs = append(regs, reg{fn, ci.Pos(), tn, tn + "." + f, a[1]})
		}
	}
	storedType := func(v ssa.Value, pred func(types.Type) bool) bool {
		return k.sl.DerivesFrom(v, func(x ssa.Value) bool {
			mi, ok := x.(*ssa.MakeInterface)
			return ok && pred(mi.X.Type())
		})
	}
	// a registration is reported against the entry points it runs for: the function holding the
	// Store itself, or — when the get-or-create block was merged into a helper all callers of
	// which are known — every function that reaches it (one obligation per entry point and
	// table, wherever the Store sits)
	type regKey struct {
		fn        *ssa.Function
		construct string
	}
	type regOb struct {
		pos    token.Pos
		ok     bool
		detail string
	}
	obs := map[regKey]*regOb{}
	var order []regKey
	report := func(r reg, construct, detail string) {
		for _, a := range c18Anchors(r.fn) {
			key := regKey{a, construct}
			o := obs[key]
			if o == nil {
				o = &regOb{pos: r.pos, ok: true, detail: detail}
				obs[key] = o
				order = append(order, key)
			}
			o.ok = o.ok && allSwept[r.table]
		}
	}
	found := 0
	for _, r := range regs {
		if storedType(r.val, func(t types.Type) bool { return implementsIface(t, k.gfc) }) {
			found++
			holders[r.owner] = true
			report(r, "flow controls registered in a swept table ("+shortName(r.table)+")", "a table that holds GlobalFlowControls must be iterated by DeleteInstanceState, otherwise the flow controls registered there keep the dead instance's count")
		}
	}
	for _, r := range regs {
		if storedType(r.val, func(t types.Type) bool { return holders[eng.TypeName(t)] }) {
			report(r, "upstreams registered in a swept table ("+shortName(r.table)+")", "a table that holds per-upstream flow-control tables must be iterated by DeleteInstanceState")
		}
	}
	for _, key := range order {
		o := obs[key]
		c.Check("R1", key.fn, key.construct, o.pos, o.ok, o.detail)
	}
	if found == 0 {
		c.Fail("R1", nil, "flow controls registered in a swept table", 0, "no registration of a GlobalFlowControl in a sync.Map found in the store packages")
	}
}

// c18Anchors returns the functions a construct found in fn runs for: fn itself unless fn is
// a helper shared by several call sites all of which are known (eng.LiftSites) — such a helper
// stands for a block duplicated in each of its callers, and the construct is reported against
// the anchors of the functions holding the call sites (transitively, depth ≤ LiftDepth), in a
// canonical order. Merging a block duplicated in several entry points into one helper thus
// keeps one obligation per entry point; a single-use helper remains its own anchor.
func c18Anchors(fn *ssa.Function) []*ssa.Function {
	seen := map[*ssa.Function]bool{}
	var out []*ssa.Function
	var up func(f *ssa.Function, depth int)
	up = func(f *ssa.Function, depth int) {
		f = c06Outermost(f)
		sites := eng.Current.LiftSites(f)
		if len(sites) < 2 || depth <= 0 {
			if !seen[f] {
				seen[f] = true
				out = append(out, f)
			}
			return
		}
		for _, s := range sites {
			up(s.Parent(), depth-1)
		}
	}
	up(fn, eng.LiftDepth)
	sort.Slice(out, func(i, j int) bool { return eng.FuncName(out[i]) < eng.FuncName(out[j]) })
	return out
}

// c18FieldOfAddr returns the field name and the owning struct's type name of &x.f.
func c18FieldOfAddr(fa *ssa.FieldAddr) (field, typ string) {
	t := fa.X.Type()
	if p, ok := t.Underlying().(*types.Pointer); ok {
		t = p.Elem()
	}
	st, ok := t.Underlying().(*types.Struct)
	if !ok || fa.Field >= st.NumFields() {
		return "", ""
	}
	return st.Field(fa.Field).Name(), eng.TypeName(t)
}

// c18Callback resolves the function value handed to an iterator to the function that runs for
// each entry, together with the predicate recognising the instance inside that function:
//
//   - a function literal (written in place or bound to a variable assigned once, possibly
//     captured by an enclosing literal): the instance is what it is in the enclosing function;
//   - a method value x.m: the method; the instance is whatever derives from the receiver, provided
//     the bound receiver derives from the instance;
//   - the result of a call of a repository function every return of which hands out the same
//     function literal (`forget := forgetInstance(instance)`): that literal; the instance is
//     what derives from a parameter of the constructor bound to the instance at the call.
func c18Callback(k *c18State, v ssa.Value, isInst func(ssa.Value) bool) (*ssa.Function, func(ssa.Value) bool) {
	if a, isAlias := c13Alias(v); isAlias && a != nil {
		v = a
	}
	switch x := v.(type) {
	case *ssa.Function:
		if x.Blocks == nil {
			return nil, nil
		}
		return x, isInst
	case *ssa.MakeClosure:
		fn, _ := x.Fn.(*ssa.Function)
		if fn == nil {
			return nil, nil
		}
		if fn.Synthetic == "" {
			return fn, isInst
		}
		m := c13FuncTarget(x)
		if m == nil || m.Blocks == nil || len(m.Params) == 0 || len(x.Bindings) != 1 {
			return nil, nil
		}
		recvIsInst := isInst(x.Bindings[0])
		return m, func(w ssa.Value) bool {
			return recvIsInst && k.sl.DerivesFrom(w, func(y ssa.Value) bool { return y == ssa.Value(m.Params[0]) })
		}
	case *ssa.Call:
		mk := x.Call.StaticCallee()
		if mk == nil || mk.Blocks == nil || mk.Pkg == nil || !eng.IsRepoPkg(mk.Pkg.Pkg.Path()) || mk.Signature.Results().Len() != 1 {
			return nil, nil
		}
		var lit *ssa.Function
		same := true
		eng.Instrs(mk, func(ins ssa.Instruction) {
			ret, ok := ins.(*ssa.Return)
			if !ok || ret.Block() == mk.Recover {
				return
			}
			rv := eng.ReturnResults(ret)[0]
			if a, isAlias := c13Alias(rv); isAlias && a != nil {
				rv = a
			}
			mc, _ := rv.(*ssa.MakeClosure)
			var f *ssa.Function
			if mc != nil {
				f, _ = mc.Fn.(*ssa.Function)
			}
			if f == nil || f.Synthetic != "" || f.Parent() != mk || (lit != nil && lit != f) {
				same = false
				return
			}
			lit = f
		})
		if lit == nil || !same {
			return nil, nil
		}
		return lit, func(w ssa.Value) bool {
			return k.sl.DerivesFrom(w, func(y ssa.Value) bool {
				p, isP := y.(*ssa.Parameter)
				if !isP || p.Parent() != mk {
					return false
				}
				i := c18ParamIndex(p)
				return i >= 0 && i < len(x.Call.Args) && isInst(x.Call.Args[i])
			})
		}
	}
	return nil, nil
}

// c18SweepAll: on every path from fn's entry to its exits a step is executed, where a
// step is the negative SetState itself, a forward to another store's DeleteInstanceState,
// a sync.Map.Range whose callback (recursively) sweeps and always returns true, or a call
// of a same-package function that sweeps.
func c18SweepAll(k *c18State, fn *ssa.Function, isInst func(ssa.Value) bool, elem ssa.Value, swept map[string]bool, depth int) (bool, string) {
	if depth > 4 || fn.Blocks == nil {
		return false, ""
	}
	why := ""
	isStep := func(ins ssa.Instruction) bool {
		ci, ok := ins.(*ssa.Call)
		if !ok {
			return false
		}
		if eng.MethodNameIs(ci, "SetState") && implementsIface(eng.Receiver(ci).Type(), k.gfc) {
			a := eng.Args(ci)
			if len(a) != 3 {
				return false
			}
			z, isK := eng.IntConst(a[2])
			if !isK || z >= 0 {
				why = "SetState is called with a count that is not a negative constant (a non-negative count records the instance instead of removing it)"
				return false
			}
			if !isInst(a[0]) {
				why = "SetState is called for a value that is not the instance being deleted"
				return false
			}
			if elem != nil && !k.sl.DerivesFrom(eng.Receiver(ci), func(x ssa.Value) bool { return x == elem }) {
				why = "SetState is not called on the flow control of the current table entry"
				return false
			}
			return true
		}
		if k.isStoreCall(ci, "DeleteInstanceState") {
			a := eng.Args(ci)
			if !isInst(a[0]) {
				why = "the delegate store is asked to delete another instance"
				return false
			}
			return eng.Receiver(ci) != ssa.Value(c06Outermost(fn).Params[0])
		}
		if eng.IsCall(ci, "(*sync.Map).Range") {
			// the callback: a function literal written in place, one bound to a local that is
			// assigned once (`forget := func(k, v interface{}) bool {…}; m.Range(forget)`), a method
			// value, or the literal handed out by a constructor function (c18Callback)
			cb, cbInst := c18Callback(k, eng.Args(ci)[0], isInst)
			if cb == nil {
				return false
			}
			stops := false
			eng.Instrs(cb, func(i ssa.Instruction) {
				if r, ok := i.(*ssa.Return); ok && (len(r.Results) != 1 || !eng.IsBoolConst(r.Results[0], true)) {
					stops = true
				}
			})
			if stops {
				why = "a Range callback can return false: the sweep stops at the first entry and the remaining upstreams / flow controls keep the dead instance's count"
				return false
			}
			if cb.Signature.Params().Len() != 2 || len(cb.Params) < 2 {
				return false
			}
			// the ranged table: a field of the store (outermost) or of the current entry (nested)
			if fa, isFA := eng.Receiver(ci).(*ssa.FieldAddr); isFA {
				if elem != nil && !k.sl.DerivesFrom(fa.X, func(x ssa.Value) bool { return x == elem }) {
					why = "a nested Range does not iterate a table of the current entry"
					return false
				}
				if f, tn := c18FieldOfAddr(fa); f != "" {
					swept[tn+"."+f] = true
				}
			}
			ok, w := c18SweepAll(k, cb, cbInst, cb.Params[len(cb.Params)-1], swept, depth+1)
			if w != "" {
				why = w
			}
			return ok
		}
		if f := ci.Call.StaticCallee(); f != nil && f.Pkg == fn.Pkg && f.Blocks != nil && f.Parent() == nil {
			// same-package helper: bind the instance parameter
			idx := -1
			for i, a := range ci.Call.Args {
				if isInst(a) {
					idx = i
				}
			}
			if idx < 0 || idx >= len(f.Params) {
				return false
			}
			p := f.Params[idx]
			ok, w := c18SweepAll(k, f, func(v ssa.Value) bool {
				return k.sl.DerivesFrom(v, func(x ssa.Value) bool { return x == ssa.Value(p) })
			}, nil, swept, depth+1)
			if w != "" && ok {
				w = ""
			}
			if w != "" {
				why = w
			}
			return ok
		}
		return false
	}
	// the false edge of a comma-ok type assertion is not a skipped entry
	cut := func(from *ssa.BasicBlock, si int) bool {
		iff, ok := from.Instrs[len(from.Instrs)-1].(*ssa.If)
		if !ok || si != 1 {
			return false
		}
		if e, ok := iff.Cond.(*ssa.Extract); ok && e.Index == 1 {
			if ta, ok := e.Tuple.(*ssa.TypeAssert); ok && ta.CommaOk {
				return true
			}
		}
		return false
	}
	ok := eng.ReachFromEntry(fn, eng.PathQuery{Target: eng.IsExit, Avoid: isStep, BlockEdge: cut}) == nil
	if ok {
		why = ""
	}
	return ok, why
}

// ---- negative SetState ------------------------------------------------------------------

// c18NegativeState: a GlobalFlowControl that keeps per-instance state (a map written under
// the instance parameter) removes the entry and subtracts the instance's count when the
// reported count is negative, and never (re)creates the entry on that edge.
func c18NegativeState(k *c18State) {
	c := k.c
	tracked := 0
	for _, named := range c.W.Implementers(k.gfc) {
		fn := c.W.DeclaredMethod(named, "SetState")
		if fn == nil || fn.Blocks == nil || len(fn.Params) != 4 {
			continue
		}
		tn := eng.TypeName(named)
		inst, cur := fn.Params[1], fn.Params[3]
		// SetState together with the helpers (all callers known) its body may have been spread
		// over; inside a helper the instance / the count are the parameters bound to them
		region := c.W.Region(fn)
		isInst := func(v ssa.Value) bool { return v == ssa.Value(inst) || c08Up(v) == ssa.Value(inst) }
		isCur := func(v ssa.Value) bool { return v == ssa.Value(cur) || c08Up(v) == ssa.Value(cur) }
		// the per-instance table: a map field of the receiver updated under the instance parameter
		field := ""
		for _, rf := range region {
			eng.Instrs(rf, func(ins ssa.Instruction) {
				if u, ok := ins.(*ssa.MapUpdate); ok && isInst(u.Key) {
					if f, own := c06FieldLoadOfType(u.Map, tn); own {
						field = f
					}
				}
			})
		}
		if field == "" {
			c.Note("C18.R1: %s keeps no per-instance state in SetState (nothing to reclaim)", shortName(tn))
			continue
		}
		tracked++
		isTbl := func(v ssa.Value) bool { f, own := c06FieldLoadOfType(v, tn); return own && f == field }
		// the `current < 0` edge
		var edges []*ssa.BasicBlock
		negRel := func(r eng.Rel) (neg, rec bool) {
			r = eng.NormRel(r)
			if !isCur(r.X) {
				return false, false
			}
			z, isK := eng.IntConst(r.Y)
			if !isK {
				return false, false
			}
			switch {
			case (r.Op == token.LSS && z == 0) || (r.Op == token.LEQ && z == -1):
				return true, true
			case (r.Op == token.GEQ && z == 0) || (r.Op == token.GTR && z == -1):
				return false, true
			}
			return false, false
		}
		for _, b := range fn.Blocks {
			if iff, ok := b.Instrs[len(b.Instrs)-1].(*ssa.If); ok {
				if neg, rec := negRel(eng.RelOf(iff.Cond, true)); rec {
					if neg {
						edges = append(edges, b.Succs[0])
					} else {
						edges = append(edges, b.Succs[1])
					}
				}
			}
		}
		if len(edges) == 0 {
			c.Fail("R1", fn, "negative count ⇒ instance entry removed", fn.Pos(), "SetState has no `current < 0` edge: DeleteInstanceState cannot remove an instance")
			continue
		}
		inRegion := map[*ssa.Function]bool{}
		for _, rf := range region {
			inRegion[rf] = true
		}
		// isFound: v is the comma-ok of a lookup of the instance in the table — read in place, or
		// handed out unchanged by an accessor of the package (`state, ok := f.entry(instance)`)
		var isFound func(v ssa.Value, depth int) bool
		isFound = func(v ssa.Value, depth int) bool {
			e, ok := v.(*ssa.Extract)
			if !ok {
				return false
			}
			if lk, isLk := e.Tuple.(*ssa.Lookup); isLk {
				return e.Index == 1 && lk.CommaOk && isTbl(lk.X) && isInst(lk.Index)
			}
			call, isCall := e.Tuple.(*ssa.Call)
			if !isCall || depth <= 0 {
				return false
			}
			g := eng.CalleeFn(call)
			if g == nil || g.Blocks == nil || !inRegion[g] {
				return false
			}
			all, n := true, 0
			eng.Instrs(g, func(i ssa.Instruction) {
				ret, isRet := i.(*ssa.Return)
				if !isRet || ret.Block() == g.Recover {
					return
				}
				n++
				res := eng.ReturnResults(ret)
				if e.Index >= len(res) || !isFound(res[e.Index], depth-1) {
					all = false
				}
			})
			return all && n > 0
		}
		// "not found" edges: the comma-ok of a lookup of the instance in the table is false
		notFound := func(from *ssa.BasicBlock, si int) bool {
			iff, ok := from.Instrs[len(from.Instrs)-1].(*ssa.If)
			if !ok {
				return false
			}
			x, truth, isB := c18BoolRel(eng.RelOf(iff.Cond, si == 0))
			if !isB || truth {
				return false
			}
			return isFound(x, 2)
		}
		// a removal step: the delete itself, or a call of a helper of the region every path through
		// which (except its own "not found" edges) performs one
		var isDelete func(i ssa.Instruction) bool
		alwaysDeletes := map[*ssa.Function]int{}
		isDelete = func(i ssa.Instruction) bool {
			ci, ok := i.(*ssa.Call)
			if !ok {
				return false
			}
			if c18IsBuiltin(ci, "delete") {
				return isTbl(ci.Call.Args[0]) && isInst(ci.Call.Args[1])
			}
			g := eng.CalleeFn(ci)
			if g == nil || !inRegion[g] || g == fn || len(g.Blocks) == 0 {
				return false
			}
			switch alwaysDeletes[g] {
			case 1:
				return false
			case 2:
				return true
			}
			alwaysDeletes[g] = 1 // in progress / no
			if c18AlwaysFromBlock(g.Blocks[0], nil, isDelete, notFound) {
				alwaysDeletes[g] = 2
				return true
			}
			return false
		}
		// a (re)creation: an update of the table, written in place or inside a called function of the package
		var creates func(g *ssa.Function, depth int) bool
		isCreate := func(i ssa.Instruction, depth int) bool {
			if u, ok := i.(*ssa.MapUpdate); ok {
				return isTbl(u.Map)
			}
			if ci, ok := i.(*ssa.Call); ok && depth > 0 {
				if g := eng.CalleeFn(ci); g != nil && g.Blocks != nil && g.Pkg == fn.Pkg && g != fn {
					return creates(g, depth-1)
				}
			}
			return false
		}
		creates = func(g *ssa.Function, depth int) bool {
			found := false
			for _, f := range eng.WithClosures(g) {
				eng.Instrs(f, func(i ssa.Instruction) {
					if isCreate(i, depth) {
						found = true
					}
				})
			}
			return found
		}
		removed, recreated, subtracted := true, false, false
		for _, e := range edges {
			if !c18AlwaysFromBlock(e, nil, isDelete, notFound) {
				removed = false
			}
			if eng.ReachFromBlock(e, eng.PathQuery{Target: func(i ssa.Instruction) bool { return isCreate(i, 3) }}) != nil {
				recreated = true
			}
		}
		c.Check("R1", fn, "negative count ⇒ instance entry removed", fn.Pos(), removed && !recreated,
			"on the `current < 0` edge the instance's entry must be deleted whenever it exists and must never be (re)created; otherwise the dead instance stays in the table")
		// its count is subtracted from the total: a call, guarded by current < 0, one of whose
		// arguments is the negation of a value read from the looked-up entry
		for _, rf := range region {
			eng.Instrs(rf, func(ins ssa.Instruction) {
				ci, ok := ins.(*ssa.Call)
				if !ok {
					return
				}
				for _, a := range ci.Call.Args {
					u, ok := a.(*ssa.UnOp)
					if !ok || u.Op != token.SUB {
						continue
					}
					fromEntry := k.sa.DerivesFrom(u.X, func(x ssa.Value) bool {
						lk, ok := x.(*ssa.Lookup)
						return ok && isTbl(lk.X) && isInst(lk.Index)
					})
					if fromEntry && eng.HoldsAt(ci, func(r eng.Rel) bool { neg, rec := negRel(r); return rec && neg }) {
						subtracted = true
					}
				}
			})
		}
		c.Check("R1", fn, "negative count ⇒ instance's count subtracted from the total", fn.Pos(), subtracted,
			"removing an instance must give its counted requests back to the global total (add(-state.count)); otherwise the capacity of the dead instance is lost forever")
	}
	if tracked == 0 {
		c.Fail("R1", nil, "negative count ⇒ instance entry removed", 0, "no GlobalFlowControl keeps per-instance state: expected globalMaxInflight")
	}
}

// ---- labels (R3) ------------------------------------------------------------------------

func c18Labels(k *c18State) {
	c := k.c
	type writer struct {
		fn  *ssa.Function
		u   *ssa.MapUpdate
		key string
		obj ssa.Value
	}
	var ws []writer
	for _, fn := range k.funcs {
		if fn.Pkg == nil || !strings.HasPrefix(fn.Pkg.Pkg.Path(), mod+"/pkg/ratelimiter") {
			continue
		}
		eng.Instrs(fn, func(ins ssa.Instruction) {
			u, ok := ins.(*ssa.MapUpdate)
			if !ok {
				return
			}
			base, p := c18FieldChain(u.Map)
			if !c18PathIs(p, "ObjectMeta", "Labels") || eng.TypeName(base.Type()) != c18Cond {
				return
			}
			key, isS := eng.StringConst(u.Key)
			if !isS {
				c.Undecided("R3", fn, "label written on a stored condition", u.Pos(), "label key is not a constant")
				return
			}
			ws = append(ws, writer{fn, u, key, base})
		})
	}
	keys := make([]string, 0, len(k.readerKeys))
	for key := range k.readerKeys {
		keys = append(keys, key)
	}
	sort.Strings(keys)
	if len(keys) == 0 {
		c.Fail("R3", nil, "cleanup selector key", 0, "no cleanup selects conditions by an instance label")
	}
	for _, key := range keys {
		found := false
		for _, w := range ws {
			if w.key == key {
				found = true
			}
		}
		have := []string{}
		for _, w := range ws {
			have = append(have, fmt.Sprintf("%q", w.key))
		}
		c.Check("R3", k.readerFn[key], "selector key is the label written on stored conditions", k.readerKeys[key], found,
			fmt.Sprintf("the timeout pass selects conditions by label %q; stored conditions are labelled with %s — with different keys the selector matches nothing and no quota of a dead instance is reclaimed by the timeout pass", key, strings.Join(have, ", ")))
	}
	per := map[*ssa.Function]int{}
	for _, w := range ws {
		if _, used := k.readerKeys[w.key]; !used && len(keys) > 0 {
			// a label nobody selects by: only relevant if no writer matches (reported above)
			continue
		}
		per[w.fn]++
		valOK := k.sl.DerivesFrom(w.u.Value, func(v ssa.Value) bool {
			b, p := c18FieldChain(v)
			return c18PathIs(p, "Spec", "Instance") && eng.TypeName(b.Type()) == c18Cond
		})
		c.Check("R3", w.fn, fmt.Sprintf("instance label value is a condition's Spec.Instance#%d", per[w.fn]), w.u.Pos(), valOK, "the label must carry the name of the instance the condition belongs to (the selector is built from the heartbeat table's instance names)")
		// the labelled object is saved afterwards
		// (the Save may sit in a helper the tail of the function was moved into: its operand is then
		// the helper's parameter, bound to the labelled object at the call that follows the label)
		saved := false
		for _, rf := range c.W.Region(w.fn) {
			for _, ci := range eng.Calls(rf) {
				if !k.isStoreCall(ci, "Save") {
					continue
				}
				a := eng.Args(ci)
				if len(a) != 2 || !c18SameObject(c07UpTo(c.W, a[1], w.fn), w.obj) {
					continue
				}
				for _, site := range c08LiftTo(ci, w.fn, eng.LiftDepth) {
					site := site
					if eng.ReachAfter(w.u, eng.PathQuery{Target: func(i ssa.Instruction) bool { return i == site }}) != nil {
						saved = true
					}
				}
			}
		}
		c.Check("R3", w.fn, fmt.Sprintf("the labelled condition is the one saved#%d", per[w.fn]), w.u.Pos(), saved, "the label must be set on the object handed to LimitStore.Save, before the save")
		// remark: label value of a first report
		if phi, ok := func() (*ssa.Phi, bool) {
			b, _ := c18FieldChain(w.u.Value)
			p, ok := b.(*ssa.Phi)
			return p, ok
		}(); ok {
			for _, e := range phi.Edges {
				if a, isA := e.(*ssa.Alloc); isA {
					setsInstance := false
					for _, st := range eng.StoresToField([]*ssa.Function{w.fn}, c18Spec, "Instance") {
						if k.sl.DerivesFrom(st.Addr, func(v ssa.Value) bool { return v == ssa.Value(a) }) {
							setsInstance = true
						}
					}
					if !setsInstance {
						c.Note("C18.R3: in %s the label value is read from the previously stored condition; for a condition reported for the first time that object is a fresh literal without Spec.Instance, so the label is empty until the second report — such a condition is reclaimed by the periodic unknown-condition sweep (by Spec.Instance), not by the timeout pass", eng.FuncName(w.fn))
					}
				}
			}
		}
	}
}

// ---- notes ------------------------------------------------------------------------------

func c18Notes(k *c18State) {
	noted := map[*ssa.Function]bool{}
	for _, fn := range k.funcs {
		if k.inStorePkgs(fn) {
			continue
		}
		for _, l := range c18Loops(fn, k.isStoreMap) {
			if noted[fn] {
				continue
			}
			locked := eng.AlwaysBefore(fn, l.rng, func(i ssa.Instruction) bool {
				return eng.IsPlainCall(i, "(*sync.RWMutex).RLock", "(*sync.RWMutex).Lock")
			})
			if !locked {
				noted[fn] = true
				k.c.Note("C18: %s iterates the shard→store table without holding its lock (startLeading/stopLeading write it concurrently); not raised: outside the property's quantifier", eng.FuncName(fn))
			}
		}
	}
}

// ---------------------------------------------------------------------------------------

const c18FxSrc = `package fx
type S struct{ n int }
func (s *S) drop(k string) {}
func skip(k string) bool { return len(k) > 3 }

func goodAll(m map[string]*S) {
	for k, s := range m { s.drop(k) }
}
func goodEarly(m map[string]*S, stop bool) {
	for k, s := range m {
		if s == nil { s = &S{} }
		s.drop(k)
		if stop { return }
	}
}
func badContinue(m map[string]*S) {
	for k, s := range m {
		if skip(k) { continue }
		s.drop(k)
	}
}
func badBreak(m map[string]*S) {
	for k, s := range m {
		if skip(k) { break }
		s.drop(k)
	}
}
func badConditional(m map[string]*S, c bool) {
	for k, s := range m {
		if c { s.drop(k) }
	}
}
`

func c18Fixtures(c *eng.Ctx) {
	p, _, err := eng.BuildFixture(c18FxSrc)
	if err != nil {
		c.Fixture("C18.every-iteration/build", "ok", err.Error())
		return
	}
	for name, want := range map[string]bool{"goodAll": true, "goodEarly": true, "badContinue": false, "badBreak": false, "badConditional": false} {
		fn := p.Func(name)
		ls := c18Loops(fn, func(ssa.Value) bool { return true })
		got := len(ls) == 1 && c18EveryIteration(ls[0], func(i ssa.Instruction) bool { return eng.IsCall(i, "(*fx.S).drop") })
		c.Fixture("C18.every-iteration/"+name, fmt.Sprint(want), fmt.Sprint(got))
	}
}

// ---------------------------------------------------------------------------------------
// Added after seeded changes C18-1 / C18-2.
func c18Extra(c *eng.Ctx) {
	c.Rule("R4", "cleanup goroutines act on their own instance: no `go` statement inside a loop of the limiter/store packages captures a loop-carried cell (the iteration variable under go 1.17 semantics); otherwise the goroutine reclaims whichever instance the loop visited last — usually a live one", 1)
	c.Rule("R5", "freed capacity becomes available: every acknowledged status report saves the report and recomputes and saves the allocated sum (no early success return), so a quota reclaimed by the cleanup is seen by the next report of a surviving instance", 3)
	n := 0
	for _, pkg := range []string{pkgLimiter, pkgRLStoreLoc, pkgRLStoreFC, pkgRLStoreK8s} {
		for _, fn := range c.W.FuncsOf(pkg) {
			hasGoInLoop := false
			for _, b := range fn.Blocks {
				for _, ins := range b.Instrs {
					if _, ok := ins.(*ssa.Go); ok && eng.InLoop(b) {
						hasGoInLoop = true
					}
				}
			}
			if !hasGoInLoop {
				continue
			}
			n++
			bad := eng.GoCapturesOfLoopCells(fn)
			pos := fn.Pos()
			if len(bad) > 0 {
				pos = bad[0].Pos()
			}
			c.Check("R4", fn, "goroutines started in a loop capture per-iteration values only", pos, len(bad) == 0,
				"a goroutine started inside the loop captures the loop's own variable, which the next iteration overwrites before the goroutine reads it: the cleanup deletes the conditions and in-flight state of another (live) instance and leaves the dead one")
		}
	}
	if n == 0 {
		c.Fail("R4", nil, "goroutines started in a loop", 0, "the timeout cleanup no longer starts its per-instance goroutine in the loop: rule not applicable to the new shape (undecided)")
	}
	c07ReportOrdering(c, "R5")
}
