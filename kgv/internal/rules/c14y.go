package rules

import (
	"golang.org/x/tools/go/ssa"

	"kgv/internal/eng"
)

func init() { RegisterExtra("C14", c14DistinctUpstreams) }

// c14DistinctUpstreams (C14.R4): without an explicit subset the picker rotates over "all
// endpoints of the cluster". For the share of every ready endpoint to be N/k that list must
// name each endpoint once: ClusterInfo.AllEndpoints returns, on every path, the key set of the
// cluster's endpoint map (EndpointInfoMap.Names — keys of a map are distinct). A list kept on
// the side (e.g. the servers of the spec in spec order, where the same endpoint may be listed
// twice — validation accepts that) gives a duplicated endpoint a multiple of its share.
func c14DistinctUpstreams(c *eng.Ctx) {
	c.Rule("R4", "the default upstream list names each endpoint once: every value returned by ClusterInfo.AllEndpoints derives from EndpointInfoMap.Names() of the cluster's own endpoint map", 1)
	ae := c.MustMethod(pkgClusters, "ClusterInfo", "AllEndpoints")
	if ae == nil {
		return
	}
	isNames := func(v ssa.Value) bool {
		cc, _ := eng.CallResultOf(v)
		return cc != nil && eng.IsCall(cc, "(*"+tEndpointInfoMap+").Names")
	}
	sl := c.Slicer()
	ok, n := true, 0
	for _, b := range ae.Blocks {
		ret, isRet := b.Instrs[len(b.Instrs)-1].(*ssa.Return)
		if !isRet || b == ae.Recover {
			continue
		}
		for _, r := range eng.ReturnResults(ret) {
			n++
			ls := sl.Leaves(r, isNames)
			if len(ls) == 0 {
				ok = false
			}
			for _, l := range ls {
				if !isNames(l) {
					ok = false
				}
			}
		}
	}
	c.Check("R4", ae, "AllEndpoints = key set of the endpoint map", ae.Pos(), ok && n > 0,
		"AllEndpoints returns a list that is not the key set of the endpoint map: an endpoint that occurs twice in it is picked twice per round")
}
