package rules

import (
	"go/token"

	"golang.org/x/tools/go/ssa"

	"kgv/internal/eng"
)

func init() { RegisterExtra("C16", c16SchemeGuardsAgree) }

// c16SchemeGuardsAgree (C16.R10): validation checks the TLS client settings (caData together
// with insecure, key without certificate, …) only for https clusters: its rejections of
// ClientConfig TLS combinations are control-dependent on `scheme == "https"`. That is sound
// only while the consumer uses those settings under the same condition. R10: if the
// validator's TLS checks are guarded by a comparison of the scheme with "https", then the
// store of rest.Config.TLSClientConfig in the cluster package is guarded by a comparison of a
// URL scheme with "https" as well. A consumer that applies the TLS settings unconditionally
// makes an accepted http cluster with insecure+caData unusable (client-go refuses the pair).
func c16SchemeGuardsAgree(c *eng.Ctx) {
	c.Rule("R10", "scheme guards agree: when the validator checks the TLS client settings only under scheme == \"https\", the consumer stores rest.Config.TLSClientConfig only under a scheme == \"https\" test too", 1)
	isHTTPS := func(r eng.Rel) bool {
		if r.Op != token.EQL {
			return false
		}
		kx, okx := eng.StringConst(r.X)
		ky, oky := eng.StringConst(r.Y)
		return (okx && kx == "https") || (oky && ky == "https")
	}
	// validator side: some reject of the validation package is guarded by scheme == "https"
	vGuarded := false
	for _, fn := range c.W.FuncsOf(pkgValidation) {
		for _, ci := range eng.Calls(fn) {
			if c16IsReject(ci) && eng.GuardedBy(ci.(ssa.Instruction), isHTTPS) {
				vGuarded = true
			}
		}
	}
	// consumer side
	sl := c.Slicer()
	n, cGuarded := 0, true
	var at *ssa.Store
	for _, fn := range c.W.FuncsOf(pkgClusters) {
		for _, st := range eng.StoresToField([]*ssa.Function{fn}, "k8s.io/client-go/rest.Config", "TLSClientConfig") {
			// only stores that carry the API object's client settings (not a reset to the zero value)
			if !sl.DerivesFrom(st.Val, func(v ssa.Value) bool {
				u, ok := v.(*ssa.UnOp)
				if !ok || u.Op != token.MUL {
					return false
				}
				fa, ok := u.X.(*ssa.FieldAddr)
				return ok && eng.TypeName(c10Deref(fa.X.Type())) == pkgV1alpha1+".ClientConfig"
			}) {
				continue
			}
			n++
			at = st
			if !eng.GuardedBy(st, isHTTPS) {
				cGuarded = false
			}
		}
	}
	if n == 0 {
		c.Fail("R10", nil, "store of rest.Config.TLSClientConfig", 0, "the cluster package never sets the TLS client settings of the rest config")
		return
	}
	c.Check("R10", at.Parent(), "validator and consumer agree on the https-only treatment of TLS settings", at.Pos(), !vGuarded || cGuarded,
		"validation checks the TLS client settings only for https clusters, but the consumer applies them regardless of the scheme: an accepted http cluster with insecure and caData cannot be applied")
}
