package rules

import (
	"fmt"
	"sort"
	"strings"

	"kgv/internal/eng"
)

// anchorPkgs lists, per property, the packages whose code the property is anchored in.
var anchorPkgs = map[string][]string{
	"C01": {pkgV1alpha1, pkgClusters, pkgDispatcher},
	"C02": {pkgFilters, pkgTransport, pkgClusters, pkgApp},
	"C03": {pkgClusters, pkgDispatcher},
	"C04": {pkgDispatcher, pkgRevProxy, pkgFilters, pkgResponse},
	"C05": {pkgFC, pkgFCRoot, pkgFCRemote, pkgFCUtil, pkgDispatcher},
	"C06": {pkgFC, pkgFCRemote, pkgDispatcher},
	"C07": {pkgLimiter, pkgRLStoreLoc},
	"C08": {pkgRLStoreFC, pkgLimiter, pkgRLStoreLoc},
	"C09": {pkgFCRoot, pkgFCRemote, pkgClientsets},
	"C10": {pkgCtrl, pkgClusters, pkgFilters, pkgGWNet, pkgAdmission},
	"C11": {pkgClusters, pkgFCRoot, pkgFCRemote, pkgCtrl, pkgSyncQueue, pkgFeatures},
	"C12": {pkgTokenWH, pkgAuthzWH, pkgClusters, pkgRequest},
	"C13": {pkgRLUtil, pkgClientsets, pkgLimiter, pkgElector, pkgRLStoreK8s},
	"C14": {pkgClusters},
	"C15": {pkgClusters, pkgDispatcher, pkgTransport, pkgCtrl},
	"C16": {pkgValidation, pkgAdmission, pkgClusters, pkgCtrl, pkgFC, pkgLimiter},
	"C17": {pkgAdmission, pkgV1alpha1},
	"C18": {pkgLimiter, pkgRLStoreLoc, pkgRLStoreFC},
	"C19": {pkgRLStoreK8s, pkgRLStoreLoc, pkgLimiter},
	"C20": {pkgRegistry, pkgProxyREST},
}

// ThoroughExtras adds the thorough tier's cross-references to the evidence: diagnostics of
// stock vet passes on the property's anchor packages and a lock-discipline census of their
// mutex-guarded structs. They are notes (leads for a reader), never verdicts: a generic
// pass knows nothing about the property.
func ThoroughExtras(c *eng.Ctx) {
	pk := anchorPkgs[c.Prop]
	if len(pk) == 0 {
		return
	}
	ds, err := c.W.StockDiagnostics(pk)
	if err != nil {
		c.Note("stock passes: %v", err)
	} else {
		c.Note("stock vet passes (nilness, copylock, atomic, bools, assign, loopclosure, unusedresult, reflectvaluecompare) on %d anchor packages: %d diagnostics", len(pk), len(ds))
		for i, d := range ds {
			if i >= 25 {
				c.Note("… %d more", len(ds)-i)
				break
			}
			c.Note("stock: %s", d)
		}
	}
	for _, line := range lockCensus(c, pk) {
		c.Note("lock census: %s", line)
	}
}

// lockCensus infers, for every struct of the packages that has a mutex field, which sibling
// fields are accessed by its methods with the mutex held and which without (Engler-style
// belief inference: a field accessed mostly under the lock but sometimes not is a lead).
func lockCensus(c *eng.Ctx, pkgs []string) []string {
	type key struct{ typ, field string }
	held := map[key]int{}
	free := map[key][]string{}
	for _, p := range pkgs {
		for _, fn := range c.W.FuncsOf(p) {
			if fn.Signature.Recv() == nil && fn.Parent() == nil {
				continue
			}
			outer := fn
			for outer.Parent() != nil {
				outer = outer.Parent()
			}
			if outer.Signature.Recv() == nil {
				continue
			}
			tn := eng.TypeName(outer.Signature.Recv().Type())
			named := c.W.Named(p, strings.TrimPrefix(tn, p+"."))
			if named == nil {
				continue
			}
			mfield := mutexField(named)
			if mfield == "" {
				continue
			}
			sp := eng.LockSpec{IsMutex: func(v ssaValue) bool { return eng.FieldAddrOf(v, tn, mfield) }}
			states := eng.LockStates(fn, sp)
			eng.Instrs(fn, func(ins ssaInstr) {
				fa, ok := ins.(*ssaFieldAddr)
				if !ok || eng.TypeName(fa.X.Type()) != tn {
					return
				}
				f := fieldNameOf(fa.X.Type(), fa.Field)
				if f == mfield {
					return
				}
				k := key{tn, f}
				if st := states[ins]; st == eng.LockShared || st == eng.LockExcl {
					held[k]++
				} else {
					file, line := c.W.Pos(fa.Pos())
					free[k] = append(free[k], fmt.Sprintf("%s:%d", file, line))
				}
			})
		}
	}
	var out []string
	for k, n := range held {
		if len(free[k]) > 0 && n >= len(free[k]) {
			sort.Strings(free[k])
			sites := free[k]
			if len(sites) > 4 {
				sites = sites[:4]
			}
			out = append(out, fmt.Sprintf("%s.%s accessed %d× under its mutex and %d× without (%s)", shortName(k.typ), k.field, n, len(free[k]), strings.Join(sites, ", ")))
		}
	}
	sort.Strings(out)
	return out
}
