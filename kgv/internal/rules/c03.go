package rules

import (
	"fmt"
	"go/token"
	"go/types"
	"strings"

	"golang.org/x/tools/go/ssa"

	"kgv/internal/eng"
)

func init() {
	Register("C03", c03)
	Register("C14", c14)
}

const (
	tEndpointInfo    = pkgClusters + ".EndpointInfo"
	tEndpointInfoMap = pkgClusters + ".EndpointInfoMap"
	tPickStrategy    = pkgClusters + ".endpointPickStrategy"
	tClusterInfo     = pkgClusters + ".ClusterInfo"
	tEndpointStatus  = pkgClusters + ".endpointStatus"
)

// popImpls returns the Pop methods of every EndpointPicker implementation.
func popImpls(c *eng.Ctx) []*ssa.Function {
	iface := c.W.Interface(pkgClusters, "EndpointPicker")
	if iface == nil {
		c.Fail("engine", nil, "unresolved-anchor interface EndpointPicker", 0, "not found")
		return nil
	}
	var out []*ssa.Function
	for _, n := range c.W.Implementers(iface) {
		if f := c.W.DeclaredMethod(n, "Pop"); f != nil && f.Blocks != nil {
			out = append(out, f)
		}
	}
	if len(out) == 0 {
		c.Fail("engine", nil, "unresolved-anchor EndpointPicker.Pop implementations", 0, "none found")
	}
	return out
}

func isEndpointSlice(t types.Type) bool {
	s, ok := t.Underlying().(*types.Slice)
	return ok && eng.TypeName(s.Elem()) == tEndpointInfo
}

func isBuiltin(c ssa.CallInstruction, name string) bool {
	b, ok := c.Common().Value.(*ssa.Builtin)
	return ok && b.Name() == name
}

func c03(c *eng.Ctx) {
	defer c03Extra(c)
	c.Rule("R1", "every endpoint returned by an EndpointPicker.Pop is an element appended to the ready slice under `loaded && IsReady()`, loaded from the cluster's Endpoints map by a name ranging over the picker's upstreams; an empty result returns ErrNoReadyEndpoints", 4)
	c.Rule("R2", "endpointStatus.IsReady is false whenever Disabled is true or Healthy is false (forcing), true when enabled and healthy, and reads both under the status mutex; EndpointInfo.IsReady delegates to it", 5)
	c.Rule("R3", "MatchAttributes gives the picker policy.UpstreamSubset when non-empty and all endpoints of the cluster otherwise; the policy is the result of MatchPolicies", 3)
	c.Rule("R4", "the dispatcher contacts the endpoint it picked: URL scheme/host, both transports, the cancel-watch context and the forwarded mark derive from the single Pop result; a Pop error answers 503 before anything else", 7)
	c.Rule("R5", "a disabled endpoint is not probed: SetDisabled is always followed by EnsureGatewayHealthCheck, probes start only when not disabled and are cancelled when disabled, a new endpoint starts unhealthy, the probe function is invoked only by the health-check loop, probes run under the endpoint's own context", 7)

	sl := c.Slicer()
	dsl := deepSlicer(c)
	// ---- R1
	// Pop may be spread over helpers (a function of (cluster, upstreams), a partition helper
	// returning the ready slice, a round-robin helper): its returns are taken with forwarding
	// returns expanded, and every construct is decided in each context in which it runs as
	// part of Pop (eng.DownCtx).
	for _, pop := range popImpls(c) {
		tree := popTree(c, pop)
		// appends to endpoint slices that feed the returned endpoint (in Pop or in helpers it calls)
		var appends []*ssa.Call
		isAppend := func(v ssa.Value) bool {
			call, ok := v.(*ssa.Call)
			return ok && isBuiltin(call, "append") && isEndpointSlice(call.Type())
		}
		addAppend := func(v ssa.Value) {
			call := v.(*ssa.Call)
			for _, a := range appends {
				if a == call {
					return
				}
			}
			appends = append(appends, call)
		}
		// returns
		for _, er := range tree.Root.EffectiveReturns() {
			if len(er.Res) != 2 {
				continue
			}
			if eng.IsNilConst(er.Res[0]) {
				ok := er.Ctx.DerivesFrom(dsl.WithArgs(), er.Res[1], func(v ssa.Value) bool {
					g, isG := v.(*ssa.Global)
					return isG && g.Name() == "ErrNoReadyEndpoints"
				})
				c.Check("R1", pop, "empty result ⇒ ErrNoReadyEndpoints", er.Ret.Pos(), ok, "a nil endpoint must be returned with (a wrap of) ErrNoReadyEndpoints so that the dispatcher answers 503")
				continue
			}
			bad := ""
			for _, leaf := range er.Ctx.Leaves(dsl, er.Res[0], isAppend) {
				switch {
				case isAppend(leaf):
					addAppend(leaf)
				case eng.IsNilConst(leaf):
				default:
					if a, ok := leaf.(*ssa.Alloc); ok {
						if arr, ok := a.Type().(*types.Pointer).Elem().Underlying().(*types.Array); ok && arr.Len() <= 1 {
							continue // empty literal / varargs cell
						}
					}
					bad = fmt.Sprintf("returned endpoint may come from %s (%T), not from the filtered ready slice", leaf.Name(), leaf)
				}
			}
			c.Check("R1", pop, "returned endpoint ∈ ready slice", er.Ret.Pos(), bad == "", bad)
		}
		for k, ap := range appends {
			construct := fmt.Sprintf("append-ready#%d", k+1)
			ok, detail := true, ""
			fail := func(d string) { ok, detail = false, d }
			n := 0
			for _, d := range ctxsOf(tree, ap.Parent()) {
				// the appended element(s)
				var elems []ssa.Value
				for _, a := range ap.Call.Args[1:] {
					for _, leaf := range d.Leaves(sl, a, func(v ssa.Value) bool {
						cc, _ := eng.CallResultOf(v)
						return cc != nil
					}) {
						if _, isAl := leaf.(*ssa.Alloc); isAl {
							continue
						}
						elems = append(elems, leaf)
					}
				}
				n += len(elems)
				for _, e := range elems {
					e := e
					cc, idx := eng.CallResultOf(e)
					if cc == nil || idx != 0 || !eng.IsCall(cc, "(*"+tEndpointInfoMap+").Load") {
						fail("appended element is not the result of Endpoints.Load(name)")
						continue
					}
					// receiver: s.cluster.Endpoints, name ranges over s.upstreams — in every context the
					// lookup runs in as part of this Pop
					// (the map itself may be handed to a helper: the receiver is resolved in the context)
					for _, dl := range ctxsOf(tree, cc.Parent()) {
						recv := dl.Canon(eng.Receiver(cc))
						base := eng.FieldBase(recv.V, tClusterInfo, "Endpoints")
						if base == nil || !recv.C.DerivesFrom(dsl, base, func(v ssa.Value) bool { return eng.FieldLoadOf(v, tPickStrategy, "cluster") }) {
							fail("endpoint is not loaded from the picker's own cluster map")
						}
						if !dl.DerivesFrom(dsl, eng.Args(cc)[0], func(v ssa.Value) bool { return eng.FieldLoadOf(v, tPickStrategy, "upstreams") }) {
							fail("endpoint name does not range over the picker's upstreams")
						}
					}
					// guards: loaded == true, e.IsReady() == true
					isLoaded := func(v ssa.Value) bool {
						c2, i2 := eng.CallResultOf(v)
						return c2 == cc && i2 == 1
					}
					loadedOK := eng.GuardedByBool(ap, isLoaded, true) || d.HoldsRel(ap, func(r eng.Rel, _ *eng.DownCtx) bool { return relIsBool(r, isLoaded, true) })
					readyOK := eng.GuardedByBool(ap, func(v ssa.Value) bool {
						c2, _ := eng.CallResultOf(v)
						return c2 != nil && eng.IsCall(c2, "(*"+tEndpointInfo+").IsReady") && eng.Receiver(c2) == e
					}, true) || d.Holds(ap, func(f eng.Fact, at *eng.DownCtx) bool {
						// IsReady() of the same endpoint, possibly tested in a helper the endpoint was handed to
						return relIsBool(f.Rel, func(v ssa.Value) bool {
							c2, _ := eng.CallResultOf(v)
							if c2 == nil || !eng.IsCall(c2, "(*"+tEndpointInfo+").IsReady") {
								return false
							}
							recv, env := f.Env.Resolve(eng.Receiver(c2))
							if recv == e {
								return true
							}
							return env == nil && at.Canon(recv).V == e
						}, true)
					})
					if !loadedOK {
						fail("append is not control-dependent on the endpoint being present in the cluster's current server list")
					}
					if !readyOK {
						fail("append is not control-dependent on IsReady() of the same endpoint (disabled or unhealthy endpoints would get traffic)")
					}
				}
			}
			if n == 0 {
				fail("no appended element found")
			}
			c.Check("R1", pop, construct, ap.Pos(), ok, detail)
		}
		if len(appends) == 0 {
			c.Fail("R1", pop, "append-ready", pop.Pos(), "no filtered ready slice is built")
		}
	}

	// ---- R2
	eir := c.MustMethod(pkgClusters, "EndpointInfo", "IsReady")
	if isReady := c03StatusReady(c, eir); isReady != nil {
		force := func(name string, pins map[string]eng.AV, want bool) {
			// memory cells are access paths ("s.Disabled", or "e.status.Disabled" when the status method
			// was merged into EndpointInfo.IsReady): pinned by their last field
			in := &eng.Interp{W: c.W, Depth: eng.LiftDepth, PinPath: func(p string) (eng.AV, bool) {
				if i := strings.LastIndex(p, "."); i >= 0 {
					av, ok := pins[p[i:]]
					return av, ok
				}
				return eng.AV{}, false
			}}
			rs, err := in.Run(isReady, nil)
			ok := err == nil && len(rs) > 0
			for _, r := range rs {
				if r.LoopCut || r.Panicked || len(r.Ret) != 1 || !r.Ret[0].IsBool(want) {
					ok = false
				}
			}
			c.Check("R2", isReady, name, isReady.Pos(), ok, fmt.Sprintf("pinning the status fields this way must force IsReady()=%v on every path", want))
		}
		force("Disabled=true ⇒ false", map[string]eng.AV{".Disabled": eng.AVBool(true)}, false)
		force("Healthy=false ⇒ false", map[string]eng.AV{".Healthy": eng.AVBool(false)}, false)
		force("enabled ∧ healthy ⇒ true", map[string]eng.AV{".Healthy": eng.AVBool(true), ".Disabled": eng.AVBool(false)}, true)
		// reads under the mutex (in IsReady or in a helper it reads the fields through)
		isLock := func(ins ssa.Instruction) bool {
			return eng.IsPlainCall(ins, "(*sync.RWMutex).RLock", "(*sync.RWMutex).Lock") && eng.FieldAddrOf(eng.Receiver(ins.(ssa.CallInstruction)), tEndpointStatus, "mux")
		}
		isUnlock := func(ins ssa.Instruction) bool {
			return eng.IsPlainCall(ins, "(*sync.RWMutex).RUnlock", "(*sync.RWMutex).Unlock")
		}
		for _, fn := range c.W.Region(isReady) {
			fn := fn
			eng.Instrs(fn, func(ins ssa.Instruction) {
				u, ok := ins.(*ssa.UnOp)
				if !ok || u.Op != token.MUL {
					return
				}
				for _, f := range []string{"Disabled", "Healthy"} {
					if eng.FieldAddrOf(u.X, tEndpointStatus, f) {
						held := eng.AlwaysBefore(fn, ins, isLock) && eng.ReachFromEntry(fn, eng.PathQuery{
							Target:    func(i ssa.Instruction) bool { return i == ins },
							Avoid:     func(i ssa.Instruction) bool { return false },
							BlockEdge: nil,
						}) != nil
						// no unlock between lock and read
						unl := false
						eng.Instrs(fn, func(i2 ssa.Instruction) {
							if isLock(i2) && eng.ReachAfter(i2, eng.PathQuery{Target: func(i ssa.Instruction) bool { return i == ins }, Avoid: isUnlock}) == nil {
								unl = true
							}
						})
						c.Check("R2", isReady, "read "+f+" under status mutex", ins.Pos(), held && !unl, "status fields are read inside the mutex region")
					}
				}
			})
		}
	}
	if eir != nil {
		ok := true
		status := c03StatusReadyQuiet(c, eir)
		eng.Instrs(eir, func(ins ssa.Instruction) {
			if r, isR := ins.(*ssa.Return); isR && status != eir {
				cc, _ := eng.CallResultOf(eng.ReturnResults(r)[0])
				if r.Block() == eir.Recover {
					return
				}
				if cc == nil || cc.Call.StaticCallee() == nil || cc.Call.StaticCallee() != status || !eng.FieldLoadOf(eng.Receiver(cc), tEndpointInfo, "status") {
					ok = false
				}
			}
		})
		c.Check("R2", eir, "EndpointInfo.IsReady = status.IsReady()", eir.Pos(), ok, "readiness of an endpoint is exactly its status' readiness")
	}

	// ---- R3
	if ma := c.MustMethod(pkgClusters, "ClusterInfo", "MatchAttributes"); ma != nil {
		// the picker may be built in MatchAttributes itself or in a helper extracted from it, and the
		// choice between the subset and all endpoints may be an if/else around two stores, one store
		// of a variable assigned in two branches, or one store of the result of a helper that returns
		// either: every store is expanded into the values it may take (eng.Alternatives), each with
		// the facts of the path it is selected on.
		tree := c.W.Down(ma, eng.LiftDepth, nil)
		slUp := sl.WithUp()
		isSubset := func(v ssa.Value) bool { return eng.FieldLoadOf(v, pkgV1alpha1+".DispatchPolicy", "UpstreamSubset") }
		isAllNames := func(v ssa.Value) bool {
			cc, _ := eng.CallResultOf(v)
			return cc != nil && (eng.IsCall(cc, "(*"+tClusterInfo+").AllEndpoints") || eng.IsCall(cc, "(*"+tEndpointInfoMap+").Names"))
		}
		// isAllNamesIn: also the call of a function value that is the method value c.AllEndpoints /
		// Endpoints.Names handed to a helper (`subsetOrAll(subset, c.AllEndpoints)`)
		isAllNamesIn := func(v ssa.Value, at *eng.DownCtx) bool {
			if isAllNames(v) {
				return true
			}
			cc, _ := eng.CallResultOf(v)
			if cc == nil || cc.Call.IsInvoke() || cc.Call.StaticCallee() != nil {
				return false
			}
			if _, isB := cc.Call.Value.(*ssa.Builtin); isB {
				return false
			}
			f := c.W.FuncOfValue(at.Canon(cc.Call.Value).V)
			if f == nil || f.Signature.Recv() == nil {
				return false
			}
			rt := eng.TypeName(f.Signature.Recv().Type())
			return (rt == tClusterInfo && f.Name() == "AllEndpoints") || (rt == tEndpointInfoMap && f.Name() == "Names")
		}
		// lenSubsetRel: r compares len(policy.UpstreamSubset) with zero; nonEmpty tells which way
		lenSubsetRel := func(r eng.Rel, at *eng.DownCtx) (nonEmpty, isRel bool) {
			r = eng.NormRel(r)
			x := convOf(r.X)
			if at != nil {
				x = convOf(at.Canon(x).V)
			}
			cc, ok := x.(*ssa.Call)
			if !ok || !isBuiltin(cc, "len") {
				return false, false
			}
			// the measured slice is the policy's subset — directly, or as the argument bound to the
			// parameter of a helper that is handed the subset instead of the policy
			if arg := cc.Call.Args[0]; !isSubset(arg) && !(at != nil && isSubset(at.Canon(arg).V)) {
				return false, false
			}
			z, isInt := eng.IntConst(r.Y)
			if !isInt {
				return false, false
			}
			switch {
			case z == 0 && (r.Op == token.NEQ || r.Op == token.GTR), z == 1 && r.Op == token.GEQ:
				return true, true
			case z == 0 && (r.Op == token.EQL || r.Op == token.LEQ), z == 1 && r.Op == token.LSS:
				return false, true
			}
			return false, false
		}
		// survivesOnlyUnder: the value written by st reaches an exit of its function (is not
		// overwritten by a later store to the same field of the same picker) only on paths that
		// traverse an edge on which len(UpstreamSubset) is non-zero (nonEmpty) / zero — the
		// "assign the default, then override it under the condition" form of the if/else
		survivesOnlyUnder := func(st *ssa.Store, nonEmpty bool) bool {
			fa, isFA := st.Addr.(*ssa.FieldAddr)
			if !isFA {
				return false
			}
			isOverride := func(i ssa.Instruction) bool {
				s2, ok := i.(*ssa.Store)
				if !ok || s2 == st || !eng.FieldAddrOf(s2.Addr, tPickStrategy, "upstreams") {
					return false
				}
				return s2.Addr.(*ssa.FieldAddr).X == fa.X
			}
			return eng.ReachAfter(st, eng.PathQuery{Target: eng.IsExit, Avoid: isOverride, BlockEdge: func(from *ssa.BasicBlock, idx int) bool {
				for _, r := range eng.EdgeRels(from, idx) {
					if ne, isRel := lenSubsetRel(r, nil); isRel && ne == nonEmpty {
						return true
					}
				}
				return false
			}}) == nil
		}
		subsetSeen, allSeen, polOK := false, false, false
		seenStore := map[*ssa.Store]bool{}
		for _, d := range tree.All() {
			for _, st := range eng.StoresToField([]*ssa.Function{d.Fn}, tPickStrategy, "upstreams") {
				if !seenStore[st] && d.DerivesFrom(slUp, st.Val, func(v ssa.Value) bool {
					cc, _ := eng.CallResultOf(v)
					return cc != nil && eng.IsCall(cc, pkgClusters+".MatchPolicies")
				}) {
					polOK = true
				}
				seenStore[st] = true
				for _, alt := range d.Alternatives(st.Val, st, func(v ssa.Value) bool { return isSubset(v) || isAllNames(v) }) {
					fromSubset := isSubset(alt.V) || alt.Ctx.DerivesFrom(sl, alt.V, isSubset)
					fromAll := isAllNamesIn(alt.V, alt.Ctx) || alt.Ctx.DerivesFrom(sl, alt.V, isAllNames)
					switch {
					case fromSubset && !fromAll:
						subsetSeen = true
						ok := alt.Holds(func(r eng.Rel, at *eng.DownCtx) bool {
							nonEmpty, isRel := lenSubsetRel(r, at)
							return isRel && nonEmpty
						}) || survivesOnlyUnder(st, true)
						c.Check("R3", ma, "upstreams = policy.UpstreamSubset when non-empty", st.Pos(), ok, "the subset is used exactly on the len(UpstreamSubset) != 0 edge")
					case fromAll && !fromSubset:
						allSeen = true
						ok := alt.Holds(func(r eng.Rel, at *eng.DownCtx) bool {
							nonEmpty, isRel := lenSubsetRel(r, at)
							return isRel && !nonEmpty
						}) || survivesOnlyUnder(st, false)
						c.Check("R3", ma, "upstreams = all endpoints when no subset", st.Pos(), ok, "all endpoints are used only when the policy lists no subset")
					default:
						c.Fail("R3", ma, "upstreams store of unknown origin", st.Pos(), "the picker's upstreams must be the policy's subset or the cluster's endpoint names")
					}
				}
			}
		}
		if !subsetSeen {
			c.Fail("R3", ma, "upstreams = policy.UpstreamSubset when non-empty", ma.Pos(), "the policy's upstream subset is ignored")
		}
		if !allSeen {
			c.Fail("R3", ma, "upstreams = all endpoints when no subset", ma.Pos(), "no fallback to all endpoints")
		}
		// the policy is MatchPolicies' result
		c.Check("R3", ma, "subset belongs to the matched policy", ma.Pos(), polOK, "UpstreamSubset must be read from the policy returned by MatchPolicies")
	}

	// ---- R4
	// ServeHTTP may hand the admitted request to a forwarding helper (picking, URL, watcher and
	// proxy handler then sit in the helper): every construct is looked up in the Region of
	// ServeHTTP, guards are lifted through the helpers' call sites, and the Pop results are
	// recognised also after they went through a helper that hands them on.
	if sh := c.MustMethod(pkgDispatcher, "dispatcher", "ServeHTTP"); sh != nil {
		region := c.W.Region(sh)
		callsIn := func(names ...string) []ssa.CallInstruction {
			var out []ssa.CallInstruction
			for _, fn := range region {
				out = append(out, eng.CallsTo(fn, names...)...)
			}
			return out
		}
		pops := callsIn("(" + pkgClusters + ".EndpointPicker).Pop")
		once := len(pops) == 1 && !eng.InLoop(pops[0].Block())
		if once {
			// the function holding the Pop runs once per request
			sites := c.W.SitesIn(sh, pops[0])
			once = len(sites) == 1 && !eng.InLoop(sites[0].Block())
		}
		if !once {
			c.Fail("R4", sh, "single Pop", sh.Pos(), fmt.Sprintf("expected exactly one Pop() outside loops, found %d", len(pops)))
		} else {
			pop := pops[0].(*ssa.Call)
			isPopRes := func(v ssa.Value) bool {
				cc, idx := eng.CallResultOf(v)
				return cc == pop && idx == 0
			}
			rawPopErr := func(v ssa.Value) bool {
				cc, idx := eng.CallResultOf(v)
				return cc == pop && idx == 1
			}
			// the error of Pop, possibly handed on by a picking helper (every origin is Pop's error or nil)
			isPopErr := func(v ssa.Value) bool {
				if rawPopErr(v) {
					return true
				}
				if v == nil || !types.Identical(v.Type(), pop.Call.Signature().Results().At(1).Type()) {
					return false
				}
				n := 0
				for _, l := range sl.Leaves(v, rawPopErr) {
					switch {
					case rawPopErr(l):
						n++
					case eng.IsNilConst(l):
					default:
						return false
					}
				}
				return n > 0
			}
			c.Pass("R4", sh, "single Pop", pop.Pos(), "")
			slu := sl.WithUp()
			tree := c.W.Down(sh, eng.LiftDepth, nil)
			// guardedNil: ins runs only when the value identified by match is nil / non-nil — by a guard
			// of ins, of the call sites of the helper it sits in, or by the ok flag of a helper that
			// tested it (`endpoint, ok := d.pick(…); if !ok { return }`)
			guardedNil := func(ins ssa.Instruction, match func(ssa.Value) bool, wantNil bool) bool {
				if eng.GuardedByNil(ins, match, wantNil) {
					return true
				}
				ds := tree.Of(ins.Parent())
				for _, d := range ds {
					if !d.HoldsRel(ins, func(r eng.Rel, at *eng.DownCtx) bool {
						// a guard on a parameter of a helper is a guard on the value bound to it
						return relIsNil(r, func(v ssa.Value) bool { return match(v) || match(at.Canon(v).V) }, wantNil)
					}) {
						return false
					}
				}
				return len(ds) > 0
			}
			// originsOf: the leaves of v, looking through calls of functions outside the repository
			// (url.Parse(endpoint.Endpoint) derives from its argument) but not through the arguments of
			// repository helpers, which are followed into their bodies instead
			var originsOf func(v ssa.Value, depth int) []ssa.Value
			originsOf = func(v ssa.Value, depth int) []ssa.Value {
				var out []ssa.Value
				for _, l := range slu.Leaves(v, isPopRes) {
					cc, _ := eng.CallResultOf(l)
					if cc == nil || isPopRes(l) || depth <= 0 {
						out = append(out, l)
						continue
					}
					if f := cc.Call.StaticCallee(); f != nil && eng.Analysable(f) {
						out = append(out, l) // a repository function too deep to follow
						continue
					}
					if _, isB := cc.Call.Value.(*ssa.Builtin); !isB && (cc.Call.IsInvoke() || cc.Call.StaticCallee() == nil) {
						out = append(out, originsOf(cc.Call.Value, depth-1)...)
					}
					for _, a := range cc.Call.Args {
						out = append(out, originsOf(a, depth-1)...)
					}
				}
				return out
			}
			// URL scheme/host (the URL may be assembled in a helper extracted from ServeHTTP)
			for _, f := range []string{"Scheme", "Host"} {
				sts := eng.StoresToField(region, "net/url.URL", f)
				ok := len(sts) > 0
				for _, st := range sts {
					fromPop := false
					for _, leaf := range originsOf(st.Val, 3) {
						if isPopRes(leaf) {
							fromPop = true
						} else if _, isP := leaf.(*ssa.Parameter); isP {
							ok = false // must not also derive from the incoming request
						}
					}
					if !fromPop {
						ok = false
					}
				}
				c.Check("R4", sh, "forward URL "+f+" from the picked endpoint", sh.Pos(), ok, "the target "+f+" must derive from the Pop() result only")
			}
			// transports
			for _, ci := range callsIn(pkgDispatcher + ".NewUpgradeAwareHandler") {
				a := eng.Args(ci)
				ok := len(a) >= 3 && eng.FieldLoadOf(a[1], tEndpointInfo, "ProxyTransport") && eng.FieldLoadOf(a[2], tEndpointInfo, "PorxyUpgradeTransport") &&
					slu.DerivesFrom(a[1], isPopRes) && slu.DerivesFrom(a[2], isPopRes)
				c.Check("R4", sh, "both transports of the picked endpoint", ci.Pos(), ok, "the proxy handler must use the transports of the Pop() result")
				// dominated by err == nil of Pop
				g := guardedNil(ci, isPopErr, true)
				c.Check("R4", sh, "forwarding only when Pop succeeded", ci.Pos(), g, "the proxy handler is reached only on the err == nil edge of Pop")
			}
			// SetProxyForwarded
			for _, ci := range callsIn(pkgRequest + ".SetProxyForwarded") {
				a := eng.Args(ci)
				ok := len(a) == 2 && slu.DerivesFrom(a[1], isPopRes)
				c.Check("R4", sh, "forwarded mark names the picked endpoint", ci.Pos(), ok, "")
			}
			// cancel watcher
			found := false
			for _, fn := range c.W.FuncsOf(pkgDispatcher) {
				for _, ci := range eng.CallsTo(fn, "(*"+tEndpointInfo+").Context") {
					found = true
					// the watcher may be a closure of ServeHTTP or an extracted function started with go
					ok := slu.DerivesFrom(eng.Receiver(ci), isPopRes)
					c.Check("R4", fn, "cancel-watch context of the picked endpoint", ci.Pos(), ok, "the goroutine must watch the context of the endpoint that serves this request")
				}
			}
			if !found {
				c.Fail("R4", sh, "cancel-watch context of the picked endpoint", sh.Pos(), "no goroutine watches the endpoint context")
			}
			// Pop error ⇒ 503
			ok503 := false
			for _, ci := range callsIn("k8s.io/apimachinery/pkg/api/errors.NewServiceUnavailable") {
				if guardedNil(ci, isPopErr, false) {
					ok503 = true
				}
			}
			c.Check("R4", sh, "Pop error ⇒ 503", pop.Pos(), ok503, "a failed pick must be answered with ServiceUnavailable")
		}
	}

	// ---- R5
	// addOrUpdateEndpoint may build a new endpoint in a helper and share one health-check call
	// between the update and the add branch: constructs are looked up in its Region, "followed
	// by" continues at the call sites of a helper, and the endpoint a merged call is about is the
	// value the variable has on the paths through the construct (eng.ValuesAfter).
	if au := c03AddUpdateAnchor(c); au != nil {
		region := c.W.Region(au)
		ensureName := pkgClusters + ".EnsureGatewayHealthCheck"
		n := 0
		for _, fn := range region {
			for _, ci := range eng.CallsTo(fn, "(*"+tEndpointInfo+").SetDisabled") {
				n++
				ok := c03EnsureFollows(c, ci, eng.Receiver(ci), eng.LiftDepth)
				c.Check("R5", au, "SetDisabled ⇒ EnsureGatewayHealthCheck", ci.Pos(), ok, "changing the disabled flag must be followed by (re)evaluating the probe goroutines of the same endpoint")
			}
		}
		if n == 0 {
			c.Fail("R5", au, "SetDisabled ⇒ EnsureGatewayHealthCheck", au.Pos(), "the disabled flag of an existing endpoint is never updated")
		}
		// probes die with their endpoint: every EnsureGatewayHealthCheck here is given the endpoint's own
		// context — one obligation per endpoint the call may be about (an updated one, a new one)
		for _, fn := range region {
			for _, ci := range eng.CallsTo(fn, ensureName) {
				a := eng.Args(ci)
				own := len(a) == 3 && c03OwnCtx(a[2], a[0])
				k := 1
				if len(a) > 0 {
					k = c03EndpointOrigins(c, a[0], eng.LiftDepth)
				}
				for ; k > 0; k-- {
					c.Check("R5", au, "probes run under the endpoint's own context", ci.Pos(), own,
						"the health check of an endpoint must stop when the endpoint is removed: started under the cluster's context an orphan prober survives removal, and a later re-added, disabled endpoint of the same address keeps being probed")
				}
			}
		}
		// initial status: Healthy false
		for _, st := range eng.StoresToField(region, tEndpointStatus, "Healthy") {
			c.Check("R5", au, "new endpoint starts unhealthy", st.Pos(), eng.IsBoolConst(st.Val, false), "a new endpoint must not be ready before its first successful probe")
		}
		// Disabled initial from the parameter
		for _, st := range eng.StoresToField(region, tEndpointStatus, "Disabled") {
			v := c.W.ResolveUpTo(unspill(st.Val), au)
			p, isP := v.(*ssa.Parameter)
			isBool := false
			if isP {
				b, ok := p.Type().Underlying().(*types.Basic)
				isBool = ok && b.Kind() == types.Bool && p.Parent() == au
			}
			if !(isP && isBool) {
				// the add/update function was merged into the sync function, which takes the servers and
				// not a flag: the value must at least be computed, not a constant
				hasFlag := false
				for _, q := range au.Params {
					if b, ok := q.Type().Underlying().(*types.Basic); ok && b.Kind() == types.Bool {
						hasFlag = true
					}
				}
				_, isConst := v.(*ssa.Const)
				isBool = !hasFlag && !isConst
				isP = isBool
			}
			c.Check("R5", au, "new endpoint's disabled flag from the spec", st.Pos(), isP && isBool, "")
		}
	}
	start := c03ProbeStarter(c)
	if eg := c.MustFunc(pkgClusters, "EnsureGatewayHealthCheck"); eg != nil {
		region := c.W.Region(eg)
		isDisabledCall := func(v ssa.Value) bool {
			cc, _ := eng.CallResultOf(v)
			return cc != nil && eng.IsCall(cc, "(*"+tEndpointInfo+").IstDisabled") && c.W.ResolveUpTo(unspill(eng.Receiver(cc)), eg) == ssa.Value(eg.Params[0])
		}
		n := 0
		for _, fn := range region {
			if start == nil || start == eg {
				break
			}
			for _, ci := range eng.CallsToFn(fn, start) {
				n++
				c.Check("R5", eg, "probes start only when enabled", ci.Pos(), eng.GuardedByBool(ci, isDisabledCall, false), "startGatewayHealthCheck must be control-dependent on !IstDisabled()")
			}
		}
		if start == eg {
			// the single-use start function was merged into EnsureGatewayHealthCheck: the go statements
			// that start the prober goroutines are the probe start
			for _, fn := range region {
				eng.Instrs(fn, func(ins ssa.Instruction) {
					if g, isGo := ins.(*ssa.Go); isGo {
						n++
						c.Check("R5", eg, "probes start only when enabled", g.Pos(), eng.GuardedByBool(g, isDisabledCall, false), "starting the prober goroutines must be control-dependent on !IstDisabled()")
					}
				})
			}
		}
		if n == 0 {
			c.Fail("R5", eg, "probes start only when enabled", eg.Pos(), "no probe start found")
		}
		// cancel on disabled
		cancelled := false
		for _, fn := range region {
			for _, ci := range eng.Calls(fn) {
				if ci.Common().IsInvoke() || ci.Common().StaticCallee() != nil {
					continue
				}
				if sl.WithUp().DerivesFrom(ci.Common().Value, func(v ssa.Value) bool { return eng.FieldLoadOf(v, tEndpointInfo, "cancelHealthCheck") }) {
					if eng.GuardedByBool(ci, isDisabledCall, true) {
						cancelled = true
					}
				}
			}
		}
		c.Check("R5", eg, "probes cancelled when disabled", eg.Pos(), cancelled, "the stored cancel function must be invoked on the IstDisabled() edge")
	}
	// probe function invoked only from the health-check loop: the invoking function runs only as part
	// of the function that starts the probe goroutines (a closure of it, or a method / function it
	// starts with go and nobody else calls)
	nProbe := 0
	for _, fn := range c.W.FuncsOf(pkgClusters) {
		for _, ci := range eng.Calls(fn) {
			if ci.Common().IsInvoke() || ci.Common().StaticCallee() != nil {
				continue
			}
			if eng.FieldLoadOf(ci.Common().Value, tEndpointInfo, "healthCheckFun") {
				nProbe++
				c.Check("R5", fn, "probe invoked only by the health-check loop", ci.Pos(), start != nil && c.W.RunsOnlyUnder(fn, start), "healthCheckFun may be called only inside startGatewayHealthCheck's goroutine")
			}
		}
	}
	if nProbe == 0 {
		c.Fail("R5", nil, "probe invoked only by the health-check loop", 0, "no invocation of healthCheckFun found")
	}
}

// c14Ticket locates the atomic ticket increment of a Pop implementation: the single
// atomic.AddUint64 executed as part of Pop, in Pop itself or in a helper it calls.
func c14Ticket(tree *eng.DownTree) (add *ssa.Call, n int) {
	for _, fn := range tree.Funcs() {
		for _, ci := range eng.CallsTo(fn, "sync/atomic.AddUint64") {
			n++
			if call, ok := ci.(*ssa.Call); ok {
				add = call
			}
		}
	}
	return add, n
}

// c14IsBalancer: the receiver of the sync.Map call cc is the loadbalancer field of a
// ClusterInfo — directly, or (the map handed to a helper as *sync.Map) in every context in
// which the call runs as part of the tree's anchor.
func c14IsBalancer(tree *eng.DownTree, cc ssa.CallInstruction) bool {
	recv := eng.Receiver(cc)
	if recv == nil {
		return false
	}
	if eng.FieldAddrOf(recv, tClusterInfo, "loadbalancer") {
		return true
	}
	ds := tree.Of(cc.Parent())
	for _, d := range ds {
		if !eng.FieldAddrOf(d.Canon(recv).V, tClusterInfo, "loadbalancer") {
			return false
		}
	}
	return len(ds) > 0
}

func c14(c *eng.Ctx) {
	c.Rule("R1", "round-robin arithmetic in Pop: the ticket is atomic.AddUint64(p, 1) on a counter obtained from the cluster's balancer map under a key derived from the ready slice; the index is ticket % uint64(len(ready)) of the same slice the result is read from; a single ready endpoint is returned directly; the balancer map is reset when the server set changes", 6)
	dsl := deepSlicer(c)
	// Pop may be spread over helpers (round-robin helper taking the ready slice, index helper
	// taking the cursor map, key and count): the constructs are looked up in Pop's context tree
	// and related through eng.Canon, which follows a value through parameters into the caller
	// and through single-valued results into the helper.
	for _, pop := range popImpls(c) {
		tree := popTree(c, pop)
		add, n := c14Ticket(tree)
		if n != 1 || add == nil {
			c.Fail("R1", pop, "ticket = AddUint64(p, 1)", pop.Pos(), fmt.Sprintf("expected one atomic ticket increment, found %d", n))
			continue
		}
		type verdict struct {
			ok   bool
			pos  token.Pos
			seen bool
		}
		constructs := []string{"ticket = AddUint64(p, 1)", "counter from the cluster's balancer map", "index = ticket % len(ready)", "result = ready[index] of the same slice", "one counter per ready set", "single ready endpoint shortcut"}
		res := map[string]*verdict{}
		note := func(k string, pos token.Pos, ok bool) {
			v := res[k]
			if v == nil {
				v = &verdict{ok: true, pos: pos}
				res[k] = v
			}
			v.seen = true
			v.ok = v.ok && ok
		}
		effRets := tree.Root.EffectiveReturns()
		// every obligation is decided in each context in which the increment runs as part of Pop
		for _, d := range ctxsOf(tree, add.Parent()) {
			a := eng.Args(add)
			one, isInt := eng.IntConst(d.Canon(a[1]).V)
			note(constructs[0], add.Pos(), isInt && one == 1)
			// counter from the balancer map of the picker's cluster
			var los *ssa.Call
			fromLB := d.DerivesFrom(dsl, a[0], func(v ssa.Value) bool {
				cc, idx := eng.CallResultOf(v)
				if cc != nil && idx == 0 && eng.IsCall(cc, "(*sync.Map).LoadOrStore") && c14IsBalancer(tree, cc) {
					los = cc
					return true
				}
				return false
			})
			note(constructs[1], add.Pos(), fromLB)
			// the modulo of the ticket
			ticket := eng.DV{V: add, C: d}
			var rem eng.DV
			for _, dr := range tree.All() {
				eng.Instrs(dr.Fn, func(ins ssa.Instruction) {
					if b, ok := ins.(*ssa.BinOp); ok && b.Op == token.REM && dr.Canon(b.X).Same(ticket) {
						rem = eng.DV{V: b, C: dr}
					}
				})
			}
			if rem.V == nil {
				note(constructs[2], add.Pos(), false)
				continue
			}
			rb := rem.V.(*ssa.BinOp)
			// strip: canonical value of v (in context at) without integer conversions
			strip := func(at *eng.DownCtx, v ssa.Value) eng.DV {
				r := at.Canon(v)
				for i := 0; i < 4; i++ {
					cv, ok := r.V.(*ssa.Convert)
					if !ok {
						break
					}
					r = r.C.Canon(cv.X)
				}
				return r
			}
			var lenOf eng.DV
			if y := strip(rem.C, rb.Y); y.V != nil {
				if lc, ok := y.V.(*ssa.Call); ok && isBuiltin(lc, "len") {
					lenOf = y.C.Canon(lc.Call.Args[0])
				}
			}
			note(constructs[2], rb.Pos(), lenOf.V != nil && isEndpointSlice(lenOf.V.Type()))
			if lenOf.V == nil {
				continue
			}
			// elemOf: v is ready[i] — returns the slice and the index
			elemOf := func(at *eng.DownCtx, v ssa.Value) (slice, index eng.DV, ok bool) {
				r := at.Canon(v)
				u, isU := r.V.(*ssa.UnOp)
				if !isU || u.Op != token.MUL {
					return
				}
				ia, isIA := u.X.(*ssa.IndexAddr)
				if !isIA {
					return
				}
				return r.C.Canon(ia.X), eng.DV{V: ia.Index, C: r.C}, true
			}
			// result read from the same slice at that index; single-element shortcut returns
			// element 0 of the same slice
			okRet, short := false, false
			for _, er := range effRets {
				if len(er.Res) != 2 {
					continue
				}
				slice, rawIndex, isElem := elemOf(er.Ctx, er.Res[0])
				if !isElem || !slice.Same(lenOf) {
					continue
				}
				// the index may be a variable that is 0 by default and overridden by the round-robin index
				// (`var i uint64; if len(ready) != 1 { i = next() }; return ready[i]`): each value it may
				// take is judged with the facts of the path that selects it
				for _, alt := range rawIndex.C.Alternatives(rawIndex.V, er.Ret, nil) {
					index := strip(alt.Ctx, alt.V)
					facts := eng.Alt{Points: append(append([]eng.FactPoint{}, er.Points...), alt.Points...)}
					if index.Same(rem) {
						okRet = true
					}
					if z, isK := eng.IntConst(index.V); isK && z == 0 {
						// the facts about len(ready) known when this return is taken must pin it to 1: `== 1`, or
						// a combination such as `!= 0` (the empty case returned before) and `<= 1` (the
						// round-robin override is taken when `> 1`)
						lo, hi := int64(0), int64(1<<62)
						var ne []int64
						facts.Holds(func(rel eng.Rel, at *eng.DownCtx) bool {
							rel = eng.NormRel(rel)
							k, isK := eng.IntConst(rel.Y)
							if !isK {
								return false
							}
							x := strip(at, rel.X)
							lc, ok := x.V.(*ssa.Call)
							if !ok || !isBuiltin(lc, "len") || !x.C.Canon(lc.Call.Args[0]).Same(lenOf) {
								return false
							}
							switch rel.Op {
							case token.EQL:
								if k > lo {
									lo = k
								}
								if k < hi {
									hi = k
								}
							case token.GTR:
								if k+1 > lo {
									lo = k + 1
								}
							case token.GEQ:
								if k > lo {
									lo = k
								}
							case token.LSS:
								if k-1 < hi {
									hi = k - 1
								}
							case token.LEQ:
								if k < hi {
									hi = k
								}
							case token.NEQ:
								ne = append(ne, k)
							}
							return false
						})
						for changed := true; changed; {
							changed = false
							for _, k := range ne {
								if k == lo && lo <= hi {
									lo++
									changed = true
								}
								if k == hi && lo <= hi {
									hi--
									changed = true
								}
							}
						}
						if lo == 1 && hi == 1 {
							short = true
						}
					}
				}
			}
			note(constructs[3], rb.Pos(), okRet)
			note(constructs[5], pop.Pos(), short)
			// key derives from the ready slice
			if los != nil {
				keyOK := true
				for _, dk := range ctxsOf(tree, los.Parent()) {
					if !dk.DerivesFrom(dsl.WithArgs(), eng.Args(los)[0], func(v ssa.Value) bool { return v == lenOf.V }) {
						keyOK = false
					}
				}
				note(constructs[4], los.Pos(), keyOK)
			}
		}
		details := map[string]string{
			constructs[0]: "consecutive unique tickets need an atomic increment by exactly 1",
			constructs[1]: "the cursor must be the shared per-key counter stored in ClusterInfo.loadbalancer (LoadOrStore)",
			constructs[2]: "the modulus must be exactly the number of ready endpoints and the dividend the ticket itself",
			constructs[3]: "the element is read from the slice whose length is the modulus",
			constructs[4]: "the balancer key must be derived from the ready slice (one cursor per ready order), not a constant",
			constructs[5]: "with one ready endpoint element 0 of the ready slice is returned (only under len == 1)",
		}
		for _, k := range constructs {
			if v := res[k]; v != nil && v.seen {
				c.Check("R1", pop, k, v.pos, v.ok, details[k])
			}
		}
	}
	se := c03SyncAnchor(c)
	if se != nil {
		sts := eng.StoresToField(c.W.Region(se), tClusterInfo, "loadbalancer")
		c.Check("R1", se, "balancer reset on server-set change", se.Pos(), len(sts) > 0, "cursors keyed by the old ready sets must be dropped when servers are added or removed")
	}
	// R2: nothing else disturbs a cursor while the ready set is stable
	c.Rule("R2", "rotation is not disturbed: the cursor is modified only by the atomic increment of Pop (no store, swap or compare-and-swap on it), and the balancer map is replaced only by the constructor and by syncEndpoints on the edge where servers were added or removed", 2)
	for _, pop := range popImpls(c) {
		add, n := c14Ticket(popTree(c, pop))
		if n != 1 || add == nil {
			continue
		}
		cursor := eng.Args(add)[0]
		bad := ""
		slu := c.Slicer().WithUp()
		mayBeBalancer := func(recv ssa.Value) bool {
			return recv != nil && slu.DerivesFrom(recv, func(x ssa.Value) bool { return eng.FieldAddrOf(x, tClusterInfo, "loadbalancer") })
		}
		fromLB := func(v ssa.Value) bool {
			if v == cursor {
				return true
			}
			// the address of a field of a local struct (a value holding the cursor pointer next to other
			// data) is not the cursor
			if fa, isFA := v.(*ssa.FieldAddr); isFA {
				if _, local := fa.X.(*ssa.Alloc); local {
					return false
				}
			}
			// a cursor is a *uint64
			pt, isPtr := v.Type().Underlying().(*types.Pointer)
			if !isPtr {
				return false
			}
			if b, isB := pt.Elem().Underlying().(*types.Basic); !isB || b.Kind() != types.Uint64 {
				return false
			}
			return slu.DerivesFrom(v, func(x ssa.Value) bool {
				cc, _ := eng.CallResultOf(x)
				return cc != nil && eng.IsCall(cc, "(*sync.Map).LoadOrStore", "(*sync.Map).Load") && mayBeBalancer(eng.Receiver(cc))
			})
		}
		for _, fn := range c.W.FuncsOf(pkgClusters) {
			for _, ci := range eng.Calls(fn) {
				if ci == ssa.CallInstruction(add) {
					continue
				}
				if eng.IsCall(ci, "sync/atomic.StoreUint64", "sync/atomic.SwapUint64", "sync/atomic.CompareAndSwapUint64", "sync/atomic.AddUint64") && fromLB(eng.Args(ci)[0]) {
					bad = shortName(eng.FullName(ci)) + " in " + eng.FuncName(fn)
				}
			}
			eng.Instrs(fn, func(ins ssa.Instruction) {
				if st, ok := ins.(*ssa.Store); ok && fromLB(st.Addr) {
					bad = "plain store in " + eng.FuncName(fn)
				}
			})
		}
		c.Check("R2", pop, "cursor advanced only by the atomic increment", add.Pos(), bad == "",
			"a second writer of the cursor ("+bad+") races with concurrent pickers: e.g. a wrap-around compare-and-swap that loses the race resets the cursor at a non-multiple of k, so one endpoint is served twice per round")
	}
	ctor := c.W.Func(pkgClusters, "NewEmptyClusterInfo")
	for i, st := range eng.StoresToField(c.W.AllRepoFuncs(), tClusterInfo, "loadbalancer") {
		fn := st.Parent()
		ok := false
		why := "the balancer map is replaced outside the constructor and syncEndpoints: cursors restart although the ready set is unchanged (e.g. on any policy or logging update), so the same endpoint is picked twice in a row"
		rep := fn
		switch {
		case fn.Name() == "NewEmptyClusterInfo" || (ctor != nil && c.W.RunsOnlyUnder(fn, ctor)):
			ok = true
		case se != nil && c.W.RunsOnlyUnder(fn, se):
			// unreachable when neither "added" nor "deleted" is non-empty: assume every `X.Len()` is 0
			// (so `X.Len() > 0` is false and `X.Len() == 0` true, also when named through a local,
			// combined by || / &&, negated into a guard clause or handed to a helper as a flag) and cut
			// the edges that this assumption makes infeasible — in syncEndpoints and in every helper
			// between it and the store
			ok = !c.W.ReachFromEntryUp(se, st, func(from *ssa.BasicBlock, idx int) bool {
				iff, isIf := from.Instrs[len(from.Instrs)-1].(*ssa.If)
				if !isIf {
					return false
				}
				val, known := c14UnderNoChange(iff.Cond, map[ssa.Value]bool{}, 0)
				if !known {
					return false
				}
				if val {
					return idx == 1
				}
				return idx == 0
			})
			why = "the balancer map is replaced although no server was added or removed"
			rep = se
		}
		c.Check("R2", rep, fmt.Sprintf("balancer map replaced only on a server-set change#%d", i+1), st.Pos(), ok, why)
	}
}

// c14UnderNoChange evaluates boolean v under the assumption that no set is non-empty (every
// `X.Len()` is 0): a comparison of such a length with a constant, negations, boolean phis all
// of whose feasible edges agree (the constant edge of `a || b` / `a && b` comes from the
// branch of `a` that the assumption makes infeasible), comparisons with boolean constants,
// and a boolean parameter of a helper that is bound to such a value at every call site.
func c14UnderNoChange(v ssa.Value, busy map[ssa.Value]bool, depth int) (val, known bool) {
	if v == nil || busy[v] || depth > 8 {
		return false, false
	}
	busy[v] = true
	defer delete(busy, v)
	isLen := func(y ssa.Value) bool {
		cc, _ := eng.CallResultOf(y)
		return cc != nil && eng.MethodNameIs(cc, "Len")
	}
	switch x := v.(type) {
	case *ssa.Const:
		if eng.IsBoolConst(x, true) {
			return true, true
		}
		if eng.IsBoolConst(x, false) {
			return false, true
		}
	case *ssa.UnOp:
		if x.Op == token.NOT {
			if b, ok := c14UnderNoChange(x.X, busy, depth+1); ok {
				return !b, true
			}
		}
	case *ssa.BinOp:
		// a comparison of integer expressions over such lengths (`a.Len() > 0`, `0 < a.Len()`,
		// `a.Len()+b.Len() != 0`, `a.Len() == b.Len()`)
		if a, oka := intUnderNoChange(x.X, 0); oka {
			if b, okb := intUnderNoChange(x.Y, 0); okb && (hasLen(x.X, isLen, 0) || hasLen(x.Y, isLen, 0)) {
				switch x.Op {
				case token.EQL:
					return a == b, true
				case token.NEQ:
					return a != b, true
				case token.LSS:
					return a < b, true
				case token.LEQ:
					return a <= b, true
				case token.GTR:
					return a > b, true
				case token.GEQ:
					return a >= b, true
				}
			}
		}
		if x.Op == token.EQL || x.Op == token.NEQ {
			a, oka := c14UnderNoChange(x.X, busy, depth+1)
			b, okb := c14UnderNoChange(x.Y, busy, depth+1)
			if oka && okb {
				return (a == b) == (x.Op == token.EQL), true
			}
		}
	case *ssa.Phi:
		have := false
		for i, e := range x.Edges {
			if i >= len(x.Block().Preds) {
				return false, false
			}
			pred := x.Block().Preds[i]
			if iff, ok := pred.Instrs[len(pred.Instrs)-1].(*ssa.If); ok && pred.Succs[0] != pred.Succs[1] {
				if cv, ok := c14UnderNoChange(iff.Cond, busy, depth+1); ok {
					infeasible := pred.Succs[1]
					if !cv {
						infeasible = pred.Succs[0]
					}
					if infeasible == x.Block() {
						continue
					}
				}
			}
			b, ok := c14UnderNoChange(e, busy, depth+1)
			if !ok || (have && b != val) {
				return false, false
			}
			val, have = b, true
		}
		return val, have
	case *ssa.Call:
		// a predicate helper: every return agrees (its parameters are evaluated at their call sites)
		callee := x.Call.StaticCallee()
		if callee == nil || x.Call.IsInvoke() || !eng.Analysable(callee) || callee.Signature.Results().Len() != 1 {
			return false, false
		}
		have := false
		for _, r := range eng.Returns(callee) {
			b, ok := c14UnderNoChange(eng.ReturnResults(r)[0], busy, depth+1)
			if !ok || (have && b != val) {
				return false, false
			}
			val, have = b, true
		}
		return val, have
	case *ssa.Parameter:
		ups := eng.UpArgs(x)
		have := false
		for _, a := range ups {
			b, ok := c14UnderNoChange(a, busy, depth+1)
			if !ok || (have && b != val) {
				return false, false
			}
			val, have = b, true
		}
		return val, have
	}
	return false, false
}

// intUnderNoChange evaluates an integer expression in which every `X.Len()` is 0.
func intUnderNoChange(v ssa.Value, depth int) (int64, bool) {
	if depth > 6 {
		return 0, false
	}
	if k, ok := eng.IntConst(v); ok {
		return k, true
	}
	switch x := v.(type) {
	case *ssa.Call, *ssa.Extract:
		if cc, _ := eng.CallResultOf(v); cc != nil && eng.MethodNameIs(cc, "Len") {
			return 0, true
		}
	case *ssa.Convert:
		return intUnderNoChange(x.X, depth+1)
	case *ssa.BinOp:
		a, oka := intUnderNoChange(x.X, depth+1)
		b, okb := intUnderNoChange(x.Y, depth+1)
		if oka && okb {
			switch x.Op {
			case token.ADD:
				return a + b, true
			case token.SUB:
				return a - b, true
			case token.MUL:
				return a * b, true
			}
		}
	}
	return 0, false
}

// hasLen: the expression mentions a length (so that a comparison of two constants is not taken
// for a statement about the sets).
func hasLen(v ssa.Value, isLen func(ssa.Value) bool, depth int) bool {
	if depth > 6 {
		return false
	}
	if isLen(v) {
		return true
	}
	switch x := v.(type) {
	case *ssa.Convert:
		return hasLen(x.X, isLen, depth+1)
	case *ssa.BinOp:
		return hasLen(x.X, isLen, depth+1) || hasLen(x.Y, isLen, depth+1)
	}
	return false
}
