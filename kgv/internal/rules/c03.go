package rules

import (
	"fmt"
	"go/token"
	"go/types"

	"golang.org/x/tools/go/ssa"

	"kgv/internal/eng"
)

func init() {
	Register("C03", c03)
	Register("C14", c14)
}

const (
	tEndpointInfo    = pkgClusters + ".EndpointInfo"
	tEndpointInfoMap = pkgClusters + ".EndpointInfoMap"
	tPickStrategy    = pkgClusters + ".endpointPickStrategy"
	tClusterInfo     = pkgClusters + ".ClusterInfo"
	tEndpointStatus  = pkgClusters + ".endpointStatus"
)

// popImpls returns the Pop methods of every EndpointPicker implementation.
func popImpls(c *eng.Ctx) []*ssa.Function {
	iface := c.W.Interface(pkgClusters, "EndpointPicker")
	if iface == nil {
		c.Fail("engine", nil, "unresolved-anchor interface EndpointPicker", 0, "not found")
		return nil
	}
	var out []*ssa.Function
	for _, n := range c.W.Implementers(iface) {
		if f := c.W.DeclaredMethod(n, "Pop"); f != nil && f.Blocks != nil {
			out = append(out, f)
		}
	}
	if len(out) == 0 {
		c.Fail("engine", nil, "unresolved-anchor EndpointPicker.Pop implementations", 0, "none found")
	}
	return out
}

func isEndpointSlice(t types.Type) bool {
	s, ok := t.Underlying().(*types.Slice)
	return ok && eng.TypeName(s.Elem()) == tEndpointInfo
}

func isBuiltin(c ssa.CallInstruction, name string) bool {
	b, ok := c.Common().Value.(*ssa.Builtin)
	return ok && b.Name() == name
}

func c03(c *eng.Ctx) {
	defer c03Extra(c)
	c.Rule("R1", "every endpoint returned by an EndpointPicker.Pop is an element appended to the ready slice under `loaded && IsReady()`, loaded from the cluster's Endpoints map by a name ranging over the picker's upstreams; an empty result returns ErrNoReadyEndpoints", 4)
	c.Rule("R2", "endpointStatus.IsReady is false whenever Disabled is true or Healthy is false (forcing), true when enabled and healthy, and reads both under the status mutex; EndpointInfo.IsReady delegates to it", 5)
	c.Rule("R3", "MatchAttributes gives the picker policy.UpstreamSubset when non-empty and all endpoints of the cluster otherwise; the policy is the result of MatchPolicies", 3)
	c.Rule("R4", "the dispatcher contacts the endpoint it picked: URL scheme/host, both transports, the cancel-watch context and the forwarded mark derive from the single Pop result; a Pop error answers 503 before anything else", 7)
	c.Rule("R5", "a disabled endpoint is not probed: SetDisabled is always followed by EnsureGatewayHealthCheck, probes start only when not disabled and are cancelled when disabled, a new endpoint starts unhealthy, the probe function is invoked only by the health-check loop, probes run under the endpoint's own context", 7)

	sl := c.Slicer()
	// ---- R1
	for _, pop := range popImpls(c) {
		// appends to endpoint slices that feed the returned endpoint (in Pop or in helpers it calls)
		var appends []*ssa.Call
		isAppend := func(v ssa.Value) bool {
			call, ok := v.(*ssa.Call)
			return ok && isBuiltin(call, "append") && isEndpointSlice(call.Type())
		}
		addAppend := func(v ssa.Value) {
			call := v.(*ssa.Call)
			for _, a := range appends {
				if a == call {
					return
				}
			}
			appends = append(appends, call)
		}
		// returns
		eng.Instrs(pop, func(ins ssa.Instruction) {
			r, ok := ins.(*ssa.Return)
			if !ok || len(r.Results) != 2 {
				return
			}
			if eng.IsNilConst(r.Results[0]) {
				ok := sl.WithArgs().DerivesFrom(r.Results[1], func(v ssa.Value) bool {
					g, isG := v.(*ssa.Global)
					return isG && g.Name() == "ErrNoReadyEndpoints"
				})
				c.Check("R1", pop, "empty result ⇒ ErrNoReadyEndpoints", r.Pos(), ok, "a nil endpoint must be returned with (a wrap of) ErrNoReadyEndpoints so that the dispatcher answers 503")
				return
			}
			bad := ""
			for _, leaf := range sl.Leaves(r.Results[0], isAppend) {
				switch {
				case isAppend(leaf):
					addAppend(leaf)
				case eng.IsNilConst(leaf):
				default:
					if a, ok := leaf.(*ssa.Alloc); ok {
						if arr, ok := a.Type().(*types.Pointer).Elem().Underlying().(*types.Array); ok && arr.Len() <= 1 {
							continue // empty literal / varargs cell
						}
					}
					bad = fmt.Sprintf("returned endpoint may come from %s (%T), not from the filtered ready slice", leaf.Name(), leaf)
				}
			}
			c.Check("R1", pop, "returned endpoint ∈ ready slice", r.Pos(), bad == "", bad)
		})
		for k, ap := range appends {
			construct := fmt.Sprintf("append-ready#%d", k+1)
			// the appended element(s)
			var elems []ssa.Value
			for _, a := range ap.Call.Args[1:] {
				for _, leaf := range sl.Leaves(a, func(v ssa.Value) bool {
					cc, _ := eng.CallResultOf(v)
					return cc != nil
				}) {
					if al, ok := leaf.(*ssa.Alloc); ok {
						_ = al
						continue
					}
					elems = append(elems, leaf)
				}
			}
			ok := len(elems) > 0
			detail := ""
			for _, e := range elems {
				cc, idx := eng.CallResultOf(e)
				if cc == nil || idx != 0 || !eng.IsCall(cc, "(*"+tEndpointInfoMap+").Load") {
					ok = false
					detail = "appended element is not the result of Endpoints.Load(name)"
					continue
				}
				// receiver: s.cluster.Endpoints
				if !eng.FieldLoadOf(eng.Receiver(cc), tClusterInfo, "Endpoints") {
					ok = false
					detail = "endpoint is not loaded from the picker's own cluster map"
				}
				// name ranges over s.upstreams
				nameOK := sl.DerivesFrom(eng.Args(cc)[0], func(v ssa.Value) bool { return eng.FieldLoadOf(v, tPickStrategy, "upstreams") })
				if !nameOK {
					ok = false
					detail = "endpoint name does not range over the picker's upstreams"
				}
				// guards: loaded == true, e.IsReady() == true
				loadedOK := eng.GuardedByBool(ap, func(v ssa.Value) bool {
					c2, i2 := eng.CallResultOf(v)
					return c2 == cc && i2 == 1
				}, true)
				readyOK := eng.GuardedByBool(ap, func(v ssa.Value) bool {
					c2, _ := eng.CallResultOf(v)
					return c2 != nil && eng.IsCall(c2, "(*"+tEndpointInfo+").IsReady") && eng.Receiver(c2) == e
				}, true)
				if !loadedOK {
					ok = false
					detail = "append is not control-dependent on the endpoint being present in the cluster's current server list"
				}
				if !readyOK {
					ok = false
					detail = "append is not control-dependent on IsReady() of the same endpoint (disabled or unhealthy endpoints would get traffic)"
				}
			}
			c.Check("R1", pop, construct, ap.Pos(), ok, detail)
		}
		if len(appends) == 0 {
			c.Fail("R1", pop, "append-ready", pop.Pos(), "no filtered ready slice is built")
		}
	}

	// ---- R2
	if isReady := c.MustMethod(pkgClusters, "endpointStatus", "IsReady"); isReady != nil {
		force := func(name string, pins map[string]eng.AV, want bool) {
			in := &eng.Interp{W: c.W, Depth: 0, PinPath: func(p string) (eng.AV, bool) {
				av, ok := pins[p]
				return av, ok
			}}
			rs, err := in.Run(isReady, nil)
			ok := err == nil && len(rs) > 0
			for _, r := range rs {
				if r.LoopCut || r.Panicked || len(r.Ret) != 1 || !r.Ret[0].IsBool(want) {
					ok = false
				}
			}
			c.Check("R2", isReady, name, isReady.Pos(), ok, fmt.Sprintf("pinning the status fields this way must force IsReady()=%v on every path", want))
		}
		rn := isReady.Params[0].Name() // receiver name: memory cells are "<receiver>.<field>"
		force("Disabled=true ⇒ false", map[string]eng.AV{rn + ".Disabled": eng.AVBool(true)}, false)
		force("Healthy=false ⇒ false", map[string]eng.AV{rn + ".Healthy": eng.AVBool(false)}, false)
		force("enabled ∧ healthy ⇒ true", map[string]eng.AV{rn + ".Healthy": eng.AVBool(true), rn + ".Disabled": eng.AVBool(false)}, true)
		// reads under the mutex
		isLock := func(ins ssa.Instruction) bool {
			return eng.IsPlainCall(ins, "(*sync.RWMutex).RLock", "(*sync.RWMutex).Lock") && eng.FieldAddrOf(eng.Receiver(ins.(ssa.CallInstruction)), tEndpointStatus, "mux")
		}
		isUnlock := func(ins ssa.Instruction) bool {
			return eng.IsPlainCall(ins, "(*sync.RWMutex).RUnlock", "(*sync.RWMutex).Unlock")
		}
		eng.Instrs(isReady, func(ins ssa.Instruction) {
			u, ok := ins.(*ssa.UnOp)
			if !ok || u.Op != token.MUL {
				return
			}
			for _, f := range []string{"Disabled", "Healthy"} {
				if eng.FieldAddrOf(u.X, tEndpointStatus, f) {
					held := eng.AlwaysBefore(isReady, ins, isLock) && eng.ReachFromEntry(isReady, eng.PathQuery{
						Target:    func(i ssa.Instruction) bool { return i == ins },
						Avoid:     func(i ssa.Instruction) bool { return false },
						BlockEdge: nil,
					}) != nil
					// no unlock between lock and read
					unl := false
					eng.Instrs(isReady, func(i2 ssa.Instruction) {
						if isLock(i2) && eng.ReachAfter(i2, eng.PathQuery{Target: func(i ssa.Instruction) bool { return i == ins }, Avoid: isUnlock}) == nil {
							unl = true
						}
					})
					c.Check("R2", isReady, "read "+f+" under status mutex", ins.Pos(), held && !unl, "status fields are read inside the mutex region")
				}
			}
		})
	}
	if eir := c.MustMethod(pkgClusters, "EndpointInfo", "IsReady"); eir != nil {
		ok := true
		eng.Instrs(eir, func(ins ssa.Instruction) {
			if r, isR := ins.(*ssa.Return); isR {
				cc, _ := eng.CallResultOf(r.Results[0])
				if cc == nil || !eng.IsCall(cc, "(*"+tEndpointStatus+").IsReady") || !eng.FieldLoadOf(eng.Receiver(cc), tEndpointInfo, "status") {
					ok = false
				}
			}
		})
		c.Check("R2", eir, "EndpointInfo.IsReady = status.IsReady()", eir.Pos(), ok, "readiness of an endpoint is exactly its status' readiness")
	}

	// ---- R3
	if ma := c.MustMethod(pkgClusters, "ClusterInfo", "MatchAttributes"); ma != nil {
		// the picker may be built in MatchAttributes itself or in a helper extracted from it
		stores := eng.StoresToField(c.W.Region(ma), tPickStrategy, "upstreams")
		slUp := sl.WithUp()
		subsetSeen, allSeen := false, false
		for _, st := range stores {
			fromSubset := sl.DerivesFrom(st.Val, func(v ssa.Value) bool {
				return eng.FieldLoadOf(v, pkgV1alpha1+".DispatchPolicy", "UpstreamSubset")
			})
			fromAll := sl.DerivesFrom(st.Val, func(v ssa.Value) bool {
				cc, _ := eng.CallResultOf(v)
				return cc != nil && (eng.IsCall(cc, "(*"+tClusterInfo+").AllEndpoints") || eng.IsCall(cc, "(*"+tEndpointInfoMap+").Names"))
			})
			lenSubset := func(v ssa.Value) bool {
				cc, ok := v.(*ssa.Call)
				return ok && isBuiltin(cc, "len") && eng.FieldLoadOf(cc.Call.Args[0], pkgV1alpha1+".DispatchPolicy", "UpstreamSubset")
			}
			switch {
			case fromSubset && !fromAll:
				subsetSeen = true
				ok := eng.GuardedBy(st, func(r eng.Rel) bool {
					z, isInt := eng.IntConst(r.Y)
					return lenSubset(r.X) && isInt && z == 0 && (r.Op == token.NEQ || r.Op == token.GTR)
				})
				c.Check("R3", ma, "upstreams = policy.UpstreamSubset when non-empty", st.Pos(), ok, "the subset is used exactly on the len(UpstreamSubset) != 0 edge")
			case fromAll && !fromSubset:
				allSeen = true
				ok := eng.GuardedBy(st, func(r eng.Rel) bool {
					z, isInt := eng.IntConst(r.Y)
					return lenSubset(r.X) && isInt && z == 0 && (r.Op == token.EQL || r.Op == token.LEQ)
				})
				c.Check("R3", ma, "upstreams = all endpoints when no subset", st.Pos(), ok, "all endpoints are used only when the policy lists no subset")
			default:
				c.Fail("R3", ma, "upstreams store of unknown origin", st.Pos(), "the picker's upstreams must be the policy's subset or the cluster's endpoint names")
			}
		}
		if !subsetSeen {
			c.Fail("R3", ma, "upstreams = policy.UpstreamSubset when non-empty", ma.Pos(), "the policy's upstream subset is ignored")
		}
		if !allSeen {
			c.Fail("R3", ma, "upstreams = all endpoints when no subset", ma.Pos(), "no fallback to all endpoints")
		}
		// the policy is MatchPolicies' result
		polOK := false
		for _, st := range stores {
			if slUp.DerivesFrom(st.Val, func(v ssa.Value) bool {
				cc, _ := eng.CallResultOf(v)
				return cc != nil && eng.IsCall(cc, pkgClusters+".MatchPolicies")
			}) {
				polOK = true
			}
		}
		c.Check("R3", ma, "subset belongs to the matched policy", ma.Pos(), polOK, "UpstreamSubset must be read from the policy returned by MatchPolicies")
	}

	// ---- R4
	if sh := c.MustMethod(pkgDispatcher, "dispatcher", "ServeHTTP"); sh != nil {
		pops := eng.CallsTo(sh, "("+pkgClusters+".EndpointPicker).Pop")
		if len(pops) != 1 || eng.InLoop(pops[0].Block()) {
			c.Fail("R4", sh, "single Pop", sh.Pos(), fmt.Sprintf("expected exactly one Pop() outside loops, found %d", len(pops)))
		} else {
			pop := pops[0].(*ssa.Call)
			isPopRes := func(v ssa.Value) bool {
				cc, idx := eng.CallResultOf(v)
				return cc == pop && idx == 0
			}
			isPopErr := func(v ssa.Value) bool {
				cc, idx := eng.CallResultOf(v)
				return cc == pop && idx == 1
			}
			c.Pass("R4", sh, "single Pop", pop.Pos(), "")
			sa := c.Slicer().WithArgs().WithUp()
			// URL scheme/host (the URL may be assembled in a helper extracted from ServeHTTP)
			for _, f := range []string{"Scheme", "Host"} {
				sts := eng.StoresToField(c.W.Region(sh), "net/url.URL", f)
				ok := len(sts) > 0
				for _, st := range sts {
					fromPop := false
					for _, leaf := range sa.Leaves(st.Val, isPopRes) {
						if isPopRes(leaf) {
							fromPop = true
						} else if _, isP := leaf.(*ssa.Parameter); isP {
							ok = false // must not also derive from the incoming request
						}
					}
					if !fromPop {
						ok = false
					}
				}
				c.Check("R4", sh, "forward URL "+f+" from the picked endpoint", sh.Pos(), ok, "the target "+f+" must derive from the Pop() result only")
			}
			// transports
			for _, ci := range eng.CallsTo(sh, pkgDispatcher+".NewUpgradeAwareHandler") {
				a := eng.Args(ci)
				ok := len(a) >= 3 && eng.FieldLoadOf(a[1], tEndpointInfo, "ProxyTransport") && eng.FieldLoadOf(a[2], tEndpointInfo, "PorxyUpgradeTransport") &&
					sl.DerivesFrom(a[1], isPopRes) && sl.DerivesFrom(a[2], isPopRes)
				c.Check("R4", sh, "both transports of the picked endpoint", ci.Pos(), ok, "the proxy handler must use the transports of the Pop() result")
				// dominated by err == nil of Pop
				g := eng.GuardedByNil(ci, isPopErr, true)
				c.Check("R4", sh, "forwarding only when Pop succeeded", ci.Pos(), g, "the proxy handler is reached only on the err == nil edge of Pop")
			}
			// SetProxyForwarded
			for _, ci := range eng.CallsTo(sh, pkgRequest+".SetProxyForwarded") {
				a := eng.Args(ci)
				ok := len(a) == 2 && sl.DerivesFrom(a[1], isPopRes)
				c.Check("R4", sh, "forwarded mark names the picked endpoint", ci.Pos(), ok, "")
			}
			// cancel watcher
			found := false
			for _, fn := range c.W.FuncsOf(pkgDispatcher) {
				for _, ci := range eng.CallsTo(fn, "(*"+tEndpointInfo+").Context") {
					found = true
					// the watcher may be a closure of ServeHTTP or an extracted function started with go
					ok := sl.WithUp().DerivesFrom(eng.Receiver(ci), isPopRes)
					c.Check("R4", fn, "cancel-watch context of the picked endpoint", ci.Pos(), ok, "the goroutine must watch the context of the endpoint that serves this request")
				}
			}
			if !found {
				c.Fail("R4", sh, "cancel-watch context of the picked endpoint", sh.Pos(), "no goroutine watches the endpoint context")
			}
			// Pop error ⇒ 503
			ok503 := false
			for _, ci := range eng.CallsTo(sh, "k8s.io/apimachinery/pkg/api/errors.NewServiceUnavailable") {
				if eng.GuardedByNil(ci, isPopErr, false) {
					ok503 = true
				}
			}
			c.Check("R4", sh, "Pop error ⇒ 503", pop.Pos(), ok503, "a failed pick must be answered with ServiceUnavailable")
		}
	}

	// ---- R5
	if au := c.MustMethod(pkgClusters, "ClusterInfo", "addOrUpdateEndpoint"); au != nil {
		isEnsure := func(ins ssa.Instruction) bool { return eng.IsPlainCall(ins, pkgClusters+".EnsureGatewayHealthCheck") }
		n := 0
		for _, ci := range eng.CallsTo(au, "(*"+tEndpointInfo+").SetDisabled") {
			n++
			ok := eng.AlwaysAfter(ci, isEnsure)
			// same endpoint
			if ok {
				x := eng.ReachAfter(ci, eng.PathQuery{Target: isEnsure})
				if x != nil && eng.Args(x.(ssa.CallInstruction))[0] != eng.Receiver(ci) {
					ok = false
				}
			}
			c.Check("R5", au, "SetDisabled ⇒ EnsureGatewayHealthCheck", ci.Pos(), ok, "changing the disabled flag must be followed by (re)evaluating the probe goroutines of the same endpoint")
		}
		if n == 0 {
			c.Fail("R5", au, "SetDisabled ⇒ EnsureGatewayHealthCheck", au.Pos(), "the disabled flag of an existing endpoint is never updated")
		}
		// probes die with their endpoint: every EnsureGatewayHealthCheck here is given the endpoint's own context
		for _, ci := range eng.CallsTo(au, pkgClusters+".EnsureGatewayHealthCheck") {
			a := eng.Args(ci)
			own := len(a) == 3 && eng.FieldLoadOf(a[2], tEndpointInfo, "ctx")
			if own {
				if u, isU := a[2].(*ssa.UnOp); isU {
					if fa, isFA := u.X.(*ssa.FieldAddr); isFA {
						own = fa.X == a[0]
					}
				}
			}
			c.Check("R5", au, "probes run under the endpoint's own context", ci.Pos(), own,
				"the health check of an endpoint must stop when the endpoint is removed: started under the cluster's context an orphan prober survives removal, and a later re-added, disabled endpoint of the same address keeps being probed")
		}
		// initial status: Healthy false
		for _, st := range eng.StoresToField([]*ssa.Function{au}, tEndpointStatus, "Healthy") {
			c.Check("R5", au, "new endpoint starts unhealthy", st.Pos(), eng.IsBoolConst(st.Val, false), "a new endpoint must not be ready before its first successful probe")
		}
		// Disabled initial from the parameter
		for _, st := range eng.StoresToField([]*ssa.Function{au}, tEndpointStatus, "Disabled") {
			p, isP := st.Val.(*ssa.Parameter)
			isBool := false
			if isP {
				b, ok := p.Type().Underlying().(*types.Basic)
				isBool = ok && b.Kind() == types.Bool
			}
			c.Check("R5", au, "new endpoint's disabled flag from the spec", st.Pos(), isP && isBool, "")
		}
	}
	if eg := c.MustFunc(pkgClusters, "EnsureGatewayHealthCheck"); eg != nil {
		isDisabledCall := func(v ssa.Value) bool {
			cc, _ := eng.CallResultOf(v)
			return cc != nil && eng.IsCall(cc, "(*"+tEndpointInfo+").IstDisabled") && eng.Receiver(cc) == ssa.Value(eg.Params[0])
		}
		n := 0
		for _, ci := range eng.CallsTo(eg, pkgClusters+".startGatewayHealthCheck") {
			n++
			c.Check("R5", eg, "probes start only when enabled", ci.Pos(), eng.GuardedByBool(ci, isDisabledCall, false), "startGatewayHealthCheck must be control-dependent on !IstDisabled()")
		}
		if n == 0 {
			c.Fail("R5", eg, "probes start only when enabled", eg.Pos(), "no probe start found")
		}
		// cancel on disabled
		cancelled := false
		for _, ci := range eng.Calls(eg) {
			if ci.Common().IsInvoke() || ci.Common().StaticCallee() != nil {
				continue
			}
			if sl.DerivesFrom(ci.Common().Value, func(v ssa.Value) bool { return eng.FieldLoadOf(v, tEndpointInfo, "cancelHealthCheck") }) {
				if eng.GuardedByBool(ci, isDisabledCall, true) {
					cancelled = true
				}
			}
		}
		c.Check("R5", eg, "probes cancelled when disabled", eg.Pos(), cancelled, "the stored cancel function must be invoked on the IstDisabled() edge")
	}
	// probe function invoked only from the health-check loop
	nProbe := 0
	for _, fn := range c.W.FuncsOf(pkgClusters) {
		for _, ci := range eng.Calls(fn) {
			if ci.Common().IsInvoke() || ci.Common().StaticCallee() != nil {
				continue
			}
			if eng.FieldLoadOf(ci.Common().Value, tEndpointInfo, "healthCheckFun") {
				nProbe++
				outer := fn
				for outer.Parent() != nil {
					outer = outer.Parent()
				}
				c.Check("R5", fn, "probe invoked only by the health-check loop", ci.Pos(), outer.Name() == "startGatewayHealthCheck", "healthCheckFun may be called only inside startGatewayHealthCheck's goroutine")
			}
		}
	}
	if nProbe == 0 {
		c.Fail("R5", nil, "probe invoked only by the health-check loop", 0, "no invocation of healthCheckFun found")
	}
}

func c14(c *eng.Ctx) {
	c.Rule("R1", "round-robin arithmetic in Pop: the ticket is atomic.AddUint64(p, 1) on a counter obtained from the cluster's balancer map under a key derived from the ready slice; the index is ticket % uint64(len(ready)) of the same slice the result is read from; a single ready endpoint is returned directly; the balancer map is reset when the server set changes", 6)
	sl := c.Slicer()
	for _, pop := range popImpls(c) {
		adds := eng.CallsTo(pop, "sync/atomic.AddUint64")
		if len(adds) != 1 {
			c.Fail("R1", pop, "ticket = AddUint64(p, 1)", pop.Pos(), fmt.Sprintf("expected one atomic ticket increment, found %d", len(adds)))
			continue
		}
		add := adds[0].(*ssa.Call)
		a := eng.Args(add)
		one, isInt := eng.IntConst(a[1])
		c.Check("R1", pop, "ticket = AddUint64(p, 1)", add.Pos(), isInt && one == 1, "consecutive unique tickets need an atomic increment by exactly 1")
		// counter from the balancer map of the picker's cluster
		var los *ssa.Call
		fromLB := sl.DerivesFrom(a[0], func(v ssa.Value) bool {
			cc, idx := eng.CallResultOf(v)
			if cc != nil && idx == 0 && eng.IsCall(cc, "(*sync.Map).LoadOrStore") && eng.FieldAddrOf(eng.Receiver(cc), tClusterInfo, "loadbalancer") {
				los = cc
				return true
			}
			return false
		})
		c.Check("R1", pop, "counter from the cluster's balancer map", add.Pos(), fromLB, "the cursor must be the shared per-key counter stored in ClusterInfo.loadbalancer (LoadOrStore)")
		// find the REM
		var rem *ssa.BinOp
		eng.Instrs(pop, func(ins ssa.Instruction) {
			if b, ok := ins.(*ssa.BinOp); ok && b.Op == token.REM && sl.DerivesFrom(b.X, func(v ssa.Value) bool { return v == ssa.Value(add) }) {
				rem = b
			}
		})
		if rem == nil {
			c.Fail("R1", pop, "index = ticket % len(ready)", add.Pos(), "no modulo of the ticket found")
			continue
		}
		var lenOf ssa.Value
		y := rem.Y
		if cv, ok := y.(*ssa.Convert); ok {
			y = cv.X
		}
		if lc, ok := y.(*ssa.Call); ok && isBuiltin(lc, "len") {
			lenOf = lc.Call.Args[0]
		}
		c.Check("R1", pop, "index = ticket % len(ready)", rem.Pos(), lenOf != nil && isEndpointSlice(lenOf.Type()) && rem.X == ssa.Value(add), "the modulus must be exactly the number of ready endpoints and the dividend the ticket itself")
		// result read from the same slice at that index
		okRet := false
		eng.Instrs(pop, func(ins ssa.Instruction) {
			r, ok := ins.(*ssa.Return)
			if !ok || len(r.Results) != 2 {
				return
			}
			if u, ok := r.Results[0].(*ssa.UnOp); ok {
				if ia, ok := u.X.(*ssa.IndexAddr); ok && ia.Index == ssa.Value(rem) {
					okRet = ia.X == lenOf
				}
			}
		})
		c.Check("R1", pop, "result = ready[index] of the same slice", rem.Pos(), okRet, "the element is read from the slice whose length is the modulus")
		// key derives from the ready slice
		if los != nil {
			keyOK := c.Slicer().WithArgs().DerivesFrom(eng.Args(los)[0], func(v ssa.Value) bool { return v == lenOf })
			c.Check("R1", pop, "one counter per ready set", los.Pos(), keyOK, "the balancer key must be derived from the ready slice (one cursor per ready order), not a constant")
		}
		// single-element shortcut returns element 0 of the same slice
		short := false
		eng.Instrs(pop, func(ins ssa.Instruction) {
			r, ok := ins.(*ssa.Return)
			if !ok || len(r.Results) != 2 {
				return
			}
			if u, ok := r.Results[0].(*ssa.UnOp); ok {
				if ia, ok := u.X.(*ssa.IndexAddr); ok {
					if z, isInt := eng.IntConst(ia.Index); isInt && z == 0 && ia.X == lenOf {
						short = eng.GuardedBy(r, func(rel eng.Rel) bool {
							lc, ok := convOf(rel.X).(*ssa.Call)
							k, isK := eng.IntConst(rel.Y)
							return ok && isBuiltin(lc, "len") && lc.Call.Args[0] == lenOf && isK && k == 1 && rel.Op == token.EQL
						})
					}
				}
			}
		})
		c.Check("R1", pop, "single ready endpoint shortcut", pop.Pos(), short, "with one ready endpoint element 0 of the ready slice is returned (only under len == 1)")
	}
	if se := c.MustMethod(pkgClusters, "ClusterInfo", "syncEndpoints"); se != nil {
		sts := eng.StoresToField([]*ssa.Function{se}, tClusterInfo, "loadbalancer")
		c.Check("R1", se, "balancer reset on server-set change", se.Pos(), len(sts) > 0, "cursors keyed by the old ready sets must be dropped when servers are added or removed")
	}
	// R2: nothing else disturbs a cursor while the ready set is stable
	c.Rule("R2", "rotation is not disturbed: the cursor is modified only by the atomic increment of Pop (no store, swap or compare-and-swap on it), and the balancer map is replaced only by the constructor and by syncEndpoints on the edge where servers were added or removed", 2)
	for _, pop := range popImpls(c) {
		adds := eng.CallsTo(pop, "sync/atomic.AddUint64")
		if len(adds) != 1 {
			continue
		}
		cursor := eng.Args(adds[0])[0]
		bad := ""
		sl := c.Slicer()
		fromLB := func(v ssa.Value) bool {
			return v == cursor || sl.DerivesFrom(v, func(x ssa.Value) bool {
				cc, _ := eng.CallResultOf(x)
				return cc != nil && eng.IsCall(cc, "(*sync.Map).LoadOrStore", "(*sync.Map).Load") && eng.FieldAddrOf(eng.Receiver(cc), tClusterInfo, "loadbalancer")
			})
		}
		for _, fn := range c.W.FuncsOf(pkgClusters) {
			for _, ci := range eng.Calls(fn) {
				if ci == adds[0] {
					continue
				}
				if eng.IsCall(ci, "sync/atomic.StoreUint64", "sync/atomic.SwapUint64", "sync/atomic.CompareAndSwapUint64", "sync/atomic.AddUint64") && fromLB(eng.Args(ci)[0]) {
					bad = shortName(eng.FullName(ci)) + " in " + eng.FuncName(fn)
				}
			}
			eng.Instrs(fn, func(ins ssa.Instruction) {
				if st, ok := ins.(*ssa.Store); ok && fromLB(st.Addr) {
					bad = "plain store in " + eng.FuncName(fn)
				}
			})
		}
		c.Check("R2", pop, "cursor advanced only by the atomic increment", adds[0].Pos(), bad == "",
			"a second writer of the cursor ("+bad+") races with concurrent pickers: e.g. a wrap-around compare-and-swap that loses the race resets the cursor at a non-multiple of k, so one endpoint is served twice per round")
	}
	for i, st := range eng.StoresToField(c.W.AllRepoFuncs(), tClusterInfo, "loadbalancer") {
		fn := st.Parent()
		ok := false
		why := "the balancer map is replaced outside the constructor and syncEndpoints: cursors restart although the ready set is unchanged (e.g. on any policy or logging update), so the same endpoint is picked twice in a row"
		switch {
		case fn.Name() == "NewEmptyClusterInfo":
			ok = true
		case fn.Name() == "syncEndpoints" && eng.TypeName(fn.Signature.Recv().Type()) == tClusterInfo:
			// unreachable when neither "added" nor "deleted" is non-empty: assume every `X.Len() > 0`
			// test false (also when named through a local or combined by ||) and cut the edges that
			// this assumption makes infeasible
			reach := eng.ReachFromEntry(fn, eng.PathQuery{
				Target: func(x ssa.Instruction) bool { return x == ssa.Instruction(st) },
				BlockEdge: func(from *ssa.BasicBlock, idx int) bool {
					iff, isIf := from.Instrs[len(from.Instrs)-1].(*ssa.If)
					if !isIf {
						return false
					}
					cond, neg := iff.Cond, false
					for {
						if u, isU := cond.(*ssa.UnOp); isU && u.Op == token.NOT {
							cond, neg = u.X, !neg
							continue
						}
						break
					}
					if !c14AssumedFalse(cond, map[ssa.Value]bool{}) {
						return false
					}
					if neg {
						return idx == 1
					}
					return idx == 0
				},
			})
			ok = reach == nil
			why = "the balancer map is replaced although no server was added or removed"
		}
		c.Check("R2", fn, fmt.Sprintf("balancer map replaced only on a server-set change#%d", i+1), st.Pos(), ok, why)
	}
}

// c14AssumedFalse: v is false under the assumption that no set is non-empty (every
// `X.Len() > 0` / `0 < X.Len()` / `X.Len() != 0` is false): such a comparison itself, the
// constant false, or a phi all of whose feasible edges carry such values (the constant-true
// edge of `a || b` comes from the true branch of `a`, infeasible under the assumption).
func c14AssumedFalse(v ssa.Value, seen map[ssa.Value]bool) bool {
	if seen[v] {
		return true
	}
	seen[v] = true
	switch x := v.(type) {
	case *ssa.Const:
		return eng.IsBoolConst(x, false)
	case *ssa.BinOp:
		isLen := func(y ssa.Value) bool {
			cc, _ := eng.CallResultOf(y)
			return cc != nil && eng.MethodNameIs(cc, "Len")
		}
		isZero := func(y ssa.Value) bool { z, ok := eng.IntConst(y); return ok && z == 0 }
		switch {
		case isLen(x.X) && isZero(x.Y):
			return x.Op == token.GTR || x.Op == token.NEQ
		case isZero(x.X) && isLen(x.Y):
			return x.Op == token.LSS || x.Op == token.NEQ
		}
	case *ssa.Phi:
		for i, e := range x.Edges {
			pred := x.Block().Preds[i]
			if iff, ok := pred.Instrs[len(pred.Instrs)-1].(*ssa.If); ok {
				cond, neg := iff.Cond, false
				for {
					if u, isU := cond.(*ssa.UnOp); isU && u.Op == token.NOT {
						cond, neg = u.X, !neg
						continue
					}
					break
				}
				if c14AssumedFalse(cond, seen) {
					infeasible := pred.Succs[0]
					if neg {
						infeasible = pred.Succs[1]
					}
					if infeasible == x.Block() && pred.Succs[0] != pred.Succs[1] {
						continue
					}
				}
			}
			if !c14AssumedFalse(e, seen) {
				return false
			}
		}
		return true
	}
	return false
}
