package rules

import (
	"fmt"
	"go/constant"
	"go/token"
	"go/types"
	"strings"

	"golang.org/x/tools/go/ssa"

	"kgv/internal/eng"
)

func init() {
	Register("C05", c05)
	RegisterFixture("C05", c05Fixtures)
}

// fcIface returns the FlowControl interface.
func fcIface(c *eng.Ctx) *types.Interface {
	i := c.W.Interface(pkgFC, "FlowControl")
	if i == nil {
		c.Fail("engine", nil, "unresolved-anchor interface "+pkgFC+".FlowControl", 0, "interface not found")
	}
	return i
}

// implementsIface reports whether t (or *t) implements iface.
func implementsIface(t types.Type, iface *types.Interface) bool {
	if iface == nil || t == nil {
		return false
	}
	if types.Implements(t, iface) {
		return true
	}
	if _, ok := t.Underlying().(*types.Pointer); !ok {
		if _, isIface := t.Underlying().(*types.Interface); !isIface {
			return types.Implements(types.NewPointer(t), iface)
		}
	}
	return false
}

// isFCCall reports whether call c invokes method `name` on a value whose static type
// implements the FlowControl interface.
func isFCCall(c ssa.CallInstruction, iface *types.Interface, name string) bool {
	if !eng.MethodNameIs(c, name) {
		return false
	}
	r := eng.Receiver(c)
	if r == nil {
		return false
	}
	return implementsIface(r.Type(), iface)
}

// c05IsSlotHolder reports whether t (or *t) has methods TryAcquire() bool and Release(): the
// shape of the bucket that counts the in-flight requests of a limiter.
func c05IsSlotHolder(t types.Type) bool {
	has := func(name string, results int) bool {
		for _, tt := range []types.Type{t, types.NewPointer(t)} {
			ms := types.NewMethodSet(tt)
			for i := 0; i < ms.Len(); i++ {
				if f, ok := ms.At(i).Obj().(*types.Func); ok && f.Name() == name {
					sig := f.Type().(*types.Signature)
					return sig.Params().Len() == 0 && sig.Results().Len() == results
				}
			}
		}
		return false
	}
	return has("TryAcquire", 1) && has("Release", 0)
}

func inFlowControlPkgs(fn *ssa.Function) bool {
	if fn.Pkg == nil {
		return false
	}
	p := fn.Pkg.Pkg.Path()
	return p == pkgFCRoot || strings.HasPrefix(p, pkgFCRoot+"/")
}

// pairingSpec parameterises the acquire/release pairing template.
type pairingSpec struct {
	isAcquire      func(c ssa.CallInstruction) bool
	isRelease      func(c ssa.CallInstruction) bool
	allowedBetween func(c ssa.CallInstruction) bool
	// wrappers: functions that perform the acquire on behalf of their callers (see
	// acquireWrapperParam) mapped to the index of the parameter holding the limiter. A call of
	// a wrapper is an acquire on the argument bound to that parameter; the acquire inside the
	// wrapper is paired at the wrapper's call sites.
	wrappers map[*ssa.Function]int
}

// acquireSite interprets call as an acquire: a direct one (receiver, result) or a call of an
// acquire wrapper (the argument bound to the limiter parameter, the wrapper's result).
func (sp pairingSpec) acquireSite(call ssa.CallInstruction) (recv, val ssa.Value, ok bool) {
	if sp.isAcquire(call) {
		return eng.Receiver(call), eng.ResultValue(call), true
	}
	if f := call.Common().StaticCallee(); f != nil {
		if k, isW := sp.wrappers[f]; isW && k < len(call.Common().Args) {
			return call.Common().Args[k], eng.ResultValue(call), true
		}
	}
	return nil, nil, false
}

// acquireWrapperParam decides whether fn is an acquire wrapper — "admit the request or answer
// it": a function with a single boolean result that acquires exactly once, from one of its
// own parameters, never releases, and reports faithfully: it returns true only when the
// acquire succeeded and false only when it did not (or was not attempted); between a
// successful acquire and the return only allow-listed calls run. It returns the index of the
// limiter parameter.
func acquireWrapperParam(fn *ssa.Function, sp pairingSpec) (int, bool) {
	if fn == nil || fn.Blocks == nil || fn.Signature.Results().Len() != 1 || len(fn.AnonFuncs) > 0 {
		return 0, false
	}
	if b, ok := fn.Signature.Results().At(0).Type().Underlying().(*types.Basic); !ok || b.Kind() != types.Bool {
		return 0, false
	}
	var acq ssa.CallInstruction
	for _, ci := range eng.Calls(fn) {
		if sp.isRelease(ci) {
			return 0, false
		}
		if sp.isAcquire(ci) {
			if acq != nil {
				return 0, false
			}
			acq = ci
		}
	}
	if acq == nil {
		return 0, false
	}
	if _, plain := acq.(*ssa.Call); !plain || eng.InLoop(acq.Block()) {
		return 0, false
	}
	k := -1
	for i, p := range fn.Params {
		if eng.Receiver(acq) == ssa.Value(p) {
			k = i
		}
	}
	val := eng.ResultValue(acq)
	if k < 0 || val == nil {
		return 0, false
	}
	isVal := func(v ssa.Value) bool { return v == val }
	faithful := true
	n := 0
	eng.Instrs(fn, func(ins ssa.Instruction) {
		r, ok := ins.(*ssa.Return)
		if !ok || r.Block() == fn.Recover {
			return
		}
		res := eng.ReturnResults(r)
		if len(res) != 1 {
			faithful = false
			return
		}
		n++
		v := res[0]
		switch {
		case v == val:
			// the acquire's own answer
		case eng.IsBoolConst(v, true):
			if !eng.GuardedByBool(r, isVal, true) {
				faithful = false
			}
		case eng.IsBoolConst(v, false):
			// this return is not reachable once the acquire was attempted
			notAttempted := eng.ReachAfter(acq.(*ssa.Call), eng.PathQuery{Target: func(i ssa.Instruction) bool { return i == ssa.Instruction(r) }}) == nil
			if !eng.GuardedByBool(r, isVal, false) && !notAttempted {
				faithful = false
			}
		default:
			faithful = false
		}
	})
	if !faithful || n == 0 {
		return 0, false
	}
	// nothing but allow-listed calls between a successful acquire and the return
	for _, br := range eng.BranchesOn(val) {
		if x := eng.ReachFromBlock(br.OnTrue, eng.PathQuery{Target: func(ins ssa.Instruction) bool {
			ci, isCall := ins.(ssa.CallInstruction)
			return isCall && !sp.allowedBetween(ci)
		}}); x != nil {
			return 0, false
		}
	}
	return k, true
}

// checkPairing is the template of C05.R1: every successful acquire in fn is followed,
// before any exit and before any call that is not allow-listed, by a deferred release on
// the same receiver value; no other release of that receiver exists; the refused branch
// never releases. It returns one (construct, ok, detail) triple per acquire site.
type pairingResult struct {
	site      ssa.CallInstruction
	construct string
	ok        bool
	detail    string
}

func checkPairing(fn *ssa.Function, sp pairingSpec) []pairingResult {
	var out []pairingResult
	n := 0
	_, selfWrapper := sp.wrappers[fn]
	for _, call := range eng.Calls(fn) {
		recv, val, isAcq := sp.acquireSite(call)
		if !isAcq {
			continue
		}
		if selfWrapper && sp.isAcquire(call) {
			continue // paired at the call sites of this wrapper
		}
		n++
		construct := fmt.Sprintf("acquire#%d", n)
		if val == nil || recv == nil {
			out = append(out, pairingResult{call, construct, false, "acquire is not a plain call with a receiver (go/defer)"})
			continue
		}
		brs := eng.BranchesOn(val)
		if len(brs) == 0 {
			out = append(out, pairingResult{call, construct, false, "result of the acquire is not branched on; success and refusal are indistinguishable"})
			continue
		}
		sameRecv := func(c ssa.CallInstruction) bool {
			return sp.isRelease(c) && c05SameValue(eng.Receiver(c), recv)
		}
		isDeferRel := func(ins ssa.Instruction) bool {
			d, ok := ins.(*ssa.Defer)
			return ok && sameRecv(d)
		}
		isAnyRel := func(ins ssa.Instruction) bool {
			ci, ok := ins.(ssa.CallInstruction)
			return ok && sameRecv(ci)
		}
		ok := true
		var why []string
		for _, br := range brs {
			if x := eng.ReachFromBlock(br.OnTrue, eng.PathQuery{Target: eng.IsExit, Avoid: isDeferRel}); x != nil {
				ok = false
				why = append(why, "an exit is reachable after a successful acquire without a deferred release on the same limiter (slot leaks on that path)")
			}
			if x := eng.ReachFromBlock(br.OnTrue, eng.PathQuery{
				Target: func(ins ssa.Instruction) bool {
					ci, isCall := ins.(ssa.CallInstruction)
					if !isCall || isDeferRel(ins) {
						return false
					}
					return !sp.allowedBetween(ci)
				},
				Avoid: isDeferRel,
			}); x != nil {
				ok = false
				why = append(why, fmt.Sprintf("call %s between the successful acquire and its deferred release (a panic or early exit there leaks the slot)", eng.FullName(x.(ssa.CallInstruction))))
			}
			if x := eng.ReachFromBlock(br.OnFalse, eng.PathQuery{Target: isAnyRel, Avoid: func(i ssa.Instruction) bool { return i == ssa.Instruction(call) }}); x != nil {
				// only a violation if the release is not also after a later successful acquire
				if !reachableOnlyThrough(br.OnTrue, x) {
					ok = false
					why = append(why, "a release is reachable on the refused branch (slot given back without being taken)")
				}
			}
		}
		// a release gives back a slot that was taken: it must be control-dependent on the acquire
		// having succeeded (a request that skipped the acquire must not release somebody else's slot)
		eng.Instrs(fn, func(ins ssa.Instruction) {
			if isAnyRel(ins) && !eng.GuardedByBool(ins, func(v ssa.Value) bool { return v == val }, true) {
				ok = false
				why = append(why, "a release of the limiter is reachable without its acquire having succeeded (e.g. a request class that skips TryAcquire still runs the deferred Release: it frees the slot of another, unfinished request)")
			}
		})
		// exactly one release per acquire: no non-deferred release, no second deferred release after one
		eng.Instrs(fn, func(ins ssa.Instruction) {
			if isAnyRel(ins) && !isDeferRel(ins) {
				ok = false
				why = append(why, "non-deferred release of the same limiter (double release, or lost on panic)")
			}
			if isDeferRel(ins) {
				if eng.ReachAfter(ins, eng.PathQuery{Target: isDeferRel}) != nil {
					ok = false
					why = append(why, "a second deferred release is reachable after the first (double release)")
				}
				if eng.InLoop(ins.Block()) {
					ok = false
					why = append(why, "deferred release inside a loop")
				}
			}
		})
		d := "successful acquire ⇒ defer release on the same value before any exit; refused ⇒ no release; exactly one release"
		if !ok {
			d = strings.Join(dedup(why), "; ")
		}
		out = append(out, pairingResult{call, construct, ok, d})
	}
	return out
}

// c05SameValue reports whether a and b denote the same value: the same SSA value, or two
// loads of one local variable that is assigned exactly once (a variable captured by a closure
// lives in a heap cell and every use is a separate load).
func c05SameValue(a, b ssa.Value) bool {
	if a == b {
		return true
	}
	ua, oka := a.(*ssa.UnOp)
	ub, okb := b.(*ssa.UnOp)
	if !oka || !okb || ua.Op != token.MUL || ub.Op != token.MUL || ua.X != ub.X {
		return false
	}
	cell, ok := ua.X.(*ssa.Alloc)
	return ok && c05AssignedOnce(cell, 0) == 1
}

// c05AssignedOnce counts the stores into the cell addr (directly or through closures that
// capture it); an address that escapes otherwise counts as many.
func c05AssignedOnce(addr ssa.Value, depth int) int {
	if addr.Referrers() == nil || depth > 4 {
		return 99
	}
	n := 0
	for _, r := range *addr.Referrers() {
		switch u := r.(type) {
		case *ssa.Store:
			if u.Addr == addr {
				n++
			} else {
				return 99 // the address itself is stored somewhere
			}
		case *ssa.UnOp, *ssa.DebugRef:
		case *ssa.MakeClosure:
			fn, _ := u.Fn.(*ssa.Function)
			for i, bd := range u.Bindings {
				if bd == addr {
					if fn == nil || i >= len(fn.FreeVars) {
						return 99
					}
					n += c05AssignedOnce(fn.FreeVars[i], depth+1)
				}
			}
		default:
			return 99
		}
	}
	return n
}

// reachableOnlyThrough reports whether target is unreachable from the entry when block via is removed.
func reachableOnlyThrough(via *ssa.BasicBlock, target ssa.Instruction) bool {
	fn := via.Parent()
	x := eng.ReachFromEntry(fn, eng.PathQuery{
		Target: func(i ssa.Instruction) bool { return i == target },
		Avoid:  func(i ssa.Instruction) bool { return i.Block() == via },
	})
	return x == nil
}

func dedup(in []string) []string {
	seen := map[string]bool{}
	var out []string
	for _, s := range in {
		if !seen[s] {
			seen[s] = true
			out = append(out, s)
		}
	}
	return out
}

// harmlessBetween lists callees allowed between a successful acquire and its deferred
// release: logging/formatting/tracing that neither returns control elsewhere nor holds slots.
func harmlessBetween(c ssa.CallInstruction) bool {
	o := eng.CalleeObj(c)
	if o == nil || o.Pkg() == nil {
		if b, ok := c.Common().Value.(*ssa.Builtin); ok {
			return b.Name() != "panic"
		}
		return false
	}
	switch o.Pkg().Path() {
	case "k8s.io/klog", "fmt", "strings", "time", mod + "/pkg/util/tracing":
		return true
	}
	// read-only accessors of the limiter itself
	if o.Pkg().Path() == pkgFC && (o.Name() == "String" || o.Name() == "Type") {
		return true
	}
	return false
}

// c05PairingSpec: the acquire/release vocabulary of the request path, including the acquire
// wrappers found outside the flow-control packages (helpers with a completely known set of
// callers, so that every acquire made through them is paired at a visible call site).
func c05PairingSpec(c *eng.Ctx, iface *types.Interface) pairingSpec {
	sp := pairingSpec{
		isAcquire:      func(ci ssa.CallInstruction) bool { return isFCCall(ci, iface, "TryAcquire") },
		isRelease:      func(ci ssa.CallInstruction) bool { return isFCCall(ci, iface, "Release") },
		allowedBetween: harmlessBetween,
		wrappers:       map[*ssa.Function]int{},
	}
	for _, fn := range c.W.AllRepoFuncs() {
		if inFlowControlPkgs(fn) || len(c.W.LiftSites(fn)) == 0 {
			continue
		}
		if k, ok := acquireWrapperParam(fn, sp); ok {
			sp.wrappers[fn] = k
		}
	}
	return sp
}

func c05(c *eng.Ctx) {
	iface := fcIface(c)
	if iface == nil {
		return
	}
	c.Rule("R1", "acquire/release pairing: in every caller of FlowControl.TryAcquire outside the flow-control packages the success edge is followed by `defer X.Release()` on the same value before any exit or non-trivial call, no other release exists, the refused edge never releases", 1)
	c.Rule("R1w", "wrapper forwarding: every Release of a delegating FlowControl wrapper calls its delegate's Release exactly once on every path; meter start is control-dependent on a successful delegate acquire and meter end runs exactly once per Release", 3)
	c.Rule("R2", "resize keeps the counter: the in-flight bucket embedded in flowControl is stored only by constructors; Resize forwards the new size to the bucket's own Resize", 2)
	c.Rule("R3", "delegate stability: a FlowControl wrapper handed to requests by UpstreamLimiter.Load/GetOrDefault never has its delegate re-stored once set (a store is allowed only on the delegate==nil edge or in a constructor)", 2)
	c.Rule("R4", "per (cluster, schema) isolation: limiter caches/limiters are constructed only at their owning sites; the single shared default limiter is exempt (unlimited); the per-schema table is keyed by the schema name verbatim", 8)
	c.Rule("R5", "limit wiring: the size given to the in-flight bucket derives from the schema's max (constructor and resize)", 3)

	c.Rule("R6", "a changed limit is always applied: in localWrapper.Sync every path from the edge 'schema type is MaxRequestsInflight' to an exit passes a Resize call (no test on the new value skips it)", 1)
	c05ResizeApplied(c, "R6", "MaxRequestsInflight")

	// ---- R1: callers outside the flow-control packages
	sp := c05PairingSpec(c, iface)
	for _, fn := range c.W.AllRepoFuncs() {
		if inFlowControlPkgs(fn) {
			continue
		}
		for _, r := range checkPairing(fn, sp) {
			c.Check("R1", fn, r.construct, r.site.Pos(), r.ok, r.detail)
		}
		// a release without an acquire in the same function, outside the flow-control packages
		acq := false
		for _, ci := range eng.Calls(fn) {
			if _, _, isAcq := sp.acquireSite(ci); isAcq {
				acq = true
			}
		}
		if !acq {
			for _, ci := range eng.Calls(fn) {
				if sp.isRelease(ci) {
					c.Fail("R1", fn, "release-without-acquire", ci.Pos(), "Release on a FlowControl in a function that never acquires from it")
				}
			}
		}
	}

	// ---- R1w: wrappers
	for _, named := range c.W.Implementers(iface) {
		if named.Obj().Pkg() == nil || !strings.HasPrefix(named.Obj().Pkg().Path(), pkgFCRoot) {
			continue
		}
		st, ok := named.Underlying().(*types.Struct)
		if !ok {
			continue
		}
		// delegate fields: fields whose type is an interface implementing FlowControl
		var delegates []string
		buckets := map[string]bool{}
		for i := 0; i < st.NumFields(); i++ {
			ft := st.Field(i).Type()
			if _, isI := ft.Underlying().(*types.Interface); isI && implementsIface(ft, iface) {
				delegates = append(delegates, st.Field(i).Name())
			} else if c05IsSlotHolder(ft) {
				// the bucket that holds the slots (embedded or named field with TryAcquire() bool and
				// Release()): a limiter that declares its own Release instead of promoting the
				// bucket's is a wrapper of that bucket and owes it every release (seeded C05-7)
				delegates = append(delegates, st.Field(i).Name())
				buckets[st.Field(i).Name()] = true
			}
		}
		if len(delegates) == 0 {
			continue
		}
		tn := eng.TypeName(named)
		rel := c.W.DeclaredMethod(named, "Release")
		if rel != nil && rel.Blocks != nil {
			isDelegRel := func(ins ssa.Instruction) bool {
				ci, ok := ins.(ssa.CallInstruction)
				if !ok || !eng.MethodNameIs(ci, "Release") {
					return false
				}
				r := eng.Receiver(ci)
				for _, d := range delegates {
					if eng.FieldLoadOf(r, tn, d) && (buckets[d] || isFCCall(ci, iface, "Release")) {
						return true
					}
				}
				return false
			}
			ok := true
			detail := "delegate Release on every path, exactly once"
			// the delegate call may sit in a helper of Release: a call of a helper that always
			// releases counts as the release, a call of one that may release counts as a second one
			alwaysRel, mayRel := eng.LiftMust(isDelegRel), eng.LiftMay(isDelegRel)
			if x := eng.ReachFromEntry(rel, eng.PathQuery{Target: eng.IsExit, Avoid: alwaysRel}); x != nil {
				ok = false
				detail = "a path through Release returns without releasing the delegate (slot leaks)"
			}
			eng.Instrs(rel, func(ins ssa.Instruction) {
				if mayRel(ins) && eng.ReachAfter(ins, eng.PathQuery{Target: mayRel}) != nil {
					ok = false
					detail = "delegate released twice on a path"
				}
			})
			c.Check("R1w", rel, "delegate-release", rel.Pos(), ok, detail)
		}
		// meter bookkeeping
		hasMeter := false
		for i := 0; i < st.NumFields(); i++ {
			if eng.TypeName(st.Field(i).Type()) == pkgFCUtil+".Meter" {
				hasMeter = true
			}
		}
		if hasMeter {
			try := c.W.DeclaredMethod(named, "TryAcquire")
			if try != nil && try.Blocks != nil {
				var startCalls []ssa.CallInstruction
				for _, f := range c.W.Region(try) {
					if f == try || c.W.OwnedBy(f, try) {
						startCalls = append(startCalls, eng.CallsTo(f, "(*"+pkgFCUtil+".Meter).StartOne")...)
					}
				}
				for _, ci := range startCalls {
					sl := c.Slicer().WithUp()
					ok := eng.GuardedBy(ci, func(r eng.Rel) bool {
						if !eng.IsBoolConst(r.Y, true) && !eng.IsBoolConst(r.Y, false) {
							return false
						}
						want := eng.IsBoolConst(r.Y, true) == (r.Op.String() == "==")
						if !want {
							return false
						}
						return sl.DerivesFrom(r.X, func(v ssa.Value) bool {
							cc, _ := eng.CallResultOf(v)
							return cc != nil && isFCCall(cc, iface, "TryAcquire")
						})
					})
					c.Check("R1w", try, "meter-start-on-success", ci.Pos(), ok, "Meter.StartOne must be control-dependent on the delegate's TryAcquire returning true")
				}
			}
			if rel != nil && rel.Blocks != nil {
				starts := 0
				if try != nil {
					for _, f := range c.W.Region(try) {
						starts += len(eng.CallsTo(f, "(*"+pkgFCUtil+".Meter).StartOne"))
					}
				}
				if starts > 0 {
					isEnd0 := func(ins ssa.Instruction) bool { return eng.IsCall(ins, "(*"+pkgFCUtil+".Meter).EndOne") }
					alwaysEnd, mayEnd := eng.LiftMust(isEnd0), eng.LiftMay(isEnd0)
					ok := eng.ReachFromEntry(rel, eng.PathQuery{Target: eng.IsExit, Avoid: alwaysEnd}) == nil
					eng.Instrs(rel, func(e ssa.Instruction) {
						if mayEnd(e) && eng.ReachAfter(e, eng.PathQuery{Target: mayEnd}) != nil {
							ok = false
						}
					})
					c.Check("R1w", rel, "meter-end-once", rel.Pos(), ok, "Meter.EndOne must run exactly once on every path of Release (in-flight gauge feeds the global limiter)")
				}
			}
		}
	}

	// ---- R2 / R5: flowControl bucket
	if fcT := c.W.Named(pkgFC, "flowControl"); fcT == nil {
		c.Fail("engine", nil, "unresolved-anchor type flowControl", 0, "type not found")
	} else {
		tn := eng.TypeName(fcT)
		ctor := c.MustFunc(pkgFC, "NewFlowControl")
		stores := eng.StoresToField(c.W.AllRepoFuncs(), tn, "TokenBucket")
		for _, st := range stores {
			fn := st.Parent()
			// the constructor, or a helper that runs only as part of it (every call site of the
			// helper lies in the constructor): such a store initialises a new limiter
			ok := c.W.OwnedBy(fn, ctor) || (fn.Parent() == nil && fn.Name() == "init")
			at := fn
			if ok && fn != ctor && c.W.OwnedBy(fn, ctor) {
				at = ctor // report against the anchor, wherever the constructor's body was spread
			}
			c.Check("R2", at, "store flowControl.TokenBucket", st.Pos(), ok, "the in-flight bucket may be stored only by the constructor; replacing it elsewhere forgets in-flight requests")
		}
		if len(stores) == 0 {
			c.Fail("R2", ctor, "store flowControl.TokenBucket", 0, "no store of the bucket found")
		}
		if rs := c.MustMethod(pkgFC, "flowControl", "Resize"); rs != nil {
			found := false
			// the requested size: the parameter n of Resize, also after it was handed down to a helper
			isN := func(v ssa.Value) bool { return c.W.ResolveUp(v) == ssa.Value(rs.Params[1]) }
			region := c.W.Region(rs)
			for _, fn := range region {
				for _, ci := range eng.Calls(fn) {
					if eng.MethodNameIs(ci, "Resize") && eng.FieldLoadOf(eng.Receiver(ci), tn, "TokenBucket") {
						found = true
						a := eng.Args(ci)
						ok := len(a) == 1 && isN(a[0])
						c.Check("R5", rs, "bucket.Resize(n)", ci.Pos(), ok, "the bucket is resized to the requested size n (parameter), in place")
						// guard, if any, must be  max != n
						gs, complete := c.W.GuardsUp(ci.(ssa.Instruction), rs)
						gok := complete
						for _, g := range gs {
							r := g.Rel()
							isMaxVsN := (eng.FieldLoadOf(r.X, tn, "max") && isN(r.Y)) || (eng.FieldLoadOf(r.Y, tn, "max") && isN(r.X))
							if !(isMaxVsN && r.Op.String() == "!=") {
								gok = false
							}
						}
						c.Check("R2", rs, "resize-guard", ci.Pos(), gok, "the in-place resize may be skipped only when the recorded size already equals n")
					}
				}
			}
			if !found {
				c.Fail("R2", rs, "bucket.Resize(n)", rs.Pos(), "flowControl.Resize does not resize the embedded bucket in place")
			}
			// max recorded = n whenever resized
			for _, st := range eng.StoresToField(region, tn, "max") {
				c.Check("R5", rs, "store max", st.Pos(), isN(st.Val), "recorded size equals the requested size")
			}
		}
		if ctor != nil {
			// maxinflight.New(arg): arg derives from schema.MaxRequestsInflight.Max. The call may
			// sit in a helper of the constructor; the size may reach it through the helper's parameters.
			for _, fn := range c.W.Region(ctor) {
				for _, ci := range eng.CallsTo(fn, "github.com/zoumo/golib/lock/maxinflight.New") {
					a := eng.Args(ci)
					ok := len(a) == 1 && c.Slicer().WithUp().DerivesFrom(a[0], func(v ssa.Value) bool {
						return eng.FieldLoadOf(v, pkgV1alpha1+".MaxRequestsInflightFlowControlSchema", "Max")
					})
					c.Check("R5", ctor, "maxinflight.New(schema max)", ci.Pos(), ok, "bucket size derives from schema.MaxRequestsInflight.Max")
				}
			}
		}
	}

	// ---- R3: delegate stability of wrappers handed out by Load/GetOrDefault
	c05DelegateStability(c, iface)

	// ---- R3b: a type change of a schema creates a new cache (the old wrapper is never re-typed)
	c.Rule("R3b", "a schema whose type changed gets a new limiter cache, and only such a schema does: in syncLocalFlowControls, when a cache is registered under the schema's name, LocalFlowControl().Sync is called on a cache created by NewFlowControlCache if the registered cache's type differs from the new schema's type, and on the registered cache itself (no new cache is created) if the types are equal", 2)
	c05TypeChangeNewCache(c, "R3b")

	// ---- R4: ownership of constructors
	type own struct {
		callee  string
		allowed map[string]bool
		why     string
	}
	owners := []own{
		{pkgFCRemote + ".NewFlowControlCache", map[string]bool{"(*pkg/flowcontrols.upstreamLimiter).syncLocalFlowControls": true}, "one cache per (cluster, schema name), created by the cluster's own limiter"},
		{pkgFCRoot + ".NewUpstreamLimiter", map[string]bool{"pkg/clusters.NewEmptyClusterInfo": true}, "one limiter per cluster"},
		{pkgFC + ".NewFlowControl", map[string]bool{"(*pkg/flowcontrols/remote.flowControlCache).newMeterFlowControl": true, "pkg/flowcontrols/flowcontrol.init": true}, "limiters are built per cache; the package-level default is the only shared one"},
	}
	// The owner of a construction site is primarily the function named above (or a helper that
	// runs only as part of it). A refactoring may rename that function, turn a method into a
	// function taking the fields it needs, or merge it into its caller; the site is then judged
	// by the role of the code it sits in (c05OwnerRole): it must still run on behalf of exactly
	// one owning object and must not publish the new object in a package variable.
	role := c05OwnerRoles(c)
	for _, o := range owners {
		n := 0
		var allowedFns []*ssa.Function
		for _, fn := range c.W.AllRepoFuncs() {
			if o.allowed[eng.FuncName(fn)] {
				allowedFns = append(allowedFns, fn)
			}
		}
		for _, fn := range c.W.AllRepoFuncs() {
			for _, ci := range eng.CallsTo(fn, o.callee) {
				n++
				// the owning function itself, or a helper that runs only as part of it
				at := fn
				ok := o.allowed[eng.FuncName(fn)]
				if !ok {
					for _, a := range allowedFns {
						if c.W.OwnedBy(fn, a) {
							ok, at = true, a
						}
					}
				}
				if !ok {
					ok = role[o.callee] != nil && role[o.callee](ci)
				} else if !(fn.Name() == "init" && fn.Parent() == nil) && !c05NotPublished(c, ci) {
					// an owner by name must not publish the new object in a package variable either
					ok = false
				}
				c.Check("R4", at, "call "+shortName(o.callee), ci.Pos(), ok, o.why+"; unexpected construction site")
			}
		}
		if n == 0 {
			c.Fail("R4", nil, "call "+shortName(o.callee), 0, "no construction site found")
		}
	}
	// cache stored under the schema's own name: wherever a cache is created (the limiter's sync
	// or a helper its body was spread over), the function that creates it stores it in the
	// limiter table under the very name it was created for
	{
		sl := limiterSyncAnchor(c)
		for _, fn := range c.W.AllRepoFuncs() {
			for _, ci := range eng.CallsTo(fn, pkgFCRemote+".NewFlowControlCache") {
				// find Store(name, fc) with fc deriving from this call and name == arg1 of the constructor
				okStore := false
				for _, g := range c.W.Region(fn) {
					for _, st := range eng.CallsTo(g, "(*"+pkgFCRemote+".FlowControlMap).Store") {
						a := eng.Args(st)
						if len(a) == 2 && c.Slicer().WithUp().DerivesFrom(a[1], func(v ssa.Value) bool { return v == eng.ResultValue(ci) }) {
							ca := eng.Args(ci)
							if len(ca) >= 2 && (sameLoad(a[0], ca[1]) || sameLoad(c.W.ResolveUp(a[0]), ca[1])) {
								okStore = true
							}
						}
					}
				}
				at := fn
				if sl != nil && fn != sl && c.W.OwnedBy(fn, sl) {
					at = sl
				}
				c.Check("R4", at, "cache stored under its schema name", ci.Pos(), okStore, "the new cache must be stored under the same name it was created for")
			}
		}
	}
	checkSchemaTableKeys(c, "R4")
	// the shared default limiter is exempt: the limiter built by the package initialiser (or by a
	// helper that runs only as part of it) is built from a literal with Exempt set and no limit member
	if ini := c.W.Func(pkgFC, "init"); ini != nil {
		for _, fn := range c.W.AllRepoFuncs() {
			if fn != ini && !c.W.OwnedBy(fn, ini) {
				continue
			}
			for _, ci := range eng.CallsTo(fn, pkgFC+".NewFlowControl") {
				a := eng.Args(ci)
				ok := false
				if len(a) == 1 {
					// the literal passed has Exempt set and no limit member
					exempt, limited := false, false
					eng.Instrs(fn, func(ins ssa.Instruction) {
						st, isSt := ins.(*ssa.Store)
						if !isSt {
							return
						}
						if eng.FieldAddrOf(st.Addr, pkgV1alpha1+".FlowControlSchemaConfiguration", "Exempt") && !eng.IsNilConst(st.Val) {
							exempt = true
						}
						for _, f := range []string{"MaxRequestsInflight", "TokenBucket", "GlobalMaxRequestsInflight", "GlobalTokenBucket"} {
							if eng.FieldAddrOf(st.Addr, pkgV1alpha1+".FlowControlSchemaConfiguration", f) && !eng.IsNilConst(st.Val) {
								limited = true
							}
						}
					})
					ok = exempt && !limited
				}
				c.Check("R4", ini, "shared default limiter is exempt", ci.Pos(), ok, "the only limiter shared by all clusters must be unlimited, otherwise one cluster's load rejects another's requests")
			}
		}
	}
}

// c05TypeChangeNewCache (C05.R3b; may be registered under another property with its own rule
// id, declared by the caller with c.Rule): a schema whose type changed gets a new limiter cache,
// and only such a schema does. Two obligations: "type-change ⇒ new cache" and "same type ⇒
// registered cache kept".
func c05TypeChangeNewCache(c *eng.Ctx, rule string) {
	if sl := limiterSyncAnchor(c); sl != nil {
		guess := pkgFC + ".GuessFlowControlSchemaType"
		// Decided by forcing (path enumeration over syncLocalFlowControls and the same-package
		// helpers its body may have been spread over): a cache IS registered under the schema's
		// name (Load answers found); the type of the registered cache's configuration and the type
		// of the new schema are pinned — to two different types, then to the same type. The two
		// caches are told apart by tags carried by the abstract values, so it does not matter where
		// the comparison, the creation and the Sync call sit, how the condition is written, or
		// whether the cache reaches Sync through a variable, a phi or a helper result.
		sl2 := c.Slicer().WithArgs().WithUp()
		fromLoaded := func(v ssa.Value) bool {
			return sl2.DerivesFrom(v, func(x ssa.Value) bool {
				cc, _ := eng.CallResultOf(x)
				return cc != nil && eng.IsCall(cc, "(*"+pkgFCRemote+".FlowControlMap).Load")
			})
		}
		tagLoaded, tagNew := constant.MakeString("loaded cache"), constant.MakeString("new cache")
		isTag := func(av eng.AV, tag constant.Value) bool {
			return av.K == eng.NonNilV && av.C != nil && av.C.Kind() == constant.String && constant.Compare(av.C, token.EQL, tag)
		}
		type outcome struct {
			onNew, onLoaded, onUnknown, created, guessLoaded, guessNew int
			at                                                         token.Pos
			err                                                        error
		}
		forceT := func(loadedType, newType string) outcome {
			sameType := loadedType == newType
			var o outcome
			in := &eng.Interp{W: c.W, Depth: eng.LiftDepth, FollowCall: func(callee *ssa.Function) bool { return callee.Pkg == sl.Pkg }}
			in.PinCall = func(cc *ssa.Call, idx int, st *eng.State) (eng.AV, bool) {
				switch {
				case eng.IsCall(cc, "(*"+pkgFCRemote+".FlowControlMap).Load"):
					switch idx {
					case 0:
						return eng.AV{K: eng.NonNilV, C: tagLoaded}, true
					case 1:
						return eng.AVBool(true), true
					}
				case eng.IsCall(cc, pkgFCRemote+".NewFlowControlCache"):
					if idx < 0 {
						o.created++
						if sameType {
							o.at = cc.Pos()
						}
					}
					return eng.AV{K: eng.NonNilV, C: tagNew}, true
				case eng.IsCall(cc, guess) && len(eng.Args(cc)) == 1:
					if fromLoaded(eng.Args(cc)[0]) {
						o.guessLoaded++
						return eng.AV{K: eng.ConstV, C: constant.MakeString(loadedType)}, true
					}
					o.guessNew++
					return eng.AV{K: eng.ConstV, C: constant.MakeString(newType)}, true
				case eng.IsCall(cc, "("+tFCCache+").LocalFlowControl"):
					// the wrapper carries the tag of its cache
					return eng.AV{K: eng.NonNilV, C: in.Eval(eng.Receiver(cc), st).C}, true
				case idx < 0 && eng.IsCall(cc, "("+pkgFCRemote+".LocalFlowControlWrapper).Sync"):
					recv := in.Eval(eng.Receiver(cc), st)
					switch {
					case isTag(recv, tagNew):
						o.onNew++
						if sameType {
							o.at = cc.Pos()
						}
					case isTag(recv, tagLoaded):
						o.onLoaded++
						if !sameType {
							o.at = cc.Pos()
						}
					default:
						o.onUnknown++
						o.at = cc.Pos()
					}
				}
				return eng.AV{}, false
			}
			_, o.err = in.Run(sl, nil)
			if !o.at.IsValid() {
				o.at = sl.Pos()
			}
			return o
		}
		// every ordered pair of distinct schema types is forced (a rule that keeps the cache unless a
		// max-in-flight limiter is involved passes (MaxRequestsInflight, TokenBucket) and fails
		// (Exempt, TokenBucket)); the first failing pair decides the obligation
		kinds := []string{"MaxRequestsInflight", "TokenBucket", "Exempt"}
		force := func(same bool) outcome {
			if same {
				return forceT(kinds[0], kinds[0])
			}
			var first outcome
			for i, a := range kinds {
				for j, b := range kinds {
					if i == j {
						continue
					}
					o := forceT(a, b)
					if i == 0 && j == 1 {
						first = o
					}
					if o.err != nil || o.guessLoaded == 0 || o.guessNew == 0 || o.onUnknown > 0 || !(o.onLoaded == 0 && o.onNew > 0) {
						return o
					}
				}
			}
			return first
		}
		for _, same := range []bool{false, true} {
			construct := "type-change ⇒ new cache"
			if same {
				construct = "same type ⇒ registered cache kept"
			}
			o := force(same)
			switch {
			case o.err != nil:
				c.Undecided(rule, sl, construct, sl.Pos(), "path enumeration of syncLocalFlowControls failed: "+o.err.Error())
			case o.guessLoaded == 0 || o.guessNew == 0:
				c.Fail(rule, sl, construct, sl.Pos(), "no comparison of the loaded cache's type with the new schema's type: a type change re-uses the old wrapper (its limiter is either replaced under in-flight holders or resized as the wrong kind)")
			case o.onUnknown > 0:
				c.Undecided(rule, sl, construct, o.at, "the cache whose local limiter is synced could not be traced to FlowControlMap.Load or NewFlowControlCache")
			case !same:
				c.Check(rule, sl, construct, o.at, o.onLoaded == 0 && o.onNew > 0, "when the registered cache's type differs from the new schema's type, Sync must be called on a cache created by NewFlowControlCache, never on the loaded one (its limiter is either replaced under in-flight holders or resized as the wrong kind)")
			default:
				c.Check(rule, sl, construct, o.at, o.onNew == 0 && o.created == 0 && o.onLoaded > 0, "when the registered cache has the type of the new schema it must be kept and resized in place: a new cache starts with an empty in-flight count while the requests admitted by the old one are still unfinished, so more than the limit are in flight (e.g. re-creation when only the strategy or the size changed)")
			}
		}
	}
}

// c05NotPublished reports whether the object created by call ci is not stored into a package
// variable (directly, into a field of one, or as an entry of a package-level map) by the function
// that creates it: such an object would be shared by all owners.
func c05NotPublished(c *eng.Ctx, ci ssa.CallInstruction) bool {
	res := eng.ResultValue(ci)
	if res == nil {
		return false
	}
	ok := true
	sl := c.Slicer()
	for _, f := range eng.WithClosures(c06Outermost(ci.Parent())) {
		eng.Instrs(f, func(ins ssa.Instruction) {
			if mu, isMU := ins.(*ssa.MapUpdate); isMU {
				// an entry of a package-level map
				inGlobal := sl.DerivesFrom(mu.Map, func(v ssa.Value) bool { _, isG := v.(*ssa.Global); return isG })
				if inGlobal && sl.DerivesFrom(mu.Value, func(v ssa.Value) bool { return v == res }) {
					ok = false
				}
				return
			}
			st, isSt := ins.(*ssa.Store)
			if !isSt {
				return
			}
			root, _ := eng.AccessPath(st.Addr)
			if _, isG := root.(*ssa.Global); !isG {
				if _, isG2 := st.Addr.(*ssa.Global); !isG2 {
					return
				}
			}
			if sl.DerivesFrom(st.Val, func(v ssa.Value) bool { return v == res }) {
				ok = false
			}
		})
	}
	return ok
}

// c05OwnerRoles gives, per constructor, the role-based test of a construction site that is not
// (in) the function known by name. The roles are stated over types and data flow, never over
// function names:
//
//   - NewFlowControl: the site runs on behalf of one limiter cache — it sits in a method of a
//     type implementing FlowControlCache, or of a type holding a pointer to such a cache (the
//     wrappers), or in a helper / function literal every call site of which does; and the new
//     limiter is not stored in a package variable.
//   - NewFlowControlCache: the site sits in a method of a type implementing UpstreamLimiter (or
//     a helper owned by such methods), i.e. in the cluster's own limiter.
//   - NewUpstreamLimiter: the new limiter becomes the flowcontrol field of a ClusterInfo that the
//     same function allocates (a constructor of ClusterInfo).
func c05OwnerRoles(c *eng.Ctx) map[string]func(ci ssa.CallInstruction) bool {
	methodsOf := func(isOwner func(t types.Type) bool) []*ssa.Function {
		var out []*ssa.Function
		for _, fn := range c.W.AllRepoFuncs() {
			if fn.Parent() != nil || fn.Signature.Recv() == nil {
				continue
			}
			t := fn.Signature.Recv().Type()
			if p, ok := t.Underlying().(*types.Pointer); ok {
				t = p.Elem()
			}
			if isOwner(t) {
				out = append(out, fn)
			}
		}
		return out
	}
	ownedByMethods := func(fn *ssa.Function, roots []*ssa.Function) bool {
		return len(roots) > 0 && c.W.OwnedBy(fn, roots...)
	}
	noGlobalStore := func(ci ssa.CallInstruction) bool { return c05NotPublished(c, ci) }
	roles := map[string]func(ci ssa.CallInstruction) bool{}

	cacheI := c.W.Interface(pkgFCRemote, "FlowControlCache")
	isCache := func(t types.Type) bool {
		_, isNamed := t.(*types.Named)
		return isNamed && cacheI != nil && implementsIface(t, cacheI)
	}
	holdsCache := func(t types.Type) bool {
		if isCache(t) {
			return true
		}
		st, ok := t.Underlying().(*types.Struct)
		if !ok {
			return false
		}
		for i := 0; i < st.NumFields(); i++ {
			ft := st.Field(i).Type()
			if p, isP := ft.Underlying().(*types.Pointer); isP && isCache(p.Elem()) {
				return true
			}
		}
		return false
	}
	perCache := methodsOf(holdsCache)
	roles[pkgFC+".NewFlowControl"] = func(ci ssa.CallInstruction) bool {
		return ownedByMethods(ci.Parent(), perCache) && noGlobalStore(ci)
	}

	limI := c.W.Interface(pkgFCRoot, "UpstreamLimiter")
	perLimiter := methodsOf(func(t types.Type) bool {
		_, isNamed := t.(*types.Named)
		return isNamed && limI != nil && implementsIface(t, limI)
	})
	roles[pkgFCRemote+".NewFlowControlCache"] = func(ci ssa.CallInstruction) bool {
		return ownedByMethods(ci.Parent(), perLimiter) && noGlobalStore(ci)
	}

	roles[pkgFCRoot+".NewUpstreamLimiter"] = func(ci ssa.CallInstruction) bool {
		res := eng.ResultValue(ci)
		if res == nil || !noGlobalStore(ci) {
			return false
		}
		sl := c.Slicer()
		found := false
		for _, st := range eng.StoresToField(eng.WithClosures(c06Outermost(ci.Parent())), tClusterInfo, "flowcontrol") {
			fa, _ := st.Addr.(*ssa.FieldAddr)
			if fa == nil || !sl.DerivesFrom(st.Val, func(v ssa.Value) bool { return v == res }) {
				continue
			}
			// the ClusterInfo is allocated by this very function
			if sl.DerivesFrom(fa.X, func(v ssa.Value) bool {
				al, isAl := v.(*ssa.Alloc)
				return isAl && al.Parent() == st.Parent() && eng.TypeName(al.Type().Underlying().(*types.Pointer).Elem()) == tClusterInfo
			}) {
				found = true
			}
		}
		return found
	}
	return roles
}

// checkSchemaTableKeys: the per-schema limiter table (FlowControlMap) is keyed by the schema
// name verbatim, so two schemas never share a limiter. Shared by C05 (isolation) and C06.
func checkSchemaTableKeys(c *eng.Ctx, rule string) {
	if fm := c.W.Named(pkgFCRemote, "FlowControlMap"); fm != nil {
		n := 0
		for _, mn := range []string{"Load", "Store", "Delete"} {
			m := c.W.DeclaredMethod(fm, mn)
			if m == nil || m.Blocks == nil {
				continue
			}
			for _, ci := range eng.Calls(m) {
				if eng.RecvTypeName(ci) != "sync.Map" || len(eng.Args(ci)) == 0 {
					continue
				}
				n++
				key := eng.Args(ci)[0]
				if mi, isMI := key.(*ssa.MakeInterface); isMI {
					key = mi.X
				}
				c.Check(rule, m, "schema table keyed by the name verbatim ("+mn+"→"+eng.CalleeObj(ci).Name()+")", ci.Pos(), key == ssa.Value(m.Params[1]),
					"the key of the per-schema limiter table must be the schema name itself; a transformed key (lower-casing, trimming) lets two distinct schema names share one limiter, so exhausting or resizing one affects the other")
			}
		}
		if n < 3 {
			c.Fail(rule, nil, "schema table keyed by the name verbatim", 0, "FlowControlMap accessors not found")
		}
	}
}

func shortName(s string) string {
	return strings.TrimPrefix(strings.ReplaceAll(s, mod+"/", ""), "*")
}

// sameLoad reports whether two values are the same SSA value or loads/field reads of the
// same access path.
func sameLoad(a, b ssa.Value) bool {
	if a == b {
		return true
	}
	ra, pa := eng.AccessPath(a)
	rb, pb := eng.AccessPath(b)
	if ra != rb || len(pa) != len(pb) {
		return false
	}
	if len(pa) == 0 {
		// two loads of the same cell (captured variable, global, local)
		ua, oka := a.(*ssa.UnOp)
		ub, okb := b.(*ssa.UnOp)
		if !oka || !okb || ua.X != ub.X {
			return false
		}
		switch ra.(type) {
		case *ssa.FreeVar, *ssa.Global, *ssa.Alloc:
			return true
		}
		return false
	}
	for i := range pa {
		if pa[i] != pb[i] {
			return false
		}
	}
	return true
}

// c05DelegateStability implements R3.
func c05DelegateStability(c *eng.Ctx, iface *types.Interface) {
	// wrappers handed to requests: result types reachable from UpstreamLimiter.Load:
	// LocalFlowControlWrapper and RemoteFlowControlWrapper implementers in pkg/flowcontrols/remote.
	for _, ifn := range []string{"LocalFlowControlWrapper", "RemoteFlowControlWrapper"} {
		wi := c.W.Interface(pkgFCRemote, ifn)
		if wi == nil {
			c.Fail("engine", nil, "unresolved-anchor interface "+ifn, 0, "not found")
			continue
		}
		for _, named := range c.W.Implementers(wi) {
			st, ok := named.Underlying().(*types.Struct)
			if !ok {
				continue
			}
			tn := eng.TypeName(named)
			for i := 0; i < st.NumFields(); i++ {
				f := st.Field(i)
				if _, isI := f.Type().Underlying().(*types.Interface); !isI || !implementsIface(f.Type(), iface) {
					continue
				}
				stores := eng.StoresToField(c.W.AllRepoFuncs(), tn, f.Name())
				if len(stores) == 0 {
					c.Pass("R3", nil, "delegate "+shortName(tn)+"."+f.Name()+" never stored after construction", 0, "")
					continue
				}
				for k, s := range stores {
					fn := s.Parent()
					// allowed: store control-dependent on delegate == nil only (not a disjunction with other conditions)
					ok := eng.GuardedByNil(s, func(v ssa.Value) bool { return eng.FieldLoadOf(v, tn, f.Name()) }, true)
					if !ok {
						// `if d == nil { d = new() }` written as `d = orNew(d)`: the store is unconditional
						// but every value it can store is the current delegate itself, or a new one
						// produced only where the current delegate is known to be nil
						ok = c05KeepsDelegate(c, s.Val, nil, tn, f.Name(), eng.LiftDepth, map[ssa.Value]bool{})
					}
					c.Check("R3", fn, fmt.Sprintf("store %s.%s#%d", shortName(tn), f.Name(), k+1), s.Pos(), ok,
						"the delegate of a wrapper that in-flight requests hold is replaced (allowed only while it is nil): a request that acquired from the old delegate releases on the new one, so the new limiter admits more than its limit")
				}
			}
		}
	}
}

// c05KeepsDelegate: v — the value stored into delegate field tn.field — is, in every
// alternative, the current delegate (a load of that field, possibly handed to a helper as an
// argument) or a value chosen only under the condition "the current delegate is nil" (the
// guards of the phi edge / of the helper's return statement that yields it).
func c05KeepsDelegate(c *eng.Ctx, v ssa.Value, fr *callBind, tn, field string, depth int, busy map[ssa.Value]bool) bool {
	var isNilFact *boolFact
	isCurrent := func(x ssa.Value, fr *callBind) bool {
		x, _ = isNilFact.resolve(x, fr)
		if mi, ok := x.(*ssa.MakeInterface); ok {
			x = mi.X
		}
		return eng.FieldLoadOf(x, tn, field)
	}
	isNilFact = &boolFact{w: c.W, atom: func(r eng.Rel, fr *callBind) bool {
		if r.Op != token.EQL {
			return false
		}
		return (eng.IsNilConst(r.Y) && isCurrent(r.X, fr)) || (eng.IsNilConst(r.X) && isCurrent(r.Y, fr))
	}}
	if isCurrent(v, fr) {
		return true
	}
	if depth <= 0 || busy[v] {
		return false
	}
	busy[v] = true
	defer delete(busy, v)
	seen := map[ssa.Value]bool{}
	switch n := v.(type) {
	case *ssa.Parameter:
		if a, up, bound := fr.arg(n); bound {
			return c05KeepsDelegate(c, a, up, tn, field, depth, busy)
		}
		if r := c.W.ResolveUp(v); r != v {
			return c05KeepsDelegate(c, r, nil, tn, field, depth, busy)
		}
	case *ssa.Phi:
		for i, e := range n.Edges {
			if c05KeepsDelegate(c, e, fr, tn, field, depth-1, busy) {
				continue
			}
			if !isNilFact.anyGuard(factEdgeGuards(n.Block(), i), fr, seen, eng.LiftDepth) {
				return false
			}
		}
		return true
	case *ssa.ChangeInterface:
		return c05KeepsDelegate(c, n.X, fr, tn, field, depth, busy)
	}
	if alts := eng.ResultAlts(v); len(alts) > 0 {
		for _, alt := range alts {
			nf := &callBind{call: alt.Call, parent: fr}
			if c05KeepsDelegate(c, alt.Val, nf, tn, field, depth-1, busy) {
				continue
			}
			if !isNilFact.anyGuard(eng.GuardsOf(alt.Ret), nf, seen, eng.LiftDepth) {
				return false
			}
		}
		return true
	}
	return false
}

// ---------------------------------------------------------------------------------------

const c05FxSrc = `package fx
type L struct{}
func (*L) TryAcquire() bool { return true }
func (*L) Release() {}
func work() {}
func logf() {}

func good(l *L) {
	if !l.TryAcquire() { return }
	defer l.Release()
	work()
}
func goodSwitch(l *L) {
	ok := l.TryAcquire()
	switch {
	case !ok:
		return
	}
	logf()
	defer l.Release()
	work()
}
func badLeak(l *L, c bool) {
	if !l.TryAcquire() { return }
	if c { return }
	defer l.Release()
	work()
}
func badNoDefer(l *L) {
	if !l.TryAcquire() { return }
	work()
	l.Release()
}
func badDouble(l *L) {
	if !l.TryAcquire() { return }
	defer l.Release()
	defer l.Release()
	work()
}
func badRefusedRelease(l *L) {
	if !l.TryAcquire() { l.Release(); return }
	defer l.Release()
}
func badOther(l, m *L) {
	if !l.TryAcquire() { return }
	defer m.Release()
}
func badSkipAcquire(l *L, long bool) {
	if !long && !l.TryAcquire() { return }
	defer l.Release()
	work()
}
func badWorkBefore(l *L) {
	if !l.TryAcquire() { return }
	work()
	defer l.Release()
}
func admit(l *L) bool {
	if l.TryAcquire() { return true }
	work()
	return false
}
func goodWrapped(l *L) {
	if !admit(l) { return }
	defer l.Release()
	work()
}
func admitFlag(l *L, off bool) bool {
	if off { return false }
	ok := l.TryAcquire()
	if !ok { work() }
	return ok
}
func goodWrappedFlag(l *L, off bool) {
	admitted := admitFlag(l, off)
	if !admitted { return }
	defer l.Release()
	work()
}
func badWrappedLeak(l *L, c bool) {
	if !admit(l) { return }
	if c { return }
	defer l.Release()
}
func admitUnasked(l *L, c bool) bool {
	if c { return true }
	return l.TryAcquire()
}
func badWrappedUnasked(l *L, c bool) {
	if !admitUnasked(l, c) { return }
	defer l.Release()
}
func admitLeaky(l *L, c bool) bool {
	if !l.TryAcquire() { return false }
	if c { return false }
	return true
}
func badWrappedLeaky(l *L, c bool) {
	if !admitLeaky(l, c) { return }
	defer l.Release()
}
func admitWork(l *L) bool {
	if !l.TryAcquire() { return false }
	work()
	return true
}
func badWrappedWork(l *L) {
	if !admitWork(l) { return }
	defer l.Release()
}
`

func c05Fixtures(c *eng.Ctx) {
	p, _, err := eng.BuildFixture(c05FxSrc)
	if err != nil {
		c.Fixture("C05.pairing/build", "ok", err.Error())
		return
	}
	sp := pairingSpec{
		isAcquire: func(ci ssa.CallInstruction) bool { return eng.IsCall(ci, "(*fx.L).TryAcquire") },
		isRelease: func(ci ssa.CallInstruction) bool { return eng.IsCall(ci, "(*fx.L).Release") },
		allowedBetween: func(ci ssa.CallInstruction) bool {
			return eng.IsCall(ci, "fx.logf")
		},
	}
	sp.wrappers = map[*ssa.Function]int{}
	for _, m := range p.Members {
		if f, isF := m.(*ssa.Function); isF {
			if k, ok := acquireWrapperParam(f, sp); ok {
				sp.wrappers[f] = k
			}
		}
	}
	wantW := map[string]bool{"admit": true, "admitFlag": true, "admitUnasked": false, "admitLeaky": false, "admitWork": false, "good": false}
	for name, want := range wantW {
		_, got := sp.wrappers[p.Func(name)]
		c.Fixture("C05.pairing/wrapper-"+name, fmt.Sprint(want), fmt.Sprint(got))
	}
	for name, want := range map[string]bool{"good": true, "goodSwitch": true, "badLeak": false, "badNoDefer": false, "badDouble": false, "badRefusedRelease": false, "badOther": false, "badWorkBefore": false, "badSkipAcquire": false,
		"goodWrapped": true, "goodWrappedFlag": true, "badWrappedLeak": false, "badWrappedUnasked": false, "badWrappedLeaky": false, "badWrappedWork": false} {
		rs := checkPairing(p.Func(name), sp)
		got := len(rs) == 1 && rs[0].ok
		c.Fixture("C05.pairing/"+name, fmt.Sprint(want), fmt.Sprint(got))
	}
}
