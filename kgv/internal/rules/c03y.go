package rules

import (
	"fmt"

	"golang.org/x/tools/go/ssa"

	"kgv/internal/eng"
)

func init() { RegisterExtra("C03", c03Round3) }

// c03Round3: rules added after the third seeded round.
func c03Round3(c *eng.Ctx) {
	c.Rule("R8", "no eligible endpoint ⇒ 503 on every path: from the edge where the error of the single Pop() is non-nil, every path to an exit passes a NewServiceUnavailable status (a dispatch on the error's identity that sends a wrapped 'no ready endpoints' error to another status answers 500 without Retry-After)", 1)
	c.Rule("R9", "probe outcomes are applied in probe order: the endpoint's probe function is invoked synchronously by the health-check loop (a plain call, not a go or defer statement), so that a late answer of an older probe cannot overwrite the outcome of a newer one", 1)

	// ---- R8
	if sh := c.MustMethod(pkgDispatcher, "dispatcher", "ServeHTTP"); sh != nil {
		n := 0
		for _, fn := range c.W.Region(sh) {
			for _, ci := range eng.CallsTo(fn, "("+pkgClusters+".EndpointPicker).Pop") {
				pop, ok := ci.(*ssa.Call)
				if !ok {
					continue
				}
				n++
				isPopErr := func(v ssa.Value) bool {
					cc, idx := eng.CallResultOf(v)
					return cc == pop && idx == 1
				}
				is503 := eng.LiftPred(func(i ssa.Instruction) bool {
					return eng.IsPlainCall(i, "k8s.io/apimachinery/pkg/api/errors.NewServiceUnavailable")
				})
				succs := nonNilSuccs(fn, isPopErr)
				why := ""
				if len(succs) == 0 {
					why = "the error of Pop is never tested against nil"
				}
				for _, s := range succs {
					if x := eng.ReachFromBlock(s, eng.PathQuery{Target: eng.IsExit, Avoid: is503}); x != nil {
						_, line := c.W.Pos(x.Pos())
						why = fmt.Sprintf("an exit (line %d) is reachable from the error edge without a ServiceUnavailable status", line)
					}
				}
				c.Check("R8", sh, fmt.Sprintf("Pop error#%d ⇒ 503 on every path", n), pop.Pos(), why == "",
					"Pop reports 'no ready endpoint' as a wrapped error carrying the reasons; every failed pick must be answered with 503 (and Retry-After)"+c02Found(why))
			}
		}
		if n == 0 {
			c.Fail("R8", sh, "Pop error ⇒ 503 on every path", sh.Pos(), "no Pop call found in the dispatcher")
		}
	}

	// ---- R9
	n := 0
	for _, fn := range c.W.FuncsOf(pkgClusters) {
		for _, ci := range eng.Calls(fn) {
			if ci.Common().IsInvoke() || ci.Common().StaticCallee() != nil {
				continue
			}
			if !eng.FieldLoadOf(ci.Common().Value, tEndpointInfo, "healthCheckFun") {
				continue
			}
			n++
			_, plain := ci.(*ssa.Call)
			c.Check("R9", fn, fmt.Sprintf("probe#%d is a synchronous call", n), ci.Pos(), plain,
				"the probe is started with go/defer: two probes of one endpoint can be in flight, and the slower, older answer is applied last — an endpoint whose newest probe failed is ready again")
		}
	}
	if n == 0 {
		c.Fail("R9", nil, "invocation of the probe function", 0, "no invocation of EndpointInfo.healthCheckFun found")
	}
}
