package rules

// C10 — tenant resolution: a host resolves to at most one cluster, and the right one.
//
// The rules below decide structural necessary conditions of the property on the resolved
// program (DESIGN.md §2 "C10"):
//
//	R1   every keyed access of the name table manager.clusters uses a lower-cased key
//	R1h  what reaches Manager.Get is a normalised host (port stripped) or a cluster/server name
//	R2   controller: deletions are owner-guarded, insertions are conflict-checked (key agreement)
//	R2n  the operand the owner is compared with is a lower-cased name on every call path
//	R3   the name table is written only by the controller (and the manager itself)
//	R4   the names of a deleted cluster stop resolving (not-found edge ⇒ all server names removed)
//	R5   TLS material handed out for a host is that of the cluster the host resolves to
//
// Not decided here (see DESIGN "Not decided"): whole histories, e.g. a partially failed Sync
// leaving the table behind LoadServerNames().

import (
	"fmt"
	"go/token"
	"go/types"
	"sort"
	"strings"

	"golang.org/x/tools/go/ssa"

	"kgv/internal/eng"
)

func init() {
	Register("C10", c10)
	RegisterFixture("C10", c10Fixtures)
}

const (
	c10TManager  = pkgClusters + ".manager"
	c10TCluster  = pkgClusters + ".ClusterInfo"
	c10TSSConfig = pkgClusters + ".secureServingConfig"
	c10TCtrl     = pkgCtrl + ".UpstreamClusterController"
	c10TReqInfo  = pkgRequest + ".ExtraRequestInfo"
	c10TObjMeta  = "k8s.io/apimachinery/pkg/apis/meta/v1.ObjectMeta"
	c10TTLSConf  = "crypto/tls.Config"
	c10Lister    = "(" + mod + "/pkg/client/listers/proxy/v1alpha1.UpstreamClusterLister).Get"
)

// c10IsMgr reports whether ci calls one of the named methods of the cluster manager,
// through the clusters.Manager interface (also when promoted through an embedding struct)
// or on the concrete *manager.
func c10IsMgr(ci ssa.Instruction, names ...string) bool {
	for _, n := range names {
		if eng.IsCall(ci, "("+pkgClusters+".Manager)."+n, "(*"+c10TManager+")."+n) {
			return true
		}
	}
	return false
}

func c10IsBuiltin(ci ssa.CallInstruction, name string) bool {
	b, ok := ci.Common().Value.(*ssa.Builtin)
	return ok && b.Name() == name
}

func c10IsString(t types.Type) bool {
	b, ok := t.Underlying().(*types.Basic)
	return ok && b.Info()&types.IsString != 0
}

func c10IsStringSlice(t types.Type) bool {
	s, ok := t.Underlying().(*types.Slice)
	return ok && c10IsString(s.Elem())
}

// c10RecvIs reports whether the top-level function enclosing fn is a method of one of the
// named types ("pkgpath.Type").
func c10RecvIs(fn *ssa.Function, typs ...string) bool {
	o := eng.Outermost(fn)
	if o.Signature.Recv() == nil {
		return false
	}
	tn := eng.TypeName(o.Signature.Recv().Type())
	for _, t := range typs {
		if tn == t {
			return true
		}
	}
	return false
}

func c10ParamIndex(p *ssa.Parameter) int {
	for i, q := range p.Parent().Params {
		if q == p {
			return i
		}
	}
	return -1
}

// c10x carries the per-run state of the C10 rules.
type c10x struct {
	c       *eng.Ctx
	sl      *eng.Slicer
	sa      *eng.Slicer
	ord     map[string]int
	callers map[*ssa.Function][]ssa.CallInstruction

	tblDone bool
	tblUses []c10TableUse
	tblEsc  []eng.FlowUse
}

// nth numbers like constructs inside one function ("Manager.Get#2"): stable under edits
// that do not add or remove such a construct in that function.
func (x *c10x) nth(fn *ssa.Function, base string) string {
	k := eng.FuncName(fn) + "|" + base
	x.ord[k]++
	return fmt.Sprintf("%s#%d", base, x.ord[k])
}

// check records an obligation; the explanation is attached only when it is violated.
func (x *c10x) check(rule string, fn *ssa.Function, construct string, pos token.Pos, ok bool, why string) bool {
	if ok {
		why = ""
	}
	return x.c.Check(rule, fn, construct, pos, ok, why)
}

// callersOf returns the static call sites of fn in the repository.
func (x *c10x) callersOf(fn *ssa.Function) []ssa.CallInstruction {
	if x.callers == nil {
		x.callers = map[*ssa.Function][]ssa.CallInstruction{}
		for _, f := range x.c.W.AllRepoFuncs() {
			for _, ci := range eng.Calls(f) {
				if callee := ci.Common().StaticCallee(); callee != nil {
					x.callers[callee] = append(x.callers[callee], ci)
				}
			}
		}
	}
	return x.callers[fn]
}

// ---------------------------------------------------------------------------------------
// Origin classes of names and hosts (A3).

// c10Origin is one origin of a string (or string slice) value.
type c10Origin struct {
	Class string
	V     ssa.Value
}

// classOf names the producer of v when it is one the rules know:
//
//	tolower          strings.ToLower(…)                       lower-cased
//	hostwithoutport  gatewaynet.HostWithoutPort(…)            lower-cased, port stripped
//	servernames      (*ClusterInfo).LoadServerNames()         lower-cased names of a cluster (R2n)
//	clusterfield     ClusterInfo.Cluster                      lower-cased at construction (R2n)
//	reqinfo.Hostname ExtraRequestInfo.Hostname                HostWithoutPort(req.Host) (R1h)
//	sni              tls.ClientHelloInfo.ServerName           SNI host name, carries no port
//	splithost        host part of net.SplitHostPort           port stripped
//	objname          ObjectMeta.Name                          API object name (no port; case per object)
//	rawhost          http.Request.Host / url.URL.Host         may carry a port: never a valid key
func c10ClassOf(v ssa.Value) string {
	if cc, idx := eng.CallResultOf(v); cc != nil {
		switch {
		case eng.IsCall(cc, "strings.ToLower"):
			return "tolower"
		case eng.IsCall(cc, pkgGWNet+".HostWithoutPort"):
			return "hostwithoutport"
		case eng.IsCall(cc, "(*"+c10TCluster+").LoadServerNames"):
			return "servernames"
		case eng.IsCall(cc, "net.SplitHostPort") && idx == 0:
			return "splithost"
		}
		return ""
	}
	switch {
	case eng.FieldLoadOf(v, c10TReqInfo, "Hostname"):
		return "reqinfo.Hostname"
	case eng.FieldLoadOf(v, "crypto/tls.ClientHelloInfo", "ServerName"):
		return "sni"
	case eng.FieldLoadOf(v, c10TCluster, "Cluster"):
		return "clusterfield"
	case eng.FieldLoadOf(v, c10TObjMeta, "Name"):
		return "objname"
	case eng.FieldLoadOf(v, "net/http.Request", "Host"), eng.FieldLoadOf(v, "net/url.URL", "Host"):
		return "rawhost"
	}
	return ""
}

// origins returns the classified origins of v. Parameters are resolved through the static
// call sites of their function (up to depth levels); builtin append contributes its
// operands; nil contributes nothing. What cannot be classified is reported as "param"
// (an entry point's parameter), "const" or "other".
func (x *c10x) origins(v ssa.Value, depth int) []c10Origin {
	seen := map[ssa.Value]bool{}
	var out []c10Origin
	var rec func(v ssa.Value, depth int)
	rec = func(v ssa.Value, depth int) {
		for _, leaf := range x.sl.Leaves(v, func(u ssa.Value) bool { return c10ClassOf(u) != "" }) {
			if seen[leaf] {
				continue
			}
			seen[leaf] = true
			if cl := c10ClassOf(leaf); cl != "" {
				out = append(out, c10Origin{cl, leaf})
				continue
			}
			switch n := leaf.(type) {
			case *ssa.Const:
				if n.IsNil() {
					continue
				}
				out = append(out, c10Origin{"const", leaf})
			case *ssa.Call:
				if c10IsBuiltin(n, "append") {
					for _, a := range n.Call.Args {
						rec(a, depth)
					}
					continue
				}
				out = append(out, c10Origin{"other", leaf})
			case *ssa.Parameter:
				fn := n.Parent()
				idx := c10ParamIndex(n)
				sites := x.callersOf(fn)
				if depth <= 0 || len(sites) == 0 || idx < 0 || fn.Parent() != nil {
					out = append(out, c10Origin{"param", leaf})
					continue
				}
				for _, s := range sites {
					if args := s.Common().Args; idx < len(args) {
						rec(args[idx], depth-1)
					} else {
						out = append(out, c10Origin{"param", leaf})
					}
				}
			default:
				out = append(out, c10Origin{"other", leaf})
			}
		}
	}
	rec(v, depth)
	return out
}

func c10Classes(os []c10Origin) string {
	set := map[string]bool{}
	for _, o := range os {
		set[o.Class] = true
	}
	var names []string
	for n := range set {
		names = append(names, n)
	}
	sort.Strings(names)
	return strings.Join(names, ",")
}

// c10Only reports whether every origin is in the allowed classes (and there is at least one).
func c10Only(os []c10Origin, allowed ...string) (bool, string) {
	if len(os) == 0 {
		return false, "no origin found"
	}
	for _, o := range os {
		ok := false
		for _, a := range allowed {
			if o.Class == a {
				ok = true
			}
		}
		if !ok {
			return false, fmt.Sprintf("origin %q (%s)", o.Class, c10Describe(o.V))
		}
	}
	return true, ""
}

func c10Describe(v ssa.Value) string {
	switch n := v.(type) {
	case *ssa.Parameter:
		return "parameter " + n.Name() + " of " + eng.FuncName(n.Parent())
	case *ssa.Const:
		return "constant " + n.String()
	case *ssa.Call:
		if fn := eng.FullName(n); fn != "" {
			return "result of " + fn
		}
	}
	if s := eng.PathString(v); !strings.HasPrefix(s, "<") {
		return s
	}
	return fmt.Sprintf("%T", v)
}

// ---------------------------------------------------------------------------------------
// Owner tests (template shared with the fixtures).

// c10OwnerSpec identifies, for the owner-guard template, the table lookup and the owner field.
type c10OwnerSpec struct {
	// isLookup: the call returns (entry, ok) for a key given as its only argument.
	isLookup func(ci ssa.CallInstruction) bool
	// ownerBase: when v reads the owner field of an entry it returns the entry, else nil.
	ownerBase func(v ssa.Value) ssa.Value
}

// c10OwnerTest is one comparison `lookup(key).owner op acting` found among implied facts.
type c10OwnerTest struct {
	lookup  *ssa.Call
	env     *eng.CallEnv
	key     ssa.Value // the looked-up key, resolved to the querying function where possible
	acting  ssa.Value // the other operand, resolved likewise
	op      token.Token
	okGuard bool // the lookup's ok result is known true as well
}

// c10OwnerTests extracts owner comparisons from a fact set.
func c10OwnerTests(facts []eng.Fact, sp c10OwnerSpec) []c10OwnerTest {
	return c10OwnerTestsIn(facts, facts, sp)
}

// c10OwnerTestsIn extracts the owner comparisons stated by facts; whether the lookup's ok
// flag is known true is looked up in okFacts (the facts of all guards of the site).
func c10OwnerTestsIn(facts, okFacts []eng.Fact, sp c10OwnerSpec) []c10OwnerTest {
	var out []c10OwnerTest
	for _, f := range facts {
		if f.Rel.Op != token.EQL && f.Rel.Op != token.NEQ {
			continue
		}
		for _, side := range [][2]ssa.Value{{f.Rel.X, f.Rel.Y}, {f.Rel.Y, f.Rel.X}} {
			base := sp.ownerBase(side[0])
			if base == nil {
				continue
			}
			base, benv := f.Env.Resolve(base)
			cc, idx := eng.CallResultOf(base)
			if cc == nil || idx != 0 || !sp.isLookup(cc) || len(eng.Args(cc)) != 1 {
				continue
			}
			t := c10OwnerTest{lookup: cc, env: benv, op: f.Rel.Op}
			t.key, _ = benv.Resolve(eng.Args(cc)[0])
			t.acting, _ = f.Env.Resolve(side[1])
			for _, g := range okFacts {
				for _, gs := range [][2]ssa.Value{{g.Rel.X, g.Rel.Y}, {g.Rel.Y, g.Rel.X}} {
					gv, _ := g.Env.Resolve(gs[0])
					c2, i2 := eng.CallResultOf(gv)
					if c2 != cc || i2 != 1 {
						continue
					}
					if (g.Rel.Op == token.EQL && eng.IsBoolConst(gs[1], true)) || (g.Rel.Op == token.NEQ && eng.IsBoolConst(gs[1], false)) {
						t.okGuard = true
					}
				}
			}
			out = append(out, t)
		}
	}
	return out
}

// c10CheckOwnerGuard is the template of C10.R2 for deletions: the site, which removes
// `key` from the table, must execute only when a lookup of that same key succeeded and the
// entry found belongs to the acting cluster (`entry.owner == acting`, acting being neither
// the key nor read from the entry itself). It returns the acting operands for R2n.
//
// The test may sit anywhere on the way to the deletion: in the deleting function, in a
// predicate helper it calls (FactsAt expands those), or — when the deletion was moved into a
// helper whose callers are all known — at the call sites of that helper. Every calling
// context (eng.FactsAtUp) must provide the test; keys and operands of different levels are
// related through the parameter bindings of the context.
func c10CheckOwnerGuard(site ssa.Instruction, key ssa.Value, sp c10OwnerSpec, sl *eng.Slicer) (bool, string, []ssa.Value) {
	var acting []ssa.Value
	for _, fc := range eng.FactsAtUp(site, 2) {
		ok, why, act := c10OwnerGuardIn(fc, key, sp, sl)
		if !ok {
			return false, why, nil
		}
		acting = append(acting, act)
	}
	return true, "", acting
}

// c10OwnerGuardIn decides the owner-guard template in one calling context.
func c10OwnerGuardIn(fc eng.FactCtx, key ssa.Value, sp c10OwnerSpec, sl *eng.Slicer) (bool, string, ssa.Value) {
	ch := fc.Chain
	tests := c10OwnerTests(fc.Facts, sp)
	if len(tests) == 0 {
		return false, "the deletion is not control-dependent on an owner test `lookup(key).Cluster == acting cluster`: a name held by another cluster is removed from the table (history: A owns alias x, B is updated/deleted with a stale x in its old list ⇒ x stops resolving to A)", nil
	}
	same := func(a, b ssa.Value) bool { return eng.SameValue(ch.Resolve(a), ch.Resolve(b)) }
	why := ""
	for _, t := range tests {
		switch {
		case t.op != token.EQL:
			why = "the deletion runs when the entry's owner DIFFERS from the acting cluster (inverted owner test)"
		case !t.okGuard:
			why = "the owner is read from a lookup result whose ok flag is not known to be true"
		case !same(t.key, key):
			why = "the owner test looks up a different key than the one deleted (the entry that is removed is not the one whose owner was checked)"
		case same(t.acting, key):
			why = "the entry's owner is compared with the deleted key itself, not with the acting cluster (only the cluster's own name could ever be removed; its aliases keep resolving after deletion)"
		case ch.DerivesFrom(sl, t.acting, func(v ssa.Value) bool { cc, _ := eng.CallResultOf(v); return cc == t.lookup }):
			why = "the entry's owner is compared with a value read from the same lookup (vacuous owner test)"
		case ch.DerivesFrom(sl, t.acting, func(v ssa.Value) bool {
			cc, _ := eng.CallResultOf(v)
			return cc != nil && sp.isLookup(cc)
		}):
			why = "the acting cluster's identity is itself read from a table lookup: a name that resolves through an alias yields ANOTHER cluster's entry, whose names then pass the owner test (history: A holds alias x; an object named x is deleted ⇒ all names of A are removed). The acting identity must be the caller's own (the name parameter or the .Cluster of the cluster passed in)"
		default:
			return true, "", t.acting
		}
	}
	return false, why, nil
}

// ---------------------------------------------------------------------------------------

func c10(c *eng.Ctx) {
	x := &c10x{c: c, sl: c.Slicer(), sa: c.Slicer().WithArgs(), ord: map[string]int{}}

	c.Rule("R1", "key normalisation of the name table: every keyed access (Load/Store/LoadAndDelete/…) of manager.clusters uses a key that is strings.ToLower of the method's own key parameter; otherwise `Host: API.Example.com` does not resolve to the cluster registered as api.example.com (or an entry stored under one case is never deleted under another)", 3)
	c.Rule("R1h", "hosts are normalised before lookup: every argument of Manager.Get outside pkg/clusters is a port-stripped host (HostWithoutPort, ExtraRequestInfo.Hostname, TLS ServerName, host part of SplitHostPort) or a cluster/server name; ExtraRequestInfo.Hostname is only ever HostWithoutPort(req.Host); HostWithoutPort returns the host part. A raw `req.Host` (\"api:6443\") would never match a table key", 11)
	c.Rule("R2", "ownership guards in the controller: every Manager.Delete/DeleteWithStop executes only if a lookup of the same key succeeded and entry.Cluster == acting cluster; every Manager.AddWithKey executes only after a conflict check returned nil, the check tests every name of a list containing the inserted key against the owner of the inserted cluster, and its conflict edge always returns an error. Violations let create/update/delete of one cluster capture or remove a name of another", 6)
	c.Rule("R2n", "owner comparisons compare lower-cased names: the acting-cluster operand of every owner test derives, on every static call path, from strings.ToLower, ClusterInfo.Cluster or LoadServerNames(); ClusterInfo.Cluster is only stored lower-cased and LoadServerNames returns only lower-cased names. Otherwise a cluster named `Prod` never owns its own entries: they are neither updated nor removed", 5)
	c.Rule("R3", "single writer: the methods that mutate manager.clusters (Add/AddWithKey/Delete/DeleteWithStop/DeleteAll and their helpers) are called only from UpstreamClusterController methods and from the manager itself; request filters, the dispatcher and webhooks only read", 7) // 4 writers (or 3 + shared helper) + the controller's 3 call sites; forwarding calls inside the manager (Add → AddWithKey, Delete → doDelete) come and go with helper extraction
	c.Rule("R4", "deleted names stop resolving: on the lister's NotFound edge the sync handler always reaches a cleanup that looks the cluster up under the lower-cased object name, iterates all of its LoadServerNames() without leaving the loop early and deletes each owned name; manager.Delete/DeleteWithStop remove the lower-cased key from the table on every path", 5)
	c.Rule("R5", "TLS material of the same cluster: ClientCAs/Certificates copied into the per-handshake tls.Config are the fields of LoadTLSConfig() of the cluster returned by Manager.Get(SNI host); SNIVerifyOptions returns LoadVerifyOptions() of Get(HostWithoutPort(host)); both loaders read the receiver's own secure-serving config, which is only stored into the receiver's own slot", 8)

	c10R6(c)
	c10R2p(x)
	c10R1(x)
	c10R1h(x)
	acting := c10R2(x)
	c10R2n(x, acting)
	c10R3(x)
	c10R4(x)
	c10R5(x)
}

// ---- R1: keyed accesses of manager.clusters ------------------------------------------

var c10KeyedMapOps = map[string]bool{"Load": true, "Store": true, "LoadOrStore": true, "LoadAndDelete": true, "Delete": true, "Swap": true, "CompareAndSwap": true, "CompareAndDelete": true}
var c10MutatingMapOps = map[string]bool{"Store": true, "LoadOrStore": true, "LoadAndDelete": true, "Delete": true, "Swap": true, "CompareAndSwap": true, "CompareAndDelete": true, "Clear": true}

// c10TableUse is one operation on the name table manager.clusters. The table is identified by
// where its address is formed (`&m.clusters`, an unexported field: only pkg/clusters can form
// it); the operation may sit in that function or in any function the address is handed to
// (a method turned into a function over the sync.Map, a closure turned into a function).
type c10TableUse struct {
	root  *ssa.Function         // the function that addressed the table
	ins   ssa.Instruction       // the operating instruction
	call  ssa.CallInstruction   // non-nil: a sync.Map method called on the table
	op    string                // the sync.Map method; "=" whole-map overwrite; "copy" load; "?" anything else
	sites []ssa.CallInstruction // the calls through which the address reached ins (outermost first)
}

func (u c10TableUse) mutates() bool { return u.op == "=" || u.op == "?" || c10MutatingMapOps[u.op] }

// tableUses follows every `&manager.clusters` of pkg/clusters to its uses (eng.FlowDown).
func (x *c10x) tableUses() ([]c10TableUse, []eng.FlowUse) {
	if x.tblDone {
		return x.tblUses, x.tblEsc
	}
	x.tblDone = true
	for _, fn := range x.c.W.FuncsOf(pkgClusters) {
		eng.Instrs(fn, func(ins ssa.Instruction) {
			fa, ok := ins.(*ssa.FieldAddr)
			if !ok || !eng.FieldAddrOf(fa, c10TManager, "clusters") {
				return
			}
			uses, esc := x.c.W.FlowDown(fa, eng.LiftDepth)
			x.tblEsc = append(x.tblEsc, esc...)
			for _, u := range uses {
				t := c10TableUse{root: fn, ins: u.Ins, op: "?", sites: u.Sites}
				switch n := u.Ins.(type) {
				case ssa.CallInstruction:
					if eng.RecvTypeName(n) == "sync.Map" && eng.Receiver(n) == u.V && eng.CalleeObj(n) != nil {
						t.call, t.op = n, eng.CalleeObj(n).Name()
					}
				case *ssa.Store:
					if n.Addr == u.V {
						t.op = "="
					}
				case *ssa.UnOp:
					if n.Op == token.MUL {
						t.op = "copy"
					}
				}
				x.tblUses = append(x.tblUses, t)
			}
		})
	}
	return x.tblUses, x.tblEsc
}

// entryContexts re-roots a table use whose root is itself a helper with a completely known set
// of callers (a manager method turned into a function taking the *manager): one use per call
// chain, rooted at the first function that is a manager method or whose callers are not all
// known. Key normalisation is then decided from the method's own parameter down to the access.
func (x *c10x) entryContexts(u c10TableUse, depth int) []c10TableUse {
	top := eng.Outermost(u.root)
	if depth <= 0 || top != u.root || c10RecvIs(top, c10TManager) {
		return []c10TableUse{u}
	}
	sites := x.c.W.LiftSites(top)
	if len(sites) == 0 {
		return []c10TableUse{u}
	}
	var out []c10TableUse
	for _, s := range sites {
		v := u
		v.root = s.Parent()
		v.sites = append([]ssa.CallInstruction{s}, u.sites...)
		out = append(out, x.entryContexts(v, depth-1)...)
	}
	return out
}

// keyFromRootParam: the key of a table access is computed from a string parameter of the
// function that addressed the table — when the access sits in a helper, from the helper's
// parameter that is bound, call by call up the chain, to something computed from it.
func (x *c10x) keyFromRootParam(key ssa.Value, u c10TableUse) bool {
	strParamOf := func(fn *ssa.Function, v ssa.Value) func(ssa.Value) bool {
		top := eng.Outermost(fn)
		return func(w ssa.Value) bool {
			p, isP := w.(*ssa.Parameter)
			return isP && p.Parent() == top && c10IsString(p.Type()) && (v == nil || v == w)
		}
	}
	vals := []ssa.Value{key}
	for k := len(u.sites) - 1; k >= 0; k-- {
		site := u.sites[k]
		callee := site.Common().StaticCallee()
		if callee == nil {
			return false
		}
		var next []ssa.Value
		for i, p := range callee.Params {
			if !c10IsString(p.Type()) || i >= len(site.Common().Args) {
				continue
			}
			for _, v := range vals {
				if x.sa.DerivesFrom(v, strParamOf(callee, p)) {
					next = append(next, site.Common().Args[i])
					break
				}
			}
		}
		if len(next) == 0 {
			return false
		}
		vals = next
	}
	for _, v := range vals {
		if x.sa.DerivesFrom(v, strParamOf(u.root, nil)) {
			return true
		}
	}
	return false
}

// keyLeaves returns the origins of the key of a table access (Slicer.Leaves); an origin that
// is a parameter of a helper the table was handed to is replaced by the origins of the
// argument bound to it at the call through which the table arrived.
func (x *c10x) keyLeaves(key ssa.Value, u c10TableUse, stop func(ssa.Value) bool) []ssa.Value {
	var out []ssa.Value
	type at struct {
		v     ssa.Value
		level int
	}
	seen := map[at]bool{}
	var rec func(v ssa.Value, level int)
	rec = func(v ssa.Value, level int) {
		if seen[at{v, level}] {
			return
		}
		seen[at{v, level}] = true
		for _, l := range x.sl.Leaves(v, stop) {
			if p, ok := l.(*ssa.Parameter); ok && !stop(l) && level > 0 {
				site := u.sites[level-1]
				idx := c10ParamIndex(p)
				if site.Common().StaticCallee() == p.Parent() && idx >= 0 && idx < len(site.Common().Args) {
					rec(site.Common().Args[idx], level-1)
					continue
				}
			}
			out = append(out, l)
		}
	}
	rec(key, len(u.sites))
	return out
}

func c10R1(x *c10x) {
	c := x.c
	isLower := func(v ssa.Value) bool { return c10ClassOf(v) == "tolower" }
	n := 0
	uses, _ := x.tableUses()
	var keyed []c10TableUse
	for _, u := range uses {
		if u.call != nil && c10KeyedMapOps[u.op] {
			keyed = append(keyed, x.entryContexts(u, eng.LiftDepth)...)
		}
	}
	for _, u := range keyed {
		n++
		key := eng.Args(u.call)[0]
		ok, detail := true, ""
		leaves := x.keyLeaves(key, u, isLower)
		if len(leaves) == 0 {
			ok, detail = false, "key of unknown origin"
		}
		for _, l := range leaves {
			if !isLower(l) {
				ok, detail = false, "the key may be "+c10Describe(l)+" without passing strings.ToLower: lookups/insertions/deletions disagree on the case of a name"
			}
		}
		if ok && !x.keyFromRootParam(key, u) {
			ok, detail = false, "the lower-cased key is not computed from the method's own key parameter (entries end up under a key other than the one asked for)"
		}
		x.check("R1", u.root, x.nth(u.root, "clusters."+u.op+" key = ToLower(param)"), u.call.Pos(), ok, detail)
	}
	if n == 0 {
		c.Fail("R1", nil, "keyed access of manager.clusters", 0, "no Load/Store/LoadAndDelete on manager.clusters found: the name table anchor moved")
	}
}

// ---- R1h: what reaches Manager.Get ----------------------------------------------------

func c10R1h(x *c10x) {
	c := x.c
	hostClasses := []string{"hostwithoutport", "reqinfo.Hostname", "sni", "splithost"}
	nameClasses := []string{"tolower", "clusterfield", "servernames", "objname"}
	n := 0
	for _, fn := range c.W.AllRepoFuncs() {
		if fn.Pkg != nil && fn.Pkg.Pkg.Path() == pkgClusters {
			continue // ClientFor's callers are C12.R1; Get itself is R1
		}
		for _, ci := range eng.Calls(fn) {
			if !c10IsMgr(ci, "Get") || len(eng.Args(ci)) != 1 {
				continue
			}
			n++
			os := x.origins(eng.Args(ci)[0], 3)
			construct := x.nth(fn, "Manager.Get argument normalised")
			ok, why := c10Only(os, append(append([]string{}, hostClasses...), nameClasses...)...)
			switch {
			case ok:
				c.Pass("R1h", fn, construct, ci.Pos(), "origins: "+c10Classes(os))
			case strings.Contains(c10Classes(os), "rawhost") || strings.Contains(c10Classes(os), "const"):
				c.Fail("R1h", fn, construct, ci.Pos(), "the lookup key has "+why+": a Host header carrying a port (\"api.example.com:6443\") or a fixed name resolves to no / the wrong cluster")
			default:
				c.Undecided("R1h", fn, construct, ci.Pos(), "cannot establish that the lookup key is a port-stripped host or a cluster/server name: "+why)
			}
		}
	}
	if n == 0 {
		c.Fail("R1h", nil, "Manager.Get argument normalised", 0, "no call of Manager.Get found outside pkg/clusters")
	}
	// ExtraRequestInfo.Hostname is HostWithoutPort(req.Host) wherever it is stored
	sts := eng.StoresToField(c.W.AllRepoFuncs(), c10TReqInfo, "Hostname")
	for _, st := range sts {
		os := x.origins(st.Val, 1)
		ok, why := c10Only(os, "hostwithoutport")
		fromReqHost := x.sa.DerivesFrom(st.Val, func(v ssa.Value) bool { return eng.FieldLoadOf(v, "net/http.Request", "Host") })
		if ok && !fromReqHost {
			ok, why = false, "the normalised value is not computed from the request's Host"
		}
		x.check("R1h", st.Parent(), x.nth(st.Parent(), "ExtraRequestInfo.Hostname = HostWithoutPort(req.Host)"), st.Pos(), ok, why)
	}
	if len(sts) == 0 {
		c.Fail("R1h", nil, "ExtraRequestInfo.Hostname = HostWithoutPort(req.Host)", 0, "no store of ExtraRequestInfo.Hostname found")
	}
	// HostWithoutPort returns the host part whenever the input splits
	if hw := c.MustFunc(pkgGWNet, "HostWithoutPort"); hw != nil {
		splits := eng.CallsTo(hw, "net.SplitHostPort")
		ok, why := len(splits) == 1, "expected exactly one net.SplitHostPort"
		if ok {
			sp := splits[0].(*ssa.Call)
			isErr := func(v ssa.Value) bool { cc, i := eng.CallResultOf(v); return cc == sp && i == 2 }
			isHost := func(v ssa.Value) bool { cc, i := eng.CallResultOf(v); return cc == sp && i == 0 }
			if !x.sa.DerivesFrom(sp.Call.Args[0], func(v ssa.Value) bool { return v == ssa.Value(hw.Params[0]) }) {
				ok, why = false, "SplitHostPort is not applied to the parameter"
			}
			sawHost := false
			eng.Instrs(hw, func(ins ssa.Instruction) {
				r, isR := ins.(*ssa.Return)
				if !isR || len(r.Results) != 1 {
					return
				}
				if eng.GuardedByNil(r, isErr, false) {
					return // input has no port: returned as is
				}
				leaves := x.sl.Leaves(r.Results[0], isHost)
				for _, l := range leaves {
					if !isHost(l) {
						ok, why = false, "on the edge where the input splits the result is not the host part (the port is kept)"
					}
				}
				if len(leaves) > 0 && eng.GuardedByNil(r, isErr, true) {
					sawHost = true
				}
			})
			if ok && !sawHost {
				ok, why = false, "no return of the host part on the err == nil edge of SplitHostPort"
			}
		}
		x.check("R1h", hw, "HostWithoutPort returns the host part", hw.Pos(), ok, why)
	}
}

// ---- R2: ownership guards ---------------------------------------------------------------

// c10Conflict summarises a conflict-check function: error-returning, it compares the
// owner of looked-up names with the acting cluster's name.
type c10Conflict struct {
	fn           *ssa.Function
	clusterParam int          // index in fn.Params of the acting cluster's name, -1 unknown
	lists        map[int]bool // []string parameter index → every element is tested unconditionally
	edgeErrors   bool         // from every conflict edge all paths return a non-nil error
	why          string
}

func (x *c10x) conflictSummary(fn *ssa.Function, sp c10OwnerSpec) *c10Conflict {
	s := &c10Conflict{fn: fn, clusterParam: -1, lists: map[int]bool{}, edgeErrors: true}
	eng.Instrs(fn, func(ins ssa.Instruction) {
		r, ok := ins.(*ssa.Return)
		if !ok || len(r.Results) != 1 || eng.IsNilConst(r.Results[0]) {
			return
		}
		all := eng.ExpandTupleFacts(eng.FactsAt(r, 2), 2)
		for _, g := range eng.GuardsOf(r) {
			// the guard that states `entry.Cluster != acting` — as a comparison of its own, as
			// the last operand of `ok && …`, or through a predicate helper (ImpliedFacts)
			for _, t := range c10OwnerTestsIn(eng.ExpandTupleFacts(eng.ImpliedFacts(g.If.Cond, g.Branch, 2), 2), all, sp) {
				p, isP := t.acting.(*ssa.Parameter)
				if t.op != token.NEQ || !t.okGuard || !isP || p.Parent() != fn {
					continue
				}
				// the instruction of fn that performs the lookup: the lookup itself or the call
				// of the predicate helper that holds it
				var site ssa.Instruction = t.lookup
				for e := t.env; e != nil; e = e.Parent {
					site = e.Call
				}
				if site.Parent() != fn {
					continue
				}
				s.clusterParam = c10ParamIndex(p)
				// which list does the looked-up name range over, and is the test unconditional?
				for j, lp := range fn.Params {
					if !c10IsStringSlice(lp.Type()) || !x.sl.DerivesFrom(t.key, func(v ssa.Value) bool { return v == ssa.Value(lp) }) {
						continue
					}
					s.lists[j] = s.lists[j] || c10TestsEveryElement(fn, site, lp)
				}
				// the conflict edge must end in an error on every path
				succ := g.If.Block().Succs[1]
				if g.Branch {
					succ = g.If.Block().Succs[0]
				}
				if bad := eng.ReachFromBlock(succ, eng.PathQuery{Target: func(i ssa.Instruction) bool {
					if rr, isR := i.(*ssa.Return); isR && len(rr.Results) == 1 && eng.IsNilConst(rr.Results[0]) {
						return true
					}
					return i == site
				}}); bad != nil {
					s.edgeErrors = false
					s.why = "after finding a name held by another cluster the check can still return nil or go on"
				}
			}
		}
	})
	return s
}

// c10TestsEveryElement reports whether the lookup G runs for every element of list on every
// path of fn that returns nil: G sits in a loop bounded by `i < len(list)`, every iteration
// passes G before it continues or leaves, and every nil return is reached through the loop
// header — except through the "nothing changed" shortcut reflect.DeepEqual(old, new).
func c10TestsEveryElement(fn *ssa.Function, G ssa.Instruction, list ssa.Value) bool {
	isLen := func(v ssa.Value) bool {
		cc, ok := v.(*ssa.Call)
		return ok && c10IsBuiltin(cc, "len") && cc.Call.Args[0] == list
	}
	var hdr *ssa.If
	var body *ssa.BasicBlock
	for _, g := range eng.GuardsOf(G) {
		rel := g.Rel()
		if (rel.Op == token.LSS && isLen(rel.Y)) || (rel.Op == token.GTR && isLen(rel.X)) {
			hdr = g.If
			body = hdr.Block().Succs[1]
			if g.Branch {
				body = hdr.Block().Succs[0]
			}
		}
	}
	if hdr == nil || !eng.InLoop(hdr.Block()) {
		return false
	}
	isHdr := func(i ssa.Instruction) bool { return i == ssa.Instruction(hdr) }
	// every iteration performs the lookup
	if eng.ReachFromBlock(body, eng.PathQuery{
		Target: func(i ssa.Instruction) bool { return isHdr(i) || eng.IsExit(i) },
		Avoid:  func(i ssa.Instruction) bool { return i == G },
	}) != nil {
		return false
	}
	// every nil return comes through the loop (DeepEqual shortcut excepted)
	return eng.ReachFromEntry(fn, eng.PathQuery{
		Target: func(i ssa.Instruction) bool {
			r, ok := i.(*ssa.Return)
			return ok && len(r.Results) == 1 && eng.IsNilConst(r.Results[0])
		},
		Avoid: isHdr,
		BlockEdge: func(from *ssa.BasicBlock, succ int) bool {
			iff, ok := from.Instrs[len(from.Instrs)-1].(*ssa.If)
			if !ok {
				return false
			}
			rel := eng.RelOf(iff.Cond, succ == 0)
			cc, _ := eng.CallResultOf(rel.X)
			return cc != nil && eng.IsCall(cc, "reflect.DeepEqual") && rel.Op == token.EQL && eng.IsBoolConst(rel.Y, true)
		},
	}) == nil
}

// c10Acting is an acting-cluster operand found by R2, checked for normalisation by R2n.
type c10Acting struct {
	fn   *ssa.Function
	what string
	v    ssa.Value
	pos  token.Pos
}

func c10R2(x *c10x) []c10Acting {
	c := x.c
	sp := c10OwnerSpec{
		isLookup:  func(ci ssa.CallInstruction) bool { return c10IsMgr(ci, "Get") },
		ownerBase: func(v ssa.Value) ssa.Value { return eng.FieldBase(v, c10TCluster, "Cluster") },
	}
	var acting []c10Acting
	nDel, nAdd := 0, 0
	summaries := map[*ssa.Function]*c10Conflict{}
	for _, fn := range c.W.FuncsOf(pkgCtrl) {
		for _, ci := range eng.Calls(fn) {
			switch {
			case c10IsMgr(ci, "Delete", "DeleteWithStop") && len(eng.Args(ci)) == 1:
				nDel++
				ok, why, act := c10CheckOwnerGuard(ci, eng.Args(ci)[0], sp, x.sl)
				construct := x.nth(fn, "Manager."+eng.CalleeObj(ci).Name()+" guarded by owner test on the same key")
				x.check("R2", fn, construct, ci.Pos(), ok, why)
				for _, a := range act {
					acting = append(acting, c10Acting{fn, construct, a, ci.Pos()})
				}
			case c10IsMgr(ci, "AddWithKey", "Add"):
				nAdd++
				name := eng.CalleeObj(ci).Name()
				args := eng.Args(ci)
				if name != "AddWithKey" || len(args) != 2 {
					c.Undecided("R2", fn, x.nth(fn, "Manager."+name+" after conflict check"), ci.Pos(), "insertion under the cluster's own name without a visible key: the conflict check cannot be matched to the inserted key")
					continue
				}
				key, cluster := args[0], args[1]
				c1 := x.nth(fn, "Manager.AddWithKey only after conflict check == nil")
				c2 := x.nth(fn, "inserted key ∈ names tested by the conflict check")
				c3 := x.nth(fn, "conflict check is for the inserted cluster")
				// In every calling context of the insertion (the insertion itself may have been moved
				// into a helper whose callers are all known) an error-returning repository call is
				// known to have returned nil.
				guarded, covered, same := true, true, true
				var by *c10Conflict
				for _, fc := range eng.FactsAtUp(ci, 2) {
					ch := fc.Chain
					var check *ssa.Call
					var sum *c10Conflict
					for _, f := range fc.Facts {
						if f.Rel.Op != token.EQL {
							continue
						}
						for _, side := range [][2]ssa.Value{{f.X(), f.Y()}, {f.Y(), f.X()}} {
							cc, ok := side[0].(*ssa.Call)
							if !ok || !eng.IsNilConst(side[1]) {
								continue
							}
							callee := cc.Call.StaticCallee()
							if callee == nil || callee.Blocks == nil || callee.Pkg == nil || callee.Pkg.Pkg.Path() != pkgCtrl {
								continue
							}
							s, seen := summaries[callee]
							if !seen {
								s = x.conflictSummary(callee, sp)
								summaries[callee] = s
								good := s.clusterParam >= 0 && s.edgeErrors
								uncond := false
								for _, u := range s.lists {
									uncond = uncond || u
								}
								why := s.why
								if s.clusterParam < 0 {
									why = "no error return guarded by `lookup ok && entry.Cluster != acting cluster name` (a name held by another cluster is not refused)"
								} else if !uncond {
									why = "no name list is tested element by element unconditionally"
								}
								x.check("R2", callee, "conflict check refuses every name held by another cluster", callee.Pos(), good && uncond, why)
							}
							if check == nil || (sum.clusterParam < 0 && s.clusterParam >= 0) {
								check, sum = cc, s
							}
						}
					}
					if check == nil || sum.clusterParam < 0 {
						guarded = false
						break
					}
					by = sum
					cargs := check.Call.Args
					cov := false
					for j, uncond := range sum.lists {
						if uncond && j < len(cargs) && ch.DerivesFrom(x.sl, key, func(v ssa.Value) bool { return v == cargs[j] }) {
							cov = true
						}
					}
					covered = covered && cov
					sm := false
					if sum.clusterParam < len(cargs) {
						if b := eng.FieldBase(cargs[sum.clusterParam], c10TCluster, "Cluster"); b != nil && eng.SameValue(ch.Resolve(b), ch.Resolve(cluster)) {
							sm = true
						}
					}
					same = same && sm
				}
				if !guarded || by == nil {
					c.Fail("R2", fn, c1, ci.Pos(), "the insertion is not dominated by the nil result of a conflict check: AddWithKey overwrites whatever cluster holds the name (history: A owns alias x; B is created with serverNames [x] ⇒ x now resolves to B)")
					continue
				}
				c.Pass("R2", fn, c1, ci.Pos(), "guarded by "+eng.FuncName(by.fn)+"(…) == nil")
				x.check("R2", fn, c2, ci.Pos(), covered, "the inserted key is not an element of a list that the conflict check tests name by name: the name actually written was never checked against its current holder")
				x.check("R2", fn, c3, ci.Pos(), same, "the conflict check is not given the .Cluster name of the cluster being inserted: ownership is tested for one cluster and the name handed to another")
				if same {
					acting = append(acting, c10Acting{by.fn, "conflict check: acting cluster name", by.fn.Params[by.clusterParam], by.fn.Pos()})
				}
			}
		}
	}
	if nDel == 0 {
		c.Fail("R2", nil, "Manager.Delete guarded by owner test on the same key", 0, "no Delete/DeleteWithStop call found in the controller package")
	}
	if nAdd == 0 {
		c.Fail("R2", nil, "Manager.AddWithKey only after conflict check == nil", 0, "no AddWithKey call found in the controller package")
	}
	return acting
}

// ---- R2n: the acting-cluster operand is a lower-cased name ------------------------------

func c10R2n(x *c10x, acting []c10Acting) {
	c := x.c
	norm := []string{"tolower", "clusterfield", "servernames"}
	// one obligation per guarded site; a site reached in several calling contexts contributes
	// the operand of each context
	seen := map[string]bool{}
	for _, a := range acting {
		k := eng.FuncName(a.fn) + "|" + a.what
		if seen[k] {
			continue
		}
		seen[k] = true
		var os []c10Origin
		for _, b := range acting {
			if eng.FuncName(b.fn)+"|"+b.what == k {
				os = append(os, x.origins(b.v, 3)...)
			}
		}
		ok, why := c10Only(os, norm...)
		construct := "acting cluster name is lower-cased: " + a.what
		switch {
		case ok:
			c.Pass("R2n", a.fn, construct, a.pos, "origins: "+c10Classes(os))
		case strings.Contains(c10Classes(os), "objname") || strings.Contains(c10Classes(os), "const"):
			c.Fail("R2n", a.fn, construct, a.pos, "ClusterInfo.Cluster (always lower-case) is compared with "+why+": for an UpstreamCluster named \"Prod\" the comparison never holds, so its names are never removed on delete nor recognised as its own on update")
		default:
			c.Undecided("R2n", a.fn, construct, a.pos, "cannot establish that the operand is lower-cased on every call path: "+why)
		}
	}
	// ClusterInfo.Cluster is stored lower-cased only
	sts := eng.StoresToField(c.W.AllRepoFuncs(), c10TCluster, "Cluster")
	for _, st := range sts {
		os := x.origins(st.Val, 1)
		ok, why := c10Only(os, "tolower", "clusterfield")
		x.check("R2n", st.Parent(), x.nth(st.Parent(), "ClusterInfo.Cluster stored lower-cased"), st.Pos(), ok, why)
	}
	if len(sts) == 0 {
		c.Fail("R2n", nil, "ClusterInfo.Cluster stored lower-cased", 0, "no store of ClusterInfo.Cluster found")
	}
	// LoadServerNames returns lower-cased names only
	if lsn := c.MustMethod(pkgClusters, "ClusterInfo", "LoadServerNames"); lsn != nil {
		ok, why := true, ""
		nRet := 0
		eng.Instrs(lsn, func(ins ssa.Instruction) {
			r, isR := ins.(*ssa.Return)
			if !isR || len(r.Results) != 1 {
				return
			}
			nRet++
			os := x.origins(r.Results[0], 0)
			if o, w := c10Only(os, "tolower", "clusterfield"); !o {
				ok, why = false, w
			}
			if !strings.Contains(c10Classes(os), "clusterfield") {
				ok, why = false, "the cluster's own name is not among the returned names"
			}
		})
		x.check("R2n", lsn, "LoadServerNames returns the cluster name and lower-cased server names", lsn.Pos(), ok && nRet > 0, why)
	}
}

// ---- R3: single writer ------------------------------------------------------------------

func c10R3(x *c10x) {
	c := x.c
	// writers of the table: the functions of pkg/clusters that address manager.clusters and
	// mutate it — themselves or through a function they hand the address to (the helper can
	// only write what it is given; the function that gives it the table is the writer).
	uses, escapes := x.tableUses()
	for _, e := range escapes {
		c.Undecided("R3", e.Fn(), x.nth(e.Fn(), "address of manager.clusters stays within the manager"), e.Ins.Pos(), "the address of the name table is stored, returned or handed to a call that cannot be followed: its writers are not known")
	}
	writes := map[*ssa.Function]bool{}
	var order []*ssa.Function
	for _, u := range uses {
		if u.mutates() && !writes[u.root] {
			writes[u.root] = true
			order = append(order, u.root)
		}
	}
	// mut: top-level functions that write the table. A manager method is a writer the rest of
	// the program reaches through the Manager interface; an unexported package-level function
	// (a method turned into a function over the manager) is a writer only its own package can
	// call — both are admitted, and so is everything else in the set once its callers are
	// checked below. Anything else that writes the table is a second writer.
	mut := map[*ssa.Function]bool{}
	internalHelper := func(top *ssa.Function) bool {
		if top.Signature.Recv() != nil || top.Parent() != nil {
			return false
		}
		o, _ := top.Object().(*types.Func)
		return o != nil && !o.Exported() && top.Name() != "init"
	}
	for _, fn := range order {
		top := eng.Outermost(fn)
		if top.Signature.Recv() == nil && c10ReturnsManager(top) {
			continue // the constructor initialises an empty table
		}
		ok := c10RecvIs(fn, c10TManager) || internalHelper(top)
		x.check("R3", fn, "manager.clusters written only by manager methods", fn.Pos(), ok, "the name table is mutated outside the manager's methods")
		if ok {
			mut[top] = true
		}
	}
	for changed := true; changed; {
		changed = false
		for _, fn := range c.W.FuncsOf(pkgClusters) {
			top := eng.Outermost(fn)
			if mut[top] || !(c10RecvIs(fn, c10TManager) || internalHelper(top)) {
				continue
			}
			for _, ci := range eng.Calls(fn) {
				if callee := ci.Common().StaticCallee(); callee != nil && mut[callee] {
					mut[top] = true
					changed = true
				}
			}
		}
	}
	names := map[string]bool{}
	for fn := range mut {
		if c10RecvIs(fn, c10TManager) {
			names[fn.Name()] = true
		}
	}
	for _, must := range []string{"AddWithKey", "Delete", "DeleteWithStop"} {
		if !names[must] {
			c.Fail("R3", nil, "mutator set contains "+must, 0, "manager."+must+" was not recognised as a writer of manager.clusters: the single-writer scan would be vacuous")
		}
	}
	isMutCall := func(ci ssa.CallInstruction) (string, bool) {
		if callee := ci.Common().StaticCallee(); callee != nil && mut[callee] && !c10RecvIs(callee, c10TManager) {
			return callee.Name(), true
		}
		o := eng.CalleeObj(ci)
		if o == nil || !names[o.Name()] {
			return "", false
		}
		rt := eng.RecvTypeName(ci)
		if rt == c10TManager || rt == pkgClusters+".Manager" {
			return o.Name(), true
		}
		return "", false
	}
	// a call is allowed in the controller's and the manager's methods, and in a writer of the
	// set (whose own callers are checked in turn)
	allowedIn := func(fn *ssa.Function) bool {
		return c10RecvIs(fn, c10TCtrl, c10TManager) || mut[eng.Outermost(fn)]
	}
	n := 0
	for _, fn := range c.W.AllRepoFuncs() {
		for _, ci := range eng.Calls(fn) {
			name, ok := isMutCall(ci)
			if !ok {
				continue
			}
			n++
			x.check("R3", fn, x.nth(fn, "call of table mutator "+name), ci.Pos(), allowedIn(fn),
				"the name table is written from outside UpstreamClusterController/manager: a second writer bypasses the ownership and conflict checks (a request-path caller could bind any host to any cluster)")
		}
		// mutators escaping as function values
		eng.Instrs(fn, func(ins ssa.Instruction) {
			var calleeVal ssa.Value
			if ci, isCall := ins.(ssa.CallInstruction); isCall {
				calleeVal = ci.Common().Value
			}
			for _, op := range ins.Operands(nil) {
				if f, isF := (*op).(*ssa.Function); isF && ssa.Value(f) != calleeVal && mut[f] && !c10RecvIs(f, c10TManager) {
					n++
					x.check("R3", fn, x.nth(fn, "function value of table mutator "+f.Name()), ins.Pos(), allowedIn(fn), "a mutator of the name table escapes as a function value outside the controller/manager")
				}
			}
			mc, ok := ins.(*ssa.MakeClosure)
			if !ok {
				return
			}
			f, _ := mc.Fn.(*ssa.Function)
			if f == nil || f.Synthetic == "" {
				return
			}
			o, _ := f.Object().(*types.Func)
			if o == nil || !names[o.Name()] {
				return
			}
			sig, _ := o.Type().(*types.Signature)
			if sig == nil || sig.Recv() == nil {
				return
			}
			if rt := eng.TypeName(sig.Recv().Type()); rt != c10TManager && rt != pkgClusters+".Manager" {
				return
			}
			n++
			x.check("R3", fn, x.nth(fn, "method value of table mutator "+o.Name()), mc.Pos(), c10RecvIs(fn, c10TCtrl, c10TManager), "a mutator of the name table escapes as a function value outside the controller/manager")
		})
	}
	if n == 0 {
		c.Fail("R3", nil, "call of table mutator", 0, "no call of a table mutator found")
	}
}

func c10ReturnsManager(fn *ssa.Function) bool {
	res := fn.Signature.Results()
	return res.Len() == 1 && eng.TypeName(res.At(0).Type()) == pkgClusters+".Manager"
}

// ---- R4: deleted names stop resolving ---------------------------------------------------

// c10Cleanup checks one deletion site inside a cleanup: the deleted key ranges over all
// LoadServerNames() of the cluster looked up under the function's name argument, and the
// loop is never left early.
func (x *c10x) cleanupSite(d ssa.CallInstruction) (bool, string, *ssa.Call) {
	fn := d.Parent()
	key := eng.Args(d)[0]
	var sn *ssa.Call
	x.sl.DerivesFrom(key, func(v ssa.Value) bool {
		if cc, ok := v.(*ssa.Call); ok && c10ClassOf(v) == "servernames" && cc.Parent() == fn {
			sn = cc
			return true
		}
		return false
	})
	if sn == nil {
		return false, "the deleted key does not range over LoadServerNames() of the deleted cluster: its aliases keep resolving after the cluster is gone", nil
	}
	g0, idx := eng.CallResultOf(eng.Receiver(sn))
	if g0 == nil || idx != 0 || !c10IsMgr(g0, "Get") {
		return false, "LoadServerNames() is not called on the cluster returned by Manager.Get", nil
	}
	// loop completeness: the range condition over len(serverNames)
	var hdr *ssa.If
	for _, g := range eng.GuardsOf(d) {
		rel := g.Rel()
		isLen := func(v ssa.Value) bool {
			cc, ok := v.(*ssa.Call)
			return ok && c10IsBuiltin(cc, "len") && cc.Call.Args[0] == ssa.Value(sn)
		}
		if (rel.Op == token.LSS && isLen(rel.Y)) || (rel.Op == token.GTR && isLen(rel.X)) {
			hdr = g.If
		}
	}
	if hdr == nil {
		return false, "the deletion is not inside a loop bounded by len(LoadServerNames())", g0
	}
	isHdr := func(i ssa.Instruction) bool { return i == ssa.Instruction(hdr) }
	if !eng.AlwaysAfter(d, isHdr) {
		return false, "after deleting one name the loop over the server names can be left (break/return): the remaining names keep resolving", g0
	}
	body := hdr.Block().Succs[0]
	if eng.RelOf(hdr.Cond, true).Op == token.GEQ || eng.RelOf(hdr.Cond, true).Op == token.LEQ {
		body = hdr.Block().Succs[1]
	}
	if eng.ReachFromBlock(body, eng.PathQuery{Target: eng.IsExit, Avoid: isHdr}) != nil {
		return false, "an iteration of the loop over the server names can leave the function before all names were visited", g0
	}
	return true, "", g0
}

func c10R4(x *c10x) {
	c := x.c
	// the sync handlers handed to the pass-through queue by the gateway controller
	var handlers []*ssa.Function
	for _, fn := range c.W.FuncsOf(pkgCtrl) {
		for _, ci := range eng.CallsTo(fn, pkgSyncQueue+".NewPassthroughSyncQueue") {
			if a := eng.Args(ci); len(a) == 2 {
				if h := c.W.FuncOfValue(a[1]); h != nil && h.Blocks != nil {
					handlers = append(handlers, h)
				} else {
					c.Undecided("R4", fn, "sync handler resolved", ci.Pos(), "the SyncHandler argument is not a function or method value")
				}
			}
		}
	}
	if len(handlers) == 0 {
		c.Fail("R4", nil, "sync handler resolved", 0, "no NewPassthroughSyncQueue(…, handler) found in the controller package")
	}
	for _, h := range handlers {
		// lister.Get(obj.Name) and errors.IsNotFound(err)
		var nf *ssa.Call
		var lg *ssa.Call
		for _, ci := range eng.CallsTo(h, "k8s.io/apimachinery/pkg/api/errors.IsNotFound") {
			cc, idx := eng.CallResultOf(eng.Args(ci)[0])
			if cc != nil && idx == 1 && eng.IsCall(cc, c10Lister) {
				nf, lg = ci.(*ssa.Call), cc
			}
		}
		if nf == nil {
			c.Fail("R4", h, "NotFound edge of lister.Get", h.Pos(), "the handler does not test errors.IsNotFound on the lister's error: deletions are not recognised")
			continue
		}
		brs := eng.BranchesOn(nf)
		if len(brs) != 1 {
			c.Undecided("R4", h, "NotFound edge of lister.Get", nf.Pos(), fmt.Sprintf("IsNotFound result branched on %d times", len(brs)))
			continue
		}
		// good: a deletion site that passes cleanupSite, or a call of a function holding one
		goodSite := map[ssa.Instruction]*ssa.Call{}
		siteWhy := ""
		scan := func(fn *ssa.Function) bool {
			found := false
			for _, ci := range eng.Calls(fn) {
				if c10IsMgr(ci, "Delete", "DeleteWithStop") && len(eng.Args(ci)) == 1 {
					ok, why, g0 := x.cleanupSite(ci)
					x.check("R4", fn, x.nth(fn, "cleanup deletes every LoadServerNames() entry"), ci.Pos(), ok, why)
					if ok {
						goodSite[ci] = g0
						found = true
					} else {
						siteWhy = why
					}
				}
			}
			return found
		}
		cleanups := map[*ssa.Function]bool{}
		scanned := map[*ssa.Function]bool{}
		var cleanupCalls []ssa.CallInstruction
		eng.ReachFromBlock(brs[0].OnTrue, eng.PathQuery{Target: func(i ssa.Instruction) bool {
			ci, ok := i.(ssa.CallInstruction)
			if !ok {
				return false
			}
			if callee := ci.Common().StaticCallee(); callee != nil && callee.Blocks != nil && callee.Pkg != nil && callee.Pkg.Pkg.Path() == pkgCtrl {
				if !scanned[callee] {
					scanned[callee] = true
					cleanups[callee] = scan(callee)
				}
				dup := false
				for _, cc := range cleanupCalls {
					dup = dup || cc == ci
				}
				if cleanups[callee] && !dup {
					cleanupCalls = append(cleanupCalls, ci)
				}
			}
			return false
		}})
		inHandler := false
		for _, ci := range eng.Calls(h) {
			if c10IsMgr(ci, "Delete", "DeleteWithStop") && len(eng.Args(ci)) == 1 {
				if ok, _, g0 := x.cleanupSite(ci); ok {
					goodSite[ci] = g0
					inHandler = true
				}
			}
		}
		_ = inHandler
		isCleanup := func(i ssa.Instruction) bool {
			if _, ok := goodSite[i]; ok && i.Parent() == h {
				return true
			}
			for _, cc := range cleanupCalls {
				if i == ssa.Instruction(cc) {
					return true
				}
			}
			return false
		}
		esc := eng.ReachFromBlock(brs[0].OnTrue, eng.PathQuery{Target: eng.IsExit, Avoid: isCleanup})
		why := "on the NotFound edge the handler can return without removing the cluster's names: a deleted cluster keeps being resolved (and served) under its name and aliases"
		if siteWhy != "" {
			why += " [" + siteWhy + "]"
		}
		x.check("R4", h, "NotFound edge always reaches the server-name cleanup", nf.Pos(), esc == nil, why)

		// key agreement: the cleanup is keyed by the lower-cased name of the object the lister was asked for
		objName := func(v ssa.Value) bool { return c10ClassOf(v) == "objname" }
		lgOK := len(eng.Args(lg)) == 1 && objName(eng.Args(lg)[0])
		for _, cc := range cleanupCalls {
			callee := cc.Common().StaticCallee()
			// the looked-up name inside the cleanup is one of its parameters: take the matching argument
			for site, g0 := range goodSite {
				if site.Parent() != callee || g0 == nil {
					continue
				}
				p, isP := eng.Args(g0)[0].(*ssa.Parameter)
				if !isP || c10ParamIndex(p) >= len(cc.Common().Args) {
					c.Undecided("R4", callee, "cleanup looks up its name argument", g0.Pos(), "the cluster is not looked up under a parameter of the cleanup")
					continue
				}
				arg := cc.Common().Args[c10ParamIndex(p)]
				os := x.origins(arg, 0)
				ok, why := c10Only(os, "tolower")
				if ok {
					sameObj := false
					for _, o := range os {
						lower := o.V.(*ssa.Call)
						if objName(lower.Call.Args[0]) && lgOK && eng.SameValue(lower.Call.Args[0], eng.Args(lg)[0]) {
							sameObj = true
						}
					}
					if !sameObj {
						ok, why = false, "the cleanup is not keyed by the name of the object the lister reported missing"
					}
				}
				x.check("R4", h, x.nth(h, "cleanup keyed by ToLower(name of the missing object)"), cc.Pos(), ok, why)
			}
		}
		if len(cleanupCalls) == 0 && esc == nil {
			c.Note("C10.R4: cleanup is inlined in %s; key agreement with the lister is not checked separately", eng.FuncName(h))
		}
	}

	// manager.Delete / DeleteWithStop remove the lower-cased key on every path
	for _, name := range []string{"Delete", "DeleteWithStop"} {
		m := c.MustMethod(pkgClusters, "manager", name)
		if m == nil {
			continue
		}
		ok, why := x.removesKey(m, nil, nil, nil, eng.LiftDepth)
		x.check("R4", m, "removes the key from manager.clusters on every path", m.Pos(), ok, why)
	}
}

// removesKey: every path through fn passes a deleting access of the table keyed by (the
// lower-casing of) fn's name parameter, directly or through a function of the package for
// which the same holds in the context of the call. The table is `&m.clusters` of the manager
// fn works on (its receiver, or a parameter bound to it by the call) or a *sync.Map parameter
// the call binds to that address; the key parameters of a callee are those bound to
// something computed from the caller's key. With mgr, tbl and keys all nil fn is the entry:
// a manager method, its receiver the manager, every string parameter a key.
func (x *c10x) removesKey(fn *ssa.Function, mgr, tbl, keys map[*ssa.Parameter]bool, depth int) (bool, string) {
	if mgr == nil && tbl == nil && keys == nil {
		mgr, keys = map[*ssa.Parameter]bool{}, map[*ssa.Parameter]bool{}
		if fn.Signature.Recv() != nil && len(fn.Params) > 0 {
			mgr[fn.Params[0]] = true
		}
		for _, p := range fn.Params {
			if c10IsString(p.Type()) {
				keys[p] = true
			}
		}
	}
	isParamIn := func(v ssa.Value, set map[*ssa.Parameter]bool) bool {
		p, ok := v.(*ssa.Parameter)
		return ok && set[p]
	}
	isTable := func(v ssa.Value) bool {
		if isParamIn(v, tbl) {
			return true
		}
		fa, ok := v.(*ssa.FieldAddr)
		return ok && eng.FieldAddrOf(fa, c10TManager, "clusters") && isParamIn(fa.X, mgr)
	}
	fromKey := func(v ssa.Value) bool {
		return x.sa.DerivesFrom(v, func(u ssa.Value) bool { return isParamIn(u, keys) })
	}
	removes := func(i ssa.Instruction) bool {
		ci, ok := i.(*ssa.Call)
		if !ok {
			return false
		}
		if eng.RecvTypeName(ci) == "sync.Map" && eng.CalleeObj(ci) != nil {
			switch eng.CalleeObj(ci).Name() {
			case "LoadAndDelete", "Delete":
				return isTable(eng.Receiver(ci)) && fromKey(eng.Args(ci)[0])
			}
			return false
		}
		callee := ci.Call.StaticCallee()
		if callee == nil || depth <= 0 || callee.Blocks == nil || callee == fn || callee.Pkg == nil || callee.Pkg.Pkg.Path() != pkgClusters {
			return false
		}
		m2, t2, k2 := map[*ssa.Parameter]bool{}, map[*ssa.Parameter]bool{}, map[*ssa.Parameter]bool{}
		for j, a := range ci.Call.Args {
			if j >= len(callee.Params) {
				break
			}
			switch {
			case isParamIn(a, mgr):
				m2[callee.Params[j]] = true
			case isTable(a):
				t2[callee.Params[j]] = true
			case c10IsString(a.Type()) && fromKey(a):
				k2[callee.Params[j]] = true
			}
		}
		if len(k2) == 0 || len(m2)+len(t2) == 0 {
			return false
		}
		ok2, _ := x.removesKey(callee, m2, t2, k2, depth-1)
		return ok2
	}
	if esc := eng.ReachFromEntry(fn, eng.PathQuery{Target: eng.IsExit, Avoid: removes}); esc != nil {
		return false, "a path through " + eng.FuncName(fn) + " returns without removing the key from the table: the name keeps resolving to the deleted cluster"
	}
	return true, ""
}

// ---- R5: TLS material of the same cluster -----------------------------------------------

func c10R5(x *c10x) {
	c := x.c
	// producersIn: every origin of v is result #idx of a call to name; the calls are returned
	// (nil if some origin is anything else). Calls of repository helpers are looked through by
	// the slicer (a lookup chain moved into a helper); a nil pointer carries no material and is
	// not an origin.
	producersIn := func(ch eng.UpChain, v ssa.Value, idx int, name string) []*ssa.Call {
		isTarget := func(u ssa.Value) bool { cc, _ := eng.CallResultOf(u); return cc != nil && eng.IsCall(cc, name) }
		var out []*ssa.Call
		for _, l := range ch.Leaves(x.sl, v, isTarget) {
			if eng.IsNilConst(l) {
				continue
			}
			cc, i := eng.CallResultOf(l)
			if cc == nil || i != idx || !eng.IsCall(cc, name) {
				return nil
			}
			out = append(out, cc)
		}
		return out
	}
	resultOf := func(v ssa.Value, idx int, name string) []*ssa.Call { return producersIn(nil, v, idx, name) }
	okOf := func(site ssa.Instruction, call *ssa.Call, idx int) bool {
		for _, f := range eng.FactsAt(site, 1) {
			for _, s := range [][2]ssa.Value{{f.X(), f.Y()}, {f.Y(), f.X()}} {
				cc, i := eng.CallResultOf(s[0])
				if cc == call && i == idx && ((f.Rel.Op == token.EQL && eng.IsBoolConst(s[1], true)) || (f.Rel.Op == token.NEQ && eng.IsBoolConst(s[1], false))) {
					return true
				}
			}
		}
		return false
	}
	getName := "(" + pkgClusters + ".Manager).Get"
	ownCfg := map[string]string{"ClientCAs": "clientCA", "Certificates": "certs"}

	// (a) controller: fields copied into the handshake config
	// … in per-handshake callbacks func(*tls.ClientHelloInfo) (*tls.Config, error) of the controller
	// package. The body of such a callback may be spread over helpers (the closure forwarding to a
	// method, the copy moved into a function): its Region is scanned, every store is decided in
	// every calling context and reported against the callback.
	inOf := func(fc eng.FactCtx) (func(v ssa.Value, idx int, name string) []*ssa.Call, func(call *ssa.Call, idx int) bool) {
		res := func(v ssa.Value, idx int, name string) []*ssa.Call { return producersIn(fc.Chain, v, idx, name) }
		known := func(call *ssa.Call, idx int) bool {
			for _, f := range fc.Facts {
				for _, s := range [][2]ssa.Value{{f.X(), f.Y()}, {f.Y(), f.X()}} {
					cc, i := eng.CallResultOf(s[0])
					if cc == call && i == idx && ((f.Rel.Op == token.EQL && eng.IsBoolConst(s[1], true)) || (f.Rel.Op == token.NEQ && eng.IsBoolConst(s[1], false))) {
						return true
					}
				}
			}
			return false
		}
		return res, known
	}
	nCopy := 0
	scanned := map[*ssa.Function]bool{}
	for _, hs := range c.W.FuncsOf(pkgCtrl) {
		sig := hs.Signature
		if !(sig.Params().Len() == 1 && eng.TypeName(sig.Params().At(0).Type()) == "crypto/tls.ClientHelloInfo" &&
			sig.Results().Len() == 2 && eng.TypeName(sig.Results().At(0).Type()) == c10TTLSConf) {
			continue
		}
		var region []*ssa.Function
		for _, f := range c.W.Region(hs) {
			if !scanned[f] {
				scanned[f] = true
				region = append(region, f)
			}
		}
		for _, field := range []string{"ClientCAs", "Certificates"} {
			for _, st := range eng.StoresToField(region, c10TTLSConf, field) {
				nCopy++
				construct := x.nth(hs, "tls.Config."+field+" copied from LoadTLSConfig() of Get(SNI host)")
				base := eng.FieldBase(st.Val, c10TTLSConf, field)
				if base == nil {
					c.Fail("R5", hs, construct, st.Pos(), "the value is not the "+field+" field of a tls.Config")
					continue
				}
				ok, why := true, ""
				for _, fc := range eng.FactsAtUp(st, 2) {
					resIn, knownIn := inOf(fc)
					loads := resIn(base, 0, "(*"+c10TCluster+").LoadTLSConfig")
					if len(loads) == 0 {
						ok, why = false, "the "+field+" handed to the handshake are not read from the result of ClusterInfo.LoadTLSConfig(): clients of this host are verified against / served with material that is not the cluster's"
					}
					for _, l := range loads {
						if !knownIn(l, 1) {
							ok, why = false, "LoadTLSConfig()'s ok result is not known true where its config is used"
						}
						gets := resIn(eng.Receiver(l), 0, getName)
						if len(gets) == 0 {
							ok, why = false, "LoadTLSConfig() is not called on the cluster returned by Manager.Get"
						}
						for _, g := range gets {
							if !knownIn(g, 1) {
								ok, why = false, "Manager.Get's ok result is not known true where the cluster is used"
							}
							if o, w := c10Only(x.origins(eng.Args(g)[0], 2), "sni", "splithost"); !o {
								ok, why = false, "the cluster is not looked up under the handshake's own host (TLS ServerName, or the local address when no SNI was sent): "+w
							}
						}
					}
				}
				x.check("R5", hs, construct, st.Pos(), ok, why)
			}
		}
	}
	if nCopy == 0 {
		c.Fail("R5", nil, "tls.Config fields copied from LoadTLSConfig() of Get(SNI host)", 0, "no per-cluster ClientCAs/Certificates are installed into the handshake config")
	}

	// (b) SNIVerifyOptions
	if sv := c.MustMethod(pkgCtrl, "UpstreamClusterController", "SNIVerifyOptions"); sv != nil {
		n := 0
		eng.Instrs(sv, func(ins ssa.Instruction) {
			r, isR := ins.(*ssa.Return)
			if !isR || len(r.Results) != 2 || eng.IsBoolConst(r.Results[1], false) {
				return
			}
			n++
			lv := resultOf(r.Results[0], 0, "(*"+c10TCluster+").LoadVerifyOptions")
			ok, why := len(lv) > 0, "the verify options returned are not the result of ClusterInfo.LoadVerifyOptions()"
			for _, l := range lv {
				if cc, i := eng.CallResultOf(r.Results[1]); cc != l || i != 1 {
					ok, why = false, "the ok result does not belong to the same LoadVerifyOptions() call"
				}
				gets := resultOf(eng.Receiver(l), 0, getName)
				if len(gets) == 0 {
					ok, why = false, "LoadVerifyOptions() is not called on the cluster returned by Manager.Get"
				}
				for _, g := range gets {
					if !okOf(r, g, 1) {
						ok, why = false, "Manager.Get's ok result is not known true where the cluster is used"
					}
					os := x.origins(eng.Args(g)[0], 0)
					if o, w := c10Only(os, "hostwithoutport"); !o {
						ok, why = false, "the cluster is not looked up under HostWithoutPort(host): "+w
					} else {
						for _, o := range os {
							hw, _ := eng.CallResultOf(o.V)
							if hw.Call.Args[0] != ssa.Value(sv.Params[1]) {
								ok, why = false, "HostWithoutPort is not applied to the host the options are asked for"
							}
						}
					}
				}
			}
			x.check("R5", sv, x.nth(sv, "verify options = LoadVerifyOptions() of Get(HostWithoutPort(host))"), r.Pos(), ok, why)
		})
		if n == 0 {
			c.Fail("R5", sv, "verify options = LoadVerifyOptions() of Get(HostWithoutPort(host))", sv.Pos(), "no return with per-cluster verify options")
		}
	}

	// (c) the loaders read the receiver's own config
	ownConfig := func(fn *ssa.Function, v ssa.Value) (bool, string) {
		calls := resultOf(v, 0, "(*"+c10TCluster+").loadSecureServingConfig")
		if len(calls) == 0 {
			return false, "not read from loadSecureServingConfig()"
		}
		for _, cc := range calls {
			if eng.Receiver(cc) != ssa.Value(fn.Params[0]) {
				return false, "loadSecureServingConfig() is called on another cluster than the receiver"
			}
		}
		return true, ""
	}
	if lt := c.MustMethod(pkgClusters, "ClusterInfo", "LoadTLSConfig"); lt != nil {
		for _, field := range []string{"ClientCAs", "Certificates"} {
			sts := eng.StoresToField([]*ssa.Function{lt}, c10TTLSConf, field)
			ok, why := len(sts) > 0, "LoadTLSConfig never sets "+field
			for _, st := range sts {
				if !eng.FieldLoadOf(st.Val, c10TSSConfig, ownCfg[field]) {
					ok, why = false, field+" is not the "+ownCfg[field]+" of the secure-serving config"
				} else if o, w := ownConfig(lt, st.Val); !o {
					ok, why = false, w
				}
			}
			x.check("R5", lt, "LoadTLSConfig."+field+" = receiver's "+ownCfg[field], lt.Pos(), ok, why)
		}
	}
	if lv := c.MustMethod(pkgClusters, "ClusterInfo", "LoadVerifyOptions"); lv != nil {
		ok, why, n := true, "", 0
		eng.Instrs(lv, func(ins ssa.Instruction) {
			r, isR := ins.(*ssa.Return)
			if !isR || len(r.Results) != 2 || eng.IsBoolConst(r.Results[1], false) {
				return
			}
			n++
			if !x.sl.DerivesFrom(r.Results[0], func(v ssa.Value) bool { return eng.FieldLoadOf(v, c10TSSConfig, "verifyOptions") }) {
				ok, why = false, "the options are not the verifyOptions of the secure-serving config"
			} else if o, w := ownConfig(lv, r.Results[0]); !o {
				ok, why = false, w
			}
		})
		x.check("R5", lv, "LoadVerifyOptions = receiver's verifyOptions", lv.Pos(), ok && n > 0, why)
	}
	if ls := c.MustMethod(pkgClusters, "ClusterInfo", "loadSecureServingConfig"); ls != nil {
		ok, why, n := true, "", 0
		eng.Instrs(ls, func(ins ssa.Instruction) {
			r, isR := ins.(*ssa.Return)
			if !isR || len(r.Results) != 2 || eng.IsBoolConst(r.Results[1], false) {
				return
			}
			n++
			loads := resultOf(r.Results[0], -1, "(*sync/atomic.Value).Load")
			if len(loads) == 0 {
				ok, why = false, "the config returned as present is not what the atomic slot holds"
			}
			for _, l := range loads {
				fa, isFA := eng.Receiver(l).(*ssa.FieldAddr)
				if !isFA || !eng.FieldAddrOf(fa, c10TCluster, "currentSecureServingTLSConfig") || fa.X != ssa.Value(ls.Params[0]) {
					ok, why = false, "the config is not loaded from the receiver's own currentSecureServingTLSConfig"
				}
			}
		})
		x.check("R5", ls, "loadSecureServingConfig reads the receiver's own slot", ls.Pos(), ok && n > 0, why)
	}
	// (d) the slot is written only through the receiver of a ClusterInfo method
	nSt := 0
	for _, fn := range c.W.AllRepoFuncs() {
		for _, ci := range eng.CallsTo(fn, "(*sync/atomic.Value).Store", "(*sync/atomic.Value).Swap", "(*sync/atomic.Value).CompareAndSwap") {
			fa, isFA := eng.Receiver(ci).(*ssa.FieldAddr)
			if !isFA || !eng.FieldAddrOf(fa, c10TCluster, "currentSecureServingTLSConfig") {
				continue
			}
			nSt++
			top := eng.Outermost(fn)
			ok := fn == top && c10RecvIs(fn, c10TCluster) && fa.X == ssa.Value(fn.Params[0])
			x.check("R5", fn, x.nth(fn, "secure-serving config stored into the receiver's own slot"), ci.Pos(), ok, "a cluster's TLS material is written through something other than that cluster's own method receiver (one cluster could install another's certificates/CA)")
		}
	}
	if nSt == 0 {
		c.Fail("R5", nil, "secure-serving config stored into the receiver's own slot", 0, "no store of currentSecureServingTLSConfig found")
	}
}

// ---------------------------------------------------------------------------------------
// Fixtures: the owner-guard template on accepted idioms and on broken variants.

const c10FxSrc = `package fx
type T struct{ Cluster string }
type M struct{}
func (*M) Get(k string) (*T, bool) { return nil, false }
func (*M) Delete(k string) {}
func logf(string) {}

func good(m *M, names []string, me string) {
	for _, n := range names {
		c, ok := m.Get(n)
		if ok && c.Cluster == me {
			m.Delete(n)
		}
	}
}
func goodEarly(m *M, names []string, me string) {
	for i := range names {
		c, ok := m.Get(names[i])
		if !ok || c.Cluster != me {
			continue
		}
		logf(names[i])
		m.Delete(names[i])
	}
}
func goodSwitch(m *M, n string, me *T) {
	c, ok := m.Get(n)
	switch {
	case !ok:
		return
	case c.Cluster == me.Cluster:
		m.Delete(n)
	}
}
func (m *M) owns(n, who string) bool {
	c, ok := m.Get(n)
	return ok && c.Cluster == who
}
func goodHelper(m *M, n string, me string) {
	if m.owns(n, me) {
		m.Delete(n)
	}
}
func badNoOwner(m *M, n string, me string) {
	_, ok := m.Get(n)
	if ok {
		m.Delete(n)
	}
}
func badOtherKey(m *M, n string, me string) {
	c, ok := m.Get(me)
	if ok && c.Cluster == me {
		m.Delete(n)
	}
}
func badKeyAsOwner(m *M, n string, me string) {
	c, ok := m.Get(n)
	if ok && c.Cluster == n {
		m.Delete(n)
	}
}
func badInverted(m *M, n string, me string) {
	c, ok := m.Get(n)
	if ok && c.Cluster != me {
		m.Delete(n)
	}
}
func badOr(m *M, n string, me string) {
	c, ok := m.Get(n)
	if c != nil && (ok || c.Cluster == me) {
		m.Delete(n)
	}
}
func badHelperOtherKey(m *M, n string, me string) {
	if m.owns(me, me) {
		m.Delete(n)
	}
}
func badVacuous(m *M, n string) {
	c, ok := m.Get(n)
	if ok && c.Cluster == c.Cluster {
		m.Delete(n)
	}
}
`

func c10Fixtures(c *eng.Ctx) {
	p, _, err := eng.BuildFixture(c10FxSrc)
	if err != nil {
		c.Fixture("C10.owner/build", "ok", err.Error())
		return
	}
	sp := c10OwnerSpec{
		isLookup:  func(ci ssa.CallInstruction) bool { return eng.IsCall(ci, "(*fx.M).Get") },
		ownerBase: func(v ssa.Value) ssa.Value { return eng.FieldBase(v, "fx.T", "Cluster") },
	}
	sl := &eng.Slicer{Depth: 2, FollowCall: func(*ssa.Call, *ssa.Function) bool { return true }}
	want := map[string]bool{"good": true, "goodEarly": true, "goodSwitch": true, "goodHelper": true,
		"badNoOwner": false, "badOtherKey": false, "badKeyAsOwner": false, "badInverted": false, "badOr": false, "badHelperOtherKey": false, "badVacuous": false}
	for name, w := range want {
		fn := p.Func(name)
		got := false
		n := 0
		for _, ci := range eng.CallsTo(fn, "(*fx.M).Delete") {
			n++
			got, _, _ = c10CheckOwnerGuard(ci, eng.Args(ci)[0], sp, sl)
		}
		c.Fixture("C10.owner/"+name, fmt.Sprint(w), fmt.Sprint(n == 1 && got))
	}
}

// ---------------------------------------------------------------------------------------
// R2p (added after seeded change C10-2): an object is applied to a cluster only after its
// names passed the conflict check.

// c10R2p: in the controller's sync handler every application of an object
// (ClusterInfo.Sync / CreateClusterInfo) is reachable only on the nil edge of a pre-check
// whose result is that of a conflict-check function. Applying first and checking afterwards
// stores the new server-name list inside the ClusterInfo although the names were refused:
// the next sync sees old == new names, skips registration, and the name never resolves to
// the cluster even after its previous holder released it.
func c10R2p(x *c10x) {
	x.c.Rule("R2p", "apply only after the name check: in the sync handler ClusterInfo.Sync / CreateClusterInfo are reachable only on the nil edge of a conflict pre-check of the same object", 2)
	c10ApplyAfterNameCheck(x, "R2p")
}

// c10ApplyAfterNameCheck records the apply-after-check obligations under the given rule id
// (C10.R2p; C11.R6).
func c10ApplyAfterNameCheck(x *c10x, rule string) {
	c := x.c
	sp := c10OwnerSpec{
		isLookup:  func(ci ssa.CallInstruction) bool { return c10IsMgr(ci, "Get") },
		ownerBase: func(v ssa.Value) ssa.Value { return eng.FieldBase(v, c10TCluster, "Cluster") },
	}
	isConflictFn := func(f *ssa.Function) bool {
		if f == nil || f.Blocks == nil {
			return false
		}
		s := x.conflictSummary(f, sp)
		return s != nil && s.clusterParam >= 0
	}
	// a pre-check: returns the result of a conflict-check function (directly or one level up)
	var isPreCheck func(f *ssa.Function, depth int) bool
	isPreCheck = func(f *ssa.Function, depth int) bool {
		if f == nil || f.Blocks == nil || depth > 2 {
			return false
		}
		if isConflictFn(f) {
			return true
		}
		found := false
		eng.Instrs(f, func(ins ssa.Instruction) {
			r, ok := ins.(*ssa.Return)
			if !ok || len(r.Results) != 1 {
				return
			}
			if cc, _ := eng.CallResultOf(r.Results[0]); cc != nil && isPreCheck(eng.CalleeFn(cc), depth+1) {
				found = true
			}
		})
		return found
	}
	n := 0
	for _, fn := range c.W.FuncsOf(pkgCtrl) {
		for _, ci := range eng.Calls(fn) {
			if !eng.IsCall(ci, "(*"+c10TCluster+").Sync", pkgClusters+".CreateClusterInfo") {
				continue
			}
			n++
			ok := eng.GuardedByNil(ci, func(v ssa.Value) bool {
				cc, _ := eng.CallResultOf(v)
				return cc != nil && isPreCheck(eng.CalleeFn(cc), 0)
			}, true)
			c.Check(rule, fn, x.nth(fn, shortName(eng.FullName(ci))+" only after the conflict pre-check == nil"), ci.Pos(), ok,
				"the object is applied to the cluster before (or without) its names being checked against their current holders: a refused update has already replaced the cluster's server-name list, later syncs see no difference and never register the name")
		}
	}
	if n < 2 {
		c.Fail(rule, nil, "object applications in the controller", 0, "ClusterInfo.Sync / CreateClusterInfo calls not found")
	}
}
