package rules

// C17 — the admission plugin's rule normalisation does not change what a rule matches.
//
// Two siblings classify the entries of a string list of a DispatchPolicyRule: the
// *normaliser* of the admission plugin (rewrites the stored list) and the *classifier* of
// the matcher in package v1alpha1 (decides at request time). The property holds when the
// normaliser only ever produces a list the classifier treats exactly like the submitted one.
// The tool decides the structural facts that argument rests on:
//
//	R1  every field of DispatchPolicyRule survives normalisation: field f of the result is
//	    N(in.f) or in.f for the same f, and Admit stores N(rule) back into the element it read
//	R2  N keeps entries verbatim (or yields the "*" constant), drops none, and yields "*"
//	    only when an entry is "*"
//	R3  N and the matcher's classifier agree: same match-all constant, same inversion byte,
//	    len>0 tested before indexing, positives shadow inverted entries, "*" wins
//
// Both siblings are found by shape (signature / what they compare), not by name, and all
// facts are path/guard/origin facts, so renaming, range-by-index, early returns, switch
// forms and an `isInverted(r)` helper keep the verdicts.

import (
	"fmt"
	"go/token"
	"go/types"
	"sort"
	"strings"

	"golang.org/x/tools/go/ssa"

	"kgv/internal/eng"
)

func init() {
	Register("C17", c17)
	RegisterFixture("C17", c17Fixtures)
}

const c17RuleType = pkgV1alpha1 + ".DispatchPolicyRule"

func c17IsBuiltin(ci ssa.CallInstruction, name string) bool {
	b, ok := ci.Common().Value.(*ssa.Builtin)
	return ok && b.Name() == name
}

func c17IsStringSlice(t types.Type) bool {
	s, ok := t.Underlying().(*types.Slice)
	if !ok {
		return false
	}
	b, ok := s.Elem().Underlying().(*types.Basic)
	return ok && b.Kind() == types.String
}

// ---------------------------------------------------------------------------------------
// classification of one function that sorts the entries of a []string parameter

// c17Test is a boolean SSA value of the classifier that holds (has truth value `when`)
// exactly when the current entry is the match-all constant / is inverted.
type c17Test struct {
	val    ssa.Value
	when   bool
	konst  string     // the constant compared with (star) or the inversion byte as a string
	lookup *ssa.Index // inversion test by indexing: the r[0] instruction (nil for a prefix test)
	subj   ssa.Value  // the string indexed (entry in the classifier, parameter in a helper)
}

type c17Edge struct {
	from *ssa.BasicBlock
	succ int
}

type c17Site struct {
	call     *ssa.Call
	inverted bool
}

type c17Cls struct {
	w      *eng.World
	fn     *ssa.Function
	param  *ssa.Parameter
	stars  []c17Test
	dashes []c17Test
	sites  map[*ssa.Call]*c17Site
	notes  []string

	// split: the entries are not classified by fn itself but by a same-package helper that fn
	// hands its list to and that reports (lists…, match-all flag) — `pos, inv, all := split(rules)`
	split *c17Split
	// bind: parameters of the same-package list helpers whose results fn returns (`return
	// choose(pos, inv, all)`), bound to the caller's values; conflict marks a parameter bound to
	// different values at different call sites (not followed)
	bind     map[*ssa.Parameter]ssa.Value
	conflict map[*ssa.Parameter]bool
}

// c17Split is the call of the helper that classifies the entries on behalf of a normaliser.
type c17Split struct {
	call *ssa.Call
	k    *c17Cls // the helper, classified over its own list parameter
	flag int     // index of the helper's single bool result (the match-all flag)
}

// loop returns the classifier that holds the entry tests and the appends: k itself, or the
// split helper.
func (k *c17Cls) loop() *c17Cls {
	if k.split != nil {
		return k.split.k
	}
	return k
}

// site returns the entry append a call is (nil if none), looking into the split helper too.
func (k *c17Cls) site(call *ssa.Call) *c17Site {
	if s := k.sites[call]; s != nil {
		return s
	}
	if k.split != nil {
		return k.split.k.sites[call]
	}
	return nil
}

func (k *c17Cls) allSites() []*c17Site {
	var out []*c17Site
	for _, s := range k.sites {
		out = append(out, s)
	}
	if k.split != nil {
		for _, s := range k.split.k.sites {
			out = append(out, s)
		}
	}
	return out
}

// isEntry: v is an entry of the list being normalised, read in fn or in the split helper.
func (k *c17Cls) isEntry(v ssa.Value) bool {
	return k.isElem(v) || (k.split != nil && k.split.k.isElem(v))
}

// listHelper returns the same-package function whose result call hands on, when the analysis
// follows it: a plain static call of a loop-free function with a body and a single []string
// result (the selection `choose(pos, inv, all)` moved out of the normaliser).
func (k *c17Cls) listHelper(v ssa.Value) (*ssa.Call, *ssa.Function) {
	call, ok := v.(*ssa.Call)
	if !ok || call.Call.IsInvoke() {
		return nil, nil
	}
	h := call.Call.StaticCallee()
	if h == nil || h.Blocks == nil || h == k.fn || eng.Outermost(h).Pkg != eng.Outermost(k.fn).Pkg || h.Signature.Results().Len() != 1 ||
		!c17IsStringSlice(h.Signature.Results().At(0).Type()) || len(call.Call.Args) != len(h.Params) {
		return nil, nil
	}
	if k.split != nil && h == k.split.k.fn {
		return nil, nil
	}
	if !c17IsSelection(h, 2) {
		return nil, nil // a helper that builds or cuts a list itself is not a selection
	}
	return call, h
}

// c17IsSelection reports whether h only chooses among its arguments and list literals:
// loop-free, no calls but len/cap (and nested selections), no slicing, indexing, appending or
// memory traffic other than building a literal. What such a helper returns is one of the
// values it was given (or a constant list) — nothing is dropped, cut or rewritten inside.
func c17IsSelection(h *ssa.Function, depth int) bool {
	if h == nil || h.Blocks == nil || eng.HasLoop(h) || len(h.AnonFuncs) > 0 {
		return false
	}
	literal := func(v ssa.Value) bool {
		al, ok := v.(*ssa.Alloc)
		if !ok {
			return false
		}
		_, isArr := al.Type().Underlying().(*types.Pointer).Elem().Underlying().(*types.Array)
		return isArr
	}
	ok := true
	eng.Instrs(h, func(ins ssa.Instruction) {
		switch x := ins.(type) {
		case *ssa.If, *ssa.Jump, *ssa.Return, *ssa.Phi, *ssa.BinOp, *ssa.DebugRef, *ssa.ChangeType:
		case *ssa.UnOp:
			if x.Op != token.NOT {
				ok = false
			}
		case *ssa.Alloc:
			if !literal(x) {
				ok = false
			}
		case *ssa.IndexAddr:
			if !literal(x.X) {
				ok = false
			}
		case *ssa.Slice:
			if !literal(x.X) || x.Low != nil || x.High != nil {
				ok = false
			}
		case *ssa.Store:
			ia, isIA := x.Addr.(*ssa.IndexAddr)
			if !isIA || !literal(ia.X) {
				ok = false
			}
		case *ssa.Call:
			if c17IsBuiltin(x, "len") || c17IsBuiltin(x, "cap") {
				return
			}
			g := x.Call.StaticCallee()
			if g == nil || x.Call.IsInvoke() || g == h || depth <= 0 || g.Pkg != h.Pkg || g.Signature.Results().Len() != 1 ||
				!c17IsStringSlice(g.Signature.Results().At(0).Type()) || !c17IsSelection(g, depth-1) {
				ok = false
			}
		default:
			ok = false
		}
	})
	return ok
}

// bindCall records the binding of h's parameters at call.
func (k *c17Cls) bindCall(call *ssa.Call, h *ssa.Function) {
	if k.bind == nil {
		k.bind, k.conflict = map[*ssa.Parameter]ssa.Value{}, map[*ssa.Parameter]bool{}
	}
	for i, p := range h.Params {
		if old, ok := k.bind[p]; ok && old != call.Call.Args[i] {
			k.conflict[p] = true
			continue
		}
		k.bind[p] = call.Call.Args[i]
	}
}

func (k *c17Cls) isElem(v ssa.Value) bool {
	ld, ok := v.(*ssa.UnOp)
	if !ok || ld.Op != token.MUL {
		return false
	}
	ia, ok := ld.X.(*ssa.IndexAddr)
	return ok && ia.X == ssa.Value(k.param)
}

func c17SameSubject(a, b ssa.Value) bool {
	if a == b {
		return true
	}
	la, oka := a.(*ssa.UnOp)
	lb, okb := b.(*ssa.UnOp)
	if !oka || !okb || la.Op != token.MUL || lb.Op != token.MUL {
		return false
	}
	ia, oka := la.X.(*ssa.IndexAddr)
	ib, okb := lb.X.(*ssa.IndexAddr)
	return oka && okb && ia.X == ib.X && ia.Index == ib.Index
}

// c17DashTests finds the inversion tests of fn on strings satisfying subj:
// `s[0] == c` / `s[0] != c`, strings.HasPrefix(s, "c"), or a same-package helper h(s) whose
// result is such a test on its parameter.
func c17DashTests(fn *ssa.Function, subj func(ssa.Value) bool, depth int) []c17Test {
	var out []c17Test
	eng.Instrs(fn, func(ins ssa.Instruction) {
		switch x := ins.(type) {
		case *ssa.BinOp:
			if x.Op != token.EQL && x.Op != token.NEQ {
				return
			}
			for _, xy := range [][2]ssa.Value{{x.X, x.Y}, {x.Y, x.X}} {
				lk, ok := xy[0].(*ssa.Index)
				if !ok || !subj(lk.X) {
					continue
				}
				if i, ok := eng.IntConst(lk.Index); !ok || i != 0 {
					continue
				}
				if b, ok := eng.IntConst(xy[1]); ok && b >= 0 && b < 256 {
					out = append(out, c17Test{val: x, when: x.Op == token.EQL, konst: string([]byte{byte(b)}), lookup: lk, subj: lk.X})
				}
			}
		case *ssa.Call:
			if eng.IsCall(x, "strings.HasPrefix") && len(x.Call.Args) == 2 && subj(x.Call.Args[0]) {
				if s, ok := eng.StringConst(x.Call.Args[1]); ok && len(s) == 1 {
					out = append(out, c17Test{val: x, when: true, konst: s, subj: x.Call.Args[0]})
				}
				return
			}
			h := x.Call.StaticCallee()
			if h == nil || h == fn || h.Blocks == nil || depth <= 0 || h.Pkg != fn.Pkg || h.Signature.Results().Len() < 1 {
				return
			}
			for pi, p := range h.Params {
				if pi >= len(x.Call.Args) || !subj(x.Call.Args[pi]) {
					continue
				}
				inner := c17DashTests(h, func(v ssa.Value) bool { return v == ssa.Value(p) }, depth-1)
				if len(inner) != 1 {
					continue
				}
				// the helper's result has truth value w only where the test holds: isInverted(s)
				// (w = true) as well as its De Morgan twin isPositive(s) (w = false); a helper with
				// several results reports the polarity in its single bool result
				// (`value, inverted := splitRule(s)`)
				if h.Signature.Results().Len() == 1 {
					if w, ok := c17ResultImplies(h, 0, inner[0].val, inner[0].when); ok {
						t := inner[0]
						t.val, t.when = x, w
						out = append(out, t)
					}
					continue
				}
				bi := c17BoolResult(h)
				if bi < 0 {
					continue
				}
				if w, ok := c17ResultImplies(h, bi, inner[0].val, inner[0].when); ok {
					for _, ex := range eng.ExtractOf(x, bi) {
						t := inner[0]
						t.val, t.when = ex, w
						out = append(out, t)
					}
				}
			}
		}
	})
	return out
}

// c17ResultImplies finds the truth value w of the single boolean result of helper h such that
// "h(…) == w" implies "v == want" (v a boolean value of h): on every return the result either
// is a constant different from w or implies v == want (through !, && / || phis).
func c17ResultImplies(h *ssa.Function, idx int, v ssa.Value, want bool) (bool, bool) {
	rets := c17Returns(h)
	for _, w := range []bool{true, false} {
		ok, some := len(rets) > 0, false
		for _, r := range rets {
			if idx >= len(r.Results) {
				ok = false
				break
			}
			rv := eng.ReturnResults(r)[idx]
			// a constant result of the wanted truth value is fine where the test is known to hold
			// on the way to the return (`if len(s) > 0 && s[0] == '-' { return s[1:], true }`)
			if eng.IsBoolConst(rv, w) {
				held := false
				for _, g := range eng.GuardsOf(r) {
					if t, known := eng.GuardImplies(g, v); known && t == want {
						held = true
					}
				}
				if held {
					some = true
					continue
				}
				ok = false
				continue
			}
			if eng.IsBoolConst(rv, !w) {
				continue
			}
			if t, known := eng.CondImplies(rv, w, v); known && t == want {
				some = true
				continue
			}
			ok = false
		}
		if ok && some {
			return w, true
		}
	}
	return false, false
}

// c17StarTests finds the comparisons of strings satisfying subj with a string constant:
// `s == "c"` / `s != "c"` in fn, or a same-package helper h(s) returning exactly such a
// comparison of its parameter (possibly negated) — `isMatchAll(r)`.
func c17StarTests(fn *ssa.Function, subj func(ssa.Value) bool, depth int) []c17Test {
	var out []c17Test
	eng.Instrs(fn, func(ins ssa.Instruction) {
		switch x := ins.(type) {
		case *ssa.BinOp:
			if x.Op != token.EQL && x.Op != token.NEQ {
				return
			}
			for _, xy := range [][2]ssa.Value{{x.X, x.Y}, {x.Y, x.X}} {
				if s, ok := eng.StringConst(xy[1]); ok && subj(xy[0]) {
					out = append(out, c17Test{val: x, when: x.Op == token.EQL, konst: s, subj: xy[0]})
				}
			}
		case *ssa.Call:
			h := x.Call.StaticCallee()
			if h == nil || h == fn || h.Blocks == nil || depth <= 0 || h.Pkg != fn.Pkg || h.Signature.Results().Len() != 1 {
				return
			}
			rets := c17Returns(h)
			if len(rets) != 1 || len(rets[0].Results) != 1 {
				return
			}
			for pi, p := range h.Params {
				if pi >= len(x.Call.Args) || !subj(x.Call.Args[pi]) {
					continue
				}
				inner := c17StarTests(h, func(v ssa.Value) bool { return v == ssa.Value(p) }, depth-1)
				if len(inner) != 1 {
					continue
				}
				// exactness: the result is the comparison itself or its negation
				rv, neg := rets[0].Results[0], false
				for {
					u, isNot := rv.(*ssa.UnOp)
					if !isNot || u.Op != token.NOT {
						break
					}
					rv, neg = u.X, !neg
				}
				if rv == inner[0].val {
					st := inner[0]
					st.val, st.subj = x, x.Call.Args[pi]
					if neg {
						st.when = !st.when
					}
					out = append(out, st)
				}
			}
		}
	})
	return out
}

// c17Classify analyses fn as a classifier of the entries of its []string parameter p.
func c17Classify(w *eng.World, fn *ssa.Function, p *ssa.Parameter, depth int) *c17Cls {
	k := &c17Cls{w: w, fn: fn, param: p, sites: map[*ssa.Call]*c17Site{}}
	k.stars = c17StarTests(fn, k.isElem, depth)
	k.dashes = c17DashTests(fn, k.isElem, depth)
	// WithArgs: an entry may pass through a per-entry helper before it is appended
	// (`value, inverted := splitRule(r)`): the helper's result derives from its argument
	sl := (&eng.Slicer{W: w, Depth: 0}).WithArgs()
	for _, ci := range eng.Calls(fn) {
		call, ok := ci.(*ssa.Call)
		if !ok || !c17IsBuiltin(call, "append") || len(call.Call.Args) != 2 {
			continue
		}
		fromElem := false
		for _, e := range c17LiteralElems(call.Call.Args[1]) {
			if sl.DerivesFrom(e, k.isElem) {
				fromElem = true
			}
		}
		if !fromElem {
			continue
		}
		s := &c17Site{call: call}
		// the append runs only where the entry is known to be inverted: a guard that is the
		// inversion test itself, its negation, or a named condition built from it with && / ||
		// (`isPositive := len(r) == 0 || r[0] != '-'`; the else branch implies r[0] == '-')
		for _, g := range eng.GuardsOf(call) {
			for _, d := range k.dashes {
				if t, ok := eng.GuardImplies(g, d.val); ok && t == d.when {
					s.inverted = true
				}
			}
		}
		k.sites[call] = s
	}
	return k
}

// c17LiteralElems returns the values stored into the backing array of a slice literal or
// variadic argument (`slice (new [n]T)[:]`); nil when v is not of that shape.
func c17LiteralElems(v ssa.Value) []ssa.Value {
	sl, ok := v.(*ssa.Slice)
	if !ok {
		return nil
	}
	al, ok := sl.X.(*ssa.Alloc)
	if !ok {
		return nil
	}
	if _, isArr := al.Type().Underlying().(*types.Pointer).Elem().Underlying().(*types.Array); !isArr {
		return nil
	}
	out := []ssa.Value{}
	for _, ref := range *al.Referrers() {
		ia, ok := ref.(*ssa.IndexAddr)
		if !ok {
			continue
		}
		for _, rr := range *ia.Referrers() {
			if st, ok := rr.(*ssa.Store); ok && st.Addr == ssa.Value(ia) {
				out = append(out, st.Val)
			}
		}
	}
	return out
}

func c17IsLiteral(v ssa.Value) bool {
	sl, ok := v.(*ssa.Slice)
	if !ok {
		return false
	}
	al, ok := sl.X.(*ssa.Alloc)
	if !ok {
		return false
	}
	_, isArr := al.Type().Underlying().(*types.Pointer).Elem().Underlying().(*types.Array)
	return isArr
}

// c17Origin is what a list value is made of.
type c17Origin struct {
	sites   map[*ssa.Call]bool // entry appends feeding the list
	elems   []ssa.Value        // every element value put into the list (appended or literal)
	input   bool               // the classified parameter itself (or a reslice of it)
	unknown []ssa.Value        // anything the walk cannot see through
}

func (k *c17Cls) origin(v ssa.Value) c17Origin {
	o := c17Origin{sites: map[*ssa.Call]bool{}}
	seen := map[ssa.Value]bool{}
	var walk func(v ssa.Value)
	walk = func(v ssa.Value) {
		if v == nil || seen[v] {
			return
		}
		seen[v] = true
		switch x := v.(type) {
		case *ssa.Phi:
			for _, e := range x.Edges {
				walk(e)
			}
		case *ssa.Const:
			if !x.IsNil() {
				o.unknown = append(o.unknown, v)
			}
		case *ssa.Parameter:
			if x == k.param {
				o.input = true
			} else if b, ok := k.bind[x]; ok && !k.conflict[x] {
				walk(b)
			} else {
				o.unknown = append(o.unknown, v)
			}
		case *ssa.Extract:
			// a list handed out by the split helper: what the helper's returns put there
			if k.split == nil || x.Tuple != ssa.Value(k.split.call) {
				o.unknown = append(o.unknown, v)
				return
			}
			n := 0
			for _, r := range c17Returns(k.split.k.fn) {
				res := eng.ReturnResults(r)
				if x.Index >= len(res) {
					continue
				}
				n++
				sub := k.split.k.origin(res[x.Index])
				for c := range sub.sites {
					o.sites[c] = true
				}
				o.elems = append(o.elems, sub.elems...)
				o.unknown = append(o.unknown, sub.unknown...)
				if sub.input {
					if k.split.call.Call.Args[eng.ParamIndex(k.split.k.param)] == ssa.Value(k.param) {
						o.input = true
					} else {
						o.unknown = append(o.unknown, v)
					}
				}
			}
			if n == 0 {
				o.unknown = append(o.unknown, v)
			}
		case *ssa.MakeSlice:
			if n, ok := eng.IntConst(x.Len); !ok || n != 0 {
				o.unknown = append(o.unknown, v)
			}
		case *ssa.Slice:
			if c17IsLiteral(x) {
				o.elems = append(o.elems, c17LiteralElems(x)...)
				return
			}
			if _, isSlice := x.X.Type().Underlying().(*types.Slice); isSlice {
				walk(x.X)
				return
			}
			o.unknown = append(o.unknown, v)
		case *ssa.Call:
			if c17IsBuiltin(x, "append") && len(x.Call.Args) == 2 {
				if k.sites[x] != nil {
					o.sites[x] = true
				}
				walk(x.Call.Args[0])
				walk(x.Call.Args[1])
				return
			}
			// the result of a same-package selection helper: what its returns yield, with its
			// parameters bound to the arguments
			if call, h := k.listHelper(x); h != nil {
				k.bindCall(call, h)
				for _, r := range c17Returns(h) {
					walk(eng.ReturnResults(r)[0])
				}
				return
			}
			o.unknown = append(o.unknown, v)
		case *ssa.UnOp:
			// named result / captured local kept in memory: what is stored into the cell
			if al, ok := x.X.(*ssa.Alloc); ok && x.Op == token.MUL {
				for _, ref := range *al.Referrers() {
					if st, ok := ref.(*ssa.Store); ok && st.Addr == ssa.Value(al) {
						walk(st.Val)
					}
				}
				return
			}
			o.unknown = append(o.unknown, v)
		default:
			o.unknown = append(o.unknown, v)
		}
	}
	walk(v)
	return o
}

func (k *c17Cls) kinds(o c17Origin) (pos, inv bool) {
	for s := range o.sites {
		if k.site(s).inverted {
			inv = true
		} else {
			pos = true
		}
	}
	return
}

// positiveLen interprets a relation as a statement about the number of positive entries:
// +1 "some positive entry exists", -1 "none exists", 0 unrelated. The list measured must be
// fed by every positive append and by no inverted one.
func (k *c17Cls) positiveLen(r eng.Rel, isPos func(ssa.Value) bool) int {
	op, x, y := r.Op, r.X, r.Y
	lenOf := func(v ssa.Value) ssa.Value {
		call, ok := v.(*ssa.Call)
		if ok && c17IsBuiltin(call, "len") && len(call.Call.Args) == 1 {
			return call.Call.Args[0]
		}
		return nil
	}
	if lenOf(x) == nil && lenOf(y) != nil {
		op, x, y = eng.FlipOp(op), y, x
	}
	l := lenOf(x)
	n, isN := eng.IntConst(y)
	if l == nil || !isN || !isPos(l) {
		return 0
	}
	switch {
	case (op == token.GTR && n == 0) || (op == token.NEQ && n == 0) || (op == token.GEQ && n == 1):
		return 1
	case (op == token.LEQ && n == 0) || (op == token.EQL && n == 0) || (op == token.LSS && n == 1):
		return -1
	}
	return 0
}

// isPositiveList: fed by all positive sites of the classifier and no inverted one.
func (k *c17Cls) isPositiveList(v ssa.Value) bool {
	o := k.origin(v)
	if len(o.unknown) > 0 || o.input {
		return false
	}
	n := 0
	for s := range o.sites {
		if k.site(s).inverted {
			return false
		}
		n++
	}
	all := 0
	for _, s := range k.allSites() {
		if !s.inverted {
			all++
		}
	}
	return n > 0 && n == all
}

// c17EdgesWhere returns the CFG edges taken exactly when boolean value v has truth value
// want: the If instructions whose condition is v (possibly negated).
func c17EdgesWhere(fn *ssa.Function, v ssa.Value, want bool) []c17Edge {
	var out []c17Edge
	for _, b := range fn.Blocks {
		if len(b.Instrs) == 0 || len(b.Succs) != 2 || b.Succs[0] == b.Succs[1] {
			continue
		}
		iff, ok := b.Instrs[len(b.Instrs)-1].(*ssa.If)
		if !ok {
			continue
		}
		if t, ok := eng.CondHolds(eng.Guard{If: iff, Branch: true}, v); ok {
			// taking Succs[0] means v == t
			if t == want {
				out = append(out, c17Edge{b, 0})
			} else {
				out = append(out, c17Edge{b, 1})
			}
		}
	}
	return out
}

func (k *c17Cls) edgesOf(ts []c17Test) []c17Edge {
	var out []c17Edge
	for _, t := range ts {
		out = append(out, c17EdgesWhere(k.fn, t.val, t.when)...)
	}
	return out
}

// leaves expands v through the phis that merge alternatives (not the loop-carried
// accumulators of a list under construction) into guarded leaves.
func (k *c17Cls) leaves(v ssa.Value) []eng.GuardedLeaf {
	var reaches func(v ssa.Value, target *ssa.Phi, seen map[ssa.Value]bool) bool
	reaches = func(v ssa.Value, target *ssa.Phi, seen map[ssa.Value]bool) bool {
		if v == ssa.Value(target) {
			return true
		}
		if v == nil || seen[v] {
			return false
		}
		seen[v] = true
		switch x := v.(type) {
		case *ssa.Phi:
			for _, e := range x.Edges {
				if reaches(e, target, seen) {
					return true
				}
			}
		case *ssa.Call:
			if c17IsBuiltin(x, "append") {
				for _, a := range x.Call.Args {
					if reaches(a, target, seen) {
						return true
					}
				}
			}
		case *ssa.Slice:
			return reaches(x.X, target, seen)
		}
		return false
	}
	var out []eng.GuardedLeaf
	var walk func(v ssa.Value, gs []eng.Guard, depth int)
	walk = func(v ssa.Value, gs []eng.Guard, depth int) {
		if depth <= 6 {
			// a parameter of a followed selection helper stands for the argument; the result of
			// such a helper for what its returns yield, under the guards of the returning block
			if p, isP := v.(*ssa.Parameter); isP && p != k.param {
				if b, bound := k.bind[p]; bound && !k.conflict[p] {
					walk(b, gs, depth+1)
					return
				}
			}
			if call, h := k.listHelper(v); h != nil {
				k.bindCall(call, h)
				for _, r := range c17Returns(h) {
					ng := append(append([]eng.Guard{}, gs...), eng.GuardsOf(r)...)
					walk(eng.ReturnResults(r)[0], ng, depth+1)
				}
				return
			}
		}
		phi, ok := v.(*ssa.Phi)
		cyclic := false
		if ok {
			for _, e := range phi.Edges {
				if reaches(e, phi, map[ssa.Value]bool{}) {
					cyclic = true
				}
			}
		}
		if !ok || cyclic || depth > 6 {
			out = append(out, eng.GuardedLeaf{V: v, Guards: gs})
			return
		}
		for i, e := range phi.Edges {
			ng := append(append([]eng.Guard{}, gs...), eng.EdgeGuards(phi.Block().Preds[i], phi.Block())...)
			walk(e, ng, depth+1)
		}
	}
	walk(v, nil, 0)
	return out
}

func c17Consts(ts []c17Test) []string {
	m := map[string]bool{}
	for _, t := range ts {
		m[t.konst] = true
	}
	var out []string
	for s := range m {
		out = append(out, s)
	}
	sort.Strings(out)
	return out
}

// c17Result is one decided fact of a template.
type c17Result struct {
	construct string
	pos       token.Pos
	ok        bool
	undecided bool
	detail    string
}

func c17Returns(fn *ssa.Function) []*ssa.Return {
	var out []*ssa.Return
	eng.Instrs(fn, func(i ssa.Instruction) {
		if r, ok := i.(*ssa.Return); ok {
			out = append(out, r)
		}
	})
	return out
}

// lenGuard: every indexing inversion test is control dependent on len(subject) > 0.
func c17LenGuard(k *c17Cls) c17Result {
	res := c17Result{construct: "len>0 tested before indexing the entry", pos: k.fn.Pos(), ok: true,
		detail: "r[0] on an empty entry (the legacy API group \"\") panics; both siblings must test the length first"}
	n := 0
	for _, d := range k.dashes {
		if d.lookup == nil {
			continue
		}
		n++
		g := eng.GuardedBy(d.lookup, func(r eng.Rel) bool {
			op, x, y := r.Op, r.X, r.Y
			isLen := func(v ssa.Value) bool {
				call, ok := v.(*ssa.Call)
				return ok && c17IsBuiltin(call, "len") && len(call.Call.Args) == 1 && c17SameSubject(call.Call.Args[0], d.subj)
			}
			if !isLen(x) && isLen(y) {
				op, x, y = eng.FlipOp(op), y, x
			}
			c, isC := eng.IntConst(y)
			return isLen(x) && isC && ((op == token.GTR && c == 0) || (op == token.NEQ && c == 0) || (op == token.GEQ && c == 1))
		})
		if !g {
			res.ok = false
		}
	}
	if n == 0 && len(k.dashes) > 0 {
		res.detail = "the inversion test does not index the entry (prefix test)"
	}
	if len(k.dashes) == 0 {
		res.ok, res.detail = false, "no inversion test found"
	}
	return res
}

// ---------------------------------------------------------------------------------------
// template: the normaliser  N : []string -> []string

func (k *c17Cls) isStarSingleton(v ssa.Value, star string) bool {
	o := k.origin(v)
	if len(o.unknown) > 0 || o.input || len(o.sites) > 0 || len(o.elems) != 1 {
		return false
	}
	s, ok := eng.StringConst(o.elems[0])
	return ok && s == star
}

func (k *c17Cls) hasConstElem(v ssa.Value) bool {
	for _, e := range k.origin(v).elems {
		if _, ok := e.(*ssa.Const); ok {
			return true
		}
	}
	return false
}

// c17BadReturn reports whether return r yields a list satisfying bad. When r hands on the
// result of a followed selection helper (`return choose(pos, inv, all)`) the question is asked
// of the helper's own returns: those reachable when the helper is entered with the truth values
// the caller knows for its boolean arguments (known), cut edges removed.
func (k *c17Cls) c17BadReturn(r *ssa.Return, known eng.KnownFn, cut func(*ssa.BasicBlock, int) bool, bad func(ssa.Value) bool, depth int) bool {
	res := eng.ReturnResults(r)
	if len(res) != 1 {
		return true
	}
	call, h := k.listHelper(res[0])
	if h == nil || depth <= 0 {
		return bad(res[0])
	}
	k.bindCall(call, h)
	assume := eng.BoolFacts{}
	for i, p := range h.Params {
		if b, isB := p.Type().Underlying().(*types.Basic); isB && b.Kind() == types.Bool {
			if val, ok := known(call.Call.Args[i]); ok {
				assume[p] = val
			}
		}
	}
	return eng.FactReachFromEntry(h, eng.FactQuery{Assume: assume, CutEdge: cut, Target: func(i ssa.Instruction, known2 eng.KnownFn) bool {
		r2, isR := i.(*ssa.Return)
		return isR && k.c17BadReturn(r2, known2, cut, bad, depth-1)
	}}) != nil
}

// c17CheckNormaliser decides R2 and the normaliser half of R3 for classifier k of a
// function []string -> []string; star is the matcher's match-all constant. The entries may be
// classified in k.fn itself or in the split helper it hands the list to (k.split): then the
// helper's match-all flag stands for "an entry is the constant" in k.fn, provided the helper
// sets the flag on the entry=="*" edges and nowhere else.
func c17CheckNormaliser(k *c17Cls, star string) []c17Result {
	var out []c17Result
	fn := k.fn
	lp := k.loop()
	rets := c17Returns(fn)
	starEdges := lp.edgesOf(lp.stars)
	cutStar := func(from *ssa.BasicBlock, succ int) bool {
		for _, e := range starEdges {
			if e.from == from && e.succ == succ {
				return true
			}
		}
		return false
	}
	// the flag values of the split call in fn
	flagFacts := func(val bool) eng.BoolFacts {
		f := eng.BoolFacts{}
		if k.split != nil {
			for _, ex := range eng.ExtractOf(k.split.call, k.split.flag) {
				f[ex] = val
			}
		}
		return f
	}
	isSplitCall := func(i ssa.Instruction) bool { return k.split != nil && i == ssa.Instruction(k.split.call) }

	// R2a: elements are input entries, verbatim, or the match-all constant
	{
		res := c17Result{construct: "every element of a returned list is an input entry verbatim or the match-all constant", pos: fn.Pos(), ok: len(rets) > 0,
			detail: "an entry that is rewritten (e.g. its '-' stripped) is classified differently by the matcher: [\"-get\"] would be stored as [\"get\"]"}
		var bad []string
		for _, r := range rets {
			if len(r.Results) != 1 {
				res.ok = false
				continue
			}
			o := k.origin(eng.ReturnResults(r)[0])
			for _, u := range o.unknown {
				res.undecided = true
				bad = append(bad, "unclassified list source "+u.String())
			}
			for _, e := range o.elems {
				if k.isEntry(e) {
					continue
				}
				if s, ok := eng.StringConst(e); ok && s == star {
					continue
				}
				res.ok = false
				bad = append(bad, "element "+e.String())
			}
		}
		if len(bad) > 0 {
			res.detail += "; " + strings.Join(dedupStrings(bad), ", ")
		}
		out = append(out, res)
	}

	// R2b: no entry is dropped: from the point an entry is read, a path that reaches the next
	// entry or an exit without appending it must go through the match-all edge
	{
		res := c17Result{construct: "every entry is appended to a list (or is the match-all entry)", pos: fn.Pos(), ok: true,
			detail: "a dropped entry changes emptiness or content: apiGroups [\"\"] normalised to [] matches nothing, resourceNames [\"x\"] normalised to [] matches everything"}
		n := 0
		eng.Instrs(lp.fn, func(ins ssa.Instruction) {
			v, isV := ins.(ssa.Value)
			if !isV || !lp.isElem(v) {
				return
			}
			n++
			x := eng.ReachAfter(ins, eng.PathQuery{
				Target: func(i ssa.Instruction) bool {
					if i == ins || eng.IsExit(i) {
						return true
					}
					// another read of an entry with a different index is the next iteration
					if w, ok := i.(ssa.Value); ok && lp.isElem(w) && !c17SameSubject(v, w) {
						return true
					}
					return false
				},
				Avoid: func(i ssa.Instruction) bool {
					call, ok := i.(*ssa.Call)
					if !ok || lp.sites[call] == nil {
						return false
					}
					for _, e := range c17LiteralElems(call.Call.Args[1]) {
						if c17SameSubject(e, v) {
							return true
						}
					}
					return false
				},
				BlockEdge: cutStar,
			})
			if x != nil {
				res.ok = false
			}
		})
		if n == 0 {
			res.ok, res.detail = false, "the function never reads an entry of its parameter"
		}
		out = append(out, res)
	}

	constList := func(v ssa.Value) bool { return k.hasConstElem(v) }
	notStarOnly := func(v ssa.Value) bool { return !k.isStarSingleton(v, star) }

	// R2c: the constant list is produced only when some entry is the match-all constant
	{
		ok := len(starEdges) > 0
		target := func(i ssa.Instruction, known eng.KnownFn) bool {
			r, isR := i.(*ssa.Return)
			return isR && k.c17BadReturn(r, known, cutStar, constList, eng.LiftDepth)
		}
		if k.split == nil {
			ok = ok && eng.FactReachFromEntry(fn, eng.FactQuery{CutEdge: cutStar, Target: target}) == nil
		} else {
			// the helper raises its flag only on an entry=="*" edge …
			bi := k.split.flag
			ok = ok && eng.FactReachFromEntry(lp.fn, eng.FactQuery{CutEdge: cutStar, Target: func(i ssa.Instruction, known eng.KnownFn) bool {
				r, isR := i.(*ssa.Return)
				if !isR {
					return false
				}
				v, known2 := known(eng.ReturnResults(r)[bi])
				return !known2 || v
			}}) == nil
			// … and without the flag no constant list is returned: neither before the helper
			// ran nor after it reported false
			ok = ok && eng.FactReachFromEntry(fn, eng.FactQuery{Avoid: isSplitCall, Target: target}) == nil
			ok = ok && eng.FactReachAfter(k.split.call, eng.FactQuery{Assume: flagFacts(false), Target: target}) == nil
		}
		out = append(out, c17Result{construct: "the match-all list is returned only if an entry is the match-all constant", pos: fn.Pos(),
			ok:     ok,
			detail: "with the entry==\"*\" edges removed no return of a constant list may be reachable: verbs [] (matches nothing) must not become [\"*\"]"})
	}

	// R3: "*" wins — after an entry equal to the constant every return yields exactly [const]
	{
		ok := len(starEdges) > 0
		target := func(i ssa.Instruction, known eng.KnownFn) bool {
			r, isR := i.(*ssa.Return)
			return isR && k.c17BadReturn(r, known, nil, notStarOnly, eng.LiftDepth)
		}
		if k.split == nil {
			for _, e := range starEdges {
				if eng.FactReachFromEdge(e.from, e.succ, eng.FactQuery{Target: target}) != nil {
					ok = false
				}
			}
		} else {
			// after an entry=="*" edge the helper always reports the flag, and with the flag the
			// normaliser returns exactly the constant list
			bi := k.split.flag
			for _, e := range starEdges {
				if eng.FactReachFromEdge(e.from, e.succ, eng.FactQuery{Target: func(i ssa.Instruction, known eng.KnownFn) bool {
					r, isR := i.(*ssa.Return)
					if !isR {
						return false
					}
					v, known2 := known(eng.ReturnResults(r)[bi])
					return !known2 || !v
				}}) != nil {
					ok = false
				}
			}
			if len(flagFacts(true)) == 0 || eng.FactReachAfter(k.split.call, eng.FactQuery{Assume: flagFacts(true), Target: target}) != nil {
				ok = false
			}
		}
		out = append(out, c17Result{construct: "an entry equal to the match-all constant yields exactly [\"*\"]", pos: fn.Pos(), ok: ok,
			detail: "the matcher answers true for any list containing \"*\"; the normalised list must keep that (and only that) entry"})
	}

	lg := c17LenGuard(lp)
	lg.pos = fn.Pos()
	out = append(out, lg)

	// R3: precedence of the returned list
	{
		res := c17Result{construct: "positives shadow inverted entries in the returned list", pos: fn.Pos(), ok: true,
			detail: "the list returned is the positive entries when there is one, the inverted entries otherwise (as the matcher consults them)"}
		var why []string
		sawPos, sawInv := false, false
		for _, r := range rets {
			if len(r.Results) != 1 {
				continue
			}
			for _, lf := range k.leaves(eng.ReturnResults(r)[0]) {
				o := k.origin(lf.V)
				if len(o.unknown) > 0 {
					res.undecided = true
					why = append(why, "unclassified list source")
					continue
				}
				if k.hasConstElem(lf.V) || o.input {
					continue // the match-all list (checked above) or the input itself
				}
				pos, inv := k.kinds(o)
				state := 0
				for _, g := range append(append([]eng.Guard{}, lf.Guards...), eng.GuardsOf(r)...) {
					if s := k.positiveLen(g.Rel(), k.isPositiveList); s != 0 {
						state = s
					}
				}
				switch {
				case pos && inv:
					res.ok = false
					why = append(why, "a returned list holds positive and inverted entries together")
				case inv:
					sawInv = true
					if state != -1 {
						res.ok = false
						why = append(why, "the inverted entries are returned without the test that no positive entry exists")
					}
				case pos:
					sawPos = true
					if state != 1 {
						res.ok = false
						why = append(why, "the positive list is returned without the test that it is non-empty: for [\"-x\"] the inverted entries are lost")
					}
				default:
					// an empty list: only for an empty input
					emptyIn := false
					for _, g := range append(append([]eng.Guard{}, lf.Guards...), eng.GuardsOf(r)...) {
						if k.positiveLen(g.Rel(), func(v ssa.Value) bool { return v == ssa.Value(k.param) }) == -1 {
							emptyIn = true
						}
					}
					if !emptyIn {
						res.ok = false
						why = append(why, "an empty list is returned for a possibly non-empty input")
					}
				}
			}
		}
		if !sawPos {
			res.ok = false
			why = append(why, "no return of the positive entries")
		}
		if !sawInv {
			res.ok = false
			why = append(why, "no return of the inverted entries")
		}
		if len(why) > 0 {
			res.detail = strings.Join(dedupStrings(why), "; ")
		}
		out = append(out, res)
	}
	return out
}

// c17Normaliser classifies fn as a normaliser of its []string parameter p: over its own body
// when it reads the entries itself, otherwise over the same-package helper it hands the list to
// (a function of a []string returning lists and exactly one bool, found by what it compares).
func c17Normaliser(w *eng.World, fn *ssa.Function, p *ssa.Parameter, depth int) *c17Cls {
	k := c17Classify(w, fn, p, depth)
	if len(k.stars) > 0 || len(k.dashes) > 0 || len(k.sites) > 0 {
		return k
	}
	var found *c17Split
	n := 0
	for _, ci := range eng.Calls(fn) {
		call, ok := ci.(*ssa.Call)
		if !ok || call.Call.IsInvoke() {
			continue
		}
		h := call.Call.StaticCallee()
		if h == nil || h.Blocks == nil || h == fn || eng.Outermost(h).Pkg != eng.Outermost(fn).Pkg || len(call.Call.Args) != len(h.Params) {
			continue
		}
		for i, a := range call.Call.Args {
			if a != ssa.Value(p) || !c17IsStringSlice(h.Params[i].Type()) {
				continue
			}
			kh := c17Classify(w, h, h.Params[i], depth)
			if len(kh.stars) == 0 || len(kh.dashes) == 0 {
				continue
			}
			n++
			if bi := c17BoolResult(h); bi >= 0 {
				found = &c17Split{call: call, k: kh, flag: bi}
			}
		}
	}
	if n == 1 && found != nil {
		k.split = found
	}
	return k
}

// funcsCalling returns the static call sites of h in funcs.
func funcsCalling(funcs []*ssa.Function, h *ssa.Function) []ssa.CallInstruction {
	var out []ssa.CallInstruction
	for _, g := range funcs {
		out = append(out, eng.CallsToFn(g, h)...)
	}
	return out
}

func dedupStrings(in []string) []string {
	seen := map[string]bool{}
	var out []string
	for _, s := range in {
		if !seen[s] {
			seen[s] = true
			out = append(out, s)
		}
	}
	return out
}

// ---------------------------------------------------------------------------------------
// template: the matcher's classifier and its consumers

func c17BoolResult(fn *ssa.Function) int {
	idx := -1
	rs := fn.Signature.Results()
	for i := 0; i < rs.Len(); i++ {
		if b, ok := rs.At(i).Type().Underlying().(*types.Basic); ok && b.Kind() == types.Bool {
			if idx >= 0 {
				return -2
			}
			idx = i
		}
	}
	return idx
}

// c17CheckMatcher decides the matcher half of R3 for classifier k; funcs are the functions
// of its package (the consumers of its results are searched there).
func c17CheckMatcher(k *c17Cls, funcs []*ssa.Function) []c17Result {
	var out []c17Result
	fn := k.fn
	rets := c17Returns(fn)
	starEdges := k.edgesOf(k.stars)
	cutStar := func(from *ssa.BasicBlock, succ int) bool {
		for _, e := range starEdges {
			if e.from == from && e.succ == succ {
				return true
			}
		}
		return false
	}
	out = append(out, c17LenGuard(k))

	// ---- "*" ⇒ match-all flag, and only then
	bi := c17BoolResult(fn)
	{
		res := c17Result{construct: "an entry equal to the match-all constant sets the match-all result, nothing else does", pos: fn.Pos(), ok: len(starEdges) > 0}
		if bi < 0 {
			res.undecided, res.detail = true, "the classifier does not report match-all through a single bool result"
		} else {
			for _, e := range starEdges {
				if eng.FactReachFromEdge(e.from, e.succ, eng.FactQuery{Target: func(i ssa.Instruction, known eng.KnownFn) bool {
					r, isR := i.(*ssa.Return)
					if !isR {
						return false
					}
					v, ok := known(r.Results[bi])
					return !ok || !v
				}}) != nil {
					res.ok = false
				}
			}
			if eng.FactReachFromEntry(fn, eng.FactQuery{CutEdge: cutStar, Target: func(i ssa.Instruction, known eng.KnownFn) bool {
				r, isR := i.(*ssa.Return)
				if !isR {
					return false
				}
				v, ok := known(r.Results[bi])
				return !ok || v
			}}) != nil {
				res.ok = false
			}
			res.detail = "after the entry==\"*\" edge every return reports match-all; with those edges removed no return does"
		}
		out = append(out, res)
	}

	// ---- consumers short-circuit to true on match-all
	type use struct {
		fn   *ssa.Function
		call *ssa.Call
	}
	var uses []use
	for _, g := range funcs {
		for _, ci := range eng.CallsToFn(g, fn) {
			if call, ok := ci.(*ssa.Call); ok {
				uses = append(uses, use{g, call})
			}
		}
	}
	if bi >= 0 {
		for _, u := range uses {
			res := c17Result{construct: "match-all short-circuits to true in " + u.fn.Name(), pos: u.call.Pos(), ok: true,
				detail: "on the edge where the classifier reports match-all every return of the consumer is true"}
			exs := eng.ExtractOf(u.call, bi)
			n := 0
			for _, ex := range exs {
				for _, ed := range c17EdgesWhere(u.fn, ex, true) {
					n++
					if eng.FactReachFromEdge(ed.from, ed.succ, eng.FactQuery{Assume: eng.BoolFacts{ex: true}, Target: func(i ssa.Instruction, known eng.KnownFn) bool {
						r, isR := i.(*ssa.Return)
						if !isR {
							return false
						}
						if len(r.Results) != 1 {
							return true
						}
						v, ok := known(r.Results[0])
						return !ok || !v
					}}) != nil {
						res.ok = false
					}
				}
			}
			if n == 0 {
				res.ok, res.detail = false, "the consumer does not branch on the match-all result"
			}
			out = append(out, res)
		}
		if len(uses) == 0 {
			out = append(out, c17Result{construct: "match-all short-circuits to true", pos: fn.Pos(), ok: false, detail: "the classifier has no consumer in its package"})
		}
	}

	// ---- precedence: inverted entries are consulted only when no positive entry exists
	{
		res := c17Result{construct: "inverted entries are consulted only when no positive entry exists", pos: fn.Pos(), ok: true,
			detail: "on the edge where a positive entry exists the result has no origin in the inverted entries (dropped by the classifier, or never consulted by its consumers)"}
		var why []string
		tainted := map[int]bool{}
		posOnly := map[int]bool{}
		notPosOnly := map[int]bool{}
		nInv := 0
		for _, s := range k.sites {
			if s.inverted {
				nInv++
			}
		}
		if nInv == 0 || nInv == len(k.sites) {
			res.ok = false
			why = append(why, fmt.Sprintf("%d appends of entries, %d of them on the inverted edge: positive and inverted entries are not kept apart", len(k.sites), nInv))
		}
		for _, r := range rets {
			for idx, rv := range r.Results {
				if _, isSlice := rv.Type().Underlying().(*types.Slice); !isSlice {
					continue
				}
				for _, lf := range k.leaves(rv) {
					o := k.origin(lf.V)
					if len(o.unknown) > 0 || o.input {
						res.undecided = true
						why = append(why, "unclassified list source in a result")
						continue
					}
					pos, inv := k.kinds(o)
					if inv {
						notPosOnly[idx] = true
						state := 0
						for _, g := range append(append([]eng.Guard{}, lf.Guards...), eng.GuardsOf(r)...) {
							if s := k.positiveLen(g.Rel(), k.isPositiveList); s != 0 {
								state = s
							}
						}
						if state != -1 || pos {
							tainted[idx] = true
						}
					} else if pos {
						posOnly[idx] = true
					}
				}
			}
		}
		for i := range notPosOnly {
			delete(posOnly, i)
		}
		if len(tainted) > 0 {
			// the classifier hands the inverted entries out unconditionally: every consumer must
			// consult them under `no positive entry`
			for _, u := range uses {
				// bind: parameters of the same-package helpers the lists are handed on to
				// (`decide(positive, inverted, …)`), bound to the consumer's values
				bind := map[*ssa.Parameter]ssa.Value{}
				isPosOfCall := func(v ssa.Value) bool {
					for i := 0; i < 8; i++ {
						p, isP := v.(*ssa.Parameter)
						if !isP {
							break
						}
						b, bound := bind[p]
						if !bound {
							break
						}
						v = b
					}
					call, idx := eng.CallResultOf(v)
					return call == u.call && posOnly[idx]
				}
				// consult: every use of val (the inverted entries) lies behind `no positive entry`
				var consult func(val ssa.Value, depth int)
				consult = func(val ssa.Value, depth int) {
					if val.Referrers() == nil {
						return
					}
					for _, ref := range *val.Referrers() {
						switch x := ref.(type) {
						case *ssa.DebugRef:
							continue
						case *ssa.Call:
							if c17IsBuiltin(x, "len") || c17IsBuiltin(x, "cap") {
								continue
							}
						case *ssa.Phi, *ssa.Return, *ssa.Store:
							res.undecided = true
							why = append(why, "the inverted entries flow on from "+u.fn.Name()+" (not followed)")
							continue
						}
						state := 0
						for _, g := range eng.GuardsOf(ref) {
							if s := k.positiveLen(g.Rel(), isPosOfCall); s != 0 {
								state = s
							}
						}
						if state == -1 {
							continue
						}
						// handed on to a same-package helper without the test: the helper must make it
						if call, isCall := ref.(*ssa.Call); isCall && depth > 0 && !call.Call.IsInvoke() {
							if h := call.Call.StaticCallee(); h != nil && h.Blocks != nil && h != k.fn && h.Pkg == u.fn.Pkg && len(call.Call.Args) == len(h.Params) && len(funcsCalling(funcs, h)) == 1 {
								var ps []*ssa.Parameter
								for i, a := range call.Call.Args {
									bind[h.Params[i]] = a
									if a == val {
										ps = append(ps, h.Params[i])
									}
								}
								for _, p := range ps {
									consult(p, depth-1)
								}
								continue
							}
						}
						res.ok = false
						why = append(why, u.fn.Name()+" consults the inverted entries without the test that no positive entry exists")
					}
				}
				for idx := range tainted {
					for _, ex := range eng.ExtractOf(u.call, idx) {
						consult(ex, eng.LiftDepth)
					}
				}
			}
		}
		if len(why) > 0 {
			res.detail = strings.Join(dedupStrings(why), "; ")
		}
		out = append(out, res)
	}
	return out
}

// ---------------------------------------------------------------------------------------
// the property

func c17SamePlace(a, b ssa.Value, depth int) bool {
	if a == b {
		return true
	}
	if depth > 16 {
		return false
	}
	switch x := a.(type) {
	case *ssa.UnOp:
		y, ok := b.(*ssa.UnOp)
		return ok && x.Op == token.MUL && y.Op == token.MUL && c17SamePlace(x.X, y.X, depth+1)
	case *ssa.FieldAddr:
		y, ok := b.(*ssa.FieldAddr)
		return ok && x.Field == y.Field && c17SamePlace(x.X, y.X, depth+1)
	case *ssa.IndexAddr:
		y, ok := b.(*ssa.IndexAddr)
		return ok && x.Index == y.Index && c17SamePlace(x.X, y.X, depth+1)
	}
	return false
}

func c17Emit(c *eng.Ctx, rule string, fn *ssa.Function, prefix string, rs []c17Result) {
	for _, r := range rs {
		switch {
		case r.undecided:
			c.Undecided(rule, fn, prefix+r.construct, r.pos, r.detail)
		default:
			c.Check(rule, fn, prefix+r.construct, r.pos, r.ok, r.detail)
		}
	}
}

func c17(c *eng.Ctx) {
	c.Rule("R1", "field exhaustiveness: every field f of DispatchPolicyRule (enumerated from the type) in the value returned by the rule normaliser is N(in.f) or in.f of the same field — string lists through one normaliser N, everything else verbatim — and Admit stores the normalised rule into the element it was read from", 10)
	c.Rule("R2", "N keeps entries: every element of a returned list is an input entry verbatim or the match-all constant, no entry is dropped, and the constant list is produced only for an input holding the constant (so emptiness is preserved)", 3)
	c.Rule("R3", "sibling agreement between the plugin's normaliser and the matcher's classifier: same match-all constant, same inversion byte, len>0 tested before r[0], positives shadow inverted entries, \"*\" wins on both sides", 10)

	ruleT := c.W.Named(pkgV1alpha1, "DispatchPolicyRule")
	if ruleT == nil {
		c.Fail("engine", nil, "unresolved-anchor type "+c17RuleType, 0, "type not found")
		return
	}
	st, _ := ruleT.Underlying().(*types.Struct)
	if st == nil {
		c.Fail("engine", nil, "unresolved-anchor type "+c17RuleType, 0, "not a struct")
		return
	}

	// ---- the rule normaliser: func(DispatchPolicyRule) DispatchPolicyRule of the plugin package
	var norms []*ssa.Function
	for _, fn := range c.W.FuncsOf(pkgAdmission) {
		sig := fn.Signature
		if fn.Parent() == nil && sig.Recv() == nil && sig.Params().Len() == 1 && sig.Results().Len() == 1 &&
			types.Identical(sig.Params().At(0).Type(), ruleT) && types.Identical(sig.Results().At(0).Type(), ruleT) {
			norms = append(norms, fn)
		}
	}
	if len(norms) != 1 {
		c.Fail("engine", nil, "unresolved-anchor func(DispatchPolicyRule) DispatchPolicyRule in "+pkgAdmission, 0, fmt.Sprintf("%d candidates", len(norms)))
		return
	}
	norm := norms[0]
	in := norm.Params[0]

	// ---- R1: fields of the returned value
	// The result is assembled in local struct cells: a literal (`DispatchPolicyRule{…}`: one cell,
	// every field stored), the spilled by-value parameter updated in place (`in.f = N(in.f);
	// return in`), or a copy of it (`out := in; out.f = N(in.f); return out`). Every local cell
	// of the rule type is examined: it may be written as a whole only with the parameter or with
	// the content of another such cell, and field f of any cell may only ever be stored
	// in.f or N(in.f) — so whatever cell is returned, its field f holds in.f, N(in.f), or (a cell
	// never initialised from the parameter) the zero value of a field that was not set.
	type cell struct {
		al        *ssa.Alloc
		wholeIn   bool                // *cell = in
		wholeFrom []*ssa.Alloc        // *cell = *other
		other     bool                // written in a way that is not followed
		stores    map[int][]ssa.Value // field stores
	}
	cells := map[*ssa.Alloc]*cell{}
	isRuleCell := func(v ssa.Value) *ssa.Alloc {
		al, ok := v.(*ssa.Alloc)
		if !ok || al.Parent() != norm {
			return nil
		}
		if pt, isPtr := al.Type().Underlying().(*types.Pointer); !isPtr || !types.Identical(pt.Elem(), ruleT) {
			return nil
		}
		return al
	}
	var cellOf func(al *ssa.Alloc) *cell
	cellOf = func(al *ssa.Alloc) *cell {
		if cl := cells[al]; cl != nil {
			return cl
		}
		cl := &cell{al: al, stores: map[int][]ssa.Value{}}
		cells[al] = cl
		for _, ref := range *al.Referrers() {
			switch u := ref.(type) {
			case *ssa.Store:
				if u.Addr != ssa.Value(al) {
					cl.other = true // the cell's address is stored somewhere
					continue
				}
				if u.Val == ssa.Value(in) {
					cl.wholeIn = true
				} else if ld, isLd := u.Val.(*ssa.UnOp); isLd && ld.Op == token.MUL && isRuleCell(ld.X) != nil && isRuleCell(ld.X) != al {
					cl.wholeFrom = append(cl.wholeFrom, isRuleCell(ld.X))
				} else {
					cl.other = true
				}
			case *ssa.FieldAddr:
				for _, rr := range *u.Referrers() {
					switch w := rr.(type) {
					case *ssa.Store:
						if w.Addr == ssa.Value(u) {
							cl.stores[u.Field] = append(cl.stores[u.Field], w.Val)
						} else {
							cl.other = true
						}
					case *ssa.UnOp, *ssa.DebugRef:
					default:
						cl.other = true // address of a field escapes
					}
				}
			case *ssa.UnOp, *ssa.DebugRef:
			default:
				cl.other = true
			}
		}
		return cl
	}
	eng.Instrs(norm, func(ins ssa.Instruction) {
		if al := isRuleCell(valueOf(ins)); al != nil {
			cellOf(al)
		}
	})
	// fromIn: the cell is initialised from the parameter (directly or through copies) and never
	// as a whole from anything else: a field that is not stored holds in.f
	var fromIn func(cl *cell, busy map[*cell]bool) bool
	fromIn = func(cl *cell, busy map[*cell]bool) bool {
		if cl.other || busy[cl] || (!cl.wholeIn && len(cl.wholeFrom) == 0) {
			return false
		}
		busy[cl] = true
		defer delete(busy, cl)
		for _, src := range cl.wholeFrom {
			if !fromIn(cellOf(src), busy) {
				return false
			}
		}
		return true
	}
	// verbatim: v reads field `field` of the parameter or of a local rule cell (whose field
	// `field` only ever holds in.field or N(in.field): every store of every cell is checked below)
	verbatim := func(v ssa.Value, field string) bool {
		root, path := eng.AccessPath(v)
		if len(path) != 1 || path[0] != field {
			return false
		}
		if root == ssa.Value(in) {
			return true
		}
		if al := isRuleCell(root); al != nil {
			return fromIn(cellOf(al), map[*cell]bool{})
		}
		// a load of a cell holding the parameter (AccessPath stops at the load of a multi-store cell)
		if ld, isLd := root.(*ssa.UnOp); isLd && ld.Op == token.MUL {
			if al := isRuleCell(ld.X); al != nil {
				return fromIn(cellOf(al), map[*cell]bool{})
			}
		}
		return false
	}
	callees := map[*ssa.Function]bool{}
	normOf := func(v ssa.Value, field string) bool {
		call, ok := v.(*ssa.Call)
		if !ok {
			return false
		}
		h := call.Call.StaticCallee()
		if h == nil || h.Blocks == nil || h.Signature.Recv() != nil || len(call.Call.Args) != 1 || h.Signature.Results().Len() != 1 ||
			!c17IsStringSlice(h.Signature.Params().At(0).Type()) || !c17IsStringSlice(h.Signature.Results().At(0).Type()) {
			return false
		}
		if !verbatim(call.Call.Args[0], field) {
			return false
		}
		callees[h] = true
		return true
	}
	fieldOK := make([]bool, st.NumFields())
	fieldWhy := make([]string, st.NumFields())
	for i := range fieldOK {
		fieldOK[i] = true
	}
	// every field store of every rule cell
	var cellList []*cell
	for _, cl := range cells {
		cellList = append(cellList, cl)
	}
	sort.Slice(cellList, func(i, j int) bool { return cellList[i].al.Pos() < cellList[j].al.Pos() })
	for _, cl := range cellList {
		for i := 0; i < st.NumFields(); i++ {
			f := st.Field(i)
			for _, v := range cl.stores[i] {
				if verbatim(v, f.Name()) || (c17IsStringSlice(f.Type()) && normOf(v, f.Name())) {
					continue
				}
				fieldOK[i] = false
				fieldWhy[i] = "the field is set from something other than N(in." + f.Name() + ") or in." + f.Name() + " (" + v.String() + ")"
			}
		}
	}
	rets := c17Returns(norm)
	for _, r := range rets {
		rv := eng.ReturnResults(r)[0]
		if rv == ssa.Value(in) {
			continue // the input itself: every field verbatim
		}
		ld, isLd := rv.(*ssa.UnOp)
		var al *ssa.Alloc
		if isLd && ld.Op == token.MUL {
			al = isRuleCell(ld.X)
		}
		if al == nil {
			c.Undecided("R1", norm, "returned value", r.Pos(), "the result is neither the parameter nor a local struct whose field stores can be enumerated")
			continue
		}
		// the returned cell and the cells its content may have been copied from
		web := map[*cell]bool{}
		var grow func(cl *cell)
		grow = func(cl *cell) {
			if web[cl] {
				return
			}
			web[cl] = true
			for _, src := range cl.wholeFrom {
				grow(cellOf(src))
			}
		}
		grow(cellOf(al))
		dirty := false
		for cl := range web {
			if cl.other {
				dirty = true
			}
		}
		if dirty {
			c.Undecided("R1", norm, "returned value", r.Pos(), "the returned struct is written through something other than field stores and a copy of the parameter")
			continue
		}
		// set: field i of the cell was given a value (stored, or inherited from the parameter /
		// from every cell copied into it)
		var set func(cl *cell, i int, busy map[*cell]bool) bool
		set = func(cl *cell, i int, busy map[*cell]bool) bool {
			if len(cl.stores[i]) > 0 || fromIn(cl, map[*cell]bool{}) {
				return true
			}
			if busy[cl] || cl.wholeIn || len(cl.wholeFrom) == 0 {
				return false
			}
			busy[cl] = true
			defer delete(busy, cl)
			for _, src := range cl.wholeFrom {
				if !set(cellOf(src), i, busy) {
					return false
				}
			}
			return true
		}
		for i := 0; i < st.NumFields(); i++ {
			if !set(cellOf(al), i, map[*cell]bool{}) {
				fieldOK[i] = false
				fieldWhy[i] = "the field is not set in the returned value: it is stored as its zero value"
			}
		}
	}
	for i := 0; i < st.NumFields(); i++ {
		f := st.Field(i)
		d := "result." + f.Name() + " is N(in." + f.Name() + ") or in." + f.Name() + "; a dropped or cross-wired field changes which requests the stored rule matches (e.g. userGroups lost: the rule matches every group)"
		if !fieldOK[i] {
			d = fieldWhy[i]
		}
		c.Check("R1", norm, "field "+f.Name(), norm.Pos(), fieldOK[i] && len(rets) > 0, d)
	}
	var nfn *ssa.Function
	for h := range callees {
		nfn = h
	}
	c.Check("R1", norm, "one list normaliser for all string lists", norm.Pos(), len(callees) == 1,
		fmt.Sprintf("%d distinct []string->[]string functions are applied to the fields (exactly one expected; it is the function R2/R3 analyse)", len(callees)))

	// ---- R1: Admit writes N(rule) back into the element it read
	// the functions the body of a mutating plugin's Admit is spread over: the method itself, its
	// closures and the helpers it calls whose callers are all known (extracted loops)
	ncalls, inAdmit := 0, false
	mut := c.W.Interface("k8s.io/apiserver/pkg/admission", "MutationInterface")
	admitRegion := map[*ssa.Function]*ssa.Function{} // function of the region -> its Admit method
	for _, g := range c.W.FuncsOf(pkgAdmission) {
		if rv := g.Signature.Recv(); rv != nil && g.Parent() == nil && g.Name() == "Admit" && mut != nil && implementsIfaceC17(rv.Type(), mut) {
			for _, h := range c.W.Region(g) {
				if admitRegion[h] == nil {
					admitRegion[h] = g
				}
			}
			// … and the same-package functions it calls statically (an extracted helper may be
			// exported or shared with other callers; it still runs as part of Admit)
			var reach func(f *ssa.Function, depth int)
			reach = func(f *ssa.Function, depth int) {
				for _, ff := range eng.WithClosures(f) {
					for _, ci := range eng.Calls(ff) {
						h := ci.Common().StaticCallee()
						if h == nil || h.Blocks == nil || h.Pkg == nil || h.Pkg != g.Pkg || admitRegion[h] != nil {
							continue
						}
						admitRegion[h] = g
						if depth > 0 {
							reach(h, depth-1)
						}
					}
				}
			}
			for _, h := range c.W.Region(g) {
				reach(h, eng.LiftDepth-1)
			}
		}
	}
	for _, g := range c.W.FuncsOf(pkgAdmission) {
		for _, ci := range eng.CallsToFn(g, norm) {
			ncalls++
			call, isCall := ci.(*ssa.Call)
			ok := false
			if isCall && len(call.Call.Args) == 1 {
				if ld, isLd := call.Call.Args[0].(*ssa.UnOp); isLd && ld.Op == token.MUL {
					n := 0
					ok = true
					for _, ref := range *call.Referrers() {
						switch u := ref.(type) {
						case *ssa.Store:
							n++
							if u.Val != ssa.Value(call) || !c17SamePlace(u.Addr, ld.X, 0) {
								ok = false
							}
						case *ssa.DebugRef:
						default:
							ok = false
						}
					}
					ok = ok && n > 0
				}
			}
			anchor := g // a call moved into a helper of Admit is reported against Admit
			if a := admitRegion[g]; a != nil {
				anchor, inAdmit = a, true
			}
			c.Check("R1", anchor, "rule element ← normalise(the same element)", ci.Pos(), ok,
				"the normalised rule must replace exactly the rule it was computed from (same slice, same indices); anything else stores a rule the client did not submit")
		}
	}
	if ncalls == 0 || !inAdmit {
		c.Fail("R1", norm, "rule element ← normalise(the same element)", norm.Pos(), "the rule normaliser is not called from the Admit method of a mutating admission plugin")
	}

	if nfn == nil || len(callees) != 1 {
		c.Fail("R2", norm, "list normaliser", norm.Pos(), "no single list normaliser found (see R1); R2/R3 cannot be evaluated")
		return
	}

	// ---- the matcher's classifier(s), found by what they compare
	var matchers []*c17Cls
	for _, fn := range c.W.FuncsOf(pkgV1alpha1) {
		for _, p := range fn.Params {
			if !c17IsStringSlice(p.Type()) {
				continue
			}
			if k := c17Classify(c.W, fn, p, c.Depth); len(k.stars) > 0 && len(k.dashes) > 0 {
				matchers = append(matchers, k)
			}
		}
	}
	if len(matchers) == 0 {
		c.Fail("R3", nil, "matcher classifier", 0, "no function of package v1alpha1 compares the entries of a []string parameter with a constant and tests an inversion prefix")
		return
	}
	star := ""
	if o, ok := c.W.All[pkgV1alpha1].Types.Scope().Lookup("MatchAll").(*types.Const); ok {
		star = strings.Trim(o.Val().ExactString(), "\"")
	}

	nk := c17Normaliser(c.W, nfn, nfn.Params[0], c.Depth)
	var rs2, rs3 []c17Result
	for _, r := range c17CheckNormaliser(nk, star) {
		if strings.HasPrefix(r.construct, "every ") || strings.HasPrefix(r.construct, "the match-all list") {
			rs2 = append(rs2, r)
		} else {
			rs3 = append(rs3, r)
		}
	}
	c17Emit(c, "R2", nfn, "", rs2)
	c17Emit(c, "R3", nfn, "normaliser: ", rs3)

	for _, mk := range matchers {
		c17Emit(c, "R3", mk.fn, "matcher: ", c17CheckMatcher(mk, c.W.FuncsOf(pkgV1alpha1)))
		ps, ms := c17Consts(nk.loop().stars), c17Consts(mk.stars)
		c.Check("R3", mk.fn, "match-all constant agrees with the normaliser", mk.fn.Pos(),
			star != "" && len(ps) == 1 && len(ms) == 1 && ps[0] == star && ms[0] == star,
			fmt.Sprintf("entries are compared with %q by the normaliser and %q by the matcher (MatchAll = %q); a list holding the one but not the other is rewritten to something the matcher reads differently", ps, ms, star))
		pd, md := c17Consts(nk.loop().dashes), c17Consts(mk.dashes)
		c.Check("R3", mk.fn, "inversion byte agrees with the normaliser", mk.fn.Pos(),
			len(pd) == 1 && len(md) == 1 && pd[0] == md[0],
			fmt.Sprintf("inverted entries start with %q for the normaliser and %q for the matcher; if they differ the normaliser drops entries the matcher would have consulted (or keeps ones it ignores)", pd, md))
	}
}

// valueOf returns ins as a value (nil when it defines none).
func valueOf(ins ssa.Instruction) ssa.Value {
	v, _ := ins.(ssa.Value)
	return v
}

func implementsIfaceC17(t types.Type, iface *types.Interface) bool {
	if types.Implements(t, iface) {
		return true
	}
	if _, isPtr := t.Underlying().(*types.Pointer); !isPtr {
		return types.Implements(types.NewPointer(t), iface)
	}
	return false
}

// ---------------------------------------------------------------------------------------
// fixtures: the two templates on accepted and broken shapes

const c17FxSrc = `package fx

const All = "*"

func isInv(r string) bool { return len(r) > 0 && r[0] == '-' }

func good(rules []string) (filtered []string) {
	reversed := []string{}
	matchAll := false
	for _, r := range rules {
		if r == "*" {
			matchAll = true
			break
		}
		if len(r) > 0 && r[0] == '-' {
			reversed = append(reversed, r)
		} else {
			filtered = append(filtered, r)
		}
	}
	if matchAll {
		return []string{"*"}
	}
	if len(filtered) > 0 {
		return
	}
	filtered = reversed
	return
}

func goodEarly(rules []string) []string {
	var pos, inv []string
	for i := range rules {
		if rules[i] == All {
			return []string{All}
		}
		if isInv(rules[i]) {
			inv = append(inv, rules[i])
			continue
		}
		pos = append(pos, rules[i])
	}
	switch {
	case len(pos) != 0:
		return pos
	}
	return inv
}

func goodContinue(rules []string) []string {
	var pos, inv []string
	all := false
	for _, r := range rules {
		if r == All {
			all = true
			continue
		}
		if isInv(r) {
			inv = append(inv, r)
		} else {
			pos = append(pos, r)
		}
	}
	if all {
		return []string{All}
	}
	if len(pos) == 0 {
		return inv
	}
	return pos
}

func isPos(r string) bool {
	if len(r) == 0 {
		return true
	}
	return r[0] != '-'
}

func isAll(r string) bool { return All == r }

func goodDeMorgan(rules []string) []string {
	var pos, inv []string
	for i := 0; i < len(rules); i++ {
		r := rules[i]
		if r == All {
			return []string{All}
		}
		positive := len(r) == 0 || r[0] != '-'
		if positive {
			pos = append(pos, r)
		} else {
			inv = append(inv, r)
		}
	}
	if len(pos) > 0 {
		return pos
	}
	return inv
}

func goodPosHelper(rules []string) []string {
	var pos, inv []string
	for _, r := range rules {
		switch {
		case isAll(r):
			return []string{All}
		case isPos(r):
			pos = append(pos, r)
		default:
			inv = append(inv, r)
		}
	}
	if 0 < len(pos) {
		return pos
	}
	return inv
}

func badDeMorganMixed(rules []string) []string {
	var pos, inv []string
	for _, r := range rules {
		if r == All {
			return []string{All}
		}
		positive := len(r) == 0 || r[0] != '-'
		if positive {
			pos = append(pos, r)
		} else {
			inv = append(inv, r)
		}
	}
	return append(inv, pos...)
}

func badStrip(rules []string) []string {
	var pos, inv []string
	for _, r := range rules {
		if r == All {
			return []string{All}
		}
		if len(r) > 0 && r[0] == '-' {
			inv = append(inv, r[1:])
		} else {
			pos = append(pos, r)
		}
	}
	if len(pos) > 0 {
		return pos
	}
	return inv
}

func badBoth(rules []string) []string {
	var pos, inv []string
	for _, r := range rules {
		if r == All {
			return []string{All}
		}
		if len(r) > 0 && r[0] == '-' {
			inv = append(inv, r)
		} else {
			pos = append(pos, r)
		}
	}
	return append(pos, inv...)
}

func badDrop(rules []string) []string {
	var pos, inv []string
	for _, r := range rules {
		if r == All {
			return []string{All}
		}
		if len(r) == 0 {
			continue
		}
		if r[0] == '-' {
			inv = append(inv, r)
		} else {
			pos = append(pos, r)
		}
	}
	if len(pos) > 0 {
		return pos
	}
	return inv
}

func badStar(rules []string) []string {
	var pos, inv []string
	for _, r := range rules {
		if r == All {
			return []string{All}
		}
		if len(r) > 0 && r[0] == '-' {
			inv = append(inv, r)
		} else {
			pos = append(pos, r)
		}
	}
	if len(pos) > 0 {
		return pos
	}
	if len(inv) > 0 {
		return inv
	}
	return []string{All}
}

func badNoLen(rules []string) []string {
	var pos, inv []string
	for _, r := range rules {
		if r == All {
			return []string{All}
		}
		if r[0] == '-' {
			inv = append(inv, r)
		} else {
			pos = append(pos, r)
		}
	}
	if len(pos) > 0 {
		return pos
	}
	return inv
}

func badLost(rules []string) []string {
	var pos, inv []string
	for _, r := range rules {
		if r == All {
			return []string{All}
		}
		if len(r) > 0 && r[0] == '-' {
			inv = append(inv, r)
		} else {
			pos = append(pos, r)
		}
	}
	_ = inv
	return pos
}

func badStarLoses(rules []string) []string {
	var pos, inv []string
	all := false
	for _, r := range rules {
		if r == All {
			all = true
			continue
		}
		if len(r) > 0 && r[0] == '-' {
			inv = append(inv, r)
		} else {
			pos = append(pos, r)
		}
	}
	if len(pos) > 0 {
		return pos
	}
	if all {
		return []string{All}
	}
	return inv
}

// ---- normaliser spread over helpers: a split helper reporting (lists, flag), a selection helper

func splitGood(rules []string) (pos, inv []string, all bool) {
	inv = []string{}
	for i := range rules {
		r := rules[i]
		if r == All {
			all = true
			break
		}
		inverted := len(r) > 0 && r[0] == '-'
		if inverted {
			inv = append(inv, r)
		} else {
			pos = append(pos, r)
		}
	}
	return pos, inv, all
}

func goodSplit(rules []string) []string {
	pos, inv, all := splitGood(rules)
	switch {
	case all:
		return []string{All}
	case len(pos) > 0:
		return pos
	default:
		return inv
	}
}

func choose(pos, inv []string, all bool) []string {
	if all {
		return []string{All}
	}
	if len(pos) > 0 {
		return pos
	}
	return inv
}

func goodSplitChoose(rules []string) []string {
	pos, inv, all := splitGood(rules)
	return choose(pos, inv, all)
}

func goodLoopChoose(rules []string) []string {
	var pos, inv []string
	all := false
	for _, r := range rules {
		if r == All {
			all = true
			break
		}
		if isInv(r) {
			inv = append(inv, r)
		} else {
			pos = append(pos, r)
		}
	}
	return choose(pos, inv, all)
}

func pick(pos, inv []string) []string {
	if len(pos) == 0 {
		return inv
	}
	return pos
}

func goodLoopPick(rules []string) []string {
	var pos, inv []string
	for _, r := range rules {
		if r == All {
			return []string{All}
		}
		if isInv(r) {
			inv = append(inv, r)
		} else {
			pos = append(pos, r)
		}
	}
	kept := pick(pos, inv)
	return kept
}

func badSplitIgnoresFlag(rules []string) []string {
	pos, inv, _ := splitGood(rules)
	if len(pos) > 0 {
		return pos
	}
	return inv
}

func badSplitSwapped(rules []string) []string {
	pos, inv, all := splitGood(rules)
	if all {
		return []string{All}
	}
	if len(inv) > 0 {
		return inv
	}
	return pos
}

func splitFlagOnDash(rules []string) (pos, inv []string, all bool) {
	for _, r := range rules {
		if r == All {
			all = true
			break
		}
		if len(r) > 0 && r[0] == '-' {
			inv = append(inv, r)
			if len(r) == 1 {
				all = true
			}
		} else {
			pos = append(pos, r)
		}
	}
	return
}

func badSplitFlag(rules []string) []string {
	pos, inv, all := splitFlagOnDash(rules)
	return choose(pos, inv, all)
}

func chooseStarLoses(pos, inv []string, all bool) []string {
	if len(pos) > 0 {
		return pos
	}
	if all {
		return []string{All}
	}
	return inv
}

func badSplitChoose(rules []string) []string {
	pos, inv, all := splitGood(rules)
	return chooseStarLoses(pos, inv, all)
}

func chooseStarDefault(pos, inv []string, all bool) []string {
	if all {
		return []string{All}
	}
	if len(pos) > 0 {
		return pos
	}
	if len(inv) > 0 {
		return inv
	}
	return []string{All}
}

func badLoopChooseStar(rules []string) []string {
	var pos, inv []string
	all := false
	for _, r := range rules {
		if r == All {
			all = true
			break
		}
		if isInv(r) {
			inv = append(inv, r)
		} else {
			pos = append(pos, r)
		}
	}
	return chooseStarDefault(pos, inv, all)
}

func pickBoth(pos, inv []string) []string { return append(pos, inv...) }

func badLoopPickBoth(rules []string) []string {
	var pos, inv []string
	for _, r := range rules {
		if r == All {
			return []string{All}
		}
		if isInv(r) {
			inv = append(inv, r)
		} else {
			pos = append(pos, r)
		}
	}
	return pickBoth(pos, inv)
}

func splitStrips(rules []string) (pos, inv []string, all bool) {
	for _, r := range rules {
		if r == All {
			all = true
			break
		}
		if len(r) > 0 && r[0] == '-' {
			inv = append(inv, r[1:])
		} else {
			pos = append(pos, r)
		}
	}
	return
}

func badSplitStrips(rules []string) []string {
	pos, inv, all := splitStrips(rules)
	return choose(pos, inv, all)
}

// ---- matcher shapes

type m struct {
	rev bool
	val string
}

func classifyA(rules []string) (out []m, all bool) {
	inv := []m{}
	for _, r := range rules {
		if r == All {
			all = true
			break
		}
		if len(r) > 0 && r[0] == '-' {
			inv = append(inv, m{true, r[1:]})
		} else {
			out = append(out, m{false, r})
		}
	}
	if len(out) > 0 {
		return
	}
	out = inv
	return
}

func useA(rules []string, req string) bool {
	l, all := classifyA(rules)
	if all {
		return true
	}
	for _, x := range l {
		if (x.val == req) != x.rev {
			return true
		}
	}
	return false
}

func classifyB(rules []string) (pos, inv []string, all bool) {
	for _, r := range rules {
		if r == All {
			all = true
			break
		}
		if len(r) > 0 && r[0] == '-' {
			inv = append(inv, r[1:])
		} else {
			pos = append(pos, r)
		}
	}
	return
}

func anyOf(l []string, req string) bool {
	for _, x := range l {
		if x == req {
			return true
		}
	}
	return false
}

func useB(rules []string, req string) bool {
	pos, inv, all := classifyB(rules)
	if all {
		return true
	}
	if len(pos) > 0 {
		return anyOf(pos, req)
	}
	if len(inv) > 0 {
		return !anyOf(inv, req)
	}
	return false
}

func classifyD(rules []string) (pos, inv []string, all bool) {
	for i := range rules {
		r := rules[i]
		if isAll(r) {
			all = true
			return
		}
		if isPos(r) {
			pos = append(pos, r)
			continue
		}
		inv = append(inv, r[1:])
	}
	return
}

func useD(rules []string, req string) bool {
	pos, inv, all := classifyD(rules)
	switch {
	case all:
		return true
	case len(pos) != 0:
		return anyOf(pos, req)
	case len(inv) != 0:
		return !anyOf(inv, req)
	}
	return false
}

func classifyBadMix(rules []string) (out []m, all bool) {
	inv := []m{}
	for _, r := range rules {
		if r == All {
			all = true
			break
		}
		if len(r) > 0 && r[0] == '-' {
			inv = append(inv, m{true, r[1:]})
		} else {
			out = append(out, m{false, r})
		}
	}
	out = append(out, inv...)
	return
}

func useBadMix(rules []string, req string) bool {
	l, all := classifyBadMix(rules)
	if all {
		return true
	}
	for _, x := range l {
		if (x.val == req) != x.rev {
			return true
		}
	}
	return false
}

func classifyC(rules []string) (pos, inv []string, all bool) {
	for _, r := range rules {
		if r == All {
			all = true
			break
		}
		if len(r) > 0 && r[0] == '-' {
			inv = append(inv, r[1:])
		} else {
			pos = append(pos, r)
		}
	}
	return
}

func useBadC(rules []string, req string) bool {
	pos, inv, all := classifyC(rules)
	if all {
		return false
	}
	if anyOf(pos, req) {
		return true
	}
	return len(inv) > 0 && !anyOf(inv, req)
}
`

func c17Fixtures(c *eng.Ctx) {
	p, _, err := eng.BuildFixture(c17FxSrc)
	if err != nil {
		c.Fixture("C17/build", "ok", err.Error())
		return
	}
	summary := func(rs []c17Result) string {
		var bad []string
		for _, r := range rs {
			if !r.ok || r.undecided {
				w := strings.Fields(r.construct)
				bad = append(bad, strings.Join(w[:min(3, len(w))], " "))
			}
		}
		sort.Strings(bad)
		return strings.Join(bad, "|")
	}
	var funcs []*ssa.Function
	for _, mem := range p.Members {
		if f, ok := mem.(*ssa.Function); ok && f.Blocks != nil {
			funcs = append(funcs, f)
		}
	}
	normWant := map[string]string{
		"good": "", "goodEarly": "", "goodContinue": "", "goodDeMorgan": "", "goodPosHelper": "",
		"goodSplit": "", "goodSplitChoose": "", "goodLoopChoose": "", "goodLoopPick": "",
		"badSplitIgnoresFlag": "an entry equal",
		"badSplitSwapped":     "positives shadow inverted",
		"badSplitFlag":        "the match-all list",
		"badSplitChoose":      "an entry equal",
		"badLoopChooseStar":   "the match-all list",
		"badLoopPickBoth":     "every element of|positives shadow inverted",
		"badSplitStrips":      "every element of|every entry is",
		"badDeMorganMixed":    "positives shadow inverted",
		"badStrip":            "every element of|every entry is",
		"badBoth":             "positives shadow inverted",
		"badDrop":             "every entry is",
		"badStar":             "the match-all list",
		"badNoLen":            "len>0 tested before",
		"badLost":             "positives shadow inverted",
		"badStarLoses":        "an entry equal",
	}
	for name, want := range normWant {
		fn := p.Func(name)
		k := c17Normaliser(nil, fn, fn.Params[0], 2)
		c.Fixture("C17.normaliser/"+name, want, summary(c17CheckNormaliser(k, "*")))
	}
	matchWant := map[string]string{
		"classifyA":      "",
		"classifyB":      "",
		"classifyD":      "",
		"classifyBadMix": "inverted entries are",
		"classifyC":      "inverted entries are|match-all short-circuits to",
	}
	for name, want := range matchWant {
		fn := p.Func(name)
		k := c17Classify(nil, fn, fn.Params[0], 2)
		c.Fixture("C17.matcher/"+name, want, summary(c17CheckMatcher(k, funcs)))
	}
}
