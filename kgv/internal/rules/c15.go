package rules

// C15 — removal: deleted clusters / removed endpoints get no traffic, requests in flight
// are cut, probing stops.
//
// Structural necessary conditions decided here (DESIGN.md §2 "C15"):
//
//	R1  context tree: cluster ctx/cancel are one WithCancel pair; an endpoint's ctx is a
//	    WithCancel child of the ctx of the cluster it is registered in (and its cancel is
//	    the paired function); the probe ctx is a WithCancel child of the endpoint's own ctx;
//	    the limiter gets the cluster ctx and never a fresh root context
//	R2  removal cancels: every endpoint dropped by syncEndpoints is LoadAndDelete'd from the
//	    cluster's own map and its cancel invoked; DeleteWithStop stops (cancels) the removed
//	    cluster; the controller's NotFound path deletes with DeleteWithStop only
//	R3  the dispatcher's goroutine selects on Done() of the context of the endpoint that was
//	    picked, its Done case always calls the cancel function paired with the context of
//	    the request that is actually forwarded, and it is started before forwarding
//	R4  every loop of the goroutines started by startGatewayHealthCheck passes a select with
//	    a Done() case of the probe ctx that leaves the loop; the probe function is invoked
//	    only behind such a select
//
// Not decided: promptness, and the effect of a removal at each point of a request's life.

import (
	"fmt"
	"go/token"
	"go/types"

	"golang.org/x/tools/go/ssa"

	"kgv/internal/eng"
)

func init() {
	Register("C15", c15)
	RegisterFixture("C15", c15Fixtures)
}

const (
	c15TCluster  = pkgClusters + ".ClusterInfo"
	c15TEndpoint = pkgClusters + ".EndpointInfo"
	c15TEPMap    = pkgClusters + ".EndpointInfoMap"
	c15TManager  = pkgClusters + ".manager"
	c15TServer   = pkgV1alpha1 + ".UpstreamClusterServer"
	c15Done      = "(context.Context).Done"
	c15WithCancl = "context.WithCancel"
	c15MgrIface  = "(" + pkgClusters + ".Manager)."
)

type c15x struct {
	c   *eng.Ctx
	// ruleAs renames rule ids when a rule of this file is re-used by another property
	ruleAs map[string]string
	sl  *eng.Slicer
	sa  *eng.Slicer
	ord map[string]int
	// bind maps the parameters of a goroutine body started as `go f(args…)` to the
	// arguments of the go statement, so that origins are followed into the starter.
	bind map[*ssa.Parameter]ssa.Value
	// up: leaves() also follows the parameters of extracted helpers into the arguments of all
	// their call sites (switched on by rules whose constructs may sit in such a helper).
	up bool
	// tree (optional): context tree of the rule's anchor; leaves() first rewrites a value to its
	// canonical definition in the context its function runs in (eng.Canon: parameters of direct
	// calls and go statements, fields of a struct holding the values a former closure captured,
	// single-valued helper results).
	tree *eng.DownTree
}

// canon applies eng.Canon when v belongs to a function that runs in exactly one context of x.tree.
func (x *c15x) canon(v ssa.Value) ssa.Value {
	if x.tree == nil || v == nil {
		return v
	}
	var fn *ssa.Function
	switch n := v.(type) {
	case ssa.Instruction:
		fn = n.Parent()
	case *ssa.Parameter:
		fn = n.Parent()
	case *ssa.FreeVar:
		fn = n.Parent()
	}
	if fn == nil {
		return v
	}
	if ds := x.tree.Of(fn); len(ds) == 1 {
		if r := ds[0].Canon(v); r.V != nil {
			return r.V
		}
	}
	return v
}

// leaves is Slicer.Leaves with bound goroutine parameters replaced by their arguments.
func (x *c15x) leaves(v ssa.Value, stop func(ssa.Value) bool) []ssa.Value {
	var out []ssa.Value
	seen := map[ssa.Value]bool{}
	var rec func(v ssa.Value, d int)
	rec = func(v ssa.Value, d int) {
		v = x.canon(v)
		for _, l := range x.sl.Leaves(v, stop) {
			if p, ok := l.(*ssa.Parameter); ok && d > 0 && (stop == nil || !stop(l)) {
				if b, bound := x.bind[p]; bound {
					rec(b, d-1)
					continue
				}
				// a parameter of an extracted helper whose callers are all known: the origins are
				// those of the arguments at every call site
				if ups := eng.UpArgs(p); x.up && len(ups) > 0 {
					for _, a := range ups {
						rec(a, d-1)
					}
					continue
				}
			}
			if !seen[l] {
				seen[l] = true
				out = append(out, l)
			}
		}
	}
	rec(v, 3)
	return out
}

// bindGo records the parameter bindings of a go statement with a static callee.
func (x *c15x) bindGo(g *ssa.Go, f *ssa.Function) {
	if g.Call.IsInvoke() {
		return
	}
	for i, p := range f.Params {
		if i < len(g.Call.Args) {
			x.bind[p] = g.Call.Args[i]
		}
	}
}

func (x *c15x) nth(fn *ssa.Function, base string) string {
	k := eng.FuncName(fn) + "|" + base
	x.ord[k]++
	return fmt.Sprintf("%s#%d", base, x.ord[k])
}

// rid maps a rule id of this file to the id it is reported under (C03 re-uses R4 as its R10).
func (x *c15x) rid(r string) string {
	if n, ok := x.ruleAs[r]; ok {
		return n
	}
	return r
}

// check records an obligation; the explanation is attached only when it is violated.
func (x *c15x) check(rule string, fn *ssa.Function, construct string, pos token.Pos, ok bool, why string) bool {
	if ok {
		why = ""
	}
	return x.c.Check(x.rid(rule), fn, construct, pos, ok, why)
}

func c15IsContext(t types.Type) bool { return eng.TypeName(t) == "context.Context" }

// resultsOf: every origin of v (not looking through calls) is result #idx of a call
// satisfying match; it returns those calls (nil if any origin is something else).
func (x *c15x) resultsOf(v ssa.Value, idx int, match func(*ssa.Call) bool) []*ssa.Call {
	var out []*ssa.Call
	for _, l := range x.leaves(v, func(u ssa.Value) bool {
		cc, _ := eng.CallResultOf(u)
		return cc != nil && match(cc)
	}) {
		cc, i := eng.CallResultOf(l)
		if cc == nil || i != idx || !match(cc) {
			return nil
		}
		out = append(out, cc)
	}
	return out
}

func c15IsWithCancel(cc *ssa.Call) bool { return eng.IsCall(cc, c15WithCancl) }

// ---------------------------------------------------------------------------------------
// Template 1: "the cancel function stored in a field of a subject is invoked".

// c15CancelSpec names the field holding the cancel function.
type c15CancelSpec struct{ typ, field string }

// c15Cancels reports whether ins invokes (call, defer or go) the cancel function stored in
// the spec's field of a value satisfying isSubject — directly, or by passing the subject to
// a function that does so on every path (depth nested calls).
func c15Cancels(ins ssa.Instruction, isSubject func(ssa.Value) bool, sp c15CancelSpec, depth int) bool {
	ci, ok := ins.(ssa.CallInstruction)
	if !ok {
		return false
	}
	cc := ci.Common()
	if cc.IsInvoke() {
		return false
	}
	callee := cc.StaticCallee()
	if callee == nil {
		base := eng.FieldBase(cc.Value, sp.typ, sp.field)
		return base != nil && isSubject(base)
	}
	if depth <= 0 || callee.Blocks == nil {
		return false
	}
	for i, a := range cc.Args {
		if i >= len(callee.Params) {
			continue
		}
		p := callee.Params[i]
		if isSubject(a) {
			if c15AlwaysCancels(callee.Blocks[0], func(v ssa.Value) bool { return v == ssa.Value(p) }, sp, depth-1, nil) {
				return true
			}
		}
		// the subject's cancel function itself is handed to a helper that invokes it on every path
		// on which it is set (`cancelIfSet(x.cancel)`)
		if base := eng.FieldBase(a, sp.typ, sp.field); base != nil && isSubject(base) && c15AlwaysInvokes(callee, p) {
			return true
		}
	}
	return false
}

// c15AlwaysInvokes: every path through fn calls its function-typed parameter p, except the
// paths on which p is known to be nil.
func c15AlwaysInvokes(fn *ssa.Function, p *ssa.Parameter) bool {
	if len(fn.Blocks) == 0 {
		return false
	}
	return eng.ReachFromEntry(fn, eng.PathQuery{
		Target: eng.IsExit,
		Avoid: func(i ssa.Instruction) bool {
			ci, ok := i.(ssa.CallInstruction)
			return ok && !ci.Common().IsInvoke() && ci.Common().StaticCallee() == nil && ci.Common().Value == ssa.Value(p)
		},
		BlockEdge: func(from *ssa.BasicBlock, succ int) bool {
			iff, ok := from.Instrs[len(from.Instrs)-1].(*ssa.If)
			if !ok {
				return false
			}
			rel := eng.RelOf(iff.Cond, succ == 0)
			if rel.Op != token.EQL {
				return false
			}
			return (rel.X == ssa.Value(p) && eng.IsNilConst(rel.Y)) || (rel.Y == ssa.Value(p) && eng.IsNilConst(rel.X))
		},
	}) == nil
}

// c15AlwaysCancels reports whether every path from the start of block b to an exit of its
// function invokes the subject's cancel function. Edges on which that function value is
// known to be nil (`if x.cancel != nil {…}`) and edges cut by extraCut are not followed.
func c15AlwaysCancels(b *ssa.BasicBlock, isSubject func(ssa.Value) bool, sp c15CancelSpec, depth int, extraCut func(from *ssa.BasicBlock, succ int) bool) bool {
	return eng.ReachFromBlock(b, eng.PathQuery{
		Target: eng.IsExit,
		Avoid:  func(i ssa.Instruction) bool { return c15Cancels(i, isSubject, sp, depth) },
		BlockEdge: func(from *ssa.BasicBlock, succ int) bool {
			if extraCut != nil && extraCut(from, succ) {
				return true
			}
			iff, ok := from.Instrs[len(from.Instrs)-1].(*ssa.If)
			if !ok {
				return false
			}
			rel := eng.RelOf(iff.Cond, succ == 0)
			if rel.Op != token.EQL {
				return false
			}
			for _, s := range [][2]ssa.Value{{rel.X, rel.Y}, {rel.Y, rel.X}} {
				if base := eng.FieldBase(s[0], sp.typ, sp.field); base != nil && isSubject(base) && eng.IsNilConst(s[1]) {
					return true
				}
			}
			return false
		},
	}) == nil
}

// ---------------------------------------------------------------------------------------
// Template 2: goroutine loops that watch a cancellation channel.

// c15WatchCase returns the index of the receive case of sel whose channel satisfies isChan (-1: none).
func c15WatchCase(sel *ssa.Select, isChan func(ssa.Value) bool) int {
	for k, st := range sel.States {
		if st.Dir == types.RecvOnly && isChan(st.Chan) {
			return k
		}
	}
	return -1
}

// c15CaseBlock returns the block entered when sel chose case k (nil if the dispatch on the
// select index is not found).
func c15CaseBlock(sel *ssa.Select, k int) *ssa.BasicBlock {
	for _, b := range sel.Parent().Blocks {
		if len(b.Instrs) == 0 {
			continue
		}
		iff, ok := b.Instrs[len(b.Instrs)-1].(*ssa.If)
		if !ok {
			continue
		}
		for succ := 0; succ < 2; succ++ {
			rel := eng.RelOf(iff.Cond, succ == 0)
			if rel.Op != token.EQL {
				continue
			}
			e, isE := rel.X.(*ssa.Extract)
			if !isE || e.Tuple != ssa.Value(sel) || e.Index != 0 {
				continue
			}
			if n, isInt := eng.IntConst(rel.Y); isInt && int(n) == k {
				return b.Succs[succ]
			}
		}
	}
	return nil
}

// c15LoopsWatch checks a goroutine body: every CFG cycle passes a select with a receive
// case on a channel satisfying isChan, and that case leaves the loop and reaches an exit.
// It returns the watching selects.
func c15LoopsWatch(fn *ssa.Function, isChan func(ssa.Value) bool) (bool, string, []*ssa.Select) {
	var sels []*ssa.Select
	isWatch := func(ins ssa.Instruction) bool {
		s, ok := ins.(*ssa.Select)
		return ok && c15WatchCase(s, isChan) >= 0
	}
	eng.Instrs(fn, func(ins ssa.Instruction) {
		if isWatch(ins) {
			sels = append(sels, ins.(*ssa.Select))
		}
	})
	if b := eng.CycleAvoiding(fn, isWatch); b != nil {
		return false, "a loop of the goroutine has no select case on the context's Done(): it keeps running (probing) after the endpoint or cluster was removed", sels
	}
	for _, s := range sels {
		if !eng.InLoop(s.Block()) {
			continue
		}
		cb := c15CaseBlock(s, c15WatchCase(s, isChan))
		if cb == nil {
			return false, "cannot find the branch taken when the Done() case fires", sels
		}
		if eng.ReachFromBlock(cb, eng.PathQuery{Target: func(i ssa.Instruction) bool { return i == ssa.Instruction(s) }}) != nil {
			return false, "the Done() case does not leave the loop (the goroutine goes on after cancellation)", sels
		}
		if eng.ReachFromBlock(cb, eng.PathQuery{Target: eng.IsExit}) == nil {
			return false, "the Done() case never reaches a return", sels
		}
	}
	return true, "", sels
}

// ---------------------------------------------------------------------------------------

func c15(c *eng.Ctx) {
	x := &c15x{c: c, sl: c.Slicer(), sa: c.Slicer().WithArgs(), ord: map[string]int{}, bind: map[*ssa.Parameter]ssa.Value{}}

	c.Rule("R1", "context tree: ClusterInfo.ctx/cancel and EndpointInfo.ctx/cancel are each the pair returned by one context.WithCancel; the endpoint's parent is the ctx of the cluster it is stored in; the probe ctx handed to startGatewayHealthCheck is a WithCancel child of the ctx argument whose paired cancel is kept in cancelHealthCheck, and every caller passes the endpoint's own ctx; the limiter receives the cluster ctx and creates no root context. A context outside this tree survives Stop()/removal: probes and proxied requests go on", 7)
	c.Rule("R2", "removal cancels: in syncEndpoints every endpoint of current∖wanted is LoadAndDelete'd from the receiver's own endpoint map and, when it was present, its cancel is invoked on every path, and the range callback never stops the iteration; manager.DeleteWithStop cancels the removed cluster's context on every path (doDelete(stop=true) → Stop → cancel); the controller's NotFound path deletes through DeleteWithStop only", 7)
	c.Rule("R3", "in-flight cut: dispatcher.ServeHTTP starts, before forwarding, a goroutine that selects on Done() of the Context() of the endpoint returned by the single Pop(); on that case it always calls the cancel function returned by the same context.WithCancel whose context the forwarded request carries", 4)
	c.Rule("R4", "probe goroutines end: every loop in the goroutines started by startGatewayHealthCheck passes a select with a receive on Done() of the function's ctx parameter, and that case leaves the loop and returns; the probe function healthCheckFun is invoked only inside such a goroutine behind such a select", 3)

	c15R1(x)
	c15R2(x)
	c15R3(x)
	c15R4(x)
}

// ---- R1 ---------------------------------------------------------------------------------

// ctxCancelPair checks, for every store of typ.ctx in the repository, that the value is
// the context of a context.WithCancel call whose cancel function is stored into typ.cancel
// of the same object; it calls each(store, withCancelCall) for further parent checks.
func (x *c15x) ctxCancelPair(typ string, each func(st *ssa.Store, w *ssa.Call) (bool, string)) {
	c := x.c
	short := typ[len(pkgClusters)+1:]
	sts := eng.StoresToField(c.W.AllRepoFuncs(), typ, "ctx")
	for _, st := range sts {
		fn := st.Parent()
		construct := x.nth(fn, short+".ctx/cancel = one context.WithCancel pair")
		ws := x.resultsOf(st.Val, 0, c15IsWithCancel)
		if len(ws) != 1 {
			x.check("R1", fn, construct, st.Pos(), false, short+".ctx is not the context returned by a single context.WithCancel: nothing can cancel it when the "+short+" is removed")
			continue
		}
		w := ws[0]
		obj := st.Addr.(*ssa.FieldAddr).X
		paired := false
		for _, cs := range eng.StoresToField([]*ssa.Function{fn}, typ, "cancel") {
			if cs.Addr.(*ssa.FieldAddr).X != obj {
				continue
			}
			if cw := x.resultsOf(cs.Val, 1, c15IsWithCancel); len(cw) == 1 && cw[0] == w {
				paired = true
			}
		}
		ok, why := paired, short+".cancel is not the cancel function returned together with "+short+".ctx: Stop()/removal cancels some other context and requests/probes bound to this one go on"
		if ok && each != nil {
			ok, why = each(st, w)
		}
		x.check("R1", fn, construct, st.Pos(), ok, why)
	}
	if len(sts) == 0 {
		c.Fail("R1", nil, short+".ctx/cancel = one context.WithCancel pair", 0, "no store of "+short+".ctx found")
	}
}

// probeCtxCreations returns the context.WithCancel calls of fn whose cancel function is kept
// in an endpoint's cancelHealthCheck (fn creates the context its prober goroutines watch).
func (x *c15x) probeCtxCreations(fn *ssa.Function) []*ssa.Call {
	var out []*ssa.Call
	for _, cs := range eng.StoresToField([]*ssa.Function{fn}, c15TEndpoint, "cancelHealthCheck") {
		if cw := x.resultsOf(cs.Val, 1, c15IsWithCancel); len(cw) == 1 && cw[0].Parent() == fn {
			dup := false
			for _, o := range out {
				if o == cw[0] {
					dup = true
				}
			}
			if !dup {
				out = append(out, cw[0])
			}
		}
	}
	return out
}

func c15R1(x *c15x) {
	c := x.c
	// (1) cluster pair
	x.ctxCancelPair(c15TCluster, nil)
	// (2) endpoint pair, child of the ctx of the cluster the endpoint is registered in
	x.ctxCancelPair(c15TEndpoint, func(st *ssa.Store, w *ssa.Call) (bool, string) {
		return x.endpointCtxOK(st.Parent(), w.Call.Args[0], st.Addr.(*ssa.FieldAddr).X, eng.LiftDepth)
	})

	// (3) probe context. The context the prober goroutines watch is created by a
	// context.WithCancel whose cancel function is kept in the endpoint's cancelHealthCheck —
	// by the caller of the function that starts the goroutines (which is handed the new
	// context), or, when that single-use function was merged into its caller, right in the
	// function that starts them.
	start := c03ProbeStarter(c)
	if start != nil {
		ctxIdx, epIdx := -1, -1
		for i, p := range start.Params {
			if c15IsContext(p.Type()) {
				ctxIdx = i
			}
			if eng.TypeName(p.Type()) == c15TEndpoint {
				epIdx = i
			}
		}
		// judge decides one creation w of a probe context in fn for endpoint ep
		judge := func(fn *ssa.Function, w *ssa.Call, ep ssa.Value, pos token.Pos, construct string) {
			ok, why := true, ""
			// parent: a context parameter of the enclosing function, or the endpoint's own ctx
			var parentParam *ssa.Parameter
			for _, l := range x.sl.Leaves(w.Call.Args[0], func(v ssa.Value) bool { return eng.FieldLoadOf(v, c15TEndpoint, "ctx") }) {
				if p, isP := l.(*ssa.Parameter); isP && p.Parent() == fn && c15IsContext(p.Type()) {
					parentParam = p
					continue
				}
				if b := eng.FieldBase(l, c15TEndpoint, "ctx"); b != nil && eng.SameValue(unspill(b), unspill(ep)) {
					continue
				}
				ok, why = false, "the probe context is not a child of the endpoint's context: removing the endpoint (or deleting its cluster) does not stop the probes"
			}
			// paired cancel kept on the same endpoint
			kept := false
			for _, cs := range eng.StoresToField([]*ssa.Function{fn}, c15TEndpoint, "cancelHealthCheck") {
				if cw := x.resultsOf(cs.Val, 1, c15IsWithCancel); len(cw) == 1 && cw[0] == w && eng.SameValue(unspill(cs.Addr.(*ssa.FieldAddr).X), unspill(ep)) {
					kept = true
				}
			}
			if ok && !kept {
				ok, why = false, "the cancel function paired with the probe context is not kept in the endpoint's cancelHealthCheck"
			}
			x.check("R1", fn, construct, pos, ok, why)
			// callers of the enclosing function pass the endpoint's own ctx
			if ok && parentParam != nil {
				pIdx, eIdx := -1, -1
				for i, p := range fn.Params {
					if p == parentParam {
						pIdx = i
					}
					if ssa.Value(p) == unspill(ep) {
						eIdx = i
					}
				}
				nc := 0
				var callers func(fn *ssa.Function, pIdx, eIdx, depth int)
				callers = func(fn *ssa.Function, pIdx, eIdx, depth int) {
					for _, g := range c.W.AllRepoFuncs() {
						for _, cs := range eng.CallsToFn(g, fn) {
							nc++
							a := cs.Common().Args
							same := pIdx >= 0 && eIdx >= 0 && pIdx < len(a) && eIdx < len(a)
							origins := 1
							if same {
								// a step function that hands its own (context, endpoint) parameters on: its callers decide
								pp, isPP := unspill(a[pIdx]).(*ssa.Parameter)
								ep2, isEP := unspill(a[eIdx]).(*ssa.Parameter)
								if isPP && isEP && pp.Parent() == g && ep2.Parent() == g && depth > 0 && len(c.W.StaticCallSites(g)) > 0 {
									nc--
									callers(g, eng.ParamIndex(pp), eng.ParamIndex(ep2), depth-1)
									continue
								}
								same = c03OwnCtx(a[pIdx], a[eIdx])
								// one obligation per endpoint the call may be about: two branches (update / add)
								// that share one call — directly or through a wrapping helper — are still two starts
								origins = c03EndpointOrigins(c, a[eIdx], eng.LiftDepth)
							}
							for ; origins > 0; origins-- {
								x.check("R1", g, x.nth(g, "health check started under the endpoint's own ctx"), cs.Pos(), same,
									"the context handed to "+fn.Name()+" is not the ctx field of the endpoint being probed (e.g. the cluster's ctx): cancelling the endpoint on removal does not stop its probes")
							}
						}
					}
				}
				callers(fn, pIdx, eIdx, eng.LiftDepth)
				if nc == 0 {
					c.Fail("R1", fn, "health check started under the endpoint's own ctx", fn.Pos(), "no caller of "+fn.Name()+" found")
				}
			}
		}
		n := 0
		if own := x.probeCtxCreations(start); len(own) > 0 && epIdx >= 0 {
			// the starter creates the probe context itself
			for _, w := range own {
				n++
				judge(start, w, start.Params[epIdx], w.Pos(), x.nth(start, "probe ctx = WithCancel(ctx argument), cancel kept in cancelHealthCheck"))
			}
		} else {
			for _, fn := range c.W.AllRepoFuncs() {
				for _, ci := range eng.CallsToFn(fn, start) {
					n++
					construct := x.nth(fn, "probe ctx = WithCancel(ctx argument), cancel kept in cancelHealthCheck")
					args := ci.Common().Args
					if ctxIdx < 0 || epIdx < 0 || ctxIdx >= len(args) {
						c.Undecided("R1", fn, construct, ci.Pos(), "startGatewayHealthCheck has no (endpoint, context) parameters")
						continue
					}
					ws := x.resultsOf(args[ctxIdx], 0, c15IsWithCancel)
					if len(ws) != 1 {
						x.check("R1", fn, construct, ci.Pos(), false, "the probe goroutines do not get their own cancellable context: disabling the endpoint cannot stop them")
						continue
					}
					judge(fn, ws[0], args[epIdx], ci.Pos(), construct)
				}
			}
		}
		if n == 0 {
			c.Fail("R1", start, "probe ctx = WithCancel(ctx argument), cancel kept in cancelHealthCheck", start.Pos(), "no call of startGatewayHealthCheck found")
		}
	}

	// (4) limiter
	nLim := 0
	newLimiter := c.MustFunc(pkgFCRoot, "NewUpstreamLimiter")
	for _, fn := range c.W.FuncsOf(pkgClusters) {
		for _, ci := range eng.CallsTo(fn, pkgFCRoot+".NewUpstreamLimiter") {
			nLim++
			a := eng.Args(ci)
			ok, why := false, "the limiter is not given the context stored in ClusterInfo.ctx of the cluster that owns it: its background goroutines outlive the cluster"
			for _, st := range eng.StoresToField([]*ssa.Function{fn}, c15TCluster, "ctx") {
				obj := st.Addr.(*ssa.FieldAddr).X
				if len(a) == 0 || st.Val != a[0] {
					continue
				}
				for _, fs := range eng.StoresToField([]*ssa.Function{fn}, c15TCluster, "flowcontrol") {
					if fs.Addr.(*ssa.FieldAddr).X == obj && fs.Val == eng.ResultValue(ci) {
						ok = true
					}
				}
			}
			x.check("R1", fn, x.nth(fn, "limiter ctx = cluster ctx"), ci.Pos(), ok, why)
		}
	}
	if nLim == 0 {
		c.Fail("R1", nil, "limiter ctx = cluster ctx", 0, "no NewUpstreamLimiter call in pkg/clusters")
	}
	if newLimiter != nil && len(newLimiter.Params) > 0 && c15IsContext(newLimiter.Params[0].Type()) {
		ok, why := true, ""
		isRoot := func(v ssa.Value) bool {
			cc, _ := eng.CallResultOf(v)
			return cc != nil && eng.IsCall(cc, "context.Background", "context.TODO")
		}
		nCtx := 0
		for _, ci := range eng.Calls(newLimiter) {
			for _, a := range ci.Common().Args {
				if !c15IsContext(a.Type()) {
					continue
				}
				nCtx++
				if x.sa.DerivesFrom(a, isRoot) || !x.sa.DerivesFrom(a, func(v ssa.Value) bool { return v == ssa.Value(newLimiter.Params[0]) }) {
					ok, why = false, "a context passed on by NewUpstreamLimiter ("+eng.FullName(ci)+") does not derive from its ctx parameter"
				}
			}
		}
		if nCtx == 0 {
			ok, why = false, "NewUpstreamLimiter does not use its ctx parameter at all"
		}
		x.check("R1", newLimiter, "limiter contexts derive from the ctx parameter", newLimiter.Pos(), ok, why)
	}
}

// ---- R2 ---------------------------------------------------------------------------------

func c15R2(x *c15x) {
	c := x.c
	epCancel := c15CancelSpec{c15TEndpoint, "cancel"}
	clCancel := c15CancelSpec{c15TCluster, "cancel"}

	// (1) syncEndpoints. The deletion may sit in the range callback itself, in a method whose
	// value is the callback, or in a helper the callback calls: the Region of syncEndpoints is
	// scanned and every deletion is decided in every calling context that leads up to
	// syncEndpoints (eng.UpChains). Obligations are reported against the callback.
	if se := c03SyncAnchor(c); se != nil {
		n := 0
		isSE := func(f *ssa.Function) bool { return f == se }
		for _, fn := range c.W.Region(se) {
			for _, ci := range eng.CallsTo(fn, "(*"+c15TEPMap+").LoadAndDelete", "(*"+c15TEPMap+").Delete") {
				l, isCall := ci.(*ssa.Call)
				if !isCall {
					continue
				}
				// the calling contexts in which this deletion runs as part of syncEndpoints
				var chains []eng.UpChain
				for _, ch := range c.W.UpChains(fn, isSE) {
					if ch.Top(fn) == se {
						chains = append(chains, ch)
					}
				}
				if len(chains) == 0 {
					continue // a helper also used elsewhere, reached from syncEndpoints through no known path
				}
				n++
				// the range callback that performs (or leads to) the deletion
				var cb *ssa.Function
				var rangeCalls []ssa.CallInstruction
				oneCB := true
				for _, ch := range chains {
					site := ch.CallbackSite()
					if site == nil || (cb != nil && site.Fn != cb) {
						oneCB = false
						break
					}
					cb = site.Fn
					rangeCalls = append(rangeCalls, site.Call)
				}
				rep := fn // where the obligations are reported
				if oneCB && cb != nil {
					rep = cb
				}
				// own map
				base := eng.FieldBase(eng.Receiver(l), c15TCluster, "Endpoints")
				own := base != nil
				for _, ch := range chains {
					if own && !ch.DerivesFrom(x.sl, base, func(v ssa.Value) bool { return v == ssa.Value(se.Params[0]) }) {
						own = false
					}
				}
				x.check("R2", rep, x.nth(rep, "removed endpoint deleted from the receiver's own map"), l.Pos(), own, "the endpoint is not removed from the Endpoints map of the cluster being synced: Pop() keeps finding it")
				// cancel on the loaded edge
				var info ssa.Value
				for _, e := range eng.ExtractOf(l, 0) {
					info = e
				}
				okC, whyC := false, "the removed endpoint's cancel function is not invoked on every path on which it was present: requests being proxied to it hang on and its probes continue"
				if info != nil {
					isInfo := func(v ssa.Value) bool { return v == info }
					var starts []*ssa.BasicBlock
					for _, e := range eng.ExtractOf(l, 1) {
						for _, br := range eng.BranchesOn(e) {
							starts = append(starts, br.OnTrue)
						}
					}
					okC = true
					if len(starts) == 0 {
						okC = eng.ReachAfter(l, eng.PathQuery{Target: eng.IsExit, Avoid: func(i ssa.Instruction) bool { return c15Cancels(i, isInfo, epCancel, 2) }}) == nil
					}
					for _, b := range starts {
						if !c15AlwaysCancels(b, isInfo, epCancel, 2, nil) {
							okC = false
						}
					}
				}
				if !okC {
					// the removal and the cancel may be split over a helper that hands the removed endpoint
					// back (with or without an ok flag) and its caller: decided by forcing on the callback
					okC, _ = x.cancelsRemoved(rep, epCancel, false, func(ci ssa.CallInstruction, _ eng.UpChain) bool { return ci == ssa.CallInstruction(l) })
				}
				x.check("R2", rep, x.nth(rep, "removed endpoint's cancel invoked"), l.Pos(), okC, whyC)

				// the callback ranges over current∖wanted and never stops the iteration
				if !oneCB || cb == nil {
					// the loop form: `for _, name := range removed.ToStrings() { … LoadAndDelete(name) … }`
					// (the loop may call a helper that deletes: decided in every calling context)
					var src *ssa.Call
					var loop *eng.Loop
					var body ssa.Instruction
					for k, ch := range chains {
						s1, l1, b1 := setIterSource(x.sl, l, ch)
						if s1 == nil || (k > 0 && s1 != src) {
							src = nil
							break
						}
						src, loop, body = s1, l1, b1
					}
					if src == nil {
						c.Undecided("R2", fn, x.nth(fn, "removed set = current endpoints ∖ wanted servers"), l.Pos(), "deletion is not performed by a set-range callback nor in a loop over the elements of a set; the removed set cannot be identified")
						continue
					}
					okSet, whySet := true, ""
					for _, ch := range chains {
						// the source call sits in the function holding the loop: the part of the context above it
						up := ch
						for len(up) > 0 && up[0].Fn != src.Parent() {
							up = up[1:]
						}
						if o, w := x.rangedIsRemoved(se, up, eng.Receiver(src)); !o {
							okSet, whySet = false, w
						}
					}
					x.check("R2", se, x.nth(se, "removed set = current endpoints ∖ wanted servers"), l.Pos(), okSet, whySet)
					full := loop.OnlyHeaderExits() && loop.EveryIterationPasses(func(i ssa.Instruction) bool { return i == body })
					x.check("R2", fn, x.nth(fn, "range callback never stops the iteration"), l.Pos(), full, "the loop over the removed endpoints can be left early or skips elements: the remaining removed endpoints are neither deleted nor cancelled")
					continue
				}
				okSet, whySet := true, ""
				for k, ch := range chains {
					if o, w := x.removedSet(se, cb, l, ch, rangeCalls[k]); !o {
						okSet, whySet = false, w
					}
				}
				x.check("R2", se, x.nth(se, "removed set = current endpoints ∖ wanted servers"), l.Pos(), okSet, whySet)
				allTrue := true
				eng.Instrs(cb, func(ins ssa.Instruction) {
					r, ok := ins.(*ssa.Return)
					if !ok || r.Block() == cb.Recover {
						return
					}
					if len(r.Results) != 1 {
						allTrue = false
						return
					}
					ls := x.sl.Leaves(r.Results[0], nil)
					for _, v := range ls {
						if !eng.IsBoolConst(v, true) {
							allTrue = false
						}
					}
					if len(ls) == 0 {
						allTrue = false
					}
				})
				x.check("R2", cb, x.nth(cb, "range callback never stops the iteration"), cb.Pos(), allTrue, "the callback can return false: the remaining removed endpoints are neither deleted nor cancelled")
			}
		}
		if n == 0 {
			c.Fail("R2", se, "removed endpoint deleted from the receiver's own map", se.Pos(), "syncEndpoints never deletes from the endpoint map")
		}
	}

	// (2) DeleteWithStop stops the removed cluster
	if dws := c.MustMethod(pkgClusters, "manager", "DeleteWithStop"); dws != nil {
		ok, why := x.stopsRemoved(dws, clCancel)
		x.check("R2", dws, "DeleteWithStop cancels the removed cluster's context", dws.Pos(), ok, why)
	}
	if stop := c.MustMethod(pkgClusters, "ClusterInfo", "Stop"); stop != nil {
		ok := c15AlwaysCancels(stop.Blocks[0], func(v ssa.Value) bool { return v == ssa.Value(stop.Params[0]) }, clCancel, 1, nil)
		x.check("R2", stop, "ClusterInfo.Stop invokes the cluster's cancel", stop.Pos(), ok, "Stop() can return without cancelling the cluster context (requests in flight and probes of a deleted cluster go on)")
	}

	// (3) the controller's NotFound path deletes with DeleteWithStop only
	x.notFoundUsesStop()
}

// removedSet checks that cb (the closure or method that deletes with call l, itself or
// through the helpers of calling context ch) is the callback of rangeCall, a Range on
// current.Diff(wanted)  where current derives from the cluster's endpoint names
// and wanted collects the Endpoint of every element of the servers parameter, and that the
// deleted key is the callback's element.
func (x *c15x) removedSet(se, cb *ssa.Function, l *ssa.Call, ch eng.UpChain, rangeCall ssa.CallInstruction) (bool, string) {
	// key = the callback's element parameter
	keyOK := false
	params := cb.Params
	if cb.Signature.Recv() != nil && len(params) > 0 {
		params = params[1:]
	}
	for _, p := range params {
		if _, isI := p.Type().Underlying().(*types.Interface); isI && ch.DerivesFrom(x.sl, eng.Args(l)[0], func(v ssa.Value) bool { return v == ssa.Value(p) }) {
			keyOK = true
		}
	}
	if !keyOK {
		return false, "the deleted key is not the element handed to the range callback"
	}
	if rangeCall == nil || !eng.MethodNameIs(rangeCall, "Range") {
		return false, "the deleting closure is not passed to a Range call"
	}
	return x.rangedIsRemoved(se, ch, eng.Receiver(rangeCall))
}

// rangedIsRemoved checks that ranged, the set whose elements are removed (in calling context
// ch), is current.Diff(wanted) where current derives from the cluster's endpoint names and
// wanted collects the Endpoint of every element of the servers.
func (x *c15x) rangedIsRemoved(se *ssa.Function, ch eng.UpChain, ranged ssa.Value) (bool, string) {
	isNames := func(v ssa.Value) bool {
		cc, _ := eng.CallResultOf(v)
		return cc != nil && eng.IsCall(cc, "(*"+c15TCluster+").AllEndpoints", "(*"+c15TEPMap+").Names")
	}
	// the ranged set, followed through the parameters of the helpers on the way up to syncEndpoints
	isDiff := func(u ssa.Value) bool { cc, _ := eng.CallResultOf(u); return cc != nil && eng.MethodNameIs(cc, "Diff") }
	var diffs []*ssa.Call
	for _, lf := range ch.Leaves(x.sl, ranged, isDiff) {
		cc, i := eng.CallResultOf(lf)
		if cc == nil || i != -1 || !isDiff(lf) {
			return false, "the ranged set is not the result of a single Diff"
		}
		diffs = append(diffs, cc)
	}
	tree := x.c.W.Down(se, eng.LiftDepth, nil)
	if len(diffs) != 1 || (eng.Outermost(diffs[0].Parent()) != se && len(tree.Of(diffs[0].Parent())) == 0) {
		return false, "the ranged set is not the result of a single Diff"
	}
	d := diffs[0]
	cur, wanted := eng.Receiver(d), eng.Args(d)[0]
	if !x.sa.DerivesFrom(cur, isNames) {
		return false, "the set the wanted servers are subtracted from is not built from the cluster's current endpoint names (Diff operands swapped?): endpoints dropped from the spec are never removed"
	}
	if x.sa.DerivesFrom(wanted, isNames) {
		return false, "the subtracted set derives from the current endpoint names, not from the wanted servers"
	}
	// wanted.Add(server.Endpoint) for elements of the servers parameter
	// (the servers are a parameter of the sync function, or — when it was merged into its
	// caller — read from one: any non-receiver parameter of the anchor counts)
	isServers := func(v ssa.Value) bool {
		p, ok := v.(*ssa.Parameter)
		return ok && p.Parent() == se && eng.ParamIndex(p) > 0
	}
	// (in syncEndpoints itself, or in a helper that builds the wanted set and returns it — possibly
	// together with other sets: the receiver of Add and the subtracted set resolve to one value)
	fills := false
	for _, dd := range ctxsOf(tree, d.Parent()) {
		want := dd.Canon(wanted)
		for _, dc := range tree.All() {
			for _, ci := range eng.Calls(dc.Fn) {
				if !eng.MethodNameIs(ci, "Add") || !dc.Canon(eng.Receiver(ci)).Same(want) {
					continue
				}
				for _, a := range eng.Args(ci) {
					if x.sl.DerivesFrom(a, func(v ssa.Value) bool { return eng.FieldLoadOf(v, c15TServer, "Endpoint") }) &&
						dc.DerivesFrom(x.sl, a, isServers) {
						fills = true
					}
				}
			}
		}
	}
	if !fills {
		// or the wanted set is constructed from the collected endpoint names in one go
		// (NewSetFromStrings(names) instead of Add in a loop)
		for _, dd := range ctxsOf(tree, d.Parent()) {
			if dd.DerivesFrom(x.sa, wanted, func(v ssa.Value) bool { return eng.FieldLoadOf(v, c15TServer, "Endpoint") }) && dd.DerivesFrom(x.sa, wanted, isServers) {
				fills = true
			}
		}
	}
	if !fills {
		return false, "the wanted set is not filled with the Endpoint of the servers of the new spec"
	}
	return true, ""
}

// stopsRemoved: every path through the manager method fn removes an entry of manager.clusters
// and, when an entry was present, cancels that cluster's context. The rule is "under the
// condition that the removal finds an entry, every path cancels it", so it is decided by
// forcing: the paths of fn are enumerated with the loaded flag of sync.Map.LoadAndDelete
// pinned to true and the stored cancel function pinned to non-nil, following same-package
// callees (a delete helper taking a stop flag or the map itself, a helper that removes and
// hands the removed cluster back with an ok flag, Stop); on every path a removal from
// manager.clusters must be followed by an invocation of the cancel function of the value
// that removal returned. Receivers and subjects inside helpers are related to the values of
// the callers through the chain of calls executed on the path (eng.PathChain).
func (x *c15x) stopsRemoved(fn *ssa.Function, sp c15CancelSpec) (bool, string) {
	return x.cancelsRemoved(fn, sp, true, func(ci ssa.CallInstruction, ch eng.UpChain) bool {
		return eng.RecvTypeName(ci) == "sync.Map" && eng.MethodNameIs(ci, "LoadAndDelete") &&
			eng.FieldAddrOf(ch.Resolve(eng.Receiver(ci)), c15TManager, "clusters")
	})
}

// cancelsRemoved is the forcing template "when the removal finds an entry, every path cancels
// it": the paths of fn are enumerated with the loaded flag of every LoadAndDelete pinned to
// true and the cancel function of the spec pinned to non-nil, following same-package
// callees; on every path a removal (a LoadAndDelete call accepted by isRemoval, which is
// given the chain of calls that leads to it) must be followed by an invocation of the cancel
// function of the value that removal returned. mustRemove: a path without a removal fails.
// A path on which the removed value itself is nil (a helper hands the removed object back
// and the caller tests it against nil instead of an ok flag) is infeasible: the tables never
// hold nil.
func (x *c15x) cancelsRemoved(fn *ssa.Function, sp c15CancelSpec, mustRemove bool, isRemoval func(ci ssa.CallInstruction, ch eng.UpChain) bool) (bool, string) {
	isLAD := func(ci ssa.CallInstruction) bool { return eng.MethodNameIs(ci, "LoadAndDelete") }
	pkg := pkgClusters
	in := &eng.Interp{W: x.c.W, Depth: eng.LiftDepth + 1, MaxPaths: 1 << 12,
		PinCall: func(call *ssa.Call, idx int, _ *eng.State) (eng.AV, bool) {
			if idx == 1 && isLAD(call) {
				return eng.AVBool(true), true
			}
			return eng.AV{}, false
		},
		PinLoad: func(ld *ssa.UnOp, _ string) (eng.AV, bool) {
			if eng.FieldAddrOf(ld.X, sp.typ, sp.field) {
				return eng.AV{K: eng.NonNilV}, true
			}
			return eng.AV{}, false
		},
		FollowCall: func(callee *ssa.Function) bool {
			// the table's own LoadAndDelete wrapper is the removal, not a helper to look into
			return callee.Pkg != nil && callee.Pkg.Pkg.Path() == pkg && callee.Name() != "LoadAndDelete"
		},
	}
	paths, err := in.Run(fn, nil)
	if err != nil || len(paths) == 0 {
		return false, "the paths of " + eng.FuncName(fn) + " cannot be enumerated"
	}
	for pi := range paths {
		pr := &paths[pi]
		if pr.Panicked {
			continue
		}
		if pr.LoopCut {
			return false, "a path through " + eng.FuncName(fn) + " loops"
		}
		rm := -1
		for k, ci := range pr.Calls {
			if _, isCall := ci.(*ssa.Call); !isCall || !isLAD(ci) {
				continue
			}
			if ch, ok := eng.PathChain(pr, k, fn); ok && isRemoval(ci, ch) {
				rm = k
				break
			}
		}
		if rm < 0 {
			if mustRemove {
				return false, "a path through " + eng.FuncName(fn) + " neither removes the entry nor stops the cluster"
			}
			continue
		}
		removal := pr.Calls[rm].(*ssa.Call)
		isRemoved := func(u ssa.Value) bool { cc, idx := eng.CallResultOf(u); return cc == removal && idx == 0 }
		cancelled := false
		for k := rm + 1; k < len(pr.Calls) && !cancelled; k++ {
			ci := pr.Calls[k]
			if _, isGo := ci.(*ssa.Go); isGo {
				continue
			}
			cc := ci.Common()
			if cc.IsInvoke() || cc.StaticCallee() != nil {
				continue
			}
			ch, okCh := eng.PathChain(pr, k, fn)
			if !okCh {
				continue
			}
			// the invoked function value is the cancel field of the removed object — read here, or
			// read by a caller on this path and handed down as an argument
			for _, fl := range ch.Leaves(x.sl, cc.Value, func(v ssa.Value) bool { return eng.FieldLoadOf(v, sp.typ, sp.field) }) {
				base := eng.FieldBase(fl, sp.typ, sp.field)
				if base == nil {
					continue
				}
				// the chain below the function the field was read in
				up := ch
				if ins, isIns := fl.(ssa.Instruction); isIns {
					for len(up) > 0 && up[0].Fn != ins.Parent() {
						up = up[1:]
					}
				}
				if up.DerivesFrom(x.sl, base, isRemoved) || ch.DerivesFrom(x.sl, base, isRemoved) {
					cancelled = true
				}
			}
		}
		if !cancelled && pr.Final != nil {
			for _, v := range pr.Final.NilValues() {
				// the removed object itself (handed on unchanged), not something read from it
				if eng.MayBeObject(v, isRemoved) {
					cancelled = true
					break
				}
			}
		}
		if !cancelled {
			return false, "after removing the entry from the table a path returns without cancelling the removed object's context: requests in flight to it are left hanging and its endpoints keep being probed"
		}
	}
	return true, ""
}

// endpointCtxOK: parent — the parent context of an endpoint context created in fn for the
// endpoint object obj — is the context of a cluster that is a parameter / receiver of fn (or
// captured from an enclosing function), and obj is registered in that cluster's Endpoints map
// (by fn, or by its callers when fn hands the new endpoint back). When fn is a constructor
// that is handed the context instead of the cluster (`newEndpointInfo(c.Context(), …)`), the
// same is decided at every call of fn, for the argument and for the returned endpoint.
func (x *c15x) endpointCtxOK(fn *ssa.Function, parent, obj ssa.Value, depth int) (bool, string) {
	var recv ssa.Value // filled below: the cluster whose ctx is the parent
	isClusterCtx := func(v ssa.Value) bool {
		if eng.FieldLoadOf(v, c15TCluster, "ctx") {
			return true
		}
		cc, _ := eng.CallResultOf(v)
		return cc != nil && eng.IsCall(cc, "(*"+c15TCluster+").Context")
	}
	// the creating function may be a function literal (the add/update function merged into the
	// Range callback of the sync function): the cluster it captured is resolved to the
	// enclosing function's parameter
	canon := x.canonIn(fn)
	leaves := x.sl.Leaves(parent, isClusterCtx)
	if len(leaves) == 0 {
		return false, "parent context of unknown origin"
	}
	for _, l := range leaves {
		var owner ssa.Value
		if b := eng.FieldBase(l, c15TCluster, "ctx"); b != nil {
			owner = b
		} else if cc, _ := eng.CallResultOf(l); cc != nil && isClusterCtx(l) {
			owner = eng.Receiver(cc)
		}
		if owner == nil {
			// a context parameter of a constructor: decided at its call sites
			if p, isP := l.(*ssa.Parameter); isP && p.Parent() == fn && c15IsContext(p.Type()) && len(leaves) == 1 && depth > 0 {
				return x.endpointCtxAtCallers(fn, p, obj, depth)
			}
			return false, "the endpoint's context is not derived from a cluster context (e.g. context.Background()): ClusterInfo.Stop() on deletion of the cluster no longer ends the requests and probes of this endpoint"
		}
		owner = canon(owner)
		if p, isP := owner.(*ssa.Parameter); !isP || (p.Parent() != fn && !c15Encloses(p.Parent(), fn)) {
			return false, "the cluster whose context is the parent is not a parameter/receiver of the creating function: cannot tell that it is the cluster the endpoint belongs to"
		}
		if recv != nil && owner != recv {
			return false, "the endpoint's context has parents in two different clusters"
		}
		recv = owner
	}
	// the endpoint object is registered in the receiver's own map — by the creating function, or,
	// when that is a helper handing the new endpoint back, by every caller of the helper
	if !x.registeredIn(fn, obj, recv, eng.LiftDepth) {
		return false, "the endpoint whose context is created here is not stored into the Endpoints map of the cluster whose context is its parent (it would be cancelled with one cluster and serve another)"
	}
	return true, ""
}

// endpointCtxAtCallers: fn is handed the parent context as parameter p and returns the new
// endpoint obj: every call of fn (all callers must be known) passes a cluster's context and
// registers the returned endpoint in that cluster's map.
func (x *c15x) endpointCtxAtCallers(fn *ssa.Function, p *ssa.Parameter, obj ssa.Value, depth int) (bool, string) {
	idx := -1
	for _, r := range eng.Returns(fn) {
		for i, v := range eng.ReturnResults(r) {
			for _, o := range eng.PhiOrigins(v) {
				if o == obj {
					idx = i
				}
			}
		}
	}
	sites := x.c.W.LiftSites(fn)
	pIdx := eng.ParamIndex(p)
	if idx < 0 || len(sites) == 0 || pIdx < 0 {
		return false, "the endpoint's context is a child of a context parameter of " + fn.Name() + ", whose callers are not all known (or which does not hand the new endpoint back): cannot tell that it is the context of the cluster the endpoint belongs to"
	}
	for _, s := range sites {
		call, isCall := s.(*ssa.Call)
		if !isCall || pIdx >= len(call.Call.Args) {
			return false, "the constructor " + fn.Name() + " is not called directly"
		}
		var results []ssa.Value
		if fn.Signature.Results().Len() == 1 {
			results = append(results, call)
		} else {
			for _, e := range eng.ExtractOf(call, idx) {
				results = append(results, e)
			}
		}
		if len(results) == 0 {
			return false, "a caller of " + fn.Name() + " drops the new endpoint"
		}
		for _, r := range results {
			if ok, why := x.endpointCtxOK(call.Parent(), call.Call.Args[pIdx], r, depth-1); !ok {
				return false, why
			}
		}
	}
	return true, ""
}

// canonIn returns the canonicalisation of values of fn in the context fn runs in below its
// outermost enclosing function (captured variables resolve to the enclosing function's
// values); plain unspilling when fn is not a function literal with one such context.
func (x *c15x) canonIn(fn *ssa.Function) func(ssa.Value) ssa.Value {
	if fn.Parent() != nil {
		if ds := x.c.W.Down(eng.Outermost(fn), eng.LiftDepth, nil).Of(fn); len(ds) == 1 {
			return func(v ssa.Value) ssa.Value {
				if r := ds[0].Canon(v); r.V != nil {
					return r.V
				}
				return v
			}
		}
	}
	return unspill
}

// c15Encloses: outer is an enclosing function of the function literal inner.
func c15Encloses(outer, inner *ssa.Function) bool {
	for f := inner.Parent(); f != nil; f = f.Parent() {
		if f == outer {
			return true
		}
	}
	return false
}

// registeredIn: obj, an endpoint created in fn with a context derived from cluster recv, is
// stored into the Endpoints map of that cluster — in fn itself, or, when fn is a helper that
// hands the new endpoint to its callers as a result, by every caller of the helper (for the
// cluster the caller passes as recv). The helper's callers must be completely known.
func (x *c15x) registeredIn(fn *ssa.Function, obj, recv ssa.Value, depth int) bool {
	mayBe := func(v ssa.Value) bool {
		for _, o := range eng.PhiOrigins(v) {
			if o == obj {
				return true
			}
		}
		return false
	}
	for _, ci := range eng.CallsTo(fn, "(*"+c15TEPMap+").Store", "(*"+c15TEPMap+").LoadOrStore") {
		a := eng.Args(ci)
		if b := eng.FieldBase(eng.Receiver(ci), c15TCluster, "Endpoints"); len(a) == 2 && mayBe(a[1]) && b != nil && (b == recv || x.canonIn(fn)(b) == recv) {
			return true
		}
	}
	rp, isP := recv.(*ssa.Parameter)
	if depth <= 0 || !isP || rp.Parent() != fn {
		return false
	}
	idx := -1
	for _, r := range eng.Returns(fn) {
		for i, v := range eng.ReturnResults(r) {
			if mayBe(v) {
				idx = i
			}
		}
	}
	sites := x.c.W.LiftSites(fn)
	pIdx := eng.ParamIndex(rp)
	if idx < 0 || len(sites) == 0 || pIdx < 0 {
		return false
	}
	for _, s := range sites {
		call, isCall := s.(*ssa.Call)
		if !isCall || pIdx >= len(call.Call.Args) {
			return false
		}
		var results []ssa.Value
		if fn.Signature.Results().Len() == 1 {
			results = append(results, call)
		} else {
			for _, e := range eng.ExtractOf(call, idx) {
				results = append(results, e)
			}
		}
		if len(results) == 0 {
			return false
		}
		for _, r := range results {
			if !x.registeredIn(call.Parent(), r, call.Call.Args[pIdx], depth-1) {
				return false
			}
		}
	}
	return true
}

// notFoundUsesStop: every manager deletion reachable on the NotFound edge of the gateway
// controller's sync handler (in the handler or in the controller functions it calls there)
// is DeleteWithStop.
func (x *c15x) notFoundUsesStop() {
	c := x.c
	lister := "(" + mod + "/pkg/client/listers/proxy/v1alpha1.UpstreamClusterLister).Get"
	isDel := func(i ssa.Instruction) bool { return eng.IsCall(i, c15MgrIface+"Delete", c15MgrIface+"DeleteWithStop") }
	nH := 0
	for _, fn := range c.W.FuncsOf(pkgCtrl) {
		for _, qc := range eng.CallsTo(fn, pkgSyncQueue+".NewPassthroughSyncQueue") {
			a := eng.Args(qc)
			if len(a) != 2 {
				continue
			}
			h := c.W.FuncOfValue(a[1])
			if h == nil || h.Blocks == nil {
				c.Undecided("R2", fn, "sync handler resolved", qc.Pos(), "the SyncHandler argument is not a function or method value")
				continue
			}
			nH++
			var onNotFound *ssa.BasicBlock
			for _, ci := range eng.CallsTo(h, "k8s.io/apimachinery/pkg/api/errors.IsNotFound") {
				cc, idx := eng.CallResultOf(eng.Args(ci)[0])
				if cc == nil || idx != 1 || !eng.IsCall(cc, lister) {
					continue
				}
				if v := eng.ResultValue(ci); v != nil {
					for _, br := range eng.BranchesOn(v) {
						onNotFound = br.OnTrue
					}
				}
			}
			if onNotFound == nil {
				c.Fail("R2", h, "NotFound path deletes with DeleteWithStop", h.Pos(), "no errors.IsNotFound branch on the lister's error")
				continue
			}
			var sites []ssa.Instruction
			seenFn := map[*ssa.Function]bool{}
			eng.ReachFromBlock(onNotFound, eng.PathQuery{Target: func(i ssa.Instruction) bool {
				if isDel(i) {
					sites = append(sites, i)
				}
				if ci, ok := i.(ssa.CallInstruction); ok {
					if callee := ci.Common().StaticCallee(); callee != nil && callee.Blocks != nil && callee.Pkg != nil && callee.Pkg.Pkg.Path() == pkgCtrl && !seenFn[callee] {
						seenFn[callee] = true
						eng.Instrs(callee, func(j ssa.Instruction) {
							if isDel(j) {
								sites = append(sites, j)
							}
						})
					}
				}
				return false
			}})
			seen := map[ssa.Instruction]bool{}
			n := 0
			for _, s := range sites {
				if seen[s] {
					continue
				}
				seen[s] = true
				n++
				x.check("R2", s.Parent(), x.nth(s.Parent(), "NotFound path deletes with DeleteWithStop"), s.Pos(), eng.IsCall(s, c15MgrIface+"DeleteWithStop"),
					"the deletion path of the controller removes the name with Delete (no Stop): the deleted cluster's context is never cancelled, so requests in flight keep streaming and all its endpoints keep being probed")
			}
			if n == 0 {
				c.Fail("R2", h, "NotFound path deletes with DeleteWithStop", h.Pos(), "no manager deletion is reachable on the NotFound edge")
			}
		}
	}
	if nH == 0 {
		c.Fail("R2", nil, "sync handler resolved", 0, "no NewPassthroughSyncQueue(…, handler) found in the controller package")
	}
}

// ---- R3 ---------------------------------------------------------------------------------

func c15R3(x *c15x) {
	c := x.c
	sh := c.MustMethod(pkgDispatcher, "dispatcher", "ServeHTTP")
	if sh == nil {
		return
	}
	x.up = true
	x.tree = c.W.Down(sh, eng.LiftDepth, nil)
	defer func() { x.up, x.tree = false, nil }()
	// picking, watcher and forwarding may sit in a helper ServeHTTP hands the admitted request to:
	// they are looked up in the Region of ServeHTTP
	region := c.W.Region(sh)
	var pops []ssa.CallInstruction
	for _, fn := range region {
		pops = append(pops, eng.CallsTo(fn, "("+pkgClusters+".EndpointPicker).Pop")...)
	}
	if len(pops) != 1 {
		c.Fail("R3", sh, "goroutine watches the picked endpoint's context", sh.Pos(), fmt.Sprintf("expected exactly one Pop(), found %d", len(pops)))
		return
	}
	pop := pops[0]
	isPicked := func(v ssa.Value) bool {
		cc, idx := eng.CallResultOf(v)
		return cc != nil && ssa.CallInstruction(cc) == pop && idx == 0
	}
	// Done() of Context() of the picked endpoint (and of nothing else)
	isEndpointDone := func(ch ssa.Value) bool {
		dones := x.resultsOf(ch, -1, func(cc *ssa.Call) bool { return eng.IsCall(cc, c15Done) })
		if len(dones) == 0 {
			return false
		}
		for _, d := range dones {
			ctxs := x.resultsOf(eng.Receiver(d), -1, func(cc *ssa.Call) bool { return eng.IsCall(cc, "(*"+c15TEndpoint+").Context") })
			if len(ctxs) == 0 {
				return false
			}
			for _, cx := range ctxs {
				// every origin is the Pop result (or the nil a picking helper returns with its failure)
				n := 0
				for _, l := range x.leaves(eng.Receiver(cx), isPicked) {
					switch {
					case isPicked(l):
						n++
					case eng.IsNilConst(l):
					default:
						return false
					}
				}
				if n == 0 {
					return false
				}
			}
		}
		return true
	}
	type watch struct {
		g   *ssa.Go
		fn  *ssa.Function
		sel *ssa.Select
		k   int
	}
	var ws []watch
	for _, rf := range region {
		eng.Instrs(rf, func(ins ssa.Instruction) {
			g, ok := ins.(*ssa.Go)
			if !ok {
				return
			}
			f := c.W.FuncOfValue(g.Call.Value)
			if f == nil || f.Blocks == nil {
				return
			}
			x.bindGo(g, f)
			eng.Instrs(f, func(i ssa.Instruction) {
				if s, ok := i.(*ssa.Select); ok {
					if k := c15WatchCase(s, isEndpointDone); k >= 0 {
						ws = append(ws, watch{g, f, s, k})
					}
				}
			})
		})
	}
	if len(ws) == 0 {
		c.Fail("R3", sh, "goroutine watches the picked endpoint's context", sh.Pos(), "no goroutine started by ServeHTTP selects on Done() of the Context() of the endpoint returned by Pop(): removing that endpoint (or deleting its cluster) does not cut the request being proxied to it — e.g. a watch keeps streaming from a removed endpoint")
		return
	}
	// the forwarding call: ServeHTTP on the handler built by NewUpgradeAwareHandler
	var fwds []ssa.CallInstruction
	for _, rf := range region {
		for _, ci := range eng.Calls(rf) {
			if !eng.MethodNameIs(ci, "ServeHTTP") || len(eng.Args(ci)) != 2 {
				continue
			}
			if x.sl.WithUp().DerivesFrom(eng.Receiver(ci), func(v ssa.Value) bool {
				cc, _ := eng.CallResultOf(v)
				return cc != nil && eng.IsCall(cc, pkgDispatcher+".NewUpgradeAwareHandler")
			}) {
				fwds = append(fwds, ci)
			}
		}
	}
	for _, w := range ws {
		x.check("R3", w.fn, x.nth(w.fn, "goroutine watches the picked endpoint's context"), w.sel.Pos(), true, "")
		// the Done case always cancels
		cb := c15CaseBlock(w.sel, w.k)
		var cancels []*ssa.Call // the WithCancel calls whose cancel function is invoked
		okCase, whyCase := cb != nil, "cannot find the branch taken when the endpoint's Done() fires"
		if cb != nil {
			isCancelCall := func(i ssa.Instruction) bool {
				ci, ok := i.(ssa.CallInstruction)
				if !ok || ci.Common().IsInvoke() || ci.Common().StaticCallee() != nil {
					return false
				}
				if eng.TypeName(ci.Common().Value.Type()) != "context.CancelFunc" {
					return false
				}
				cw := x.resultsOf(ci.Common().Value, 1, c15IsWithCancel)
				if len(cw) != 1 {
					return false
				}
				cancels = append(cancels, cw[0])
				return true
			}
			if eng.ReachFromBlock(cb, eng.PathQuery{Target: eng.IsExit, Avoid: isCancelCall}) != nil {
				okCase, whyCase = false, "when the endpoint's context ends, a path of the goroutine returns without calling a cancel function obtained from context.WithCancel: the proxied request is not cut"
			}
		}
		x.check("R3", w.fn, x.nth(w.fn, "endpoint Done() case always cancels"), w.sel.Pos(), okCase, whyCase)

		// the cancel belongs to the context of every forwarded request
		okReq, whyReq := len(fwds) > 0, "no forwarding call (NewUpgradeAwareHandler(…).ServeHTTP) found"
		for _, fwd := range fwds {
			if !okCase {
				break
			}
			req := eng.Args(fwd)[1]
			isRebind := func(cc *ssa.Call) bool {
				return eng.IsCall(cc, "(*net/http.Request).WithContext", "(*net/http.Request).Clone")
			}
			rebinds := x.resultsOf(req, -1, isRebind)
			if len(rebinds) == 0 {
				okReq, whyReq = false, "the request handed to the proxy handler is not (only) the result of req.WithContext/Clone with a cancellable context — e.g. the incoming request itself is forwarded, which no endpoint removal can cancel"
			}
			for _, rb := range rebinds {
				cw := x.resultsOf(eng.Args(rb)[0], 0, c15IsWithCancel)
				if len(cw) != 1 {
					okReq, whyReq = false, "the context of the forwarded request is not the one returned by context.WithCancel"
					continue
				}
				for _, cc := range cancels {
					if cc != cw[0] {
						okReq, whyReq = false, "the cancel function called when the endpoint ends belongs to a different context.WithCancel than the context of the forwarded request (cancel on the wrong object)"
					}
				}
			}
			if len(cancels) == 0 {
				okReq, whyReq = false, "no cancel call identified"
			}
		}
		x.check("R3", sh, x.nth(sh, "cancel is paired with the forwarded request's context"), w.g.Pos(), okReq, whyReq)

		// started before forwarding, on every path and for every forwarding call
		before := len(fwds) > 0
		for _, fwd := range fwds {
			if !eng.AlwaysBefore(fwd.Parent(), fwd, func(i ssa.Instruction) bool { return i == ssa.Instruction(w.g) }) {
				before = false
			}
		}
		x.check("R3", sh, x.nth(sh, "watch goroutine started before forwarding"), w.g.Pos(), before, "a path reaches the proxy handler without the watching goroutine having been started (the request is forwarded un-watched)")
	}
}

// ---- R4 ---------------------------------------------------------------------------------

func c15R4(x *c15x) {
	c := x.c
	start := c03ProbeStarter(c)
	if start == nil {
		return
	}
	var ctxParam *ssa.Parameter
	for _, p := range start.Params {
		if c15IsContext(p.Type()) {
			ctxParam = p
		}
	}
	// the probe context: the ctx parameter of the starter, or — when the starter creates it
	// itself (the single-use start function merged into its caller) — the context of the
	// WithCancel whose cancel function it keeps in cancelHealthCheck
	own := x.probeCtxCreations(start)
	isOwn := func(v ssa.Value) bool {
		cc, idx := eng.CallResultOf(v)
		if cc == nil || idx != 0 {
			return false
		}
		for _, w := range own {
			if w == cc {
				return true
			}
		}
		return false
	}
	if len(own) > 0 {
		ctxParam = nil
	} else if ctxParam == nil {
		c.Fail(x.rid("R4"), start, "probe goroutine loops select on ctx.Done()", start.Pos(), "startGatewayHealthCheck has no context parameter")
		return
	}
	isCtxDone := func(ch ssa.Value) bool {
		dones := x.resultsOf(ch, -1, func(cc *ssa.Call) bool { return eng.IsCall(cc, c15Done) })
		if len(dones) == 0 {
			return false
		}
		for _, d := range dones {
			leaves := x.leaves(eng.Receiver(d), isOwn)
			if len(leaves) == 0 {
				return false
			}
			for _, l := range leaves {
				if !(ctxParam != nil && l == ssa.Value(ctxParam)) && !isOwn(l) {
					return false
				}
			}
		}
		return true
	}
	goroutines := map[*ssa.Function][]*ssa.Select{}
	n := 0
	eng.Instrs(start, func(ins ssa.Instruction) {
		g, ok := ins.(*ssa.Go)
		if !ok {
			return
		}
		f := c.W.FuncOfValue(g.Call.Value)
		construct := x.nth(start, "probe goroutine loops select on ctx.Done()")
		if f == nil || f.Blocks == nil {
			c.Undecided(x.rid("R4"), start, construct, g.Pos(), "goroutine body not resolved")
			return
		}
		n++
		x.bindGo(g, f)
		ok2, why, sels := c15LoopsWatch(f, isCtxDone)
		goroutines[f] = sels
		x.check(x.rid("R4"), f, construct, g.Pos(), ok2, why)
	})
	if n == 0 {
		c.Fail(x.rid("R4"), start, "probe goroutine loops select on ctx.Done()", start.Pos(), "startGatewayHealthCheck starts no goroutine")
	}
	// the probe function is invoked only behind a ctx-watching select of such a goroutine
	nProbe := 0
	for _, fn := range c.W.FuncsOf(pkgClusters) {
		for _, ci := range eng.Calls(fn) {
			if ci.Common().IsInvoke() || ci.Common().StaticCallee() != nil || !eng.FieldLoadOf(ci.Common().Value, c15TEndpoint, "healthCheckFun") {
				continue
			}
			nProbe++
			sels, isG := goroutines[fn]
			behind := false
			for _, f := range eng.FactsAt(ci, 0) {
				e, isE := f.Rel.X.(*ssa.Extract)
				if !isE || e.Index != 0 || f.Rel.Op != token.EQL {
					continue
				}
				for _, s := range sels {
					if e.Tuple == ssa.Value(s) {
						behind = true
					}
				}
			}
			x.check(x.rid("R4"), fn, x.nth(fn, "probe invoked only behind a select that watches ctx.Done()"), ci.Pos(), isG && behind,
				"healthCheckFun is called outside the cancellable health-check loop: the endpoint keeps being probed after it was removed or its cluster deleted")
		}
	}
	if nProbe == 0 {
		c.Fail(x.rid("R4"), nil, "probe invoked only behind a select that watches ctx.Done()", 0, "no invocation of healthCheckFun found")
	}
	c.Note("C15.R4: the ticker goroutine's `e.healthCheckCh <- struct{}{}` is a blocking send outside the select; after cancellation it can block forever if the channel is full (goroutine leak, not probing) — outside the property's statement")
}

// ---------------------------------------------------------------------------------------
// Fixtures

const c15FxSrc = `package fx
type E struct{ cancel func(); other func() }
func (e *E) stop() { if e.cancel != nil { e.cancel() } }
func (e *E) stopOther() { if e.other != nil { e.other() } }
func logf() {}

func goodDirect(e *E, present bool) bool {
	if !present { return true }
	logf()
	if e.cancel != nil { e.cancel() }
	return true
}
func goodNested(e *E, present bool) bool {
	if present {
		c := e.cancel
		if c != nil { c() }
	}
	return true
}
func goodHelper(e *E, present bool) bool {
	if !present { return true }
	e.stop()
	return true
}
func goodDefer(e *E, present bool) bool {
	if !present { return true }
	defer e.cancel()
	logf()
	return true
}
func badMissing(e *E, present bool) bool {
	if !present { return true }
	logf()
	return true
}
func badOtherField(e *E, present bool) bool {
	if !present { return true }
	if e.other != nil { e.other() }
	return true
}
func badOtherObject(e, f *E, present bool) bool {
	if !present { return true }
	f.stop()
	return true
}
func badConditional(e *E, present, really bool) bool {
	if !present { return true }
	if really { e.stop() }
	return true
}
func badHelperOther(e *E, present bool) bool {
	if !present { return true }
	e.stopOther()
	return true
}

func probe() {}
func loopGood(tick, done chan struct{}) {
	for {
		select {
		case <-tick:
			probe()
		case <-done:
			return
		}
	}
}
func loopGoodHoisted(tick, done chan struct{}) {
	d := done
	for {
		select {
		case <-d:
			logf()
			return
		case <-tick:
			probe()
		}
	}
}
func loopBadNoDone(tick, done chan struct{}) {
	for {
		<-tick
		probe()
	}
}
func loopBadContinue(tick, done chan struct{}) {
	for {
		select {
		case <-tick:
			probe()
		case <-done:
			continue
		}
	}
}
func loopBadSecondLoop(tick, done chan struct{}) {
	for {
		select {
		case <-tick:
			for { probe() }
		case <-done:
			return
		}
	}
}
func loopBadOtherChan(tick, done, other chan struct{}) {
	for {
		select {
		case <-tick:
			probe()
		case <-other:
			return
		}
	}
}
`

func c15Fixtures(c *eng.Ctx) {
	p, _, err := eng.BuildFixture(c15FxSrc)
	if err != nil {
		c.Fixture("C15/build", "ok", err.Error())
		return
	}
	sp := c15CancelSpec{"fx.E", "cancel"}
	for name, want := range map[string]bool{"goodDirect": true, "goodNested": true, "goodHelper": true, "goodDefer": true,
		"badMissing": false, "badOtherField": false, "badOtherObject": false, "badConditional": false, "badHelperOther": false} {
		fn := p.Func(name)
		subj := fn.Params[0]
		var present *ssa.Parameter
		for _, q := range fn.Params {
			if q.Name() == "present" {
				present = q
			}
		}
		got := false
		for _, br := range eng.BranchesOn(present) {
			got = c15AlwaysCancels(br.OnTrue, func(v ssa.Value) bool { return v == ssa.Value(subj) }, sp, 2, nil)
		}
		c.Fixture("C15.cancel/"+name, fmt.Sprint(want), fmt.Sprint(got))
	}
	sl := &eng.Slicer{Depth: 0}
	for name, want := range map[string]bool{"loopGood": true, "loopGoodHoisted": true, "loopBadNoDone": false, "loopBadContinue": false, "loopBadSecondLoop": false, "loopBadOtherChan": false} {
		fn := p.Func(name)
		done := fn.Params[1]
		ok, _, _ := c15LoopsWatch(fn, func(ch ssa.Value) bool {
			ls := sl.Leaves(ch, nil)
			return len(ls) == 1 && ls[0] == ssa.Value(done)
		})
		c.Fixture("C15.loop/"+name, fmt.Sprint(want), fmt.Sprint(ok))
	}
}
