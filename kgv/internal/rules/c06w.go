package rules

import (
	"golang.org/x/tools/go/ssa"

	"kgv/internal/eng"
)

func init() { RegisterExtra("C06", c06NeverStricter) }

// c06NeverStricter (C06.R8, added for seeded C06-7). R1 bounds the admissions from above
// ("every true is the bucket's answer"); the property also says the gateway is never stricter
// than configured. Necessary condition on the token-bucket leaf: a TryAcquire that asks
// client-go's bucket (TryAccept) asks it on every path — no refusal is produced without
// consulting the bucket (a remembered "drained until" stamp, a local counter or a cached last
// answer refuses requests for which the configured bucket holds a token). Decided as a
// must-pass-through query over the method and its same-package helpers.
func c06NeverStricter(c *eng.Ctx) {
	c.Rule("R8", "never stricter than set: a FlowControl.TryAcquire under pkg/flowcontrols that consults client-go's token bucket (TryAccept) does so on every path from entry to exit — no answer, in particular no refusal, is produced without asking the configured bucket", 1)
	iface := fcIface(c)
	if iface == nil {
		return
	}
	isAsk := func(ins ssa.Instruction) bool {
		call, ok := ins.(*ssa.Call)
		return ok && eng.IsCall(call, c06TryAccept)
	}
	must := eng.LiftMust(isAsk)
	n := 0
	for _, im := range c06Implementers(c, iface) {
		try := c.W.DeclaredMethod(im.named, "TryAcquire")
		if try == nil || try.Blocks == nil {
			continue
		}
		asks := false
		for _, fn := range c.W.Region(try) {
			eng.Instrs(fn, func(ins ssa.Instruction) {
				if isAsk(ins) {
					asks = true
				}
			})
		}
		if !asks {
			continue
		}
		n++
		bad := eng.ReachFromEntry(try, eng.PathQuery{Target: eng.IsExit, Avoid: must})
		pos := try.Pos()
		if bad != nil {
			pos = bad.Pos()
		}
		c.Check("R8", try, "bucket asked on every path", pos, bad == nil,
			"a path through TryAcquire answers without calling the bucket's TryAccept: requests are refused (or admitted) on remembered state although the configured bucket may hold a token — stricter than the configured (qps, burst)")
	}
	if n == 0 {
		c.Fail("R8", nil, "token-bucket TryAcquire implementations", 0, "no TryAcquire that calls TryAccept found")
	}
}
