package rules

import (
	"fmt"

	"golang.org/x/tools/go/ssa"

	"kgv/internal/eng"
)

func init() { RegisterExtra("C12", c12OneCachePerRequest) }

// c12OneCachePerRequest (C12.R5): a decision is cached where it was looked for. In the
// authorizer, the cache object a review's answer is written into (LRUExpireCache.Add) is the
// very object that was consulted for this request (LRUExpireCache.Get): one value, obtained
// once, before the review is sent. If the host's cache is looked up a second time when the
// answer arrives, the answer of a cluster that was stopped in the meantime (its cache dropped,
// the host taken over by another cluster) lands in the successor's cache and decides the
// successor's requests.
func c12OneCachePerRequest(c *eng.Ctx) {
	c.Rule("R5", "one cache object per request: in the SubjectAccessReview authorizer every LRUExpireCache.Add is performed on the same value on which the request's LRUExpireCache.Get was performed (the per-host cache is resolved once, before the review)", 1)
	az := c.MustMethod(pkgAuthzWH, "MultiClusterSubjectAccessReviewAuthorizer", "Authorize")
	if az == nil {
		return
	}
	const tCache = "k8s.io/apimachinery/pkg/util/cache.LRUExpireCache"
	resolve := func(v ssa.Value) ssa.Value {
		for i := 0; i < 4; i++ {
			r := c.W.ResolveUp(v)
			if r == nil || r == v {
				break
			}
			v = r
		}
		return v
	}
	var gets, adds []ssa.CallInstruction
	for _, fn := range c.W.Region(az) {
		for _, ci := range eng.Calls(fn) {
			switch {
			case eng.IsCall(ci, "(*"+tCache+").Get"):
				gets = append(gets, ci)
			case eng.IsCall(ci, "(*"+tCache+").Add"):
				adds = append(adds, ci)
			}
		}
	}
	if len(gets) == 0 || len(adds) == 0 {
		c.Fail("R5", az, "cache consulted and filled", az.Pos(), fmt.Sprintf("found %d Get and %d Add calls on the decision cache", len(gets), len(adds)))
		return
	}
	for i, a := range adds {
		ra := resolve(eng.Receiver(a))
		ok := false
		for _, g := range gets {
			if resolve(eng.Receiver(g)) == ra {
				ok = true
			}
		}
		c.Check("R5", az, fmt.Sprintf("Add#%d on the cache that was consulted", i+1), a.Pos(), ok,
			"the answer is stored into a cache object obtained by a separate lookup from the one that was consulted before the review: after the cluster was stopped and the host re-created, that is the successor's cache")
	}
}
