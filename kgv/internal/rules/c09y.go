package rules

import (
	"fmt"
	"go/token"
	"go/types"
	"strings"

	"golang.org/x/tools/go/ssa"

	"kgv/internal/eng"
)

func init() { RegisterExtra("C09", c09Round3) }

// c09Round3: rules added after the third seeded round.
func c09Round3(c *eng.Ctx) {
	c.Rule("R7", "one clock for request times: every value stored into AcquireResult.requestTime derives from time.Now().UnixNano() — the clock the staleness test of SetLimit compares it with — or the field is left zero (a synthetic failure stamped in another unit is discarded as stale and the fallback to the local limit never happens)", 1)
	c.Rule("R8", "the quota sanitizer leaves no member unclamped: on every path of the function that clamps the answered limit item to a return, for each member (MaxRequestsInflight, TokenBucket) either the member was found nil or its numeric fields were stored from the clamp — no other condition (e.g. the schema not configuring that kind) lets a non-nil member through", 2)

	// ---- R7
	tAR := pkgFCRemote + ".AcquireResult"
	n := 0
	sl := c.Slicer().WithUp()
	for _, st := range eng.StoresToField(c.W.FuncsOf(pkgFCRemote), tAR, "requestTime") {
		n++
		ls := sl.Leaves(st.Val, func(v ssa.Value) bool { return eng.IsResultOf(v, "(time.Time).UnixNano") })
		ok := len(ls) > 0
		for _, l := range ls {
			if eng.IsResultOf(l, "(time.Time).UnixNano") {
				continue
			}
			if k, isK := eng.IntConst(l); isK && k == 0 {
				continue
			}
			ok = false
		}
		c.Check("R7", st.Parent(), fmt.Sprintf("requestTime store#%d from UnixNano()", n), st.Pos(), ok,
			"the request time handed to SetLimit does not come from the nanosecond clock that lastAcquireTime is kept in: the result is compared across units and dropped as stale")
	}
	if n == 0 {
		c.Fail("R7", nil, "stores of AcquireResult.requestTime", 0, "none found")
	}

	// ---- R8
	isMemberLoad := func(v ssa.Value, member string) bool {
		u, ok := v.(*ssa.UnOp)
		if !ok || u.Op != token.MUL {
			return false
		}
		fa, ok := u.X.(*ssa.FieldAddr)
		if !ok || fieldNameOf(fa.X.Type(), fa.Field) != member {
			return false
		}
		// the member of a limit item (not of the schema: those are Global<Member>)
		tn := eng.TypeName(c10Deref(fa.X.Type()))
		return strings.HasSuffix(tn, ".LimitItemDetail") || strings.HasSuffix(tn, ".RateLimitItemConfiguration")
	}
	members := map[string][]string{"MaxRequestsInflight": {"Max"}, "TokenBucket": {"QPS", "Burst"}}
	found := 0
	for _, fn := range c.W.FuncsOf(pkgFCRemote) {
		if fn.Parent() != nil {
			continue
		}
		// a sanitizer: returns a limit item and stores clamp results into member fields
		res := fn.Signature.Results()
		if res.Len() != 1 || !strings.HasSuffix(eng.TypeName(res.At(0).Type()), ".RateLimitItemConfiguration") {
			continue
		}
		for member, fields := range members {
			var stores []ssa.Instruction
			for _, g := range c.W.Region(fn) {
				eng.Instrs(g, func(ins ssa.Instruction) {
					st, ok := ins.(*ssa.Store)
					if !ok {
						return
					}
					fa, ok := st.Addr.(*ssa.FieldAddr)
					if !ok {
						return
					}
					name := fieldNameOf(fa.X.Type(), fa.Field)
					isField := false
					for _, f := range fields {
						isField = isField || f == name
					}
					if !isField || !isMemberLoad(fa.X, member) {
						return
					}
					if cc, _ := eng.CallResultOf(st.Val); cc == nil || cc.Call.StaticCallee() == nil || cc.Call.StaticCallee().Pkg != fn.Pkg {
						return // not the result of a repository clamp helper
					}
					if g == fn {
						stores = append(stores, ins)
					} else if sites := c.W.SitesIn(fn, ins); len(sites) > 0 {
						stores = append(stores, sites...)
					}
				})
			}
			if len(stores) == 0 {
				continue
			}
			found++
			isStore := func(i ssa.Instruction) bool {
				for _, s := range stores {
					if i == s {
						return true
					}
				}
				return false
			}
			x := eng.ReachFromEntry(fn, eng.PathQuery{
				Target: eng.IsExit,
				Avoid:  isStore,
				BlockEdge: func(from *ssa.BasicBlock, idx int) bool {
					iff, ok := from.Instrs[len(from.Instrs)-1].(*ssa.If)
					if !ok {
						return false
					}
					r := eng.RelOf(iff.Cond, idx == 0)
					var other ssa.Value
					switch {
					case isMemberLoad(r.X, member):
						other = r.Y
					case isMemberLoad(r.Y, member):
						other = r.X
					default:
						return false
					}
					if !eng.IsNilConst(other) {
						return false
					}
					return r.Op == token.EQL // the edge on which the member is nil needs no clamp
				},
			})
			_ = types.Typ
			c.Check("R8", fn, "member "+member+": nil or clamped on every path", fn.Pos(), x == nil,
				"a path returns the item with a possibly non-nil "+member+" member whose fields were not clamped: a quota of the kind the schema does not configure (or any quota on that path) reaches the limiter unbounded")
		}
	}
	if found == 0 {
		c.Fail("R8", nil, "quota sanitizer", 0, "no function of pkg/flowcontrols/remote returns a limit item whose member fields it stores from a clamp helper")
	}
}
