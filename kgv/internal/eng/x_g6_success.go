package eng

import (
	"go/types"

	"golang.org/x/tools/go/ssa"
)

// ---------------------------------------------------------------------------------------
// Facts that hold "once a helper has reported success" (added for C07/C18, second
// refactoring corpus).
//
// A sequence `a(); if err … ; b(); if err … ; return ok` is often moved into a helper that
// returns one error; the caller then only tests that error. A rule "every successful return is
// preceded by a and b" can no longer be decided by LiftMust — the helper does NOT execute b on
// every path, only on the paths on which it returns nil. What holds is: the caller's return is
// guarded by the helper's success signal (nil error / true boolean), and every return of the
// helper that can signal success is preceded by b. HoldsOnSuccess and AlwaysBeforeOK state
// exactly that, recursively.

// successSignal describes how a repository helper reports success to its caller.
type successSignal struct {
	idx   int
	isErr bool // nil error result; otherwise a true boolean result
}

func signalOf(h *ssa.Function) (successSignal, bool) {
	rs := h.Signature.Results()
	for i := rs.Len() - 1; i >= 0; i-- {
		if n, ok := rs.At(i).Type().(*types.Named); ok && n.Obj().Pkg() == nil && n.Obj().Name() == "error" {
			return successSignal{i, true}, true
		}
	}
	if rs.Len() >= 1 {
		for i := rs.Len() - 1; i >= 0; i-- {
			if isBoolType(rs.At(i).Type()) {
				return successSignal{i, false}, true
			}
		}
	}
	return successSignal{}, false
}

// resultOf: v is result idx of call (the call itself for a single result).
func resultOf(v ssa.Value, call *ssa.Call, idx int) bool {
	if e, ok := v.(*ssa.Extract); ok {
		return e.Tuple == ssa.Value(call) && e.Index == idx
	}
	return v == ssa.Value(call) && call.Call.Signature().Results().Len() == 1
}

// guardedBySuccess: `at` executes only after call reported success.
func guardedBySuccess(at ssa.Instruction, call *ssa.Call, sig successSignal) bool {
	match := func(v ssa.Value) bool {
		if resultOf(v, call, sig.idx) {
			return true
		}
		r := ResolveEnv(v, nil)
		return resultOf(r.V, call, sig.idx)
	}
	if sig.isErr {
		return HoldsAtNil(at, match, true)
	}
	return HoldsAtBool(at, match, true)
}

// SuccessReturns returns the return statements of h that can report success: those whose
// signal result is not a non-nil error by construction (fmt.Errorf / errors.New / a value
// known to be non-nil at the return) resp. not the constant false.
func SuccessReturns(h *ssa.Function) ([]*ssa.Return, bool) {
	sig, ok := signalOf(h)
	if !ok {
		return nil, false
	}
	var out []*ssa.Return
	for _, b := range h.Blocks {
		if b == h.Recover || len(b.Instrs) == 0 || !Reachable(h, b) {
			continue
		}
		ret, isRet := b.Instrs[len(b.Instrs)-1].(*ssa.Return)
		if !isRet {
			continue
		}
		res := ReturnResults(ret)
		if sig.idx >= len(res) {
			continue
		}
		v := res[sig.idx]
		if sig.isErr {
			if c, isCall := v.(*ssa.Call); isCall && IsCall(c, "fmt.Errorf", "errors.New") {
				continue
			}
			if _, isMI := v.(*ssa.MakeInterface); isMI {
				continue
			}
			if !IsNilConst(v) && HoldsAtNil(ret, func(x ssa.Value) bool { return x == v }, false) {
				continue
			}
		} else if IsBoolConst(v, false) {
			continue
		}
		out = append(out, ret)
	}
	return out, true
}

// successCalls returns the plain calls of repository helpers in at's function whose success
// signal guards at.
func successCalls(at ssa.Instruction) []*ssa.Call {
	var out []*ssa.Call
	fn := at.Parent()
	if fn == nil {
		return nil
	}
	for _, b := range fn.Blocks {
		for _, ins := range b.Instrs {
			c, ok := ins.(*ssa.Call)
			if !ok {
				continue
			}
			h := calleeOfCall(c)
			if h == nil || !Analysable(h) || h == fn {
				continue
			}
			sig, ok := signalOf(h)
			if !ok || !guardedBySuccess(at, c, sig) {
				continue
			}
			out = append(out, c)
		}
	}
	return out
}

// HoldsOnSuccess reports whether check holds at target, or target executes only after some
// repository helper reported success and check holds (recursively, depth ≤ LiftDepth) at every
// return of that helper that can report success.
func HoldsOnSuccess(target ssa.Instruction, check func(at ssa.Instruction) bool) bool {
	return holdsOnSuccess(target, check, LiftDepth)
}

func holdsOnSuccess(target ssa.Instruction, check func(at ssa.Instruction) bool, depth int) bool {
	if check(target) {
		return true
	}
	if depth <= 0 {
		return false
	}
	for _, c := range successCalls(target) {
		rets, ok := SuccessReturns(calleeOfCall(c))
		if !ok || len(rets) == 0 {
			continue
		}
		all := true
		for _, ret := range rets {
			if !holdsOnSuccess(ret, check, depth-1) {
				all = false
				break
			}
		}
		if all {
			return true
		}
	}
	return false
}

// AlwaysBeforeOK is AlwaysBefore(fn, target, pred) in which a plain call of a repository helper
// also counts as pred when target executes only after that helper reported success and every
// return of the helper that can report success is itself always preceded by pred (recursively,
// depth ≤ LiftDepth).
func AlwaysBeforeOK(fn *ssa.Function, target ssa.Instruction, pred func(ssa.Instruction) bool) bool {
	return alwaysBeforeOK(fn, target, pred, LiftDepth)
}

func alwaysBeforeOK(fn *ssa.Function, target ssa.Instruction, pred func(ssa.Instruction) bool, depth int) bool {
	if AlwaysBefore(fn, target, pred) {
		return true
	}
	if depth <= 0 || target.Parent() != fn {
		return false
	}
	ok := map[*ssa.Call]bool{}
	for _, c := range successCalls(target) {
		h := calleeOfCall(c)
		rets, has := SuccessReturns(h)
		if !has || len(rets) == 0 {
			continue
		}
		all := true
		for _, ret := range rets {
			if !alwaysBeforeOK(h, ret, pred, depth-1) {
				all = false
				break
			}
		}
		if all {
			ok[c] = true
		}
	}
	if len(ok) == 0 {
		return false
	}
	return AlwaysBefore(fn, target, func(i ssa.Instruction) bool {
		if pred(i) {
			return true
		}
		c, isCall := i.(*ssa.Call)
		return isCall && ok[c]
	})
}
