package eng

import (
	"go/token"

	"golang.org/x/tools/go/ssa"
)

// ---------------------------------------------------------------------------------------
// Downward calling contexts and context-sensitive value resolution (added for C01/C17).
//
// UpChains / LiftSites walk from a helper to its callers and need the complete set of callers
// (a liftable helper). Rules that analyse ONE anchor function ("RuleMatches is the conjunction
// of the per-field matchers") need the opposite direction: every chain of static calls that
// starts in the anchor is an execution context of the anchor, whether or not the helper is
// exported, shared or used as a value elsewhere. DownCtxs enumerates those chains; values of a
// helper are related to the values of the anchor through the actual arguments of the chain
// (ResolveIn, ResolvePathIn, LeavesIn).

// DownCtxs returns the calling contexts reachable from root through plain static calls
// (functions, methods, function literals called in place) of functions accepted by follow, at
// most depth levels deep. The first element is the root context; a function already on the
// chain is not entered again.
func DownCtxs(root *ssa.Function, follow func(*ssa.Function) bool, depth int) []*CallCtx {
	if root == nil {
		return nil
	}
	var out []*CallCtx
	var rec func(ctx *CallCtx, d int)
	rec = func(ctx *CallCtx, d int) {
		out = append(out, ctx)
		if d <= 0 {
			return
		}
		for _, b := range ctx.Fn.Blocks {
			for _, ins := range b.Instrs {
				call, ok := ins.(*ssa.Call)
				if !ok {
					continue
				}
				g := call.Call.StaticCallee()
				if g == nil || g.Blocks == nil || (follow != nil && !follow(g)) {
					continue
				}
				onChain := false
				for x := ctx; x != nil; x = x.Parent {
					if x.Fn == g {
						onChain = true
					}
				}
				if onChain {
					continue
				}
				rec(ctx.Child(call, g), d-1)
			}
		}
	}
	rec(&CallCtx{Fn: root}, depth)
	return out
}

// ResolvePathIn continues the access path of v across the context chain: field selections and
// element selections are collected into path, parameters are replaced by the actual arguments
// of the chain, spilled values and captured variables of function literals called in place by
// the stored value. It returns the root that cannot be resolved further, the path from that
// root to v ("[]" for an element selection) and the context the root belongs to.
func ResolvePathIn(v ssa.Value, ctx *CallCtx) (ssa.Value, []string, *CallCtx) {
	var path []string
	push := func(s string) { path = append([]string{s}, path...) }
	cur := v
	for i := 0; i < 64 && cur != nil; i++ {
		r := ResolveIn(cur, ctx)
		cur, ctx = r.V, r.Ctx
		switch n := cur.(type) {
		case *ssa.UnOp:
			if n.Op != token.MUL {
				return cur, path, ctx
			}
			switch a := n.X.(type) {
			case *ssa.FieldAddr, *ssa.IndexAddr:
				cur = a
				continue
			case *ssa.FreeVar:
				if cv, cfn := CapturedValue(n); cv != nil && ctx != nil {
					// the value lives in the enclosing function: keep the chain only when that
					// function is the parent context
					if ctx.Parent != nil && ctx.Parent.Fn == cfn {
						cur, ctx = cv, ctx.Parent
						continue
					}
				}
			}
			return cur, path, ctx
		case *ssa.FieldAddr:
			push(fieldName(n.X.Type(), n.Field))
			if a, ok := n.X.(*ssa.Alloc); ok {
				if sv := singleStore(a); sv != nil {
					cur = sv
					continue
				}
			}
			cur = n.X
		case *ssa.Field:
			push(fieldName(n.X.Type(), n.Field))
			cur = n.X
		case *ssa.IndexAddr:
			push("[]")
			cur = n.X
		case *ssa.Index:
			push("[]")
			cur = n.X
		default:
			return cur, path, ctx
		}
	}
	return cur, path, ctx
}

// LeavesIn is Slicer.Leaves in calling context ctx: a leaf that is a parameter of a function
// entered through a call site of the chain is replaced by the leaves of the actual argument
// (taken in the parent context). Each leaf is reported with the context it belongs to.
func LeavesIn(sl *Slicer, v ssa.Value, ctx *CallCtx, stop func(ssa.Value) bool) []CtxValue {
	var out []CtxValue
	type key struct {
		v ssa.Value
		c *CallCtx
	}
	done := map[key]bool{}
	seen := map[key]bool{}
	var rec func(v ssa.Value, ctx *CallCtx)
	rec = func(v ssa.Value, ctx *CallCtx) {
		if done[key{v, ctx}] {
			return
		}
		done[key{v, ctx}] = true
		for _, l := range sl.Leaves(v, stop) {
			if p, ok := l.(*ssa.Parameter); ok && (stop == nil || !stop(l)) {
				for x := ctx; x != nil; x = x.Parent {
					if x.Fn != p.Parent() || x.Site == nil {
						continue
					}
					if r := ResolveIn(p, x); r.V != ssa.Value(p) {
						rec(r.V, r.Ctx)
						l = nil
					}
					break
				}
				if l == nil {
					continue
				}
			}
			if !seen[key{l, ctx}] {
				seen[key{l, ctx}] = true
				out = append(out, CtxValue{l, ctx})
			}
		}
	}
	rec(v, ctx)
	return out
}

// CapturedValue resolves a load of a captured variable (`*fv`, fv a free variable of a function
// literal) to the value the variable holds: the variable's cell in the enclosing function is
// written by exactly one store, that store dominates the creation of the function literal, and
// function literals only read the cell — a hoisted invariant (`any := "*/" + sub; return
// func(r string) bool { return r == any }`). It returns the stored value and the function it
// belongs to, or nil.
func CapturedValue(ld *ssa.UnOp) (ssa.Value, *ssa.Function) {
	if ld == nil || ld.Op != token.MUL {
		return nil, nil
	}
	fv, ok := ld.X.(*ssa.FreeVar)
	if !ok {
		return nil, nil
	}
	fn := fv.Parent()
	parent := fn.Parent()
	if parent == nil {
		return nil, nil
	}
	idx := -1
	for i, x := range fn.FreeVars {
		if x == fv {
			idx = i
		}
	}
	if idx < 0 {
		return nil, nil
	}
	var val ssa.Value
	n := 0
	for _, b := range parent.Blocks {
		for _, ins := range b.Instrs {
			mc, ok := ins.(*ssa.MakeClosure)
			if !ok || mc.Fn != ssa.Value(fn) || idx >= len(mc.Bindings) {
				continue
			}
			n++
			switch cell := mc.Bindings[idx].(type) {
			case *ssa.Alloc:
				sv := singleStoreShared(cell)
				if sv == nil {
					return nil, nil
				}
				// the store must have happened when the literal is created
				var st *ssa.Store
				for _, r := range *cell.Referrers() {
					if s, isSt := r.(*ssa.Store); isSt && s.Addr == ssa.Value(cell) {
						st = s
					}
				}
				if st == nil || !instrDominates(st, mc) {
					return nil, nil
				}
				val = sv
			default:
				return nil, nil
			}
		}
	}
	if n != 1 || val == nil {
		return nil, nil
	}
	return val, parent
}

// instrDominates reports whether a executes before b on every path to b (same function).
func instrDominates(a, b ssa.Instruction) bool {
	if a.Block() == b.Block() {
		return InstrIndex(a) < InstrIndex(b)
	}
	return a.Block().Dominates(b.Block())
}

// CreationSite returns the MakeClosure instruction that creates function literal fn when there
// is exactly one (nil otherwise). Whatever holds whenever that instruction executes held when
// the literal came into being: for facts over values that do not change afterwards (parameters
// of the enclosing function, single-assignment locals) it still holds when the literal runs.
func CreationSite(fn *ssa.Function) *ssa.MakeClosure {
	p := fn.Parent()
	if p == nil {
		return nil
	}
	var found *ssa.MakeClosure
	for _, f := range WithClosures(outermost(p)) {
		for _, b := range f.Blocks {
			for _, ins := range b.Instrs {
				if mc, ok := ins.(*ssa.MakeClosure); ok && mc.Fn == ssa.Value(fn) {
					if found != nil {
						return nil
					}
					found = mc
				}
			}
		}
	}
	return found
}

// ResolveValue rewrites v towards its definition without leaving the program point's meaning:
// interface/type conversions are stripped, a load of a local cell written by a single store
// becomes the stored value, a load of a captured variable that is a hoisted invariant (see
// CapturedValue) becomes the value computed in the enclosing function. The result may belong to
// an enclosing function of v's function.
func ResolveValue(v ssa.Value) ssa.Value {
	for i := 0; i < 32 && v != nil; i++ {
		switch x := v.(type) {
		case *ssa.ChangeType:
			v = x.X
			continue
		case *ssa.ChangeInterface:
			v = x.X
			continue
		case *ssa.UnOp:
			if x.Op != token.MUL {
				return v
			}
			switch cell := x.X.(type) {
			case *ssa.Alloc:
				if sv := singleStoreShared(cell); sv != nil {
					v = sv
					continue
				}
			case *ssa.FreeVar:
				if cv, _ := CapturedValue(x); cv != nil {
					v = cv
					continue
				}
			}
		}
		return v
	}
	return v
}
