package eng

import (
	"go/token"

	"golang.org/x/tools/go/ssa"
)

// ---------------------------------------------------------------------------------------
// Downward calling contexts (added for C03/C14/C15, second refactoring wave).
//
// UpChains (x_d_up.go) answers "in which contexts does this helper run" from the helper's
// complete list of call sites; it needs a liftable helper and it unions over all callers.
// Rules that are stated about ONE anchor function ("what Pop returns", "what DeleteWithStop
// does on every path") want the opposite direction: the anchor is given, and its behaviour
// may have been spread over helpers (functions taking the fields they need, methods, tuple
// returning helpers, closures, callbacks). A DownCtx is one execution context of a function
// as part of the anchor: the chain of static calls (call / go / defer, immediately invoked
// closures, closures / method values / functions handed to a call as callback) that leads
// from the anchor to it. No liftability is required — whoever else calls the helper is
// irrelevant to what the anchor does — and every context is decided separately.
//
// A DownCtx converts to an UpChain (Chain), so the chain-aware slicing of x_d_up.go
// (Leaves / DerivesFrom / Resolve) is available; Canon adds the identity-preserving
// resolution in both directions (parameter → argument of the entering call, result of a
// helper with one return value → that value in the helper's context), and Holds the
// guard facts of every level of the chain.

// DownCtx is function Fn as entered through Site, an instruction of Parent.Fn (nil, nil
// for the root).
type DownCtx struct {
	Fn     *ssa.Function
	Site   ssa.CallInstruction
	Parent *DownCtx
	// Direct: the parameters of Fn are bound to the arguments of Site.
	Direct bool

	cbArg ssa.Value
	tree  *DownTree
	depth int
	kids  []*DownCtx
	done  bool
}

// DownTree is the tree of contexts below one anchor function.
type DownTree struct {
	W      *World
	Root   *DownCtx
	Depth  int
	Follow func(site ssa.CallInstruction, callee *ssa.Function) bool
}

// Down returns the context tree of root: callees are followed for at most depth levels
// when follow accepts them (nil: functions with bodies of the package root belongs to).
// Recursive calls are not followed.
func (w *World) Down(root *ssa.Function, depth int, follow func(site ssa.CallInstruction, callee *ssa.Function) bool) *DownTree {
	if root == nil {
		return nil
	}
	t := &DownTree{W: w, Depth: depth, Follow: follow}
	if t.Follow == nil {
		pkg := pkgPathOf(root)
		t.Follow = func(_ ssa.CallInstruction, callee *ssa.Function) bool {
			return Analysable(callee) && pkgPathOf(callee) == pkg
		}
	}
	t.Root = &DownCtx{Fn: root, tree: t}
	return t
}

// Kids returns the contexts entered from d (computed on demand).
func (d *DownCtx) Kids() []*DownCtx {
	if d == nil {
		return nil
	}
	if d.done {
		return d.kids
	}
	d.done = true
	if d.depth >= d.tree.Depth {
		return nil
	}
	onChain := func(f *ssa.Function) bool {
		for x := d; x != nil; x = x.Parent {
			if x.Fn == f {
				return true
			}
		}
		return false
	}
	add := func(site ssa.CallInstruction, f *ssa.Function, direct bool, cb ssa.Value) {
		if f == nil || f.Blocks == nil || onChain(f) || !d.tree.Follow(site, f) {
			return
		}
		d.kids = append(d.kids, &DownCtx{Fn: f, Site: site, Parent: d, Direct: direct, cbArg: cb, tree: d.tree, depth: d.depth + 1})
	}
	for _, b := range d.Fn.Blocks {
		for _, ins := range b.Instrs {
			c, ok := ins.(ssa.CallInstruction)
			if !ok {
				continue
			}
			cc := c.Common()
			if !cc.IsInvoke() {
				if f := cc.StaticCallee(); f != nil {
					if f.Synthetic != "" && f.Blocks != nil && f.Syntax() == nil {
						// bound-method thunk called directly
						if m := d.tree.W.FuncOfValue(cc.Value); m != nil && m != f {
							add(c, m, false, cc.Value)
							continue
						}
					}
					add(c, f, true, nil)
				}
			}
			for _, a := range cc.Args {
				switch a.(type) {
				case *ssa.Function, *ssa.MakeClosure:
					add(c, d.tree.W.FuncOfValue(a), false, a)
				}
			}
		}
	}
	return d.kids
}

// All returns every context of the tree in pre-order (the root first).
func (t *DownTree) All() []*DownCtx {
	if t == nil {
		return nil
	}
	var out []*DownCtx
	var rec func(d *DownCtx)
	rec = func(d *DownCtx) {
		out = append(out, d)
		for _, k := range d.Kids() {
			rec(k)
		}
	}
	rec(t.Root)
	return out
}

// Of returns the contexts in which fn runs as part of the anchor.
func (t *DownTree) Of(fn *ssa.Function) []*DownCtx {
	var out []*DownCtx
	for _, d := range t.All() {
		if d.Fn == fn {
			out = append(out, d)
		}
	}
	return out
}

// Funcs returns the distinct functions of the tree in pre-order.
func (t *DownTree) Funcs() []*ssa.Function {
	var out []*ssa.Function
	seen := map[*ssa.Function]bool{}
	for _, d := range t.All() {
		if !seen[d.Fn] {
			seen[d.Fn] = true
			out = append(out, d.Fn)
		}
	}
	return out
}

// Kid returns the context entered from d through site into callee (nil if not followed).
func (d *DownCtx) Kid(site ssa.CallInstruction, callee *ssa.Function) *DownCtx {
	for _, k := range d.Kids() {
		if k.Site == site && k.Fn == callee {
			return k
		}
	}
	return nil
}

// Chain returns the context as an UpChain (innermost site first).
func (d *DownCtx) Chain() UpChain {
	var ch UpChain
	for x := d; x != nil && x.Parent != nil; x = x.Parent {
		ch = append(ch, UpSite{Fn: x.Fn, Call: x.Site, Direct: x.Direct, cbArg: x.cbArg})
	}
	return ch
}

// Leaves is Slicer.Leaves in this context: parameters bound by the chain are followed into
// the arguments of the entering calls.
func (d *DownCtx) Leaves(sl *Slicer, v ssa.Value, stop func(ssa.Value) bool) []ssa.Value {
	return d.Chain().Leaves(sl, v, stop)
}

// DerivesFrom is Slicer.DerivesFrom in this context.
func (d *DownCtx) DerivesFrom(sl *Slicer, v ssa.Value, pred func(ssa.Value) bool) bool {
	return d.Chain().DerivesFrom(sl, v, pred)
}

// DV is a value together with the context whose function it belongs to.
type DV struct {
	V ssa.Value
	C *DownCtx
}

// Same reports whether two resolved values are the same value of the same invocation
// (constants compare by value).
func (a DV) Same(b DV) bool {
	if a.V == nil || b.V == nil {
		return false
	}
	if _, isC := a.V.(*ssa.Const); isC {
		return sameOperand(a.V, b.V)
	}
	return a.V == b.V && a.C == b.C
}

// Canon rewrites v, a value of d.Fn, towards its definition as long as the step preserves
// identity: a parameter bound by the entering call becomes the argument (in the parent
// context); the result of a followed callee all of whose returns yield the same value
// becomes that value (in the callee's context); a load of a local written once becomes the
// stored value; a captured variable of a closure becomes the captured cell's single value;
// a phi all of whose edges resolve to one value becomes that value; type changes and
// interface conversions are stripped. The result is the first value that cannot be
// rewritten further.
func (d *DownCtx) Canon(v ssa.Value) DV {
	return d.canon(v, map[DV]bool{}, 0)
}

func (d *DownCtx) canon(v ssa.Value, busy map[DV]bool, depth int) DV {
	for i := 0; i < 48 && v != nil && depth < 12; i++ {
		cur := DV{v, d}
		switch x := v.(type) {
		case *ssa.ChangeType:
			v = x.X
			continue
		case *ssa.MakeInterface:
			v = x.X
			continue
		case *ssa.ChangeInterface:
			v = x.X
			continue
		case *ssa.Parameter:
			if d != nil && d.Parent != nil && x.Parent() == d.Fn {
				s := UpSite{Fn: d.Fn, Call: d.Site, Direct: d.Direct, cbArg: d.cbArg}
				if b := s.Bind(x); b != nil {
					v, d = b, d.Parent
					continue
				}
			}
		case *ssa.Field:
			if r, ok := d.fieldValue(x.X, x.Field, busy, depth); ok {
				v, d = r.V, r.C
				continue
			}
		case *ssa.UnOp:
			if x.Op != token.MUL {
				break
			}
			switch cell := x.X.(type) {
			case *ssa.FieldAddr:
				// a field of a struct written once: captured values kept in a small struct
				if r, ok := d.fieldValue(cell.X, cell.Field, busy, depth); ok {
					v, d = r.V, r.C
					continue
				}
			case *ssa.Alloc:
				if sv := singleStoreShared(cell); sv != nil {
					v = sv
					continue
				}
			case *ssa.FreeVar:
				// captured variable of a closure that runs in a context entered from its
				// enclosing function
				if d == nil || d.Parent == nil || cell.Parent() != d.Fn || d.Fn.Parent() != d.Parent.Fn {
					break
				}
				mc := closureOf(d)
				if mc == nil {
					break
				}
				moved := false
				for j, fv := range d.Fn.FreeVars {
					if fv == cell && j < len(mc.Bindings) {
						if al, isAl := mc.Bindings[j].(*ssa.Alloc); isAl {
							if sv := singleStoreShared(al); sv != nil {
								v, d, moved = sv, d.Parent, true
							}
						}
					}
				}
				if moved {
					continue
				}
			}
		case *ssa.FreeVar:
			// a captured value (not a cell): the binding itself
			if d == nil || d.Parent == nil || x.Parent() != d.Fn || d.Fn.Parent() != d.Parent.Fn {
				break
			}
			if mc := closureOf(d); mc != nil {
				for j, fv := range d.Fn.FreeVars {
					if fv == x && j < len(mc.Bindings) {
						if _, isAl := mc.Bindings[j].(*ssa.Alloc); !isAl {
							v, d = mc.Bindings[j], d.Parent
						}
					}
				}
				if v != ssa.Value(x) {
					continue
				}
			}
		case *ssa.Phi:
			if busy[cur] {
				break
			}
			busy[cur] = true
			var one DV
			same := true
			for _, e := range x.Edges {
				if e == ssa.Value(x) {
					continue
				}
				r := d.canon(e, busy, depth+1)
				if r.V == ssa.Value(x) && r.C == d {
					continue
				}
				if one.V == nil {
					one = r
				} else if !one.Same(r) {
					same = false
				}
			}
			delete(busy, cur)
			if same && one.V != nil {
				return one
			}
		case *ssa.Extract:
			if call, ok := x.Tuple.(*ssa.Call); ok {
				if r, ok := d.calleeResult(call, x.Index, busy, depth); ok {
					return r
				}
			}
		case *ssa.Call:
			if r, ok := d.calleeResult(x, -1, busy, depth); ok {
				return r
			}
		}
		break
	}
	return DV{v, d}
}

// fieldValue resolves field f of the struct denoted by base (a struct value, the address of a
// local struct cell, or a pointer to a struct allocated in a function of the chain) when that
// field is written exactly once and the struct is otherwise only read: the value of a
// composite literal's field, also after the struct was copied into a by-value parameter or
// receiver. Fields of structs that escape (stored elsewhere, handed to calls other than as
// a by-value copy) are not resolved.
func (d *DownCtx) fieldValue(base ssa.Value, f int, busy map[DV]bool, depth int) (DV, bool) {
	if depth > 10 {
		return DV{}, false
	}
	b := d.canon(base, busy, depth+1)
	var cell *ssa.Alloc
	switch bv := b.V.(type) {
	case *ssa.Alloc:
		cell = bv
	case *ssa.UnOp:
		if a, ok := bv.X.(*ssa.Alloc); ok && bv.Op == token.MUL {
			cell = a
		}
	}
	if cell == nil || cell.Referrers() == nil {
		return DV{}, false
	}
	var whole, field []ssa.Value
	for _, r := range *cell.Referrers() {
		switch u := r.(type) {
		case *ssa.Store:
			if u.Addr != ssa.Value(cell) {
				return DV{}, false // the address itself is stored somewhere
			}
			whole = append(whole, u.Val)
		case *ssa.FieldAddr:
			if u.Referrers() == nil {
				continue
			}
			for _, rr := range *u.Referrers() {
				switch w := rr.(type) {
				case *ssa.Store:
					if w.Addr != ssa.Value(u) {
						return DV{}, false
					}
					if u.Field == f {
						field = append(field, w.Val)
					}
				case *ssa.UnOp, *ssa.DebugRef, *ssa.FieldAddr:
				default:
					if u.Field == f {
						return DV{}, false // address of the field escapes
					}
				}
			}
		case *ssa.UnOp, *ssa.DebugRef:
		case ssa.CallInstruction:
			// the struct's address handed to a call (pointer receiver / argument): it may be written
			// there — accepted only when the callee is followed and does not store into the field
			if !d.calleeKeepsField(b.C, u, cell, f) {
				return DV{}, false
			}
		default:
			return DV{}, false
		}
	}
	switch {
	case len(field) == 1 && len(whole) == 0:
		return b.C.canon(field[0], busy, depth+1), true
	case len(field) == 0 && len(whole) == 1:
		return b.C.fieldValue(whole[0], f, busy, depth+1)
	}
	return DV{}, false
}

// calleeKeepsField: call receives the address of cell and does not write field f of it
// (decided only for followed callees that use the pointer for field reads and calls of
// further such callees are not looked into: any other use refuses).
func (d *DownCtx) calleeKeepsField(at *DownCtx, call ssa.CallInstruction, cell *ssa.Alloc, f int) bool {
	cc := call.Common()
	if cc.IsInvoke() {
		return false
	}
	callee := cc.StaticCallee()
	if callee == nil || callee.Blocks == nil || !Analysable(callee) {
		return false
	}
	for i, a := range cc.Args {
		if a != ssa.Value(cell) {
			continue
		}
		if i >= len(callee.Params) || callee.Params[i].Referrers() == nil {
			return false
		}
		for _, r := range *callee.Params[i].Referrers() {
			switch u := r.(type) {
			case *ssa.FieldAddr:
				if u.Referrers() == nil {
					continue
				}
				for _, rr := range *u.Referrers() {
					if _, isLoad := rr.(*ssa.UnOp); !isLoad {
						if _, isDbg := rr.(*ssa.DebugRef); !isDbg {
							if u.Field == f {
								return false
							}
							if _, isSt := rr.(*ssa.Store); !isSt {
								return false
							}
						}
					}
				}
			case *ssa.DebugRef, *ssa.UnOp:
			default:
				return false
			}
		}
	}
	return true
}

func closureOf(d *DownCtx) *ssa.MakeClosure {
	if d == nil || d.Site == nil {
		return nil
	}
	if mc, ok := d.Site.Common().Value.(*ssa.MakeClosure); ok && mc.Fn == ssa.Value(d.Fn) {
		return mc
	}
	if mc, ok := d.cbArg.(*ssa.MakeClosure); ok && mc.Fn == ssa.Value(d.Fn) {
		return mc
	}
	return nil
}

// calleeResult: result idx (-1: the single result) of call, when the callee is followed
// and every return of it yields the same resolved value.
func (d *DownCtx) calleeResult(call *ssa.Call, idx int, busy map[DV]bool, depth int) (DV, bool) {
	if d == nil || call.Call.IsInvoke() {
		return DV{}, false
	}
	callee := call.Call.StaticCallee()
	if callee == nil || callee.Blocks == nil {
		return DV{}, false
	}
	k := d.Kid(call, callee)
	if k == nil || !k.Direct {
		return DV{}, false
	}
	var one DV
	for _, r := range Returns(callee) {
		res := ReturnResults(r)
		i := idx
		if i < 0 {
			if len(res) != 1 {
				return DV{}, false
			}
			i = 0
		}
		if i >= len(res) {
			return DV{}, false
		}
		x := k.canon(res[i], busy, depth+1)
		if one.V == nil {
			one = x
		} else if !one.Same(x) {
			return DV{}, false
		}
	}
	if one.V == nil {
		return DV{}, false
	}
	return one, true
}

// Returns lists the reachable Return instructions of fn (the synthetic recover block is
// skipped).
func Returns(fn *ssa.Function) []*ssa.Return {
	var out []*ssa.Return
	for _, b := range fn.Blocks {
		if b == fn.Recover || len(b.Instrs) == 0 || !Reachable(fn, b) {
			continue
		}
		if r, ok := b.Instrs[len(b.Instrs)-1].(*ssa.Return); ok {
			out = append(out, r)
		}
	}
	return out
}

// EffReturn is a return of the anchor with forwarding returns (`return helper(…)` handing
// on all results of one followed call) replaced by the returns of the helper, and a single
// exit that returns variables assigned in several branches (phis of the returning block)
// split into one return per incoming edge. Points are the program points whose facts hold
// when this return is the one taken.
type EffReturn struct {
	Ret    *ssa.Return
	Res    []ssa.Value
	Ctx    *DownCtx
	Points []FactPoint
}

// Holds reports whether a relation known when this return is taken satisfies pred.
func (e EffReturn) Holds(pred func(r Rel, at *DownCtx) bool) bool {
	return Alt{Points: e.Points}.Holds(pred)
}

// EffectiveReturns expands the returns of d.Fn through tuple-forwarding helpers and joins.
func (d *DownCtx) EffectiveReturns() []EffReturn {
	var out []EffReturn
	for _, r := range Returns(d.Fn) {
		for _, er := range splitJoin(EffReturn{r, ReturnResults(r), d, []FactPoint{{At: r, Ctx: d}}}, r.Block(), map[*ssa.BasicBlock]bool{}, 0) {
			if call := forwardedCall(er.Res); call != nil {
				if callee := call.Call.StaticCallee(); callee != nil && !call.Call.IsInvoke() {
					if k := d.Kid(call, callee); k != nil && k.Direct {
						for _, in := range k.EffectiveReturns() {
							in.Points = append(append([]FactPoint{}, in.Points...), er.Points...)
							out = append(out, in)
						}
						continue
					}
				}
			}
			out = append(out, er)
		}
	}
	return out
}

// splitJoin: when some returned value is a phi of block b, the return is split by the edge b
// is entered through (recursively for phis of the predecessor).
func splitJoin(er EffReturn, b *ssa.BasicBlock, busy map[*ssa.BasicBlock]bool, depth int) []EffReturn {
	has := false
	for _, v := range er.Res {
		if p, ok := v.(*ssa.Phi); ok && p.Block() == b {
			has = true
		}
	}
	if !has || busy[b] || depth > 4 {
		return []EffReturn{er}
	}
	busy[b] = true
	defer delete(busy, b)
	var out []EffReturn
	for i, pred := range b.Preds {
		res := make([]ssa.Value, len(er.Res))
		for j, v := range er.Res {
			res[j] = v
			if p, ok := v.(*ssa.Phi); ok && p.Block() == b && i < len(p.Edges) {
				res[j] = p.Edges[i]
			}
		}
		si := -1
		for k, s := range pred.Succs {
			if s == b {
				si = k
			}
		}
		ne := EffReturn{er.Ret, res, er.Ctx, append(append([]FactPoint{}, er.Points...), FactPoint{From: pred, Succ: si, Ctx: er.Ctx})}
		out = append(out, splitJoin(ne, pred, busy, depth+1)...)
	}
	return out
}

// forwardedCall: res is exactly the list of results of one call (`return f(x)`).
func forwardedCall(res []ssa.Value) *ssa.Call {
	if len(res) == 1 {
		c, _ := res[0].(*ssa.Call)
		return c
	}
	var call *ssa.Call
	for i, v := range res {
		e, ok := v.(*ssa.Extract)
		if !ok || e.Index != i {
			return nil
		}
		c, ok := e.Tuple.(*ssa.Call)
		if !ok || (call != nil && c != call) {
			return nil
		}
		call = c
	}
	if call != nil && call.Call.Signature().Results().Len() != len(res) {
		return nil
	}
	return call
}

// Holds reports whether a fact known whenever ins (an instruction of d.Fn) executes in this
// context satisfies pred: the facts implied by the guards of ins (boolean phis, predicate
// helpers and ok-flags of tuple helpers expanded) and those of every entering call up to
// the anchor. at is the context whose function the fact's values belong to (for facts found
// inside an expanded predicate helper use Fact.Env to resolve its parameters first).
func (d *DownCtx) Holds(ins ssa.Instruction, pred func(f Fact, at *DownCtx) bool) bool {
	cur := ins
	for x := d; ; x = x.Parent {
		if cur != nil && cur.Block() != nil {
			for _, f := range ExpandTupleFacts(FactsAt(cur, LiftDepth), LiftDepth) {
				if pred(f, x) {
					return true
				}
			}
		}
		if x == nil || x.Parent == nil {
			return false
		}
		cur = x.Site
	}
}

// HoldsRel is Holds over relations; operands that are parameters of an expanded predicate
// helper are resolved to the arguments of its call (other values of such a helper stay as
// they are: match them by type, not by identity).
func (d *DownCtx) HoldsRel(ins ssa.Instruction, pred func(r Rel, at *DownCtx) bool) bool {
	return d.Holds(ins, func(f Fact, at *DownCtx) bool { return pred(relOfFact(f), at) })
}

// ---------------------------------------------------------------------------------------
// Alternatives of a value.

// FactPoint is a program point whose facts hold when an alternative is chosen: an
// instruction (At), or a CFG edge (From → From.Succs[Succ]).
type FactPoint struct {
	At   ssa.Instruction
	From *ssa.BasicBlock
	Succ int
	Ctx  *DownCtx
}

// Alt is one of the values v may take, with the points passed on the way from the
// definition to the use (all of their facts hold when the alternative is the one used).
type Alt struct {
	V      ssa.Value
	Ctx    *DownCtx
	Points []FactPoint
}

// Alternatives expands the value v used at instruction use (of d.Fn) into the values it may
// take: phi edges (point: the edge), results of followed helpers with several returns
// (point: the return), parameters bound by the chain; loads of locals assigned at several
// places (point: the store). Everything else is a leaf. The use itself is the first point
// of every alternative. Values satisfying stop (optional) are not expanded further.
func (d *DownCtx) Alternatives(v ssa.Value, use ssa.Instruction, stop func(ssa.Value) bool) []Alt {
	var out []Alt
	busy := map[DV]bool{}
	var rec func(v ssa.Value, c *DownCtx, pts []FactPoint, depth int)
	rec = func(v ssa.Value, c *DownCtx, pts []FactPoint, depth int) {
		cur := DV{v, c}
		if depth > 10 || busy[cur] || (stop != nil && stop(v)) {
			out = append(out, Alt{v, c, pts})
			return
		}
		busy[cur] = true
		defer delete(busy, cur)
		with := func(p FactPoint) []FactPoint { return append(append([]FactPoint{}, pts...), p) }
		switch x := v.(type) {
		case *ssa.ChangeType:
			rec(x.X, c, pts, depth+1)
			return
		case *ssa.Parameter:
			if c != nil && c.Parent != nil && x.Parent() == c.Fn {
				s := UpSite{Fn: c.Fn, Call: c.Site, Direct: c.Direct, cbArg: c.cbArg}
				if b := s.Bind(x); b != nil {
					rec(b, c.Parent, pts, depth+1)
					return
				}
			}
		case *ssa.Phi:
			for i, e := range x.Edges {
				if i >= len(x.Block().Preds) {
					continue
				}
				pred := x.Block().Preds[i]
				si := -1
				for k, s := range pred.Succs {
					if s == x.Block() {
						si = k
					}
				}
				rec(e, c, with(FactPoint{From: pred, Succ: si, Ctx: c}), depth+1)
			}
			return
		case *ssa.UnOp:
			if x.Op == token.MUL {
				if cell, ok := x.X.(*ssa.Alloc); ok && cell.Referrers() != nil {
					var stores []*ssa.Store
					plain := true
					for _, r := range *cell.Referrers() {
						switch u := r.(type) {
						case *ssa.Store:
							if u.Addr == ssa.Value(cell) {
								stores = append(stores, u)
							} else {
								plain = false
							}
						case *ssa.UnOp, *ssa.DebugRef:
						default:
							plain = false
						}
					}
					if plain && len(stores) > 0 {
						for _, st := range stores {
							rec(st.Val, c, with(FactPoint{At: st, Ctx: c}), depth+1)
						}
						return
					}
				}
			}
		case *ssa.Extract, *ssa.Call:
			call, idx := CallResultOf(v)
			if call == nil || c == nil || call.Call.IsInvoke() {
				break
			}
			callee := call.Call.StaticCallee()
			if callee == nil {
				break
			}
			k := c.Kid(call, callee)
			if k == nil || !k.Direct {
				break
			}
			n := 0
			for _, r := range Returns(callee) {
				res := ReturnResults(r)
				i := idx
				if i < 0 {
					i = 0
				}
				if i >= len(res) || (idx < 0 && len(res) != 1) {
					continue
				}
				n++
				rec(res[i], k, with(FactPoint{At: r, Ctx: k}), depth+1)
			}
			if n > 0 {
				return
			}
		}
		out = append(out, Alt{v, c, pts})
	}
	rec(v, d, []FactPoint{{At: use, Ctx: d}}, 0)
	return out
}

// Holds reports whether a relation known at one of the alternative's points satisfies pred.
func (a Alt) Holds(pred func(r Rel, at *DownCtx) bool) bool {
	for _, p := range a.Points {
		if p.At != nil {
			if p.Ctx != nil {
				if p.Ctx.HoldsRel(p.At, pred) {
					return true
				}
			} else {
				for _, r := range RelsAt(p.At) {
					if pred(r, nil) {
						return true
					}
				}
			}
			continue
		}
		if p.From != nil && p.Succ >= 0 {
			for _, r := range EdgeRels(p.From, p.Succ) {
				if pred(r, p.Ctx) {
					return true
				}
			}
			// and whatever holds at the calls that entered the function of the edge
			if p.Ctx != nil && p.Ctx.Parent != nil && p.Ctx.Parent.HoldsRel(p.Ctx.Site, pred) {
				return true
			}
		}
	}
	return false
}

// ---------------------------------------------------------------------------------------
// The value a name has on the paths through an instruction.

// ValuesAfter resolves v as seen by a use located after ins: a phi whose block is entered
// only after ins executed is replaced by the edge values of the predecessors reachable from
// ins (recursively); any other value is returned as it is. It answers "which object is this
// on the paths that come from that call" when two branches were merged into a common tail.
func ValuesAfter(ins ssa.Instruction, v ssa.Value) []ssa.Value {
	var out []ssa.Value
	seen := map[ssa.Value]bool{}
	var rec func(v ssa.Value, depth int)
	rec = func(v ssa.Value, depth int) {
		if seen[v] {
			return
		}
		seen[v] = true
		phi, ok := v.(*ssa.Phi)
		if !ok || depth > 8 || ins == nil || ins.Block() == nil || phi.Block().Parent() != ins.Parent() {
			out = append(out, v)
			return
		}
		pb := phi.Block()
		// blocks reachable from ins without passing through the phi's block
		reach := map[*ssa.BasicBlock]bool{ins.Block(): true}
		work := []*ssa.BasicBlock{ins.Block()}
		for len(work) > 0 {
			b := work[len(work)-1]
			work = work[:len(work)-1]
			for _, s := range b.Succs {
				if s == pb || reach[s] {
					continue
				}
				reach[s] = true
				work = append(work, s)
			}
		}
		if pb == ins.Block() || (pb.Dominates(ins.Block()) && !reach[pb]) {
			// the phi was decided before ins ran (or in its own block): unless a loop leads back
			// into it, it is one value on every path through ins
			back := false
			for _, p := range pb.Preds {
				if reach[p] {
					back = true
				}
			}
			if !back || pb == ins.Block() {
				out = append(out, v)
				return
			}
		}
		n := 0
		for i, p := range pb.Preds {
			if reach[p] && i < len(phi.Edges) {
				n++
				rec(phi.Edges[i], depth+1)
			}
		}
		if n == 0 {
			out = append(out, v)
		}
	}
	rec(v, 0)
	return out
}

// PhiOrigins expands v through phis only (no calls, no memory): the distinct values it may be.
func PhiOrigins(v ssa.Value) []ssa.Value {
	var out []ssa.Value
	seen := map[ssa.Value]bool{}
	for _, l := range PhiLeaves(v) {
		if !seen[l.V] {
			seen[l.V] = true
			out = append(out, l.V)
		}
	}
	return out
}

// ---------------------------------------------------------------------------------------
// Calling chain of a call recorded by the path interpreter.

// PathChain reconstructs the calling context of pr.Calls[k] relative to root, the function
// the interpreter was started on: the calls executed along a path are recorded in order,
// callers before the calls of the callee they enter, so the call that entered the function
// of Calls[k] is the nearest preceding call whose static callee is that function. ok=false
// when the chain cannot be rebuilt (the call sits in a function not entered on this path).
func PathChain(pr *PathResult, k int, root *ssa.Function) (UpChain, bool) {
	var ch UpChain
	if k < 0 || k >= len(pr.Calls) {
		return nil, false
	}
	fn := pr.Calls[k].Parent()
	pos := k
	for fn != root {
		found := -1
		for j := pos - 1; j >= 0; j-- {
			c, isCall := pr.Calls[j].(*ssa.Call)
			if !isCall {
				continue
			}
			if f := c.Call.StaticCallee(); f != nil && f == fn && !c.Call.IsInvoke() {
				found = j
				break
			}
		}
		if found < 0 || len(ch) > 16 {
			return nil, false
		}
		ch = append(ch, UpSite{Fn: fn, Call: pr.Calls[found], Direct: true})
		fn = pr.Calls[found].Parent()
		pos = found
	}
	return ch, true
}

// ---------------------------------------------------------------------------------------
// Ownership.

// RunsOnlyUnder reports whether fn executes only as part of one of the roots: it is a root; a
// closure created at one place whose only use is to be called, started with go, deferred or
// handed straight to a call, nested in a function that runs only under the roots; or a
// liftable helper (LiftSites) all of whose call sites lie in such functions. (OwnedBy of
// x_b_lift.go refuses every closure that is invoked in place: the caller index marks the
// function operand of its own MakeClosure as an escape.)
func (w *World) RunsOnlyUnder(fn *ssa.Function, roots ...*ssa.Function) bool {
	return w.runsOnlyUnder(fn, roots, LiftDepth+1, map[*ssa.Function]bool{})
}

func (w *World) runsOnlyUnder(fn *ssa.Function, roots []*ssa.Function, depth int, busy map[*ssa.Function]bool) bool {
	if fn == nil || busy[fn] {
		return false
	}
	for _, r := range roots {
		if r != nil && r == fn {
			return true
		}
	}
	busy[fn] = true
	defer delete(busy, fn)
	if p := fn.Parent(); p != nil {
		refs := closureRefs(fn)
		if len(*refs) != 1 {
			return false
		}
		if _, isCall := (*refs)[0].(ssa.CallInstruction); !isCall {
			return false
		}
		return w.runsOnlyUnder(p, roots, depth, busy)
	}
	if depth <= 0 {
		return false
	}
	sites := w.LiftSites(fn)
	if len(sites) == 0 {
		return false
	}
	for _, s := range sites {
		if !w.runsOnlyUnder(s.Parent(), roots, depth-1, busy) {
			return false
		}
	}
	return true
}

// ResolveUpTo is ResolveUp that stops at the parameters of anchor: v is followed through the
// parameters of liftable helpers into their call sites while all sites agree, but a parameter
// of anchor itself is not resolved into anchor's callers.
func (w *World) ResolveUpTo(v ssa.Value, anchor *ssa.Function) ssa.Value {
	for i := 0; i <= LiftDepth; i++ {
		p, ok := v.(*ssa.Parameter)
		if !ok || p.Parent() == anchor {
			return v
		}
		ups := w.UpArgSites(p)
		if len(ups) == 0 {
			return v
		}
		var same ssa.Value
		for _, u := range ups {
			if same != nil && u.Arg != same {
				return v
			}
			same = u.Arg
		}
		v = same
	}
	return v
}

// ---------------------------------------------------------------------------------------
// Read access to the final state of an interpreted path.

// NilValues returns the SSA values (of the interpreted function and of the callees followed
// on the path) that are nil along the path: compared with nil on the branch taken, or
// computed from such values.
func (s *State) NilValues() []ssa.Value {
	var out []ssa.Value
	for v, av := range s.env {
		if av.K == NilV {
			if _, isC := v.(*ssa.Const); !isC {
				out = append(out, v)
			}
		}
	}
	return out
}

// MayBeObject reports whether v may denote the very object that a value satisfying pred
// denotes: v is followed backwards through steps that hand an object on unchanged — phis,
// type assertions and interface conversions, results of repository functions (any return),
// parameters of helpers with known callers (any call site), local variable cells — but not
// through field reads or any computation. It is the "is this the same thing" counterpart of
// Slicer.DerivesFrom ("is this computed from").
func MayBeObject(v ssa.Value, pred func(ssa.Value) bool) bool {
	seen := map[ssa.Value]bool{}
	var rec func(v ssa.Value, depth int) bool
	rec = func(v ssa.Value, depth int) bool {
		if v == nil || seen[v] || depth > 12 {
			return false
		}
		seen[v] = true
		if pred(v) {
			return true
		}
		switch x := v.(type) {
		case *ssa.TypeAssert:
			return rec(x.X, depth+1)
		case *ssa.ChangeType:
			return rec(x.X, depth+1)
		case *ssa.MakeInterface:
			return rec(x.X, depth+1)
		case *ssa.ChangeInterface:
			return rec(x.X, depth+1)
		case *ssa.Phi:
			for _, e := range x.Edges {
				if rec(e, depth+1) {
					return true
				}
			}
		case *ssa.Parameter:
			for _, a := range upArgs(x) {
				if rec(a, depth+1) {
					return true
				}
			}
		case *ssa.UnOp:
			if cell, ok := x.X.(*ssa.Alloc); ok && x.Op == token.MUL && cell.Referrers() != nil {
				for _, r := range *cell.Referrers() {
					if st, ok := r.(*ssa.Store); ok && st.Addr == ssa.Value(cell) && rec(st.Val, depth+1) {
						return true
					}
				}
			}
		case *ssa.Extract, *ssa.Call:
			call, idx := CallResultOf(v)
			if call == nil || call.Call.IsInvoke() {
				return false
			}
			callee := call.Call.StaticCallee()
			if callee == nil || !Analysable(callee) {
				return false
			}
			for _, r := range Returns(callee) {
				res := ReturnResults(r)
				i := idx
				if i < 0 {
					i = 0
				}
				if i < len(res) && rec(res[i], depth+1) {
					return true
				}
			}
		}
		return false
	}
	return rec(v, 0)
}
