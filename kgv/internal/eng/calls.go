package eng

import (
	"go/types"
	"strings"

	"golang.org/x/tools/go/ssa"
)

// CalleeObj returns the *types.Func a call resolves to: the static callee's object for
// direct calls, the interface method for invoke-mode calls, nil for dynamic function values
// (use CalleeFn for closures).
func CalleeObj(c ssa.CallInstruction) *types.Func {
	cc := c.Common()
	if cc.IsInvoke() {
		return cc.Method
	}
	if f := cc.StaticCallee(); f != nil {
		if o, ok := f.Object().(*types.Func); ok {
			return o
		}
		// instantiated generic or wrapper: go to origin
		if f.Origin() != nil {
			if o, ok := f.Origin().Object().(*types.Func); ok {
				return o
			}
		}
	}
	return nil
}

// CalleeFn returns the SSA function statically called (function, method, or closure
// created in place), or nil.
func CalleeFn(c ssa.CallInstruction) *ssa.Function {
	cc := c.Common()
	if cc.IsInvoke() {
		return nil
	}
	if f := cc.StaticCallee(); f != nil {
		return f
	}
	return nil
}

// FullName returns the qualified name of the callee, e.g.
// "(*sync.RWMutex).Lock", "strings.ToLower", "(k8s.io/apiserver/pkg/authorization/authorizer.Authorizer).Authorize".
// It is "" for unresolved dynamic calls.
func FullName(c ssa.CallInstruction) string {
	if o := CalleeObj(c); o != nil {
		return o.FullName()
	}
	if b, ok := c.Common().Value.(*ssa.Builtin); ok {
		return "builtin." + b.Name()
	}
	return ""
}

// IsCall reports whether ins is a call (call, go or defer) whose callee's full name is one of names.
func IsCall(ins ssa.Instruction, names ...string) bool {
	c, ok := ins.(ssa.CallInstruction)
	if !ok {
		return false
	}
	fn := FullName(c)
	if fn == "" {
		return false
	}
	for _, n := range names {
		if fn == n {
			return true
		}
	}
	return false
}

// IsPlainCall is IsCall restricted to *ssa.Call (not go/defer).
func IsPlainCall(ins ssa.Instruction, names ...string) bool {
	if _, ok := ins.(*ssa.Call); !ok {
		return false
	}
	return IsCall(ins, names...)
}

// MethodNameIs reports whether the call's callee is a method (static or interface) with
// the given name, regardless of receiver type.
func MethodNameIs(c ssa.CallInstruction, name string) bool {
	o := CalleeObj(c)
	if o == nil || o.Name() != name {
		return false
	}
	sig, _ := o.Type().(*types.Signature)
	return sig != nil && sig.Recv() != nil
}

// Receiver returns the receiver operand of a method call (invoke: the interface value;
// static method: first argument), or nil.
func Receiver(c ssa.CallInstruction) ssa.Value {
	cc := c.Common()
	if cc.IsInvoke() {
		return cc.Value
	}
	if f := cc.StaticCallee(); f != nil && f.Signature.Recv() != nil && len(cc.Args) > 0 {
		return cc.Args[0]
	}
	return nil
}

// Args returns the call's arguments without the receiver.
func Args(c ssa.CallInstruction) []ssa.Value {
	cc := c.Common()
	if cc.IsInvoke() {
		return cc.Args
	}
	if f := cc.StaticCallee(); f != nil && f.Signature.Recv() != nil && len(cc.Args) > 0 {
		return cc.Args[1:]
	}
	return cc.Args
}

// RecvTypeName returns "pkgpath.Type" of the callee's receiver (pointer stripped), or "".
func RecvTypeName(c ssa.CallInstruction) string {
	o := CalleeObj(c)
	if o == nil {
		return ""
	}
	sig, _ := o.Type().(*types.Signature)
	if sig == nil || sig.Recv() == nil {
		return ""
	}
	return TypeName(sig.Recv().Type())
}

// TypeName returns "pkgpath.Name" of a (pointer to a) named type, or the type string.
func TypeName(t types.Type) string {
	if p, ok := t.(*types.Pointer); ok {
		t = p.Elem()
	}
	if n, ok := t.(*types.Named); ok {
		if n.Obj().Pkg() != nil {
			return n.Obj().Pkg().Path() + "." + n.Obj().Name()
		}
		return n.Obj().Name()
	}
	return t.String()
}

// Calls returns every call instruction (call, defer, go) of fn in block order.
func Calls(fn *ssa.Function) []ssa.CallInstruction {
	var out []ssa.CallInstruction
	for _, b := range fn.Blocks {
		for _, ins := range b.Instrs {
			if c, ok := ins.(ssa.CallInstruction); ok {
				out = append(out, c)
			}
		}
	}
	return out
}

// CallsTo returns the calls of fn whose callee full name is one of names.
func CallsTo(fn *ssa.Function, names ...string) []ssa.CallInstruction {
	var out []ssa.CallInstruction
	for _, c := range Calls(fn) {
		if IsCall(c, names...) {
			out = append(out, c)
		}
	}
	return out
}

// CallsToFn returns the calls of fn that statically call target.
func CallsToFn(fn *ssa.Function, target *ssa.Function) []ssa.CallInstruction {
	var out []ssa.CallInstruction
	for _, c := range Calls(fn) {
		if f := CalleeFn(c); f != nil && (f == target || f.Origin() == target) {
			out = append(out, c)
		}
	}
	return out
}

// WithClosures returns fn followed by all closures nested in it (transitively).
func WithClosures(fn *ssa.Function) []*ssa.Function {
	out := []*ssa.Function{fn}
	for _, a := range fn.AnonFuncs {
		out = append(out, WithClosures(a)...)
	}
	return out
}

// Instrs calls f for each instruction of fn.
func Instrs(fn *ssa.Function, f func(ssa.Instruction)) {
	for _, b := range fn.Blocks {
		for _, ins := range b.Instrs {
			f(ins)
		}
	}
}

// FuncName returns a stable display name of an SSA function (closures as outer$N).
func FuncName(fn *ssa.Function) string {
	if fn == nil {
		return "<nil>"
	}
	s := fn.String()
	s = strings.TrimPrefix(s, RepoModule+"/")
	s = strings.ReplaceAll(s, "("+RepoModule+"/", "(")
	s = strings.ReplaceAll(s, "(*"+RepoModule+"/", "(*")
	return s
}

// CallersIn returns, for the given functions, each call site that resolves to one of the
// target function objects (static calls, interface calls whose method has the same name and
// whose interface the target's receiver implements are matched by matchIface).
func CallSitesOf(funcs []*ssa.Function, match func(c ssa.CallInstruction) bool) []ssa.CallInstruction {
	var out []ssa.CallInstruction
	for _, f := range funcs {
		for _, c := range Calls(f) {
			if match(c) {
				out = append(out, c)
			}
		}
	}
	return out
}

// ResultValue returns the value of a call instruction when it is an *ssa.Call.
func ResultValue(c ssa.CallInstruction) ssa.Value {
	if v, ok := c.(*ssa.Call); ok {
		return v
	}
	return nil
}

// ExtractOf returns the Extract instructions of tuple value v with the given index.
func ExtractOf(v ssa.Value, idx int) []*ssa.Extract {
	var out []*ssa.Extract
	if v == nil || v.Referrers() == nil {
		return nil
	}
	for _, r := range *v.Referrers() {
		if e, ok := r.(*ssa.Extract); ok && e.Index == idx {
			out = append(out, e)
		}
	}
	return out
}

// ReturnResults returns the values a Return yields, seeing through defer-spilled results:
// in a function with defers go/ssa stores each result into a result cell, runs the defers
// and returns the reloaded cells; the value stored last in the return's own block is reported.
func ReturnResults(r *ssa.Return) []ssa.Value {
	out := make([]ssa.Value, len(r.Results))
	for i, v := range r.Results {
		out[i] = v
		u, ok := v.(*ssa.UnOp)
		if !ok {
			continue
		}
		a, ok := u.X.(*ssa.Alloc)
		if !ok {
			continue
		}
		for _, ins := range r.Block().Instrs {
			if ins == ssa.Instruction(r) {
				break
			}
			if st, ok := ins.(*ssa.Store); ok && st.Addr == ssa.Value(a) {
				out[i] = st.Val
			}
		}
	}
	return out
}
