package eng

import (
	"fmt"
	"go/constant"
	"go/token"
	"go/types"
	"sort"
	"strings"

	"golang.org/x/tools/go/ssa"
)

// ---------------------------------------------------------------------------------------
// A5: symbolic bounds of numeric SSA values.
//
// Facts(v) returns sets of lower and upper bound *terms* for v, derived from v's
// definition: constants, the clamp idioms
//
//	if x < c  { x = c }            x' = max(x, c)
//	if x > u  { x = u }            x' = min(x, u)
//	if x-a > r { x = a + r }       x' = min(x, a+r)
//
// (recognised on the phi that joins the two arms, with the branch condition taken from
// the deciding If, in either comparison direction and either arm order), math.Ceil/Floor,
// and +,−,× of bounded operands. Terms are structural expressions over opaque SSA leaves;
// two terms are equal when their canonical strings are. The order of clamps matters
// exactly as in the program: a later min() drops lower bounds that are not known to be
// below the new cap, a later max() turns upper bounds u into max(u, c).

// TermKind is the kind of a bound term.
type TermKind int

// Term kinds.
const (
	TVal TermKind = iota
	TConst
	TAdd
	TSub
	TMul
	TQuo
	TMax
	TMin
)

// Term is a symbolic expression.
type Term struct {
	K    TermKind
	V    ssa.Value
	C    float64
	A, B *Term
}

// Key is the canonical form of a term (commutative operators sorted).
func (t *Term) Key() string {
	switch t.K {
	case TVal:
		if k := loadKey(t.V); k != "" {
			return k
		}
		return fmt.Sprintf("v%p", t.V)
	case TConst:
		return fmt.Sprintf("%g", t.C)
	}
	a, b := t.A.Key(), t.B.Key()
	op := map[TermKind]string{TAdd: "+", TSub: "-", TMul: "*", TQuo: "/", TMax: "max", TMin: "min"}[t.K]
	if (t.K == TAdd || t.K == TMul || t.K == TMax || t.K == TMin) && b < a {
		a, b = b, a
	}
	return "(" + a + op + b + ")"
}

// String renders a term for reports using SSA value names.
func (t *Term) String() string {
	switch t.K {
	case TVal:
		return t.V.Name()
	case TConst:
		return fmt.Sprintf("%g", t.C)
	}
	op := map[TermKind]string{TAdd: "+", TSub: "-", TMul: "*", TQuo: "/", TMax: " max ", TMin: " min "}[t.K]
	return "(" + t.A.String() + op + t.B.String() + ")"
}

// loadKey identifies a load of a struct field by its access path, so that two loads of
// the same field (go/ssa performs no CSE) are the same term — provided the enclosing
// function never stores to that field, otherwise the loads may differ and "" is returned.
func loadKey(v ssa.Value) string {
	u, ok := v.(*ssa.UnOp)
	if !ok || u.Op != token.MUL {
		return ""
	}
	fa, ok := u.X.(*ssa.FieldAddr)
	if !ok {
		return ""
	}
	root, path := AccessPath(v)
	if len(path) == 0 || root == nil {
		return ""
	}
	fn := u.Parent()
	field := path[len(path)-1]
	typ := TypeName(derefType(fa.X.Type()))
	stored := false
	for _, f := range WithClosures(outermost(fn)) {
		Instrs(f, func(ins ssa.Instruction) {
			if st, ok := ins.(*ssa.Store); ok && FieldAddrOf(st.Addr, typ, field) {
				stored = true
			}
			// atomic writers take the field's address
			if c, ok := ins.(ssa.CallInstruction); ok {
				for _, a := range c.Common().Args {
					if FieldAddrOf(a, typ, field) && !IsCall(ins, "sync/atomic.LoadInt32", "sync/atomic.LoadInt64", "sync/atomic.LoadUint32") {
						stored = true
					}
				}
			}
		})
	}
	if stored {
		return ""
	}
	return fmt.Sprintf("ld:%p.%s", root, strings.Join(path, "."))
}

// Val makes a leaf term.
func Val(v ssa.Value) *Term { return &Term{K: TVal, V: v} }

// Num makes a constant term.
func Num(c float64) *Term { return &Term{K: TConst, C: c} }

// Bin makes a binary term.
func Bin(k TermKind, a, b *Term) *Term { return &Term{K: k, A: a, B: b} }

// BoundFacts are the bounds known for a value.
type BoundFacts struct {
	L, U []*Term
	Int  bool // the value is integral
}

func addTerm(ts []*Term, t *Term) []*Term {
	k := t.Key()
	for _, x := range ts {
		if x.Key() == k {
			return ts
		}
	}
	return append(ts, t)
}

// HasL reports whether some lower bound satisfies pred.
func (f BoundFacts) HasL(pred func(*Term) bool) bool {
	for _, t := range f.L {
		if pred(t) {
			return true
		}
	}
	return false
}

// HasU reports whether some upper bound satisfies pred.
func (f BoundFacts) HasU(pred func(*Term) bool) bool {
	for _, t := range f.U {
		if pred(t) {
			return true
		}
	}
	return false
}

func (f BoundFacts) String() string {
	var l, u []string
	for _, t := range f.L {
		l = append(l, t.String())
	}
	for _, t := range f.U {
		u = append(u, t.String())
	}
	sort.Strings(l)
	sort.Strings(u)
	return fmt.Sprintf("≥{%s} ≤{%s} int=%v", strings.Join(l, ", "), strings.Join(u, ", "), f.Int)
}

// Bounder computes BoundFacts with memoisation.
type Bounder struct {
	memo  map[ssa.Value]*BoundFacts
	depth int
}

// NewBounder creates a bounder.
func NewBounder() *Bounder { return &Bounder{memo: map[ssa.Value]*BoundFacts{}} }

// constFloat returns the numeric value of an SSA constant.
func constFloat(v ssa.Value) (float64, bool) {
	c, ok := v.(*ssa.Const)
	if !ok || c.Value == nil {
		return 0, false
	}
	switch c.Value.Kind() {
	case constant.Int, constant.Float:
		f, _ := constant.Float64Val(c.Value)
		return f, true
	}
	return 0, false
}

// TermOf builds the structural term of v (arithmetic expanded to a small depth, everything
// else an opaque leaf).
func (b *Bounder) TermOf(v ssa.Value) *Term { return b.termOf(v, 3) }

func (b *Bounder) termOf(v ssa.Value, d int) *Term {
	if c, ok := constFloat(v); ok {
		return Num(c)
	}
	// integer → wider/float conversions are exact: the term of the operand
	if cv, ok := v.(*ssa.Convert); ok && isIntegerType(cv.X.Type()) && !isIntegerType(cv.Type()) {
		return b.termOf(cv.X, d)
	}
	if d > 0 {
		if bo, ok := v.(*ssa.BinOp); ok {
			k := map[token.Token]TermKind{token.ADD: TAdd, token.SUB: TSub, token.MUL: TMul, token.QUO: TQuo}
			if kk, ok := k[bo.Op]; ok {
				return Bin(kk, b.termOf(bo.X, d-1), b.termOf(bo.Y, d-1))
			}
		}
	}
	return Val(v)
}

// isIntTerm reports whether a term is integral given integral leaves.
func (b *Bounder) isIntTerm(t *Term) bool {
	switch t.K {
	case TConst:
		return t.C == float64(int64(t.C))
	case TVal:
		return b.Facts(t.V).Int
	case TAdd, TSub, TMul, TMax, TMin:
		return b.isIntTerm(t.A) && b.isIntTerm(t.B)
	}
	return false
}

// leq reports whether a ≤ b is known syntactically.
func leq(a, b *Term) bool {
	if a.Key() == b.Key() {
		return true
	}
	if a.K == TConst && b.K == TConst {
		return a.C <= b.C
	}
	if b.K == TMax {
		return leq(a, b.A) || leq(a, b.B)
	}
	if a.K == TMin {
		return leq(a.A, b) || leq(a.B, b)
	}
	return false
}

func mkMax(a, c *Term) *Term {
	if leq(c, a) {
		return a
	}
	if leq(a, c) {
		return c
	}
	return Bin(TMax, a, c)
}

func isIntegerType(t types.Type) bool {
	b, ok := t.Underlying().(*types.Basic)
	return ok && b.Info()&types.IsInteger != 0
}

// Facts returns the bounds of v.
func (b *Bounder) Facts(v ssa.Value) BoundFacts {
	if f, ok := b.memo[v]; ok {
		if f == nil {
			return BoundFacts{} // cycle: unknown
		}
		return *f
	}
	b.memo[v] = nil
	f := b.facts(v)
	// every value bounds itself
	self := b.TermOf(v)
	f.L = addTerm(f.L, self)
	f.U = addTerm(f.U, self)
	if self.K != TVal {
		f.L = addTerm(f.L, Val(v))
		f.U = addTerm(f.U, Val(v))
	}
	b.memo[v] = &f
	return f
}

func (b *Bounder) facts(v ssa.Value) BoundFacts {
	if c, ok := constFloat(v); ok {
		return BoundFacts{L: []*Term{Num(c)}, U: []*Term{Num(c)}, Int: c == float64(int64(c))}
	}
	switch n := v.(type) {
	case *ssa.Convert:
		if isIntegerType(n.X.Type()) {
			// integer → float/integer conversion: integral; inherits the operand's bounds
			f := b.Facts(n.X)
			return BoundFacts{L: append([]*Term{}, f.L...), U: append([]*Term{}, f.U...), Int: true}
		}
		if isIntegerType(n.Type()) {
			return BoundFacts{Int: true}
		}
		return b.Facts(n.X)
	case *ssa.Call:
		if IsCall(n, "math.Ceil", "math.Round") {
			x := Args(n)[0]
			f := b.Facts(x)
			out := BoundFacts{Int: true}
			for _, l := range f.L {
				if IsCall(n, "math.Ceil") || b.isIntTerm(l) {
					out.L = addTerm(out.L, l)
				}
			}
			for _, u := range f.U {
				if b.isIntTerm(u) {
					out.U = addTerm(out.U, u)
				}
			}
			return out
		}
		if IsCall(n, "math.Floor") {
			x := Args(n)[0]
			f := b.Facts(x)
			out := BoundFacts{Int: true}
			for _, l := range f.L {
				if b.isIntTerm(l) {
					out.L = addTerm(out.L, l)
				}
			}
			out.U = append(out.U, f.U...)
			return out
		}
		if f, ok := b.summary(n); ok {
			return f
		}
		if isIntegerType(n.Type()) {
			return BoundFacts{Int: true}
		}
	case *ssa.BinOp:
		switch n.Op {
		case token.ADD, token.SUB, token.MUL:
			fx, fy := b.Facts(n.X), b.Facts(n.Y)
			out := BoundFacts{Int: fx.Int && fy.Int}
			if n.Op == token.ADD {
				// x+y ≤ ux+uy, ≥ lx+ly (keep it small: combine with the operand terms themselves)
				for _, ux := range capTerms(fx.U) {
					for _, uy := range capTerms(fy.U) {
						out.U = addTerm(out.U, Bin(TAdd, ux, uy))
					}
				}
				for _, lx := range capTerms(fx.L) {
					for _, ly := range capTerms(fy.L) {
						out.L = addTerm(out.L, Bin(TAdd, lx, ly))
					}
				}
			}
			if n.Op == token.SUB {
				for _, ux := range capTerms(fx.U) {
					for _, ly := range capTerms(fy.L) {
						out.U = addTerm(out.U, Bin(TSub, ux, ly))
					}
				}
				for _, lx := range capTerms(fx.L) {
					for _, uy := range capTerms(fy.U) {
						out.L = addTerm(out.L, Bin(TSub, lx, uy))
					}
				}
			}
			return out
		}
		if isIntegerType(n.Type()) {
			return BoundFacts{Int: true}
		}
	case *ssa.Phi:
		if f, ok := b.clampPhi(n); ok {
			return f
		}
		// plain join: intersection of the edges' bounds
		var out *BoundFacts
		for _, e := range n.Edges {
			fe := b.Facts(e)
			if out == nil {
				c := BoundFacts{L: append([]*Term{}, fe.L...), U: append([]*Term{}, fe.U...), Int: fe.Int}
				out = &c
				continue
			}
			out.L = intersectTerms(out.L, fe.L)
			out.U = intersectTerms(out.U, fe.U)
			out.Int = out.Int && fe.Int
		}
		if out != nil {
			return *out
		}
	case *ssa.UnOp:
		if isIntegerType(n.Type()) {
			return BoundFacts{Int: true}
		}
	case *ssa.Parameter, *ssa.Extract, *ssa.Field:
		if isIntegerType(v.Type()) {
			return BoundFacts{Int: true}
		}
	}
	return BoundFacts{Int: isIntegerType(v.Type())}
}

func capTerms(ts []*Term) []*Term {
	if len(ts) > 4 {
		return ts[:4]
	}
	return ts
}

func intersectTerms(a, b []*Term) []*Term {
	var out []*Term
	for _, x := range a {
		for _, y := range b {
			if x.Key() == y.Key() {
				out = append(out, x)
			}
		}
	}
	return out
}

// clampPhi recognises  x' = phi(x, w)  where the arm assigning w is taken exactly when a
// comparison involving x holds.
func (b *Bounder) clampPhi(p *ssa.Phi) (BoundFacts, bool) {
	if len(p.Edges) != 2 {
		return BoundFacts{}, false
	}
	blk := p.Block()
	// find the deciding If: one predecessor is the If block itself (fallthrough) or both
	// predecessors are dominated by the two arms of one If.
	for oi := 0; oi < 2; oi++ {
		ni := 1 - oi
		old, neu := p.Edges[oi], p.Edges[ni]
		predOld, predNew := blk.Preds[oi], blk.Preds[ni]
		// the "new" arm: a block with the If block as single predecessor
		if len(predNew.Preds) != 1 {
			continue
		}
		ifBlk := predNew.Preds[0]
		if len(ifBlk.Instrs) == 0 {
			continue
		}
		iff, ok := ifBlk.Instrs[len(ifBlk.Instrs)-1].(*ssa.If)
		if !ok {
			continue
		}
		// the old arm is the If block itself (no else) — the value is unchanged there
		if predOld != ifBlk {
			continue
		}
		branch := ifBlk.Succs[0] == predNew
		if ifBlk.Succs[0] == ifBlk.Succs[1] {
			continue
		}
		rel := RelOf(iff.Cond, branch)
		if f, ok := b.clampFrom(old, neu, rel); ok {
			return f, true
		}
	}
	return BoundFacts{}, false
}

func (b *Bounder) clampFrom(old, neu ssa.Value, rel Rel) (BoundFacts, bool) {
	op, x, y := rel.Op, rel.X, rel.Y
	// normalise so that the old value (or an expression of it) is on the left
	involves := func(e ssa.Value) bool {
		if e == old {
			return true
		}
		if bo, ok := e.(*ssa.BinOp); ok && bo.Op == token.SUB && bo.X == old {
			return true
		}
		return false
	}
	if !involves(x) && involves(y) {
		x, y = y, x
		op = FlipOp(op)
	}
	if !involves(x) {
		return BoundFacts{}, false
	}
	fo := b.Facts(old)
	tn := b.TermOf(neu)
	fn := b.Facts(neu)
	switch {
	case x == old && (op == token.LSS || op == token.LEQ):
		// if old < y { new }  with new == y : max(old, y)
		if b.TermOf(y).Key() != tn.Key() {
			return BoundFacts{}, false
		}
		out := BoundFacts{Int: fo.Int && fn.Int}
		out.L = append(out.L, fo.L...)
		for _, l := range fn.L {
			out.L = addTerm(out.L, l)
		}
		out.L = addTerm(out.L, tn)
		for _, u := range fo.U {
			out.U = addTerm(out.U, mkMax(u, tn))
		}
		return out, true
	case x == old && (op == token.GTR || op == token.GEQ):
		// if old > y { new } with new == y : min(old, y)
		if b.TermOf(y).Key() != tn.Key() {
			return BoundFacts{}, false
		}
		return b.minFacts(fo, fn, tn), true
	case op == token.GTR || op == token.GEQ:
		// if old - a > r { new = a + r } : min(old, a+r)
		bo := x.(*ssa.BinOp)
		want := Bin(TAdd, b.TermOf(bo.Y), b.TermOf(y))
		if want.Key() != tn.Key() {
			return BoundFacts{}, false
		}
		return b.minFacts(fo, fn, tn), true
	}
	return BoundFacts{}, false
}

func (b *Bounder) minFacts(fo, fn BoundFacts, cap *Term) BoundFacts {
	out := BoundFacts{Int: fo.Int && fn.Int}
	out.U = append(out.U, fo.U...)
	for _, u := range fn.U {
		out.U = addTerm(out.U, u)
	}
	out.U = addTerm(out.U, cap)
	// min(a, b) ≥ min(la, lb)
	for _, l := range capTerms(fo.L) {
		for _, cl := range capTerms(fn.L) {
			out.L = addTerm(out.L, Bin(TMin, l, cl))
		}
	}
	// a lower bound survives the cap only if it is known to be below it
	for _, l := range fo.L {
		keep := leq(l, cap)
		for _, cl := range fn.L {
			if leq(l, cl) {
				keep = true
			}
		}
		if keep {
			out.L = addTerm(out.L, l)
		}
	}
	return out
}

// summary bounds the result of a call to a loop-free repository function with a single
// return by bounding the returned value inside the callee and substituting the actual
// arguments for the callee's parameters (terms mentioning other callee values are dropped).
func (b *Bounder) summary(c *ssa.Call) (BoundFacts, bool) {
	callee := c.Call.StaticCallee()
	if !Analysable(callee) || HasLoop(callee) || b.depth >= 2 {
		return BoundFacts{}, false
	}
	var ret *ssa.Return
	n := 0
	Instrs(callee, func(ins ssa.Instruction) {
		if r, ok := ins.(*ssa.Return); ok && r.Block() != callee.Recover {
			ret = r
			n++
		}
	})
	if n != 1 || len(ret.Results) != 1 {
		return BoundFacts{}, false
	}
	inner := &Bounder{memo: map[ssa.Value]*BoundFacts{}, depth: b.depth + 1}
	f := inner.Facts(ret.Results[0])
	argOf := map[ssa.Value]ssa.Value{}
	for i, p := range callee.Params {
		if i < len(c.Call.Args) {
			argOf[p] = c.Call.Args[i]
		}
	}
	var subst func(t *Term) *Term
	subst = func(t *Term) *Term {
		switch t.K {
		case TConst:
			return t
		case TVal:
			if a, ok := argOf[t.V]; ok {
				return b.TermOf(a)
			}
			return nil
		}
		x, y := subst(t.A), subst(t.B)
		if x == nil || y == nil {
			return nil
		}
		return Bin(t.K, x, y)
	}
	out := BoundFacts{Int: f.Int}
	for _, l := range f.L {
		if t := subst(l); t != nil {
			out.L = addTerm(out.L, t)
		}
	}
	for _, u := range f.U {
		if t := subst(u); t != nil {
			out.U = addTerm(out.U, t)
		}
	}
	return out, true
}
