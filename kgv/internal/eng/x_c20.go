package eng

// A11: stock x/tools vet passes run in-process on one already type-checked package.
//
// Only reflectvaluecompare is wired (it decides a clause of C20: a `==`, `!=` or
// reflect.DeepEqual whose operand has type reflect.Value compares the reflect.Value
// *wrappers*, never the values they hold). The analysis.Pass is built by hand from the
// syntax and type information that go/packages produced for the world, so the verdict is
// about exactly the program the other rules see; nothing is re-loaded or re-type-checked.

import (
	"fmt"
	"go/ast"
	"go/importer"
	"go/parser"
	"go/token"
	"go/types"
	"sort"

	"golang.org/x/tools/go/analysis"
	"golang.org/x/tools/go/analysis/passes/inspect"
	"golang.org/x/tools/go/analysis/passes/reflectvaluecompare"
	"golang.org/x/tools/go/ast/astutil"
	"golang.org/x/tools/go/packages"
	"golang.org/x/tools/go/ssa"
)

// ValueCompare is one comparison site looked at by the reflectvaluecompare pass.
type ValueCompare struct {
	Pos     token.Pos
	Op      string      // "reflect.DeepEqual", "==" or "!="
	Exprs   []string    // the compared expressions in source form (types.ExprString)
	Func    *types.Func // enclosing declared function or method (nil at package level)
	Flagged bool        // reported by the pass
	Message string      // the pass's message when flagged
}

// Construct renders the comparison without positions: `reflect.DeepEqual(a, b)` / `a == b`.
func (v ValueCompare) Construct() string {
	if len(v.Exprs) != 2 {
		return v.Op
	}
	if v.Op == "==" || v.Op == "!=" {
		return v.Exprs[0] + " " + v.Op + " " + v.Exprs[1]
	}
	return v.Op + "(" + v.Exprs[0] + ", " + v.Exprs[1] + ")"
}

// ValueCompareReport is the outcome of the pass on one package.
type ValueCompareReport struct {
	Files       int
	DeepEquals  []ValueCompare // every reflect.DeepEqual call of the package (flagged or not)
	Flagged     []ValueCompare // every diagnostic of the pass (DeepEqual and ==/!=)
	EqualityOps int            // number of ==/!= expressions inspected
}

// RunReflectValueCompare runs golang.org/x/tools/go/analysis/passes/reflectvaluecompare
// (with its prerequisite inspect pass) on the given type-checked syntax.
func RunReflectValueCompare(fset *token.FileSet, files []*ast.File, pkg *types.Package, info *types.Info, sizes types.Sizes) (*ValueCompareReport, error) {
	if fset == nil || pkg == nil || info == nil || len(files) == 0 {
		return nil, fmt.Errorf("reflectvaluecompare: package has no syntax or type information")
	}
	mk := func(a *analysis.Analyzer, results map[*analysis.Analyzer]interface{}, report func(analysis.Diagnostic)) *analysis.Pass {
		return &analysis.Pass{
			Analyzer:   a,
			Fset:       fset,
			Files:      files,
			Pkg:        pkg,
			TypesInfo:  info,
			TypesSizes: sizes,
			ResultOf:   results,
			Report:     report,
		}
	}
	insp, err := inspect.Analyzer.Run(mk(inspect.Analyzer, map[*analysis.Analyzer]interface{}{}, func(analysis.Diagnostic) {}))
	if err != nil {
		return nil, fmt.Errorf("inspect pass: %v", err)
	}
	var diags []analysis.Diagnostic
	if _, err := reflectvaluecompare.Analyzer.Run(mk(reflectvaluecompare.Analyzer,
		map[*analysis.Analyzer]interface{}{inspect.Analyzer: insp},
		func(d analysis.Diagnostic) { diags = append(diags, d) })); err != nil {
		return nil, fmt.Errorf("reflectvaluecompare pass: %v", err)
	}
	sort.Slice(diags, func(i, j int) bool { return diags[i].Pos < diags[j].Pos })

	rep := &ValueCompareReport{Files: len(files)}
	flaggedAt := map[token.Pos]analysis.Diagnostic{}
	for _, d := range diags {
		flaggedAt[d.Pos] = d
	}
	describe := func(f *ast.File, n ast.Node) (ValueCompare, bool) {
		vc := ValueCompare{Pos: n.Pos()}
		switch x := n.(type) {
		case *ast.BinaryExpr:
			vc.Op = x.Op.String()
			vc.Exprs = []string{types.ExprString(x.X), types.ExprString(x.Y)}
		case *ast.CallExpr:
			vc.Op = "reflect.DeepEqual"
			for _, a := range x.Args {
				vc.Exprs = append(vc.Exprs, types.ExprString(a))
			}
		default:
			return vc, false
		}
		path, _ := astutil.PathEnclosingInterval(f, n.Pos(), n.End())
		for _, p := range path {
			if fd, ok := p.(*ast.FuncDecl); ok {
				if o, ok := info.Defs[fd.Name].(*types.Func); ok {
					vc.Func = o
				}
				break
			}
		}
		return vc, true
	}
	matched := map[token.Pos]bool{}
	for _, f := range files {
		ast.Inspect(f, func(n ast.Node) bool {
			switch x := n.(type) {
			case *ast.BinaryExpr:
				if x.Op != token.EQL && x.Op != token.NEQ {
					return true
				}
				rep.EqualityOps++
				if d, ok := flaggedAt[x.Pos()]; ok && d.End == x.End() {
					vc, _ := describe(f, x)
					vc.Flagged, vc.Message = true, d.Message
					rep.Flagged = append(rep.Flagged, vc)
					matched[x.Pos()] = true
				}
			case *ast.CallExpr:
				if !isReflectDeepEqual(info, x) {
					return true
				}
				vc, _ := describe(f, x)
				if d, ok := flaggedAt[x.Pos()]; ok && d.End == x.End() {
					vc.Flagged, vc.Message = true, d.Message
					rep.Flagged = append(rep.Flagged, vc)
					matched[x.Pos()] = true
				}
				rep.DeepEquals = append(rep.DeepEquals, vc)
			}
			return true
		})
	}
	// a diagnostic that could not be attributed to a node is still a finding
	for _, d := range diags {
		if !matched[d.Pos] {
			rep.Flagged = append(rep.Flagged, ValueCompare{Pos: d.Pos, Op: "unattributed", Flagged: true, Message: d.Message})
		}
	}
	return rep, nil
}

func isReflectDeepEqual(info *types.Info, call *ast.CallExpr) bool {
	var id *ast.Ident
	switch f := ast.Unparen(call.Fun).(type) {
	case *ast.SelectorExpr:
		id = f.Sel
	case *ast.Ident:
		id = f
	}
	if id == nil {
		return false
	}
	fn, ok := info.Uses[id].(*types.Func)
	return ok && fn.Pkg() != nil && fn.Pkg().Path() == "reflect" && fn.Name() == "DeepEqual" && len(call.Args) == 2
}

// ReflectValueCompareOn runs the pass on a package of the world.
func (w *World) ReflectValueCompareOn(path string) (*ValueCompareReport, error) {
	p, ok := w.All[path]
	if !ok {
		return nil, fmt.Errorf("package %s is not part of the loaded program", path)
	}
	return RunReflectValueCompare(p.Fset, p.Syntax, p.Types, p.TypesInfo, p.TypesSizes)
}

// SSAFuncOf maps a declared function object to its SSA function (nil if none).
func (w *World) SSAFuncOf(o *types.Func) *ssa.Function {
	if o == nil {
		return nil
	}
	return w.Prog.FuncValue(o)
}

// worldImporter resolves imports of a fixture from the packages the world has already
// type-checked (no disk access, no second type-check of the standard library).
type worldImporter struct {
	all      map[string]*packages.Package
	fallback types.Importer
}

func (wi worldImporter) Import(path string) (*types.Package, error) {
	if p, ok := wi.all[path]; ok && p.Types != nil {
		return p.Types, nil
	}
	if wi.fallback != nil {
		return wi.fallback.Import(path)
	}
	return nil, fmt.Errorf("fixture import %q: not in the loaded program", path)
}

// CheckFixtureWithImports parses and type-checks one source file that may import packages
// of the loaded program (e.g. "reflect"). With fromSource the imports are type-checked from
// GOROOT source instead (importer.ForCompiler(fset, "source", nil)); that variant costs a
// full type-check of the imported packages' closure on every run and exists for measurement.
func (w *World) CheckFixtureWithImports(src string, fromSource bool) (*token.FileSet, []*ast.File, *types.Package, *types.Info, error) {
	fset := token.NewFileSet()
	f, err := parser.ParseFile(fset, "fx.go", src, parser.SkipObjectResolution)
	if err != nil {
		return nil, nil, nil, nil, fmt.Errorf("fixture parse: %v", err)
	}
	info := &types.Info{
		Types:      map[ast.Expr]types.TypeAndValue{},
		Defs:       map[*ast.Ident]types.Object{},
		Uses:       map[*ast.Ident]types.Object{},
		Selections: map[*ast.SelectorExpr]*types.Selection{},
		Implicits:  map[ast.Node]types.Object{},
		Scopes:     map[ast.Node]*types.Scope{},
		Instances:  map[*ast.Ident]types.Instance{},
	}
	var imp types.Importer
	if fromSource || w == nil {
		imp = importer.ForCompiler(fset, "source", nil)
	} else {
		imp = worldImporter{all: w.All}
	}
	conf := types.Config{Importer: imp}
	pkg, err := conf.Check("fx", fset, []*ast.File{f}, info)
	if err != nil {
		return nil, nil, nil, nil, fmt.Errorf("fixture type-check: %v", err)
	}
	return fset, []*ast.File{f}, pkg, info, nil
}
