package eng

import (
	"go/constant"
	"go/token"

	"golang.org/x/tools/go/ssa"
)

// GuardImplies interprets guard g with respect to boolean SSA value v: it returns
// (truth of v, true) when the guard's condition having the guard's truth value *implies* a
// truth value of v. It generalises CondHolds (condition is v or !v) to named conditions that
// the builder turns into phis of short-circuit operators:
//
//	isPositive := len(r) == 0 || r[0] != '-'      // phi [true, r[0] != '-']
//	if isPositive {…} else { /* here r[0] != '-' is known false */ }
//
//	inverted := len(r) > 0 && r[0] == '-'         // phi [false, r[0] == '-']
//	if inverted { /* here r[0] == '-' is known true */ }
//
// A phi with truth value b took one of the edges whose value can be b: a constant edge of the
// other truth value is excluded, a constant edge of the same truth value says nothing about v
// (no implication), every other edge must imply the same truth value of v. Edges entering
// over a back edge of a loop are refused (the operand would be v of the previous iteration).
func GuardImplies(g Guard, v ssa.Value) (bool, bool) {
	return condImplies(g.If.Cond, g.Branch, v, 0)
}

// CondImplies is GuardImplies for an arbitrary boolean value cond known to equal truth.
func CondImplies(cond ssa.Value, truth bool, v ssa.Value) (bool, bool) {
	return condImplies(cond, truth, v, 0)
}

func condImplies(cond ssa.Value, truth bool, v ssa.Value, depth int) (bool, bool) {
	if cond == nil || depth > 6 {
		return false, false
	}
	if cond == v {
		return truth, true
	}
	switch x := cond.(type) {
	case *ssa.UnOp:
		if x.Op == token.NOT {
			return condImplies(x.X, !truth, v, depth+1)
		}
	case *ssa.BinOp:
		// b == true / b != false / …
		if x.Op != token.EQL && x.Op != token.NEQ {
			return false, false
		}
		for _, xy := range [][2]ssa.Value{{x.X, x.Y}, {x.Y, x.X}} {
			k, ok := xy[1].(*ssa.Const)
			if !ok || k.Value == nil || k.Value.Kind() != constant.Bool {
				continue
			}
			// cond == truth  ⇔  xy[0] == (k == (op is ==)) == truth
			t := constant.BoolVal(k.Value) == (x.Op == token.EQL)
			return condImplies(xy[0], t == truth, v, depth+1)
		}
	case *ssa.Phi:
		res, have := false, false
		for i, e := range x.Edges {
			if i >= len(x.Block().Preds) {
				return false, false
			}
			if k, ok := e.(*ssa.Const); ok && k.Value != nil && k.Value.Kind() == constant.Bool {
				if constant.BoolVal(k.Value) != truth {
					continue // this edge cannot have produced the observed truth value
				}
				return false, false // produced by a constant: nothing is known about v
			}
			if x.Block().Dominates(x.Block().Preds[i]) {
				return false, false // loop-carried operand
			}
			t, ok := condImplies(e, truth, v, depth+1)
			if !ok || (have && t != res) {
				return false, false
			}
			res, have = t, true
		}
		return res, have
	}
	return false, false
}
