package eng

import (
	"fmt"
	"go/constant"
	"go/token"
	"go/types"

	"golang.org/x/tools/go/ssa"
)

// ---------------------------------------------------------------------------------------
// A4/A6: a small path-enumerating abstract interpreter for (mostly) loop-free functions.
//
// Domain per value: Top | Const c | Nil | NonNil. Memory is a map from access paths
// ("param.f.g", "t3.f") to abstract values; comparisons with nil refine the compared
// cell on both branches, so repeated loads of the same optional field agree along a path.
// Calls can be pinned by the client; unpinned calls to repository functions are
// interpreted recursively (every callee path continues the caller path) up to Depth.
// A block revisited on the same path cuts the path (LoopCut): its result is unknown.

// AVKind is the kind of an abstract value.
type AVKind int

// Abstract value kinds.
const (
	Top AVKind = iota
	ConstV
	NilV
	NonNilV
	// LenV is a non-nil slice/array-backed value of known length C.
	LenV
)

// AV is an abstract value.
type AV struct {
	K AVKind
	C constant.Value
}

func (a AV) String() string {
	switch a.K {
	case ConstV:
		return a.C.String()
	case NilV:
		return "nil"
	case NonNilV:
		return "non-nil"
	case LenV:
		return "len=" + a.C.String()
	}
	return "⊤"
}

// AVBool makes a boolean constant.
func AVBool(b bool) AV { return AV{ConstV, constant.MakeBool(b)} }

// AVInt makes an integer constant.
func AVInt(i int64) AV { return AV{ConstV, constant.MakeInt64(i)} }

// IsBool reports whether a is the boolean constant b.
func (a AV) IsBool(b bool) bool {
	return a.K == ConstV && a.C.Kind() == constant.Bool && constant.BoolVal(a.C) == b
}

// State is the abstract state along one path.
type State struct {
	env   map[ssa.Value]AV
	mem   map[string]AV
	alias map[ssa.Value]string // callee parameter -> caller access path
	trail map[*ssa.BasicBlock]bool
	pred  *ssa.BasicBlock
	tuple map[*ssa.Call][]AV
}

func (s *State) clone() *State {
	n := &State{env: make(map[ssa.Value]AV, len(s.env)), mem: make(map[string]AV, len(s.mem)), alias: s.alias, trail: make(map[*ssa.BasicBlock]bool, len(s.trail)), pred: s.pred, tuple: map[*ssa.Call][]AV{}}
	for k, v := range s.tuple {
		n.tuple[k] = v
	}
	for k, v := range s.env {
		n.env[k] = v
	}
	for k, v := range s.mem {
		n.mem[k] = v
	}
	for k, v := range s.trail {
		n.trail[k] = v
	}
	return n
}

// Mem returns the abstract content of an access path.
func (s *State) Mem(path string) (AV, bool) { v, ok := s.mem[path]; return v, ok }

// PathResult is the outcome of one enumerated path.
type PathResult struct {
	Ret       []AV
	Exit      ssa.Instruction // the Return or Panic that ended the path
	Panicked  bool
	LoopCut   bool
	Calls     []ssa.CallInstruction // calls executed (in order), including those in interpreted callees
	NilDerefs []ssa.Instruction     // dereferences whose base is definitely nil on this path
	Final     *State
}

// Interp configures the interpreter.
type Interp struct {
	W        *World
	Depth    int
	MaxPaths int
	// PinCall may fix the (single) result of a call; idx is -1 for single results or the
	// tuple index when called for an Extract.
	PinCall func(c *ssa.Call, idx int, st *State) (AV, bool)
	// PinPath may fix the content of a memory cell addressed by access path.
	PinPath func(path string) (AV, bool)
	// PinLoad may fix the value of a load (consulted before PinPath; sees the instruction).
	PinLoad func(ld *ssa.UnOp, path string) (AV, bool)
	// FollowCall restricts which repository callees are interpreted (default: all with bodies).
	FollowCall func(callee *ssa.Function) bool

	paths int
	err   error
}

// ErrTooManyPaths is reported when MaxPaths is exceeded.
var ErrTooManyPaths = fmt.Errorf("path budget exceeded")

// PathKey renders the access path of an address or loaded value under the state's aliases.
func (in *Interp) PathKey(v ssa.Value, st *State) string {
	root, path := AccessPath(v)
	name := ""
	if a, ok := st.alias[root]; ok {
		name = a
	} else {
		switch r := root.(type) {
		case *ssa.Parameter:
			name = r.Name()
		case *ssa.FreeVar:
			name = r.Name()
		case *ssa.Global:
			name = "global:" + r.Name()
		default:
			if root != nil {
				name = fmt.Sprintf("%s@%p", root.Name(), root)
			}
		}
	}
	for _, p := range path {
		name += "." + p
	}
	return name
}

// Run enumerates the paths of fn with the given abstract arguments.
func (in *Interp) Run(fn *ssa.Function, args []AV) ([]PathResult, error) {
	if in.MaxPaths == 0 {
		in.MaxPaths = 1 << 16
	}
	in.paths = 0
	in.err = nil
	st := &State{env: map[ssa.Value]AV{}, mem: map[string]AV{}, alias: map[ssa.Value]string{}, trail: map[*ssa.BasicBlock]bool{}, tuple: map[*ssa.Call][]AV{}}
	for i, p := range fn.Params {
		if i < len(args) {
			st.env[p] = args[i]
		}
	}
	var out []PathResult
	in.runFn(fn, st, 0, &PathResult{}, func(st *State, pr *PathResult) {
		r := *pr
		r.Final = st
		out = append(out, r)
	})
	return out, in.err
}

type cont func(st *State, pr *PathResult)

func (in *Interp) runFn(fn *ssa.Function, st *State, depth int, pr *PathResult, k cont) {
	if len(fn.Blocks) == 0 {
		k(st, pr)
		return
	}
	in.runBlock(fn.Blocks[0], 0, st, depth, pr, k)
}

func copyPR(pr *PathResult) *PathResult {
	n := *pr
	n.Calls = append([]ssa.CallInstruction{}, pr.Calls...)
	n.NilDerefs = append([]ssa.Instruction{}, pr.NilDerefs...)
	n.Ret = append([]AV{}, pr.Ret...)
	return &n
}

func (in *Interp) runBlock(b *ssa.BasicBlock, start int, st *State, depth int, pr *PathResult, k cont) {
	if in.err != nil {
		return
	}
	if start == 0 {
		if st.trail[b] {
			pr.LoopCut = true
			pr.Ret = nil
			in.count()
			k(st, pr)
			return
		}
		st.trail[b] = true
	}
	for i := start; i < len(b.Instrs); i++ {
		ins := b.Instrs[i]
		switch n := ins.(type) {
		case *ssa.Phi:
			for pi, p := range b.Preds {
				if p == st.pred && pi < len(n.Edges) {
					st.env[n] = in.eval(n.Edges[pi], st)
				}
			}
		case *ssa.If:
			cv := in.eval(n.Cond, st)
			if cv.K == ConstV && cv.C.Kind() == constant.Bool {
				idx := 1
				if constant.BoolVal(cv.C) {
					idx = 0
				}
				st.pred = b
				in.runBlock(b.Succs[idx], 0, st, depth, pr, k)
				return
			}
			for idx := 0; idx < 2; idx++ {
				ns := st.clone()
				np := copyPR(pr)
				in.refine(n.Cond, idx == 0, ns)
				ns.pred = b
				in.runBlock(b.Succs[idx], 0, ns, depth, np, k)
			}
			return
		case *ssa.Jump:
			st.pred = b
			in.runBlock(b.Succs[0], 0, st, depth, pr, k)
			return
		case *ssa.Return:
			pr.Ret = nil
			if depth == 0 {
				pr.Exit = n
			}
			for _, r := range n.Results {
				pr.Ret = append(pr.Ret, in.eval(r, st))
			}
			in.count()
			k(st, pr)
			return
		case *ssa.Panic:
			if depth == 0 {
				pr.Exit = n
			}
			pr.Panicked = true
			pr.Ret = nil
			in.count()
			k(st, pr)
			return
		case *ssa.Store:
			in.noteDeref(n.Addr, ins, st, pr)
			key := in.PathKey(n.Addr, st)
			st.mem[key] = in.eval(n.Val, st)
			// a whole-struct store invalidates sub-paths
			for kk := range st.mem {
				if len(kk) > len(key) && kk[:len(key)] == key && kk[len(key)] == '.' {
					delete(st.mem, kk)
				}
			}
		case *ssa.Call:
			pr.Calls = append(pr.Calls, n)
			if in.PinCall != nil {
				if av, ok := in.PinCall(n, -1, st); ok {
					st.env[n] = av
					continue
				}
			}
			callee := n.Call.StaticCallee()
			if callee != nil && callee.Blocks != nil && depth < in.Depth && callee.Pkg != nil && IsRepoPkg(callee.Pkg.Pkg.Path()) &&
				(in.FollowCall == nil || in.FollowCall(callee)) && n.Type() != nil {
				{
					// interpret callee; every callee path continues this path
					cs := st.clone()
					cs.trail = map[*ssa.BasicBlock]bool{}
					cs.alias = map[ssa.Value]string{}
					for k2, v2 := range st.alias {
						cs.alias[k2] = v2
					}
					for ai, p := range callee.Params {
						if ai < len(n.Call.Args) {
							cs.env[p] = in.eval(n.Call.Args[ai], st)
							cs.alias[p] = in.PathKey(n.Call.Args[ai], st)
						}
					}
					rest := i + 1
					callerTrail := st.trail
					callerPred := st.pred
					in.runFn(callee, cs, depth+1, pr, func(rs *State, rp *PathResult) {
						ns := rs.clone()
						ns.trail = map[*ssa.BasicBlock]bool{}
						for bb := range callerTrail {
							ns.trail[bb] = true
						}
						ns.pred = callerPred
						np := copyPR(rp)
						if rp.Panicked || rp.LoopCut {
							if rp.LoopCut {
								ns.env[n] = AV{}
								np.LoopCut = false
							} else {
								k(ns, np)
								return
							}
						} else if len(rp.Ret) == 1 {
							ns.env[n] = rp.Ret[0]
						} else if len(rp.Ret) > 1 {
							ns.tuple[n] = append([]AV{}, rp.Ret...)
						}
						np.Ret = nil
						in.runBlock(b, rest, ns, depth, np, k)
					})
					return
				}
			}
			st.env[n] = in.defaultCall(n, st)
		case *ssa.Defer, *ssa.Go:
			if c, ok := ins.(ssa.CallInstruction); ok {
				pr.Calls = append(pr.Calls, c)
			}
		case *ssa.UnOp:
			if n.Op == token.MUL {
				in.noteDeref(n.X, ins, st, pr)
			}
		case *ssa.FieldAddr:
			in.noteDerefBase(n.X, ins, st, pr)
		case *ssa.Field, *ssa.IndexAddr, *ssa.Index:
		}
	}
	// block without terminator (should not happen)
	in.count()
	k(st, pr)
}

func (in *Interp) count() {
	in.paths++
	if in.paths > in.MaxPaths && in.err == nil {
		in.err = ErrTooManyPaths
	}
}

func (in *Interp) noteDeref(addr ssa.Value, at ssa.Instruction, st *State, pr *PathResult) {
	if in.eval(addr, st).K == NilV {
		pr.NilDerefs = append(pr.NilDerefs, at)
	}
}

func (in *Interp) noteDerefBase(base ssa.Value, at ssa.Instruction, st *State, pr *PathResult) {
	if _, isPtr := base.Type().Underlying().(*types.Pointer); !isPtr {
		return
	}
	if in.eval(base, st).K == NilV {
		pr.NilDerefs = append(pr.NilDerefs, at)
	}
}

func (in *Interp) defaultCall(c *ssa.Call, st *State) AV {
	if b, ok := c.Call.Value.(*ssa.Builtin); ok {
		switch b.Name() {
		case "len":
			if len(c.Call.Args) == 1 {
				a := in.eval(c.Call.Args[0], st)
				if a.K == NilV {
					return AVInt(0)
				}
				if a.K == LenV {
					return AV{ConstV, a.C}
				}
				if a.K == ConstV && a.C.Kind() == constant.String {
					return AVInt(int64(len(constant.StringVal(a.C))))
				}
			}
		case "append":
			return AV{K: NonNilV}
		}
	}
	return AV{}
}

// refine narrows the state with "cond == branch".
func (in *Interp) refine(cond ssa.Value, branch bool, st *State) {
	r := RelOf(cond, branch)
	set := func(v ssa.Value, av AV) {
		st.env[v] = av
		if u, ok := v.(*ssa.UnOp); ok && u.Op == token.MUL {
			st.mem[in.PathKey(u.X, st)] = av
		}
		// see through conversions
		switch n := v.(type) {
		case *ssa.ChangeType:
			st.env[n.X] = av
		}
	}
	if r.Op == token.EQL || r.Op == token.NEQ {
		x, y := r.X, r.Y
		if IsNilConst(x) {
			x, y = y, x
		}
		if IsNilConst(y) {
			if r.Op == token.EQL {
				set(x, AV{K: NilV})
			} else {
				set(x, AV{K: NonNilV})
			}
			return
		}
		// equality with a constant pins the value
		if r.Op == token.EQL {
			if c, ok := y.(*ssa.Const); ok && c.Value != nil {
				set(x, AV{ConstV, c.Value})
			} else if c, ok := x.(*ssa.Const); ok && c.Value != nil {
				set(y, AV{ConstV, c.Value})
			}
		}
	}
}

func (in *Interp) eval(v ssa.Value, st *State) AV {
	if av, ok := st.env[v]; ok {
		return av
	}
	av := in.eval1(v, st)
	switch v.(type) {
	case *ssa.Const, *ssa.Global, *ssa.Function:
	default:
		if _, isInstr := v.(ssa.Instruction); isInstr {
			// loads must be re-evaluated after stores: do not cache loads
			if u, ok := v.(*ssa.UnOp); ok && u.Op == token.MUL {
				return av
			}
			st.env[v] = av
		}
	}
	return av
}

func (in *Interp) eval1(v ssa.Value, st *State) AV {
	switch n := v.(type) {
	case *ssa.Const:
		if n.IsNil() {
			return AV{K: NilV}
		}
		if n.Value == nil {
			return AV{}
		}
		return AV{ConstV, n.Value}
	case *ssa.Alloc, *ssa.MakeInterface, *ssa.MakeSlice, *ssa.MakeMap, *ssa.MakeChan, *ssa.MakeClosure, *ssa.Function, *ssa.Global:
		return AV{K: NonNilV}
	case *ssa.FieldAddr, *ssa.IndexAddr:
		return AV{K: NonNilV}
	case *ssa.UnOp:
		switch n.Op {
		case token.MUL:
			key := in.PathKey(n.X, st)
			if in.PinLoad != nil {
				if av, ok := in.PinLoad(n, key); ok {
					if m, ok2 := st.mem[key]; ok2 {
						return m
					}
					return av
				}
			}
			if in.PinPath != nil {
				if av, ok := in.PinPath(key); ok {
					// a store on this path overrides the pin
					if m, ok2 := st.mem[key]; ok2 {
						return m
					}
					return av
				}
			}
			if m, ok := st.mem[key]; ok {
				return m
			}
			return AV{}
		case token.NOT:
			x := in.eval(n.X, st)
			if x.K == ConstV && x.C.Kind() == constant.Bool {
				return AVBool(!constant.BoolVal(x.C))
			}
		case token.SUB:
			x := in.eval(n.X, st)
			if x.K == ConstV {
				return AV{ConstV, constant.UnaryOp(token.SUB, x.C, 0)}
			}
		}
		return AV{}
	case *ssa.BinOp:
		x, y := in.eval(n.X, st), in.eval(n.Y, st)
		switch n.Op {
		case token.EQL, token.NEQ:
			nn := func(a AV) AVKind {
				if a.K == LenV {
					return NonNilV
				}
				return a.K
			}
			if (nn(x) == NilV && nn(y) == NilV) || (nn(x) == NilV && nn(y) == NonNilV) || (nn(x) == NonNilV && nn(y) == NilV) {
				eq := nn(x) == nn(y)
				return AVBool(eq == (n.Op == token.EQL))
			}
			fallthrough
		case token.LSS, token.LEQ, token.GTR, token.GEQ:
			if x.K == ConstV && y.K == ConstV && x.C.Kind() == y.C.Kind() && x.C.Kind() != constant.Unknown {
				return AVBool(constant.Compare(x.C, n.Op, y.C))
			}
		case token.ADD, token.SUB, token.MUL:
			if x.K == ConstV && y.K == ConstV && x.C.Kind() == y.C.Kind() && (x.C.Kind() == constant.Int || x.C.Kind() == constant.String && n.Op == token.ADD) {
				return AV{ConstV, constant.BinaryOp(x.C, n.Op, y.C)}
			}
		}
		return AV{}
	case *ssa.Extract:
		if c, ok := n.Tuple.(*ssa.Call); ok {
			if in.PinCall != nil {
				if av, ok := in.PinCall(c, n.Index, st); ok {
					return av
				}
			}
			if t, ok := st.tuple[c]; ok && n.Index < len(t) {
				return t[n.Index]
			}
		}
		return AV{}
	case *ssa.ChangeType:
		return in.eval(n.X, st)
	case *ssa.Convert:
		x := in.eval(n.X, st)
		if x.K == ConstV && x.C.Kind() == constant.Int {
			if b, ok := n.Type().Underlying().(*types.Basic); ok && b.Info()&types.IsInteger != 0 {
				return x
			}
		}
		if x.K == NilV || x.K == NonNilV {
			return x
		}
		return AV{}
	case *ssa.ChangeInterface:
		return in.eval(n.X, st)
	case *ssa.Slice:
		x := in.eval(n.X, st)
		if x.K == NilV {
			return x
		}
		// full slice of a freshly allocated array: known length
		if n.Low == nil && n.High == nil {
			if a, ok := n.X.(*ssa.Alloc); ok {
				if arr, ok := a.Type().(*types.Pointer).Elem().Underlying().(*types.Array); ok {
					return AV{LenV, constant.MakeInt64(arr.Len())}
				}
			}
			if x.K == LenV {
				return x
			}
		}
		return AV{}
	case *ssa.Field:
		// field of a struct value: try memory via access path
		key := in.PathKey(n, st)
		if in.PinPath != nil {
			if av, ok := in.PinPath(key); ok {
				return av
			}
		}
		if m, ok := st.mem[key]; ok {
			return m
		}
		return AV{}
	case *ssa.Parameter, *ssa.FreeVar:
		return AV{}
	}
	return AV{}
}
