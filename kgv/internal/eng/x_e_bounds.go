package eng

import (
	"go/token"
	"go/types"

	"golang.org/x/tools/go/ssa"
)

// ---------------------------------------------------------------------------------------
// Context-sensitive call results for the symbolic bounds engine (bounds.go).
//
// Bounder.summary bounds a helper's result from the helper's body alone and then substitutes
// the arguments. That loses everything the caller knows about the arguments: a float64
// parameter is not known to be integral although the argument is float64(int32), so
// math.Ceil inside the helper drops every upper bound; a parameter has no bounds of its own;
// helpers with more than one return are not summarised at all. A clamp sequence moved
// verbatim into a pure helper therefore loses its bounds.
//
// NewBounderIn(fn) returns a Bounder in which the result of every call made by fn to
//
//   - a loop-free repository function with one numeric result (any number of returns), or
//   - math.Ceil / Floor / Round / Max / Min
//
// is bounded by analysing the callee with its parameters *bound to the facts of the actual
// arguments* (recursively, two levels like summary) and — at returns, at the rounding calls
// and at the call sites — with the facts refined by the branch conditions under which the
// instruction executes (`if x < 1 { return 1 }; return math.Ceil(x)` returns a value ≥ 1).
// The results are pre-seeded into the memo table, so Facts() finds them before it would fall
// back to summary(); bounds.go is unchanged.

// NewBounderIn creates a bounder for the values of fn that sees through the calls fn makes.
func NewBounderIn(fn *ssa.Function) *Bounder {
	b := NewBounder()
	b.bindCalls(fn)
	return b
}

// bindCalls seeds the memo with context-sensitive facts for the call results of fn, in
// dominance order (the facts of arguments are complete before the call that uses them).
func (b *Bounder) bindCalls(fn *ssa.Function) {
	if fn == nil || fn.Blocks == nil {
		return
	}
	for _, blk := range fn.DomPreorder() {
		for _, ins := range blk.Instrs {
			c, ok := ins.(*ssa.Call)
			if !ok {
				continue
			}
			f, ok := b.callFacts(c)
			if !ok {
				continue
			}
			self := Val(c)
			f.L = addTerm(f.L, self)
			f.U = addTerm(f.U, self)
			b.memo[c] = &f
		}
	}
}

func isNumericType(v ssa.Value) bool {
	return isIntegerType(v.Type()) || isFloatType(v)
}

func isFloatType(v ssa.Value) bool {
	b, ok := v.Type().Underlying().(*types.Basic)
	return ok && b.Info()&types.IsFloat != 0
}

func copyFacts(f BoundFacts) BoundFacts {
	return BoundFacts{L: append([]*Term{}, f.L...), U: append([]*Term{}, f.U...), Int: f.Int}
}

// FactsAt returns the bounds of v at instruction `at`: Facts(v) refined by the branch
// conditions that dominate `at` (v itself, or an expression with the same term, compared with
// something; and for v = a − b the order of a and b).
func (b *Bounder) FactsAt(v ssa.Value, at ssa.Instruction) BoundFacts {
	out := copyFacts(b.Facts(v))
	if at == nil || at.Block() == nil {
		return out
	}
	key := b.TermOf(v).Key()
	same := func(x ssa.Value) bool { return x == v || b.TermOf(x).Key() == key }
	var sub *ssa.BinOp
	if bo, ok := v.(*ssa.BinOp); ok && bo.Op == token.SUB {
		sub = bo
	}
	for _, g := range GuardsOf(at) {
		r := g.Rel()
		for _, side := range [2]struct {
			x, y ssa.Value
			op   token.Token
		}{{r.X, r.Y, r.Op}, {r.Y, r.X, FlipOp(r.Op)}} {
			if same(side.x) && !same(side.y) {
				lower := side.op == token.GTR || side.op == token.GEQ || side.op == token.EQL
				upper := side.op == token.LSS || side.op == token.LEQ || side.op == token.EQL
				fy := b.Facts(side.y)
				if lower {
					out.L = addTerm(out.L, b.TermOf(side.y))
					for _, l := range capTerms(fy.L) {
						out.L = addTerm(out.L, l)
					}
				}
				if upper {
					out.U = addTerm(out.U, b.TermOf(side.y))
					for _, u := range capTerms(fy.U) {
						out.U = addTerm(out.U, u)
					}
				}
			}
			// (v − a) op y  ⇒  v op a + y
			if d, ok := side.x.(*ssa.BinOp); ok && d.Op == token.SUB && same(d.X) && !same(side.y) {
				t := Bin(TAdd, b.TermOf(d.Y), b.TermOf(side.y))
				switch side.op {
				case token.GTR, token.GEQ, token.EQL:
					out.L = addTerm(out.L, t)
				}
				switch side.op {
				case token.LSS, token.LEQ, token.EQL:
					out.U = addTerm(out.U, t)
				}
			}
			if sub != nil {
				kx, ky := b.TermOf(side.x).Key(), b.TermOf(side.y).Key()
				if kx == b.TermOf(sub.X).Key() && ky == b.TermOf(sub.Y).Key() {
					// a op b  for v = a − b
					switch side.op {
					case token.GTR, token.GEQ:
						out.L = addTerm(out.L, Num(0))
					case token.LSS, token.LEQ:
						out.U = addTerm(out.U, Num(0))
					}
				}
			}
		}
	}
	return out
}

// callFacts bounds the result of c with the facts of the arguments at the call site.
func (b *Bounder) callFacts(c *ssa.Call) (BoundFacts, bool) {
	if c.Call.IsInvoke() || !isNumericType(c) {
		return BoundFacts{}, false
	}
	switch {
	case IsCall(c, "math.Ceil", "math.Round", "math.Floor") && len(c.Call.Args) == 1:
		f := b.FactsAt(c.Call.Args[0], c)
		out := BoundFacts{Int: true}
		for _, l := range f.L {
			if IsCall(c, "math.Ceil") || b.isIntTerm(l) {
				out.L = addTerm(out.L, l)
			}
		}
		for _, u := range f.U {
			if IsCall(c, "math.Floor") || b.isIntTerm(u) {
				out.U = addTerm(out.U, u)
			}
		}
		return out, true
	case IsCall(c, "math.Max") && len(c.Call.Args) == 2:
		fx, fy := b.FactsAt(c.Call.Args[0], c), b.FactsAt(c.Call.Args[1], c)
		return maxFacts(fx, fy, b.TermOf(c.Call.Args[0]), b.TermOf(c.Call.Args[1])), true
	case IsCall(c, "math.Min") && len(c.Call.Args) == 2:
		fx, fy := b.FactsAt(c.Call.Args[0], c), b.FactsAt(c.Call.Args[1], c)
		out := b.minFacts(fx, fy, b.TermOf(c.Call.Args[1]))
		for _, l := range fy.L { // symmetric: a lower bound of y below x survives as well
			for _, xl := range fx.L {
				if leq(l, xl) {
					out.L = addTerm(out.L, l)
				}
			}
		}
		return out, true
	}
	return b.inline(c)
}

// maxFacts: max(x, y) ≥ every lower bound of either, ≤ max(ux, uy).
func maxFacts(fx, fy BoundFacts, tx, ty *Term) BoundFacts {
	out := BoundFacts{Int: fx.Int && fy.Int}
	out.L = append(out.L, fx.L...)
	for _, l := range fy.L {
		out.L = addTerm(out.L, l)
	}
	out.L = addTerm(out.L, ty)
	for _, u := range fx.U {
		out.U = addTerm(out.U, mkMax(u, ty))
	}
	for _, u := range fy.U {
		out.U = addTerm(out.U, mkMax(u, tx))
	}
	return out
}

// joinFacts bounds a value that is one of two values (two returns of a helper).
func joinFacts(a, b BoundFacts) BoundFacts {
	out := BoundFacts{Int: a.Int && b.Int}
	a, b = BoundFacts{L: noConstLeaves(a.L), U: noConstLeaves(a.U)}, BoundFacts{L: noConstLeaves(b.L), U: noConstLeaves(b.U)}
	for _, x := range a.L {
		for _, y := range b.L {
			switch {
			case leq(x, y):
				out.L = addTerm(out.L, x)
			case leq(y, x):
				out.L = addTerm(out.L, y)
			}
		}
	}
	for _, x := range a.U {
		for _, y := range b.U {
			switch {
			case leq(y, x):
				out.U = addTerm(out.U, x)
			case leq(x, y):
				out.U = addTerm(out.U, y)
			}
		}
	}
	n := 0
	for _, x := range a.U {
		for _, y := range b.U {
			if n++; n > 48 {
				break
			}
			out.U = addTerm(out.U, mkMax(x, y))
		}
	}
	n = 0
	for _, x := range a.L {
		for _, y := range b.L {
			if n++; n > 48 {
				break
			}
			if !leq(x, y) && !leq(y, x) {
				out.L = addTerm(out.L, Bin(TMin, x, y))
			}
		}
	}
	return out
}

// noConstLeaves drops the leaf terms that are SSA constants (Facts adds them next to the
// numeric term of the same constant).
func noConstLeaves(ts []*Term) []*Term {
	var out []*Term
	for _, t := range ts {
		if _, isC := t.V.(*ssa.Const); t.K == TVal && isC {
			continue
		}
		out = append(out, t)
	}
	return out
}

// valueFn returns the function a value belongs to (nil for constants, globals, functions).
func valueFn(v ssa.Value) *ssa.Function {
	switch x := v.(type) {
	case *ssa.Parameter:
		return x.Parent()
	case *ssa.FreeVar:
		return x.Parent()
	case ssa.Instruction:
		return x.Parent()
	}
	return nil
}

func termLeaves(t *Term, f func(ssa.Value)) {
	if t == nil {
		return
	}
	switch t.K {
	case TVal:
		f(t.V)
	case TConst:
	default:
		termLeaves(t.A, f)
		termLeaves(t.B, f)
	}
}

// inline bounds the result of a call of a loop-free repository function by analysing the
// callee with its parameters bound to the (refined) facts of the actual arguments.
func (b *Bounder) inline(c *ssa.Call) (BoundFacts, bool) {
	callee := c.Call.StaticCallee()
	if !Analysable(callee) || HasLoop(callee) || b.depth >= 2 || callee == c.Parent() {
		return BoundFacts{}, false
	}
	var rets []*ssa.Return
	bad := false
	Instrs(callee, func(ins ssa.Instruction) {
		if r, ok := ins.(*ssa.Return); ok && r.Block() != callee.Recover {
			if len(r.Results) != 1 {
				bad = true
			}
			rets = append(rets, r)
		}
	})
	if bad || len(rets) == 0 || len(rets) > 6 {
		return BoundFacts{}, false
	}
	inner := &Bounder{memo: map[ssa.Value]*BoundFacts{}, depth: b.depth + 1}
	argOf := map[ssa.Value]ssa.Value{}
	for i, p := range callee.Params {
		if i >= len(c.Call.Args) {
			continue
		}
		a := c.Call.Args[i]
		argOf[p] = a
		if !isNumericType(p) {
			continue
		}
		fa := b.FactsAt(a, c)
		pf := copyFacts(fa)
		pf.L = addTerm(pf.L, Val(p))
		pf.U = addTerm(pf.U, Val(p))
		inner.memo[p] = &pf
		// what the caller knows about the leaves of the argument's bounds (integrality) stays known
		for _, ts := range [][]*Term{fa.L, fa.U} {
			for _, t := range ts {
				termLeaves(t, func(v ssa.Value) {
					if _, ok := inner.memo[v]; !ok && valueFn(v) != callee {
						lf := b.Facts(v)
						inner.memo[v] = &lf
					}
				})
			}
		}
	}
	inner.bindCalls(callee)
	var res *BoundFacts
	for _, r := range rets {
		fr := inner.FactsAt(ReturnResults(r)[0], r)
		if res == nil {
			res = &fr
			continue
		}
		j := joinFacts(*res, fr)
		res = &j
	}
	var subst func(t *Term) *Term
	subst = func(t *Term) *Term {
		switch t.K {
		case TConst:
			return t
		case TVal:
			if a, ok := argOf[t.V]; ok {
				return b.TermOf(a)
			}
			if valueFn(t.V) == callee {
				return nil // a value of the callee means nothing to the caller
			}
			return t
		}
		x, y := subst(t.A), subst(t.B)
		if x == nil || y == nil {
			return nil
		}
		return Bin(t.K, x, y)
	}
	out := BoundFacts{Int: res.Int}
	for _, l := range res.L {
		if t := subst(l); t != nil {
			out.L = addTerm(out.L, t)
		}
	}
	for _, u := range res.U {
		if t := subst(u); t != nil {
			out.U = addTerm(out.U, t)
		}
	}
	return out, true
}
