package eng

import (
	"golang.org/x/tools/go/ssa"
)

// ---------------------------------------------------------------------------------------
// Call contexts of extracted helpers (added for C10/C12/C15).
//
// GuardedBy*/AlwaysBefore lift single yes/no queries through helpers. Rules that relate
// several values (the key that was looked up and the key that is deleted; the list that was
// checked and the element that is inserted) need the context itself: the chain of sites under
// whose control a helper runs, the facts known at every level of that chain, and the binding of
// the helper's parameters to the values of its callers. An UpChain is one such context; a
// rule that holds in every UpChain of a construct holds for every execution of the construct,
// because the set of sites of every function on the chain is complete (see GuardSites).

// UpSite is one site under whose control Fn runs.
type UpSite struct {
	// Fn is the function that runs: a liftable helper, an immediately invoked closure, or a
	// closure / bound method handed to Call as a callback.
	Fn *ssa.Function
	// Call is the direct call of Fn (Direct) or the call Fn is handed to as an argument.
	Call ssa.CallInstruction
	// Direct: the parameters of Fn are bound to the arguments of Call.
	Direct bool
	// cbArg is the argument of Call that denotes Fn (callback sites only).
	cbArg ssa.Value
}

// UpSites classifies the guard sites of fn (nil when the set of sites is not completely known).
func (w *World) UpSites(fn *ssa.Function) []UpSite {
	if w == nil || fn == nil {
		return nil
	}
	var out []UpSite
	for _, s := range w.GuardSites(fn) {
		cc := s.Common()
		direct := false
		if f := cc.StaticCallee(); f != nil && (f == fn || f.Origin() == fn) {
			direct = true
		} else if mc, ok := cc.Value.(*ssa.MakeClosure); ok && mc.Fn == ssa.Value(fn) {
			direct = true
		}
		if direct {
			out = append(out, UpSite{Fn: fn, Call: s, Direct: true})
			continue
		}
		var cb ssa.Value
		for _, a := range cc.Args {
			if w.FuncOfValue(a) == fn {
				cb = a
			}
		}
		out = append(out, UpSite{Fn: fn, Call: s, cbArg: cb})
	}
	return out
}

// Bind returns the caller's value bound to parameter p of s.Fn at this site: the matching
// argument of a direct call; for a bound method value handed over as a callback, the bound
// receiver. nil when the value is supplied by somebody else (the iterator calling back).
func (s UpSite) Bind(p *ssa.Parameter) ssa.Value {
	if p == nil || p.Parent() != s.Fn {
		return nil
	}
	idx := -1
	for i, q := range s.Fn.Params {
		if q == p {
			idx = i
		}
	}
	if idx < 0 {
		return nil
	}
	if s.Direct {
		if args := s.Call.Common().Args; idx < len(args) {
			return args[idx]
		}
		return nil
	}
	if idx == 0 && s.Fn.Signature.Recv() != nil {
		if mc, ok := s.cbArg.(*ssa.MakeClosure); ok && len(mc.Bindings) == 1 {
			if bf, _ := mc.Fn.(*ssa.Function); bf != nil && bf.Synthetic != "" {
				return mc.Bindings[0]
			}
		}
	}
	return nil
}

// UpChain is one calling context of a function: the sites under whose control it runs,
// innermost first (chain[0].Fn is the function itself, chain[i+1].Fn the function holding
// chain[i].Call, or one of its enclosing functions' helpers).
type UpChain []UpSite

// Top returns the function the chain ends in (fn itself for the empty chain).
func (ch UpChain) Top(fn *ssa.Function) *ssa.Function {
	if len(ch) == 0 {
		return fn
	}
	return ch[len(ch)-1].Call.Parent()
}

// UpChains returns every calling context of fn, following the complete site lists of
// liftable helpers and callbacks upwards for at most LiftDepth levels. A function whose
// callers are not completely known ends the chain; stop (optional) ends it earlier, at the
// first function satisfying it. The result always holds at least the empty chain.
func (w *World) UpChains(fn *ssa.Function, stop func(*ssa.Function) bool) []UpChain {
	var rec func(f *ssa.Function, depth int, busy map[*ssa.Function]bool) []UpChain
	rec = func(f *ssa.Function, depth int, busy map[*ssa.Function]bool) []UpChain {
		if depth <= 0 || busy[f] || (stop != nil && stop(f)) {
			return []UpChain{nil}
		}
		sites := w.UpSites(f)
		if len(sites) == 0 {
			return []UpChain{nil}
		}
		busy[f] = true
		defer delete(busy, f)
		var out []UpChain
		for _, s := range sites {
			for _, rest := range rec(s.Call.Parent(), depth-1, busy) {
				out = append(out, append(UpChain{s}, rest...))
			}
		}
		return out
	}
	if w == nil || fn == nil {
		return []UpChain{nil}
	}
	return rec(fn, LiftDepth, map[*ssa.Function]bool{})
}

// bind maps a parameter of a function on the chain to the caller's value (nil: not bound).
func (ch UpChain) bind(p *ssa.Parameter) ssa.Value {
	for _, s := range ch {
		if s.Fn == p.Parent() {
			return s.Bind(p)
		}
	}
	return nil
}

// Resolve maps v, while it is a parameter of a function on the chain, to the value bound to
// it one level up (transitively). Other values are returned unchanged.
func (ch UpChain) Resolve(v ssa.Value) ssa.Value {
	for i := 0; i <= len(ch); i++ {
		p, ok := v.(*ssa.Parameter)
		if !ok {
			return v
		}
		b := ch.bind(p)
		if b == nil {
			return v
		}
		v = b
	}
	return v
}

// Leaves is Slicer.Leaves in the context of the chain: a leaf that is a parameter bound by
// the chain is replaced by the leaves of the value bound to it.
func (ch UpChain) Leaves(sl *Slicer, v ssa.Value, stop func(ssa.Value) bool) []ssa.Value {
	var out []ssa.Value
	seen := map[ssa.Value]bool{}
	done := map[ssa.Value]bool{}
	var rec func(v ssa.Value)
	rec = func(v ssa.Value) {
		if done[v] {
			return
		}
		done[v] = true
		for _, l := range sl.Leaves(v, stop) {
			if p, ok := l.(*ssa.Parameter); ok && (stop == nil || !stop(l)) {
				if b := ch.bind(p); b != nil {
					rec(b)
					continue
				}
			}
			if !seen[l] {
				seen[l] = true
				out = append(out, l)
			}
		}
	}
	rec(v)
	return out
}

// DerivesFrom is Slicer.DerivesFrom in the context of the chain.
func (ch UpChain) DerivesFrom(sl *Slicer, v ssa.Value, pred func(ssa.Value) bool) bool {
	done := map[ssa.Value]bool{}
	var rec func(v ssa.Value) bool
	rec = func(v ssa.Value) bool {
		if done[v] {
			return false
		}
		done[v] = true
		if sl.DerivesFrom(v, pred) {
			return true
		}
		for _, l := range sl.Leaves(v, nil) {
			if p, ok := l.(*ssa.Parameter); ok {
				if b := ch.bind(p); b != nil && rec(b) {
					return true
				}
			}
		}
		return false
	}
	return rec(v)
}

// FactCtx is the set of facts known when an instruction executes in one calling context:
// the facts implied by its own guards and by the guards of every site of the chain. Facts of
// different levels are stated over the SSA values of their own functions; use Chain.Resolve
// (or Chain.Leaves / DerivesFrom) to relate values of a helper to values of its callers.
type FactCtx struct {
	Chain UpChain
	Facts []Fact
}

// FactsAtUp returns, for every calling context of ins's function, the facts known at ins
// (see FactsAt for depth), including what the ok flags of lookup helpers imply
// (ExpandTupleFacts). There is always at least one context (the empty chain).
func FactsAtUp(ins ssa.Instruction, depth int) []FactCtx {
	own := FactsAt(ins, depth)
	var out []FactCtx
	for _, ch := range Current.UpChains(ins.Parent(), nil) {
		fs := append([]Fact{}, own...)
		for _, s := range ch {
			fs = append(fs, FactsAt(s.Call, depth)...)
		}
		out = append(out, FactCtx{Chain: ch, Facts: ExpandTupleFacts(fs, depth)})
	}
	if len(out) == 0 {
		out = append(out, FactCtx{Facts: ExpandTupleFacts(own, depth)})
	}
	return out
}

// CallbackSite returns the innermost site of the chain at which a function is handed over
// as a callback (nil: the chain consists of direct calls only).
func (ch UpChain) CallbackSite() *UpSite {
	for i := range ch {
		if !ch[i].Direct {
			return &ch[i]
		}
	}
	return nil
}
