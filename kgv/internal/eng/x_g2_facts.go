package eng

import (
	"go/token"
	"go/types"

	"golang.org/x/tools/go/ssa"
)

// ---------------------------------------------------------------------------------------
// Facts implied by the nil-ness of a helper's result (added for C02).
//
// ExpandTupleFacts (x_d_tuple.go) expands `ok == true` for the ok flag of a lookup helper.
// A check that is moved into a helper is just as often reported through an error result:
//
//	func (f *filter) mayImpersonate(ctx, attrs) error {
//	    decision, reason, err := f.authz.Authorize(ctx, attrs)
//	    if err != nil { return err }
//	    if decision != Allow { return errors.New(reason) }
//	    return nil
//	}
//
// `mayImpersonate(…) == nil` then implies what every return statement that can yield nil
// implies: the guards of the returning block and, when the returned value is not the nil
// constant itself, that this value is nil (`return err` hands on the inner call's error).
// Returns whose value is certainly non-nil (a freshly made error, an allocated object) are
// not feasible and are left out of the intersection.

// ExpandResultFacts returns facts together with everything ExpandTupleFacts adds and the
// facts implied by those of them stating that a result of a repository helper is nil
// (depth nested helpers).
func ExpandResultFacts(facts []Fact, depth int) []Fact {
	st := &factState{memo: map[factKey][]Fact{}, busy: map[factKey]bool{}, bmemo: map[blockKey][]Fact{}}
	out := ExpandTupleFacts(facts, depth)
	type nk struct {
		v   ssa.Value
		env *CallEnv
	}
	seen := map[nk]bool{}
	work := out
	for d := depth; d > 0 && len(work) > 0; d-- {
		var next []Fact
		for _, f := range work {
			if f.Rel.Op != token.EQL {
				continue
			}
			for _, side := range [][2]ssa.Value{{f.Rel.X, f.Rel.Y}, {f.Rel.Y, f.Rel.X}} {
				if !IsNilConst(side[1]) {
					continue
				}
				call, idx := CallResultOf(side[0])
				if call == nil {
					continue
				}
				k := nk{side[0], f.Env}
				if seen[k] {
					continue
				}
				seen[k] = true
				next = append(next, st.nilImplied(call, idx, f.Env, d)...)
			}
		}
		next = ExpandTupleFacts(next, d)
		out = append(out, next...)
		work = next
	}
	return out
}

// nilImplied: the facts common to every return of call's callee that can yield nil in result
// position idx (-1: the single result).
func (st *factState) nilImplied(call *ssa.Call, idx int, env *CallEnv, depth int) []Fact {
	callee := call.Call.StaticCallee()
	if callee == nil || callee.Blocks == nil || depth <= 0 || callee.Pkg == nil {
		return nil
	}
	if !IsRepoPkg(callee.Pkg.Pkg.Path()) && callee.Pkg != call.Parent().Pkg {
		return nil
	}
	res := callee.Signature.Results()
	if idx < 0 {
		if res.Len() != 1 {
			return nil
		}
		idx = 0
	}
	if idx >= res.Len() || !nillable(res.At(idx).Type()) {
		return nil
	}
	for e := env; e != nil; e = e.Parent {
		if e.Callee == callee {
			return nil
		}
	}
	nenv := &CallEnv{Call: call, Callee: callee, Parent: env}
	var sets [][]Fact
	for _, b := range callee.Blocks {
		if b == callee.Recover || len(b.Instrs) == 0 {
			continue
		}
		r, ok := b.Instrs[len(b.Instrs)-1].(*ssa.Return)
		if !ok || len(r.Results) != res.Len() || !Reachable(callee, b) {
			continue
		}
		v := ReturnResults(r)[idx]
		if CertainlyNonNil(v) {
			continue
		}
		var fs []Fact
		if !IsNilConst(v) {
			fs = append(fs, Fact{Rel{token.EQL, v, ssa.NewConst(nil, v.Type())}, nenv})
		}
		fs = append(fs, st.blockFacts(b, nenv, depth-1)...)
		sets = append(sets, fs)
	}
	return intersectFacts(sets)
}

func nillable(t types.Type) bool {
	switch t.Underlying().(type) {
	case *types.Pointer, *types.Interface, *types.Slice, *types.Map, *types.Chan, *types.Signature:
		return true
	}
	return false
}

// CertainlyNonNil reports whether v cannot be nil: a value boxed into an interface, the
// address of an object, a function, a freshly made container, or an error made by one of the
// standard constructors.
func CertainlyNonNil(v ssa.Value) bool {
	switch n := v.(type) {
	case *ssa.MakeInterface, *ssa.Alloc, *ssa.FieldAddr, *ssa.IndexAddr, *ssa.MakeClosure, *ssa.Function, *ssa.MakeMap, *ssa.MakeSlice, *ssa.MakeChan:
		return true
	case *ssa.Call:
		return IsCall(n, "errors.New", "fmt.Errorf", "github.com/pkg/errors.New", "github.com/pkg/errors.Errorf")
	case *ssa.ChangeInterface:
		return CertainlyNonNil(n.X)
	case *ssa.ChangeType:
		return CertainlyNonNil(n.X)
	case *ssa.UnOp:
		// a sentinel: a package variable that is only ever assigned, by the package
		// initialiser, a value that cannot be nil (`var errDenied = errors.New("…")`)
		if g, ok := n.X.(*ssa.Global); ok && n.Op == token.MUL {
			return sentinelGlobal(g)
		}
	}
	return false
}

var sentinelMemo = map[*ssa.Global]bool{}

func sentinelGlobal(g *ssa.Global) bool {
	if r, ok := sentinelMemo[g]; ok {
		return r
	}
	sentinelMemo[g] = false
	if Current == nil || g.Pkg == nil {
		return false
	}
	n, ok := 0, true
	for _, fn := range Current.AllRepoFuncs() {
		Instrs(fn, func(ins ssa.Instruction) {
			for _, op := range ins.Operands(nil) {
				if *op != ssa.Value(g) {
					continue
				}
				switch u := ins.(type) {
				case *ssa.Store:
					if u.Addr == ssa.Value(g) && fn.Synthetic != "" && fn.Name() == "init" && CertainlyNonNil(u.Val) {
						n++
					} else {
						ok = false
					}
				case *ssa.UnOp, *ssa.DebugRef:
				default:
					ok = false // address taken
				}
			}
		})
	}
	// the initialiser of the variable's own package may not be among the repository functions listed
	if n == 0 {
		if init := g.Pkg.Func("init"); init != nil {
			Instrs(init, func(ins ssa.Instruction) {
				if st, isSt := ins.(*ssa.Store); isSt && st.Addr == ssa.Value(g) {
					if CertainlyNonNil(st.Val) {
						n++
					} else {
						ok = false
					}
				}
			})
		}
	}
	sentinelMemo[g] = ok && n == 1
	return sentinelMemo[g]
}

// EdgeFactsDeep returns the facts implied by control passing from block `from` to its
// successor number succIdx (the branch taken, not the guards of `from`), with named
// conditions, predicate helpers, ok flags and error results of helpers expanded.
func EdgeFactsDeep(from *ssa.BasicBlock, succIdx int) []Fact {
	if from == nil || succIdx < 0 || succIdx >= len(from.Succs) || len(from.Instrs) == 0 {
		return nil
	}
	iff, ok := from.Instrs[len(from.Instrs)-1].(*ssa.If)
	if !ok || len(from.Succs) != 2 || from.Succs[0] == from.Succs[1] {
		return nil
	}
	return ExpandResultFacts(ImpliedFacts(iff.Cond, succIdx == 0, LiftDepth), LiftDepth)
}

// ReturnAssumptions returns the truth values a caller may assume after call site (a direct
// call of ret's function) when the callee left through ret: boolean results that are
// constants in ret fix the matching Extract (or the call value itself), results that are the
// nil constant or certainly non-nil fix the comparisons of the matching Extract with nil.
// They feed FactQuery.Assume for "what can the caller still do after the helper gave up".
func ReturnAssumptions(site *ssa.Call, ret *ssa.Return) BoolFacts {
	facts := BoolFacts{}
	if site == nil || ret == nil {
		return facts
	}
	vals := ReturnResults(ret)
	resultVal := func(i int) []ssa.Value {
		if len(vals) == 1 {
			return []ssa.Value{site}
		}
		var out []ssa.Value
		for _, e := range ExtractOf(site, i) {
			out = append(out, e)
		}
		return out
	}
	// what the guards of the returning block say about the returned values
	rels := RelsAt(ret)
	guardNil := func(v ssa.Value) (isNil, known bool) {
		for _, r := range rels {
			if (r.X == v && IsNilConst(r.Y)) || (r.Y == v && IsNilConst(r.X)) {
				switch r.Op {
				case token.EQL:
					return true, true
				case token.NEQ:
					return false, true
				}
			}
		}
		return false, false
	}
	guardBool := func(v ssa.Value) (val, known bool) {
		for _, r := range rels {
			if r.X == v && (r.Op == token.EQL || r.Op == token.NEQ) {
				if IsBoolConst(r.Y, true) {
					return r.Op == token.EQL, true
				}
				if IsBoolConst(r.Y, false) {
					return r.Op == token.NEQ, true
				}
			}
		}
		return false, false
	}
	for i, v := range vals {
		for _, rv := range resultVal(i) {
			switch {
			case IsBoolConst(v, true):
				facts[rv] = true
			case IsBoolConst(v, false):
				facts[rv] = false
			case IsNilConst(v):
				for k, b := range NilFacts(site.Parent(), rv, true) {
					facts[k] = b
				}
			case CertainlyNonNil(v):
				for k, b := range NilFacts(site.Parent(), rv, false) {
					facts[k] = b
				}
			default:
				if isBoolType(v.Type()) {
					if b, ok := guardBool(v); ok {
						facts[rv] = b
					}
				} else if nillable(v.Type()) {
					if isNil, ok := guardNil(v); ok {
						for k, b := range NilFacts(site.Parent(), rv, isNil) {
							facts[k] = b
						}
					}
				}
			}
		}
	}
	return facts
}
