package eng

import (
	"go/token"

	"golang.org/x/tools/go/ssa"
)

// ---------------------------------------------------------------------------------------
// Call environments for rules that relate values across helper boundaries (added for
// C07/C08/C13/C18, second refactoring corpus).
//
// LiftMust/LiftPred lift a context-free predicate: "the helper executes P on every path". A
// rule such as "delete(limitStoreMap, shard) on every path" also has to know that the key the
// helper deletes IS the caller's shard; with a context-free predicate the rule can only ask
// whether all call sites of the helper agree (ResolveUp), which fails as soon as the helper is
// shared. The functions below evaluate a predicate in the environment of the call through
// which a helper was entered (CallEnv of x_c10.go), descending from an anchor function:
//
//	MustIn      a call of a repository function that executes pred — stated over the callee's
//	            values and the environment of the call — on every path counts as pred;
//	MayIn       … in which pred is reachable …;
//	WalkDefs    the definitions a value may stand for, looking through joins, single-store
//	            cells, parameters bound by the environment and the results handed out by
//	            helpers (one environment per call), with the returns / join edges passed on
//	            the way (their guards are path conditions of the definition);
//	ResolveEnv  value identity through an environment chain.

// EnvValue is a value together with the environment its function was entered through (nil: the
// anchor function the query started in).
type EnvValue struct {
	V   ssa.Value
	Env *CallEnv
}

// calleeOfCall returns the function a plain call runs when that is statically known: a static
// callee or a function literal called in place.
func calleeOfCall(c *ssa.Call) *ssa.Function {
	if c == nil {
		return nil
	}
	if f := c.Call.StaticCallee(); f != nil {
		return f
	}
	if mc, ok := c.Call.Value.(*ssa.MakeClosure); ok {
		f, _ := mc.Fn.(*ssa.Function)
		return f
	}
	return nil
}

func envHas(env *CallEnv, f *ssa.Function) bool {
	for e := env; e != nil; e = e.Parent {
		if e.Callee == f {
			return true
		}
	}
	return false
}

func envDepth(env *CallEnv) int {
	n := 0
	for e := env; e != nil; e = e.Parent {
		n++
	}
	return n
}

// MustIn lifts a context-aware must-pass predicate over helper calls: the result holds for an
// instruction of the anchor function when pred(ins, nil) holds, or when ins is a plain call of
// a repository function every entry→exit path of which executes an instruction satisfying pred
// in the environment of that call (recursively, depth ≤ LiftDepth). Use it as the Avoid
// predicate of an "every path passes P" query, or as the pred of AlwaysBefore/AlwaysAfter.
func MustIn(pred func(ins ssa.Instruction, env *CallEnv) bool) func(ssa.Instruction) bool {
	return mustIn(pred, nil)
}

// MustInFrom is MustIn for the instructions of a function that was itself entered through env.
func MustInFrom(env *CallEnv, pred func(ins ssa.Instruction, env *CallEnv) bool) func(ssa.Instruction) bool {
	return mustIn(pred, env)
}

func mustIn(pred func(ssa.Instruction, *CallEnv) bool, env *CallEnv) func(ssa.Instruction) bool {
	memo := map[*ssa.Call]int{}
	return func(i ssa.Instruction) bool {
		if pred(i, env) {
			return true
		}
		c, ok := i.(*ssa.Call) // not go/defer: those do not run here
		if !ok || envDepth(env) >= LiftDepth {
			return false
		}
		if r, ok := memo[c]; ok {
			return r == 1
		}
		memo[c] = 0
		f := calleeOfCall(c)
		if f == nil || !Analysable(f) || envHas(env, f) {
			return false
		}
		px := mustIn(pred, &CallEnv{Call: c, Callee: f, Parent: env})
		if ReachFromEntry(f, PathQuery{Target: IsExit, Avoid: px}) == nil {
			memo[c] = 1
			return true
		}
		return false
	}
}

// MayIn lifts a context-aware may-reach predicate over helper calls: pred(ins, nil) holds, or
// ins is a plain call / go / defer of a repository function in which an instruction satisfying
// pred in the environment of that call is reachable (recursively, depth ≤ LiftDepth).
func MayIn(pred func(ins ssa.Instruction, env *CallEnv) bool) func(ssa.Instruction) bool {
	return mayIn(pred, nil)
}

func mayIn(pred func(ssa.Instruction, *CallEnv) bool, env *CallEnv) func(ssa.Instruction) bool {
	memo := map[ssa.Instruction]int{}
	return func(i ssa.Instruction) bool {
		if pred(i, env) {
			return true
		}
		ci, ok := i.(ssa.CallInstruction)
		if !ok || envDepth(env) >= LiftDepth {
			return false
		}
		if r, ok := memo[i]; ok {
			return r == 1
		}
		memo[i] = 0
		var f *ssa.Function
		if c, isCall := i.(*ssa.Call); isCall {
			f = calleeOfCall(c)
		} else {
			f = ci.Common().StaticCallee()
		}
		c, _ := i.(*ssa.Call)
		if f == nil || !Analysable(f) || envHas(env, f) {
			return false
		}
		var nenv *CallEnv
		if c != nil {
			nenv = &CallEnv{Call: c, Callee: f, Parent: env}
		} else {
			// go / defer: parameters are not resolved (CallEnv binds *ssa.Call only)
			nenv = env
		}
		px := mayIn(pred, nenv)
		if ReachFromEntry(f, PathQuery{Target: px}) != nil {
			memo[i] = 1
			return true
		}
		return false
	}
}

// freeVarBinding resolves a captured variable to the value bound to it by the single
// MakeClosure of the enclosing function that creates the literal (nil: none or several).
func g6FreeVarBinding(fv *ssa.FreeVar) ssa.Value {
	fn := fv.Parent()
	p := fn.Parent()
	if p == nil {
		return nil
	}
	idx := -1
	for i, x := range fn.FreeVars {
		if x == fv {
			idx = i
		}
	}
	var out ssa.Value
	n := 0
	Instrs(p, func(ins ssa.Instruction) {
		if mc, ok := ins.(*ssa.MakeClosure); ok && mc.Fn == ssa.Value(fn) && idx >= 0 && idx < len(mc.Bindings) {
			out = mc.Bindings[idx]
			n++
		}
	})
	if n != 1 {
		return nil
	}
	return out
}

// singleStoreDeep returns the only value ever stored into the whole cell a — by its function or
// by a function literal capturing it (a result handed out of a literal called in place through
// a captured variable) — provided the cell's address does not escape otherwise and no part of
// it is written; nil when there is no such unique store.
func singleStoreDeep(a *ssa.Alloc) ssa.Value {
	var val ssa.Value
	n := 0
	var readOnly func(addr ssa.Value, depth int) bool
	readOnly = func(addr ssa.Value, depth int) bool {
		if addr.Referrers() == nil {
			return true
		}
		if depth > 6 {
			return false
		}
		for _, r := range *addr.Referrers() {
			switch u := r.(type) {
			case *ssa.DebugRef:
			case *ssa.UnOp:
				if u.Op != token.MUL {
					return false
				}
			case *ssa.FieldAddr:
				if !readOnly(u, depth+1) {
					return false
				}
			case *ssa.IndexAddr:
				if !readOnly(u, depth+1) {
					return false
				}
			default:
				return false
			}
		}
		return true
	}
	var scan func(addr ssa.Value, depth int) bool
	scan = func(addr ssa.Value, depth int) bool {
		if addr.Referrers() == nil {
			return true
		}
		if depth > 4 {
			return false
		}
		for _, r := range *addr.Referrers() {
			switch u := r.(type) {
			case *ssa.DebugRef:
			case *ssa.UnOp:
				if u.Op != token.MUL {
					return false
				}
			case *ssa.Store:
				if u.Addr != addr {
					return false
				}
				n++
				val = u.Val
			case *ssa.FieldAddr:
				if !readOnly(u, 0) {
					return false
				}
			case *ssa.IndexAddr:
				if !readOnly(u, 0) {
					return false
				}
			case *ssa.MakeClosure:
				fn, ok := u.Fn.(*ssa.Function)
				if !ok {
					return false
				}
				for i, b := range u.Bindings {
					if b == addr && i < len(fn.FreeVars) {
						if !scan(fn.FreeVars[i], depth+1) {
							return false
						}
					}
				}
			default:
				return false
			}
		}
		return true
	}
	if !scan(a, 0) || n != 1 {
		return nil
	}
	return val
}

// ResolveEnv rewrites v towards its definition without leaving the value it denotes:
// conversions between interface / named types are stripped, a load of a cell that is written
// once (a spilled parameter, a local captured by function literals that only read it) becomes
// the stored value, a captured variable becomes the enclosing function's cell, and a parameter
// of the function an environment was entered through becomes the actual argument in the
// parent environment.
func ResolveEnv(v ssa.Value, env *CallEnv) EnvValue {
	for i := 0; i < 64 && v != nil; i++ {
		switch x := v.(type) {
		case *ssa.MakeInterface:
			v = x.X
			continue
		case *ssa.ChangeInterface:
			v = x.X
			continue
		case *ssa.ChangeType:
			v = x.X
			continue
		case *ssa.Parameter:
			if env != nil {
				if w, e := env.Resolve(x); w != ssa.Value(x) {
					v, env = w, e
					continue
				}
			}
		case *ssa.UnOp:
			if x.Op != token.MUL {
				break
			}
			cell := x.X
			for k := 0; k < 8; k++ {
				fv, isFV := cell.(*ssa.FreeVar)
				if !isFV {
					break
				}
				if cell = g6FreeVarBinding(fv); cell == nil {
					break
				}
			}
			if al, ok := cell.(*ssa.Alloc); ok {
				if sv := singleStoreDeep(al); sv != nil {
					v = sv
					continue
				}
			}
		case *ssa.FreeVar:
			// a captured value (not a cell): bound by the creating MakeClosure
			if b := g6FreeVarBinding(x); b != nil {
				v = b
				continue
			}
		}
		break
	}
	return EnvValue{v, env}
}

// Via is one step on the way from a use to a definition found by WalkDefs: the return
// statement of a helper that hands the value out, or the last instruction of the predecessor
// block of a join. The guards of these instructions are path conditions of the definition.
type Via struct {
	At  ssa.Instruction
	Env *CallEnv
}

// WalkDefs enumerates the definitions v may stand for. It looks through ResolveEnv steps, phis
// (one definition per edge), comma-ok extractions, type assertions and — up to LiftDepth nested
// calls — the results handed out by repository functions with bodies: each return statement of
// the callee contributes its result, stated in the environment of the call. visit is called for
// every node reached (including intermediate ones such as the phi or the call itself);
// returning false stops the descent below that node.
func WalkDefs(v ssa.Value, env *CallEnv, visit func(d EnvValue, via []Via) bool) {
	type key struct {
		v   ssa.Value
		env *CallEnv
	}
	seen := map[key]bool{}
	var rec func(v ssa.Value, env *CallEnv, via []Via)
	rec = func(v ssa.Value, env *CallEnv, via []Via) {
		r := ResolveEnv(v, env)
		v, env = r.V, r.Env
		if v == nil || seen[key{v, env}] {
			return
		}
		seen[key{v, env}] = true
		if !visit(EnvValue{v, env}, via) {
			return
		}
		follow := func(call *ssa.Call, idx int) {
			f := calleeOfCall(call)
			if f == nil || !Analysable(f) || envHas(env, f) || envDepth(env) >= LiftDepth {
				return
			}
			nenv := &CallEnv{Call: call, Callee: f, Parent: env}
			for _, b := range f.Blocks {
				if b == f.Recover || len(b.Instrs) == 0 {
					continue
				}
				ret, ok := b.Instrs[len(b.Instrs)-1].(*ssa.Return)
				if !ok {
					continue
				}
				res := ReturnResults(ret)
				k := idx
				if k < 0 {
					k = 0
				}
				if k >= len(res) {
					continue
				}
				rec(res[k], nenv, append(append([]Via{}, via...), Via{ret, nenv}))
			}
		}
		switch n := v.(type) {
		case *ssa.Phi:
			for i, e := range n.Edges {
				nv := via
				if i < len(n.Block().Preds) {
					p := n.Block().Preds[i]
					if len(p.Instrs) > 0 {
						nv = append(append([]Via{}, via...), Via{p.Instrs[len(p.Instrs)-1], env})
					}
				}
				rec(e, env, nv)
			}
		case *ssa.Extract:
			if call, ok := n.Tuple.(*ssa.Call); ok {
				follow(call, n.Index)
				return
			}
			if n.Index == 0 {
				rec(n.Tuple, env, via)
			}
		case *ssa.TypeAssert:
			rec(n.X, env, via)
		case *ssa.Call:
			follow(n, -1)
		}
	}
	rec(v, env, nil)
}
