package eng

import (
	"go/token"
	"go/types"

	"golang.org/x/tools/go/ssa"
)

// ---------------------------------------------------------------------------------------
// Lifting of intra-procedural facts through extracted helpers.
//
// Most rules are stated over one function's CFG. A behaviour-preserving refactoring that
// moves a block into a same-package helper (or turns a closure into a method) must not
// change a verdict, so the basic queries are lifted:
//
//   - a fact "ins is guarded by G" also holds when ins sits in a helper all of whose call
//     sites are guarded by G (recursively, depth ≤ 3);
//   - "every path to target passes P" also holds when target sits in such a helper and every
//     call site of the helper is preceded by P; and a call of a helper that itself always
//     executes P counts as P;
//   - a value that reaches a helper's parameter is traced on into the arguments of all call
//     sites (Slicer.Up).
//
// Only helpers whose complete set of callers is known are lifted: unexported package-level
// functions and methods that are only ever called directly (never used as a value, never
// bound), and closures created at exactly one site that is immediately called, deferred or
// started with go.

// Current is the world used by the lifted queries (set by Load).
var Current *World

// LiftDepth bounds how many helper levels are crossed.
const LiftDepth = 3

type callerIndex struct {
	sites   map[*ssa.Function][]ssa.CallInstruction
	escaped map[*ssa.Function]bool                  // used as a value / bound method / interface dispatch possible
	cb      map[*ssa.Function][]ssa.CallInstruction // closure / bound method handed directly to a call as a callback
	built   bool
}

func (w *World) callers() *callerIndex {
	if w.cidx != nil && w.cidx.built {
		return w.cidx
	}
	ci := &callerIndex{sites: map[*ssa.Function][]ssa.CallInstruction{}, escaped: map[*ssa.Function]bool{}, cb: map[*ssa.Function][]ssa.CallInstruction{}}
	for _, fn := range w.AllRepoFuncs() {
		for _, b := range fn.Blocks {
			for _, ins := range b.Instrs {
				// operands that are functions but not the callee position: escapes
				var calleeVal ssa.Value
				if c, ok := ins.(ssa.CallInstruction); ok {
					calleeVal = c.Common().Value
					if f := c.Common().StaticCallee(); f != nil {
						ci.sites[f] = append(ci.sites[f], c)
						if f.Origin() != nil {
							ci.sites[f.Origin()] = append(ci.sites[f.Origin()], c)
						}
					}
				}
				for _, op := range ins.Operands(nil) {
					if *op == nil {
						continue
					}
					switch v := (*op).(type) {
					case *ssa.Function:
						if mc, isMC := ins.(*ssa.MakeClosure); isMC && mc.Fn == ssa.Value(v) {
							break // the closure's own function: judged below by the uses of the closure value
						}
						if ssa.Value(v) != calleeVal {
							ci.escaped[v] = true
						}
					case *ssa.MakeClosure:
						// handled at the MakeClosure instruction itself
					}
				}
				if mc, ok := ins.(*ssa.MakeClosure); ok {
					if f, ok := mc.Fn.(*ssa.Function); ok {
						// a closure value: liftable only if its single use is an immediate call/go/defer
						single := mc.Referrers() != nil && len(*mc.Referrers()) == 1
						if single {
							if c, ok := (*mc.Referrers())[0].(ssa.CallInstruction); ok && c.Common().Value == ssa.Value(mc) {
								ci.sites[f] = append(ci.sites[f], c)
								continue
							}
							// handed straight to a call as an argument (iterator callback)
							if c, ok := (*mc.Referrers())[0].(ssa.CallInstruction); ok {
								target := f
								if f.Synthetic != "" {
									// bound method value x.m: the callback is the method itself
									target = nil
									for _, bb := range f.Blocks {
										for _, bi := range bb.Instrs {
											if bc, isC := bi.(ssa.CallInstruction); isC && bc.Common().StaticCallee() != nil {
												target = bc.Common().StaticCallee()
											}
										}
									}
								}
								if target != nil {
									ci.cb[target] = append(ci.cb[target], c)
									if target == f {
										ci.escaped[f] = true // not liftable as a direct call
									}
									continue
								}
							}
						}
						ci.escaped[f] = true
					}
				}
			}
		}
	}
	ci.built = true
	w.cidx = ci
	return ci
}

// LiftSites returns the complete list of call sites of fn when fn is a liftable helper,
// nil otherwise.
func (w *World) LiftSites(fn *ssa.Function) []ssa.CallInstruction {
	if w == nil || fn == nil {
		return nil
	}
	ci := w.callers()
	if ci.escaped[fn] {
		return nil
	}
	if fn.Parent() == nil {
		// package-level function or method: must be unexported and not an interface method implementation
		obj, _ := fn.Object().(*types.Func)
		if obj == nil || obj.Exported() {
			return nil
		}
		if fn.Signature.Recv() != nil && w.mayBeInvoked(fn) {
			return nil
		}
		if fn.Name() == "init" || fn.Name() == "main" {
			return nil
		}
	}
	return ci.sites[fn]
}

// GuardSites returns the instructions under whose control fn runs when that set is completely
// known: the direct call sites of a liftable helper, plus — for a closure or an unexported
// bound method handed straight to a call as a callback — the call it is handed to.
func (w *World) GuardSites(fn *ssa.Function) []ssa.CallInstruction {
	if w == nil || fn == nil {
		return nil
	}
	ci := w.callers()
	direct := w.LiftSites(fn)
	cbs := ci.cb[fn]
	if len(cbs) == 0 {
		return direct
	}
	if fn.Parent() == nil {
		obj, _ := fn.Object().(*types.Func)
		if obj == nil || obj.Exported() || (fn.Signature.Recv() != nil && w.mayBeInvoked(fn)) {
			return nil
		}
		if len(ci.sites[fn]) > 0 && len(direct) == 0 {
			return nil // also called directly but not liftable
		}
	} else if len(*closureRefs(fn)) != 1 {
		return nil
	}
	out := append([]ssa.CallInstruction{}, direct...)
	return append(out, cbs...)
}

// closureRefs returns the referrers of the MakeClosure that creates the anonymous function fn
// (an empty list when it is created at several sites).
func closureRefs(fn *ssa.Function) *[]ssa.Instruction {
	var found *[]ssa.Instruction
	n := 0
	if p := fn.Parent(); p != nil {
		for _, b := range p.Blocks {
			for _, ins := range b.Instrs {
				if mc, ok := ins.(*ssa.MakeClosure); ok && mc.Fn == ssa.Value(fn) {
					n++
					found = mc.Referrers()
				}
			}
		}
	}
	if n != 1 || found == nil {
		return &[]ssa.Instruction{}
	}
	return found
}

// mayBeInvoked reports whether a method can be reached by interface dispatch from repository
// code: some interface method of the same name is invoked somewhere on a type its receiver implements.
func (w *World) mayBeInvoked(fn *ssa.Function) bool {
	if w.invoked == nil {
		w.invoked = map[string][]*types.Interface{}
		for _, f := range w.AllRepoFuncs() {
			for _, b := range f.Blocks {
				for _, ins := range b.Instrs {
					if c, ok := ins.(ssa.CallInstruction); ok && c.Common().IsInvoke() {
						if it, ok := c.Common().Value.Type().Underlying().(*types.Interface); ok {
							w.invoked[c.Common().Method.Name()] = append(w.invoked[c.Common().Method.Name()], it)
						}
					}
				}
			}
		}
	}
	recv := fn.Signature.Recv().Type()
	for _, it := range w.invoked[fn.Name()] {
		if types.Implements(recv, it) {
			return true
		}
		if _, isPtr := recv.(*types.Pointer); !isPtr && types.Implements(types.NewPointer(recv), it) {
			return true
		}
	}
	return false
}

// liftedGuardedBy: all call sites of ins's function (a liftable helper) are guarded by pred.
func liftedGuardedBy(ins ssa.Instruction, pred func(Rel) bool, depth int) bool {
	if Current == nil || depth <= 0 || ins == nil || ins.Parent() == nil {
		return false
	}
	sites := Current.GuardSites(ins.Parent())
	if len(sites) == 0 {
		return false
	}
	for _, s := range sites {
		if guardedByIntra(s, pred) {
			continue
		}
		if !liftedGuardedBy(s, pred, depth-1) {
			return false
		}
	}
	return true
}

func guardedByIntra(ins ssa.Instruction, pred func(Rel) bool) bool {
	for _, g := range GuardsOf(ins) {
		if pred(g.Rel()) {
			return true
		}
	}
	// deep facts: conditions materialised as boolean phis (`a && b`, named flags set in
	// branches), `== true/false`, predicate helpers (x_c_facts.go / x_c10.go)
	for _, r := range RelsAt(ins) {
		if pred(r) {
			return true
		}
	}
	return false
}

// alwaysPasses reports whether every path through fn (entry → exit) executes an instruction
// satisfying pred (a helper that "always does P").
func alwaysPasses(fn *ssa.Function, pred func(ssa.Instruction) bool, depth int) bool {
	if fn == nil || fn.Blocks == nil || depth <= 0 || !Analysable(fn) {
		return false
	}
	px := liftPred(pred, depth-1)
	return ReachFromEntry(fn, PathQuery{Target: IsExit, Avoid: px}) == nil
}

// liftPred extends a must-pass predicate: a direct call of a helper that always passes pred
// counts as pred.
func liftPred(pred func(ssa.Instruction) bool, depth int) func(ssa.Instruction) bool {
	if depth <= 0 {
		return pred
	}
	memo := map[*ssa.Function]int{}
	return func(i ssa.Instruction) bool {
		if pred(i) {
			return true
		}
		c, ok := i.(*ssa.Call) // not go/defer: those do not run here
		if !ok {
			return false
		}
		f := c.Call.StaticCallee()
		if f == nil {
			if mc, ok := c.Call.Value.(*ssa.MakeClosure); ok {
				f, _ = mc.Fn.(*ssa.Function)
			}
		}
		if f == nil || !Analysable(f) {
			return false
		}
		if r, ok := memo[f]; ok {
			return r == 1
		}
		memo[f] = 0
		if alwaysPasses(f, pred, depth) {
			memo[f] = 1
			return true
		}
		return false
	}
}

// liftedAlwaysBefore: target sits in a liftable helper and every call site of the helper is
// always preceded by pred in its caller.
func liftedAlwaysBefore(target ssa.Instruction, pred func(ssa.Instruction) bool, depth int) bool {
	if Current == nil || depth <= 0 || target == nil || target.Parent() == nil {
		return false
	}
	sites := Current.GuardSites(target.Parent())
	if len(sites) == 0 {
		return false
	}
	px := liftPred(pred, LiftDepth)
	for _, s := range sites {
		caller := s.Parent()
		intra := ReachFromEntry(caller, PathQuery{
			Target: func(i ssa.Instruction) bool { return i == s.(ssa.Instruction) },
			Avoid:  func(i ssa.Instruction) bool { return i != s.(ssa.Instruction) && px(i) },
		}) == nil
		if intra {
			continue
		}
		if !liftedAlwaysBefore(s, pred, depth-1) {
			return false
		}
	}
	return true
}

// upArgs returns, for a parameter of a liftable helper, the corresponding arguments at all
// call sites (nil if the helper is not liftable).
func upArgs(p *ssa.Parameter) []ssa.Value {
	if Current == nil {
		return nil
	}
	fn := p.Parent()
	sites := Current.LiftSites(fn)
	if len(sites) == 0 {
		return nil
	}
	idx := -1
	for i, q := range fn.Params {
		if q == p {
			idx = i
		}
	}
	if idx < 0 {
		return nil
	}
	var out []ssa.Value
	for _, s := range sites {
		args := s.Common().Args
		if idx >= len(args) {
			return nil
		}
		out = append(out, args[idx])
	}
	return out
}

var _ = token.NoPos

// Region returns fn, its closures and — transitively, up to LiftDepth levels — every liftable
// helper (a function whose complete set of callers is known, see LiftSites) that is called
// from the region. It is the set of functions "the body of fn" may have been spread over by
// helper extraction or by turning a closure into a method; rules that scan one function for
// constructs (stores, calls) scan its Region instead.
func (w *World) Region(fn *ssa.Function) []*ssa.Function {
	if fn == nil {
		return nil
	}
	seen := map[*ssa.Function]bool{}
	var out []*ssa.Function
	var add func(f *ssa.Function, depth int)
	add = func(f *ssa.Function, depth int) {
		if f == nil || seen[f] || f.Blocks == nil {
			return
		}
		seen[f] = true
		out = append(out, f)
		for _, a := range f.AnonFuncs {
			add(a, depth)
		}
		if depth <= 0 {
			return
		}
		for _, b := range f.Blocks {
			for _, ins := range b.Instrs {
				c, ok := ins.(ssa.CallInstruction)
				if !ok {
					continue
				}
				g := c.Common().StaticCallee()
				// bound method values handed to a call as callback: x.Range(c.method)
				for _, a := range c.Common().Args {
					if mc, isMC := a.(*ssa.MakeClosure); isMC {
						if bf, _ := mc.Fn.(*ssa.Function); bf != nil && bf.Synthetic != "" {
							for _, bb := range bf.Blocks {
								for _, bi := range bb.Instrs {
									if bc, isC := bi.(ssa.CallInstruction); isC {
										if h := bc.Common().StaticCallee(); h != nil && IsRepoPkg(pkgPathOf(h)) && len(w.GuardSites(h)) > 0 {
											add(h, depth-1)
										}
									}
								}
							}
						}
					}
				}
				if g == nil || !IsRepoPkg(pkgPathOf(g)) {
					continue
				}
				if len(w.LiftSites(g)) > 0 {
					add(g, depth-1)
				}
			}
		}
	}
	add(fn, LiftDepth)
	return out
}

func outermostFn(f *ssa.Function) *ssa.Function {
	for f.Parent() != nil {
		f = f.Parent()
	}
	return f
}

func pkgPathOf(f *ssa.Function) string {
	f = outermostFn(f)
	if f.Pkg == nil || f.Pkg.Pkg == nil {
		return ""
	}
	return f.Pkg.Pkg.Path()
}

// SitesIn lifts ins to the instructions of anchor under which it executes: ins itself when it
// belongs to anchor, otherwise the guard sites of its function (direct calls of a liftable
// helper, the call a callback is handed to), recursively up to LiftDepth+2 levels. It returns
// nil if some chain does not end in anchor or the callers are not completely known.
func (w *World) SitesIn(anchor *ssa.Function, ins ssa.Instruction) []ssa.Instruction {
	var out []ssa.Instruction
	seen := map[ssa.Instruction]bool{}
	var up func(i ssa.Instruction, depth int) bool
	up = func(i ssa.Instruction, depth int) bool {
		if i == nil || i.Parent() == nil || depth < 0 {
			return false
		}
		if i.Parent() == anchor {
			if !seen[i] {
				seen[i] = true
				out = append(out, i)
			}
			return true
		}
		sites := w.GuardSites(i.Parent())
		if len(sites) == 0 {
			return false
		}
		for _, s := range sites {
			if !up(s.(ssa.Instruction), depth-1) {
				return false
			}
		}
		return true
	}
	if !up(ins, LiftDepth+2) {
		return nil
	}
	return out
}

// UpArgs returns, for a parameter of a liftable helper, the corresponding argument at every
// direct call site (nil when the helper's callers are not completely known).
func UpArgs(p *ssa.Parameter) []ssa.Value { return upArgs(p) }

// LiftPred extends a must-pass predicate over helper calls: a direct call of a helper that
// executes pred on every path counts as pred (depth LiftDepth).
func LiftPred(pred func(ssa.Instruction) bool) func(ssa.Instruction) bool {
	return liftPred(pred, LiftDepth)
}

// NewOriginWalk visits v and the values it is computed from within its function (operands of
// phis, conversions, binary operations, loads' addresses, extracts), breadth-first and
// intra-procedurally, until visit returns false. A light-weight alternative to Slicer.Walk for
// "is this value built from X" questions on small expressions.
func NewOriginWalk(v ssa.Value, visit func(ssa.Value) bool) {
	seen := map[ssa.Value]bool{}
	work := []ssa.Value{v}
	for len(work) > 0 && len(seen) < 200 {
		x := work[0]
		work = work[1:]
		if x == nil || seen[x] {
			continue
		}
		seen[x] = true
		if !visit(x) {
			return
		}
		switch n := x.(type) {
		case *ssa.Phi:
			work = append(work, n.Edges...)
		case *ssa.BinOp:
			work = append(work, n.X, n.Y)
		case *ssa.UnOp:
			work = append(work, n.X)
		case *ssa.Convert:
			work = append(work, n.X)
		case *ssa.ChangeType:
			work = append(work, n.X)
		case *ssa.Extract:
			work = append(work, n.Tuple)
		case *ssa.Slice:
			work = append(work, n.X)
		case *ssa.Index:
			work = append(work, n.X)
		case *ssa.MakeInterface:
			work = append(work, n.X)
		}
	}
}

// StoresIn returns the Store instructions of fn.
func StoresIn(fn *ssa.Function) []*ssa.Store {
	var out []*ssa.Store
	for _, b := range fn.Blocks {
		for _, ins := range b.Instrs {
			if st, ok := ins.(*ssa.Store); ok {
				out = append(out, st)
			}
		}
	}
	return out
}
