package eng

import (
	"golang.org/x/tools/go/ssa"
)

// ---------------------------------------------------------------------------------------
// Natural loops (added for C11.R4: "on every iteration of the diff loop …").

// Loop is a natural loop of one function's CFG: the header and every block from which a
// back edge source is reachable backwards without passing the header.
type Loop struct {
	Header *ssa.BasicBlock
	Blocks map[*ssa.BasicBlock]bool
}

// NaturalLoops returns the natural loops of fn, one per header (back edges t→h with h
// dominating t; loops sharing a header are merged).
func NaturalLoops(fn *ssa.Function) []*Loop {
	byHeader := map[*ssa.BasicBlock]*Loop{}
	var order []*ssa.BasicBlock
	for _, t := range fn.Blocks {
		if t == fn.Recover {
			continue
		}
		for _, h := range t.Succs {
			if !h.Dominates(t) {
				continue
			}
			l := byHeader[h]
			if l == nil {
				l = &Loop{Header: h, Blocks: map[*ssa.BasicBlock]bool{h: true}}
				byHeader[h] = l
				order = append(order, h)
			}
			work := []*ssa.BasicBlock{t}
			for len(work) > 0 {
				x := work[len(work)-1]
				work = work[:len(work)-1]
				if l.Blocks[x] {
					continue
				}
				l.Blocks[x] = true
				work = append(work, x.Preds...)
			}
		}
	}
	var out []*Loop
	for _, h := range order {
		out = append(out, byHeader[h])
	}
	return out
}

// InnermostLoop returns the smallest natural loop containing block b, or nil.
func InnermostLoop(b *ssa.BasicBlock) *Loop {
	var best *Loop
	for _, l := range NaturalLoops(b.Parent()) {
		if l.Blocks[b] && (best == nil || len(l.Blocks) < len(best.Blocks)) {
			best = l
		}
	}
	return best
}

// EveryIterationPasses reports whether every path that enters the loop body from the
// header reaches an instruction satisfying pred before it gets back to the header, leaves
// the loop, or exits the function.
func (l *Loop) EveryIterationPasses(pred func(ssa.Instruction) bool) bool {
	for _, s := range l.Header.Succs {
		if !l.Blocks[s] || s == l.Header {
			continue
		}
		x := ReachFromBlock(s, PathQuery{
			Target: func(i ssa.Instruction) bool {
				if IsExit(i) {
					return true
				}
				b := i.Block()
				return (b == l.Header || !l.Blocks[b]) && len(b.Instrs) > 0 && i == b.Instrs[0]
			},
			Avoid: pred,
		})
		if x != nil {
			return false
		}
	}
	return true
}

// OnlyHeaderExits reports whether the loop can be left only through its header (no break,
// return or panic inside the body): every element the header admits gets a full iteration.
func (l *Loop) OnlyHeaderExits() bool {
	for b := range l.Blocks {
		if b == l.Header {
			continue
		}
		if len(b.Succs) == 0 {
			return false
		}
		for _, s := range b.Succs {
			if !l.Blocks[s] {
				return false
			}
		}
	}
	return true
}
