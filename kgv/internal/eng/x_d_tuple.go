package eng

import (
	"go/token"

	"golang.org/x/tools/go/ssa"
)

// ---------------------------------------------------------------------------------------
// Facts implied by a boolean result of a multi-result helper (added for C10).
//
// FactsAt expands `if helper(x) {…}` for predicate helpers returning one bool. The lookup
// idiom of Go returns a value together with an ok flag; when a lookup chain is moved into a
// helper (`cfg, found := m.clusterTLSConfig(host)`), `found == true` implies what every
// return statement of the helper that can yield true implies: the guards of the returning
// block and the truth of the returned flag itself — for `return c.Load()` the flag of the
// inner call, stated in the helper's environment (CallEnv), so that rules can recognise the
// inner call by identity.

// ExpandTupleFacts returns facts together with the facts implied by those of them that
// state the truth value of a boolean result of a repository helper with several results
// (depth nested helpers).
func ExpandTupleFacts(facts []Fact, depth int) []Fact {
	st := &factState{memo: map[factKey][]Fact{}, busy: map[factKey]bool{}, bmemo: map[blockKey][]Fact{}}
	out := append([]Fact{}, facts...)
	seen := map[factKey]bool{}
	work := facts
	for d := depth; d > 0 && len(work) > 0; d-- {
		var next []Fact
		for _, f := range work {
			if f.Rel.Op != token.EQL && f.Rel.Op != token.NEQ {
				continue
			}
			for _, side := range [][2]ssa.Value{{f.Rel.X, f.Rel.Y}, {f.Rel.Y, f.Rel.X}} {
				e, isE := side[0].(*ssa.Extract)
				if !isE {
					continue
				}
				call, isC := e.Tuple.(*ssa.Call)
				if !isC {
					continue
				}
				var branch bool
				switch {
				case IsBoolConst(side[1], true):
					branch = f.Rel.Op == token.EQL
				case IsBoolConst(side[1], false):
					branch = f.Rel.Op == token.NEQ
				default:
					continue
				}
				k := factKey{e, branch, f.Env}
				if seen[k] {
					continue
				}
				seen[k] = true
				next = append(next, st.tupleImplied(call, e.Index, branch, f.Env, d)...)
			}
		}
		out = append(out, next...)
		work = next
	}
	return out
}

// tupleImplied: the facts common to every return of call's callee that can yield `branch`
// in result position idx.
func (st *factState) tupleImplied(call *ssa.Call, idx int, branch bool, env *CallEnv, depth int) []Fact {
	callee := call.Call.StaticCallee()
	if callee == nil || callee.Blocks == nil || depth <= 0 || callee.Pkg == nil {
		return nil
	}
	if !IsRepoPkg(callee.Pkg.Pkg.Path()) && callee.Pkg != call.Parent().Pkg {
		return nil
	}
	res := callee.Signature.Results()
	if res.Len() < 2 || idx < 0 || idx >= res.Len() || !isBoolType(res.At(idx).Type()) {
		return nil
	}
	for e := env; e != nil; e = e.Parent {
		if e.Callee == callee {
			return nil
		}
	}
	nenv := &CallEnv{Call: call, Callee: callee, Parent: env}
	var sets [][]Fact
	for _, b := range callee.Blocks {
		if b == callee.Recover || len(b.Instrs) == 0 {
			continue
		}
		r, ok := b.Instrs[len(b.Instrs)-1].(*ssa.Return)
		if !ok || len(r.Results) != res.Len() || !Reachable(callee, b) {
			continue
		}
		v := ReturnResults(r)[idx]
		if IsBoolConst(v, !branch) {
			continue
		}
		var fs []Fact
		if _, isC := v.(*ssa.Const); !isC {
			fs = append(fs, st.implied(v, branch, nenv, depth-1)...)
		}
		fs = append(fs, st.blockFacts(b, nenv, depth-1)...)
		sets = append(sets, fs)
	}
	return intersectFacts(sets)
}
