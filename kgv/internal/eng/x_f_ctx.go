package eng

import (
	"go/constant"
	"go/token"

	"golang.org/x/tools/go/ssa"
)

// ---------------------------------------------------------------------------------------
// Calling contexts of parameterised helpers.
//
// When two near-duplicate functions are folded into one helper that takes the differences as
// parameters (`newOption(factory, "KindA", strategyA, true)` / `newOption(factory, "KindB", …)`),
// facts that used to be constants of a function become facts of a *call*: they hold in the
// helper as entered through one particular call site. Slicer.WithUp unions over all call
// sites and cannot tell the two apart; a CallCtx names one chain of call sites, values are
// resolved through the chain's actual arguments, and boolean parameters bound to constants
// become path facts for the fact-carrying search (x_c17.go).

// CallCtx is a calling context: function Fn as entered through call Site, which is located in
// Parent.Fn. The root of a chain has Site == nil and Parent == nil (entered by any caller).
type CallCtx struct {
	Fn     *ssa.Function
	Site   *ssa.Call
	Parent *CallCtx
}

// Root returns the outermost context of the chain.
func (c *CallCtx) Root() *CallCtx {
	for c.Parent != nil {
		c = c.Parent
	}
	return c
}

// Levels returns the chain from c (innermost, index 0) to the root.
func (c *CallCtx) Levels() []*CallCtx {
	var out []*CallCtx
	for x := c; x != nil; x = x.Parent {
		out = append(out, x)
	}
	return out
}

// Child returns the context of callee as entered through call, a call located in c.Fn.
func (c *CallCtx) Child(call *ssa.Call, callee *ssa.Function) *CallCtx {
	return &CallCtx{Fn: callee, Site: call, Parent: c}
}

// ExtendRoot returns a copy of the chain in which the root function is entered through site
// (the new root is the function containing site).
func (c *CallCtx) ExtendRoot(site *ssa.Call) *CallCtx {
	if c.Parent == nil {
		return &CallCtx{Fn: c.Fn, Site: site, Parent: &CallCtx{Fn: site.Parent()}}
	}
	return &CallCtx{Fn: c.Fn, Site: c.Site, Parent: c.Parent.ExtendRoot(site)}
}

// StaticCallSites returns every direct call of fn in repository code (including immediate
// calls of a function literal), whether or not fn is a liftable helper.
func (w *World) StaticCallSites(fn *ssa.Function) []*ssa.Call {
	if w == nil || fn == nil {
		return nil
	}
	var out []*ssa.Call
	for _, s := range w.callers().sites[fn] {
		if c, ok := s.(*ssa.Call); ok {
			out = append(out, c)
		}
	}
	return out
}

// CtxValue is a value together with the context whose function it belongs to.
type CtxValue struct {
	V   ssa.Value
	Ctx *CallCtx
}

// ResolveIn rewrites v, a value of ctx.Fn, towards its definition across the context chain: a
// parameter of a function entered through a call site becomes the actual argument (a value of
// the parent context), a captured variable of a function literal that is called from its
// enclosing function becomes the value stored in the captured cell, a spilled value (local
// with a single whole store) becomes the stored value, and interface/type conversions are
// stripped. The result is the first value that cannot be rewritten further.
func ResolveIn(v ssa.Value, ctx *CallCtx) CtxValue {
	for i := 0; i < 64 && v != nil; i++ {
		switch x := v.(type) {
		case *ssa.MakeInterface:
			v = x.X
			continue
		case *ssa.ChangeInterface:
			v = x.X
			continue
		case *ssa.ChangeType:
			v = x.X
			continue
		case *ssa.Parameter:
			if ctx != nil && ctx.Site != nil && x.Parent() == ctx.Fn {
				k := -1
				for j, p := range ctx.Fn.Params {
					if p == x {
						k = j
					}
				}
				if args := ctx.Site.Call.Args; k >= 0 && k < len(args) && !ctx.Site.Call.IsInvoke() {
					v, ctx = args[k], ctx.Parent
					continue
				}
			}
		case *ssa.UnOp:
			if x.Op != token.MUL {
				break
			}
			switch cell := x.X.(type) {
			case *ssa.Alloc:
				if sv := singleStore(cell); sv != nil {
					v = sv
					continue
				}
			case *ssa.FreeVar:
				// variable captured by a function literal that its enclosing function calls
				if ctx == nil || ctx.Parent == nil || cell.Parent() != ctx.Fn || ctx.Fn.Parent() != ctx.Parent.Fn {
					break
				}
				if mc, ok := ctx.Site.Call.Value.(*ssa.MakeClosure); ok {
					for j, fv := range ctx.Fn.FreeVars {
						if fv == cell && j < len(mc.Bindings) {
							if al, isAl := mc.Bindings[j].(*ssa.Alloc); isAl {
								if sv := singleStoreShared(al); sv != nil {
									v, ctx = sv, ctx.Parent
								}
							}
						}
					}
					if v != ssa.Value(x) {
						continue
					}
				}
			}
		}
		break
	}
	return CtxValue{v, ctx}
}

// singleStoreShared is singleStore for a cell that may be captured by function literals which
// only read it.
func singleStoreShared(a *ssa.Alloc) ssa.Value {
	if a.Referrers() == nil {
		return nil
	}
	var val ssa.Value
	for _, r := range *a.Referrers() {
		switch u := r.(type) {
		case *ssa.Store:
			if u.Addr != ssa.Value(a) || val != nil {
				return nil
			}
			val = u.Val
		case *ssa.UnOp, *ssa.DebugRef:
		case *ssa.MakeClosure:
			fn, ok := u.Fn.(*ssa.Function)
			if !ok {
				return nil
			}
			for j, b := range u.Bindings {
				if b != ssa.Value(a) || j >= len(fn.FreeVars) || fn.FreeVars[j].Referrers() == nil {
					continue
				}
				for _, rr := range *fn.FreeVars[j].Referrers() {
					if ld, isLd := rr.(*ssa.UnOp); !isLd || ld.Op != token.MUL {
						if _, isDbg := rr.(*ssa.DebugRef); !isDbg {
							return nil
						}
					}
				}
			}
		default:
			return nil
		}
	}
	return val
}

// SameIn reports whether a and b denote the same value: resolved in the same context to the
// same SSA value or to two loads of the same cell.
func SameIn(a, b CtxValue) bool {
	if a.Ctx != b.Ctx {
		return false
	}
	if a.V == b.V {
		return true
	}
	la, oka := a.V.(*ssa.UnOp)
	lb, okb := b.V.(*ssa.UnOp)
	return oka && okb && la.Op == token.MUL && lb.Op == token.MUL && la.X == lb.X
}

// BoolFacts returns the truth values of the boolean parameters of c.Fn that are bound to
// constants by the context chain (facts for FactQuery.Assume).
func (c *CallCtx) BoolFacts() BoolFacts {
	facts := BoolFacts{}
	if c == nil || c.Site == nil {
		return facts
	}
	for _, p := range c.Fn.Params {
		r := ResolveIn(p, c)
		if k, ok := r.V.(*ssa.Const); ok && k.Value != nil && k.Value.Kind() == constant.Bool {
			facts[p] = constant.BoolVal(k.Value)
		}
	}
	return facts
}

// AlwaysBeforeIn is AlwaysBefore for a function entered in context c: every path from the
// entry of c.Fn to target passes pred, where branches on boolean parameters that the context
// binds to constants are followed on the feasible side only (`if subStatus { … }` with
// subStatus = true at the call site). extra holds further facts assumed on every path (e.g.
// "the error returned is nil" for a return that hands a call's error on unchecked).
func AlwaysBeforeIn(c *CallCtx, target ssa.Instruction, pred func(ssa.Instruction) bool, extra ...BoolFacts) bool {
	if AlwaysBefore(c.Fn, target, pred) {
		return true
	}
	facts := c.BoolFacts()
	for _, e := range extra {
		for k, v := range e {
			facts[k] = v
		}
	}
	if len(facts) == 0 || target == nil || target.Parent() != c.Fn {
		return false
	}
	px := liftPred(pred, LiftDepth)
	return FactReachFromEntry(c.Fn, FactQuery{
		Assume: facts,
		Target: func(i ssa.Instruction, _ KnownFn) bool { return i == target },
		Avoid:  func(i ssa.Instruction) bool { return i != target && px(i) },
	}) == nil
}

// NilFacts returns the truth values of the comparisons of v with nil in v's function under
// the assumption that v is nil (isNil) or non-nil (!isNil).
func NilFacts(fn *ssa.Function, v ssa.Value, isNil bool) BoolFacts {
	facts := BoolFacts{}
	if fn == nil || v == nil {
		return facts
	}
	Instrs(fn, func(ins ssa.Instruction) {
		b, ok := ins.(*ssa.BinOp)
		if !ok || (b.Op != token.EQL && b.Op != token.NEQ) {
			return
		}
		if (b.X == v && IsNilConst(b.Y)) || (b.Y == v && IsNilConst(b.X)) {
			facts[b] = (b.Op == token.EQL) == isNil
		}
	})
	return facts
}

// ReachableIn reports whether ins can execute when its function is entered in context c
// (false only when every path to it takes an infeasible branch on a constant-bound boolean
// parameter).
func ReachableIn(c *CallCtx, ins ssa.Instruction) bool {
	if ins == nil || ins.Parent() != c.Fn {
		return true
	}
	return FactReachFromEntry(c.Fn, FactQuery{
		Assume: c.BoolFacts(),
		Target: func(i ssa.Instruction, _ KnownFn) bool { return i == ins },
	}) != nil
}
