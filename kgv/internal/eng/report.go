package eng

import (
	"encoding/json"
	"fmt"
	"go/token"
	"os"
	"path/filepath"
	"sort"
	"strings"
	"time"

	"golang.org/x/tools/go/ssa"
)

// Verdicts of an obligation.
const (
	Discharged = "discharged"
	Violated   = "violated"
	Known      = "known"
	Undecided  = "undecided"
)

// Obligation is one rule instance evaluated on one construct of the program.
type Obligation struct {
	Rule      string `json:"rule"`
	Function  string `json:"function"`
	Construct string `json:"construct"`
	File      string `json:"file,omitempty"`
	Line      int    `json:"line,omitempty"`
	Verdict   string `json:"verdict"`
	Detail    string `json:"detail,omitempty"`
}

// Key identifies an obligation independent of source positions.
func (o *Obligation) Key() string { return o.Rule + "|" + o.Function + "|" + o.Construct }

// Finding is an entry of known_findings.json.
type Finding struct {
	Property    string `json:"property"`
	Rule        string `json:"rule"`
	Function    string `json:"function"`
	Construct   string `json:"construct"`
	Status      string `json:"status"` // "known" | "fixed"
	Commit      string `json:"commit,omitempty"`
	What        string `json:"what"`
	FailingCase string `json:"failing_case,omitempty"`
}

// FixtureResult records one self-test fixture run.
type FixtureResult struct {
	Name   string `json:"name"`
	Want   string `json:"want"`
	Got    string `json:"got"`
	Passed bool   `json:"passed"`
}

// Ctx is the evaluation context of one property check.
type Ctx struct {
	W     *World
	Prop  string
	Tier  string
	Depth int

	Obs      []*Obligation
	Notes    []string
	Fixtures []FixtureResult
	// Extra holds additional coverage entries written into the evidence (thorough tier:
	// the neighbourhood sweep).
	Extra   map[string]interface{}
	mins    map[string]int
	ruleDoc map[string]string
	ruleSeq []string
	funcs   map[string]bool
}

// NewCtx creates a context.
func NewCtx(w *World, prop, tier string) *Ctx {
	d := 2
	if tier == "thorough" {
		d = 4
	}
	return &Ctx{W: w, Prop: prop, Tier: tier, Depth: d, mins: map[string]int{}, ruleDoc: map[string]string{}, funcs: map[string]bool{}}
}

// Thorough reports whether the thorough tier was requested.
func (c *Ctx) Thorough() bool { return c.Tier == "thorough" }

// Slicer returns a value-origin slicer at the tier's inlining depth.
func (c *Ctx) Slicer() *Slicer { return &Slicer{W: c.W, Depth: c.Depth} }

// Rule declares a rule with its description and the minimum number of obligations that
// must match on the analysed tree (fewer is a failure: no vacuous pass).
func (c *Ctx) Rule(id, doc string, min int) {
	if _, ok := c.ruleDoc[id]; !ok {
		c.ruleSeq = append(c.ruleSeq, id)
	}
	c.ruleDoc[id] = doc
	c.mins[id] = min
}

func (c *Ctx) add(rule string, fn *ssa.Function, construct string, pos token.Pos, verdict, detail string) *Obligation {
	name := "<program>"
	if fn != nil {
		name = FuncName(fn)
		c.funcs[name] = true
		if !pos.IsValid() {
			pos = fn.Pos()
		}
	}
	f, l := "", 0
	if c.W != nil {
		f, l = c.W.Pos(pos)
	}
	o := &Obligation{Rule: c.Prop + "." + rule, Function: name, Construct: construct, File: f, Line: l, Verdict: verdict, Detail: detail}
	c.Obs = append(c.Obs, o)
	return o
}

// Check records an obligation as discharged (ok) or violated.
func (c *Ctx) Check(rule string, fn *ssa.Function, construct string, pos token.Pos, ok bool, detail string) bool {
	v := Discharged
	if !ok {
		v = Violated
	}
	c.add(rule, fn, construct, pos, v, detail)
	return ok
}

// Fail records a violated obligation.
func (c *Ctx) Fail(rule string, fn *ssa.Function, construct string, pos token.Pos, detail string) {
	c.add(rule, fn, construct, pos, Violated, detail)
}

// Pass records a discharged obligation.
func (c *Ctx) Pass(rule string, fn *ssa.Function, construct string, pos token.Pos, detail string) {
	c.add(rule, fn, construct, pos, Discharged, detail)
}

// Undecided records an obligation the engine could not classify (fails closed).
func (c *Ctx) Undecided(rule string, fn *ssa.Function, construct string, pos token.Pos, detail string) {
	c.add(rule, fn, construct, pos, Undecided, detail)
}

// Note adds a cross-reference remark to the evidence (never a verdict).
func (c *Ctx) Note(format string, a ...interface{}) {
	c.Notes = append(c.Notes, fmt.Sprintf(format, a...))
}

// Anchor failures ------------------------------------------------------------------------

// MustFunc resolves a package-level function or fails the check.
func (c *Ctx) MustFunc(path, name string) *ssa.Function {
	f := c.W.Func(path, name)
	if f == nil || f.Blocks == nil {
		c.add("engine", nil, "unresolved-anchor func "+path+"."+name, token.NoPos, Violated, "anchor function not found in the resolved program")
		return nil
	}
	return f
}

// MustMethod resolves a declared method or fails the check.
func (c *Ctx) MustMethod(path, typ, name string) *ssa.Function {
	f := c.W.Method(path, typ, name)
	if f == nil || f.Blocks == nil {
		c.add("engine", nil, "unresolved-anchor method ("+path+"."+typ+")."+name, token.NoPos, Violated, "anchor method not found in the resolved program")
		return nil
	}
	return f
}

// Fixture records a fixture outcome; a mismatch fails the check.
func (c *Ctx) Fixture(name, want, got string) {
	ok := want == got
	c.Fixtures = append(c.Fixtures, FixtureResult{Name: name, Want: want, Got: got, Passed: ok})
	if !ok {
		c.add("engine", nil, "fixture "+name, token.NoPos, Violated, fmt.Sprintf("self-test fixture: want %s, got %s", want, got))
	}
}

// ---------------------------------------------------------------------------------------

// LoadFindings reads known_findings.json.
func LoadFindings(path string) ([]Finding, error) {
	b, err := os.ReadFile(path)
	if err != nil {
		if os.IsNotExist(err) {
			return nil, nil
		}
		return nil, err
	}
	var fs []Finding
	if err := json.Unmarshal(b, &fs); err != nil {
		return nil, fmt.Errorf("%s: %v", path, err)
	}
	return fs, nil
}

// Finish applies minimum instance counts and known findings, writes evidence and replay
// files, prints the verdict lines and returns the process exit code.
func (c *Ctx) Finish(root string, findings []Finding, seed int64, started time.Time) int {
	// minimum instance counts
	counts := map[string]int{}
	for _, o := range c.Obs {
		counts[o.Rule]++
	}
	for _, id := range c.ruleSeq {
		full := c.Prop + "." + id
		if counts[full] < c.mins[id] {
			c.add("engine", nil, fmt.Sprintf("instance-count %s", full), token.NoPos, Violated,
				fmt.Sprintf("rule matched %d constructs, at least %d were confirmed by hand on the pinned tree (no vacuous pass)", counts[full], c.mins[id]))
		}
	}
	// known findings
	known := map[string]*Finding{}
	for i := range findings {
		f := &findings[i]
		if f.Property == c.Prop && f.Status == "known" {
			known[f.Rule+"|"+f.Function+"|"+f.Construct] = f
		}
	}
	var viol []*Obligation
	var knownHit []*Obligation
	for _, o := range c.Obs {
		if o.Verdict == Violated || o.Verdict == Undecided {
			if o.Verdict == Violated {
				if f, ok := known[o.Key()]; ok {
					o.Verdict = Known
					o.Detail = strings.TrimSpace(o.Detail + " [known finding: " + f.What + "]")
					knownHit = append(knownHit, o)
					continue
				}
			}
			viol = append(viol, o)
		}
	}

	evdir := filepath.Join(root, "evidence")
	_ = os.MkdirAll(filepath.Join(evdir, "replay"), 0o755)
	// clear stale replay files of this property
	if old, _ := filepath.Glob(filepath.Join(evdir, "replay", c.Prop+"-*.json")); old != nil {
		for _, f := range old {
			_ = os.Remove(f)
		}
	}

	for _, o := range knownHit {
		fmt.Printf("KNOWN-FINDING: property=%s %s %s %s — %s\n", c.Prop, o.Rule, o.Function, o.Construct, o.Detail)
	}
	for i, o := range viol {
		p := filepath.Join(evdir, "replay", fmt.Sprintf("%s-%d.json", c.Prop, i+1))
		b, _ := json.MarshalIndent(map[string]interface{}{
			"property": c.Prop, "tier": c.Tier, "obligation": o,
			"rule_doc": c.ruleDoc[strings.TrimPrefix(o.Rule, c.Prop+".")],
			"how":      "re-run: /verif/bin/kgv explain " + p + " (re-evaluates the property on the current tree and prints this obligation)",
		}, "", " ")
		_ = os.WriteFile(p, b, 0o644)
		fmt.Printf("%s: %s:%d: %s %s [%s] %s\n", strings.ToUpper(o.Verdict), o.File, o.Line, o.Rule, o.Function, o.Construct, o.Detail)
		fmt.Printf("VIOLATION property=%s replay=%s\n", c.Prop, p)
	}

	// evidence
	distinct := map[string]bool{}
	discharged := 0
	for _, o := range c.Obs {
		if o.Rule == c.Prop+".engine" {
			continue
		}
		distinct[o.Key()] = true
		if o.Verdict == Discharged {
			discharged++
		}
	}
	nObs := 0
	for _, o := range c.Obs {
		if o.Rule != c.Prop+".engine" {
			nObs++
		}
	}
	var rules []map[string]interface{}
	for _, id := range c.ruleSeq {
		rules = append(rules, map[string]interface{}{"id": c.Prop + "." + id, "doc": c.ruleDoc[id], "min_instances": c.mins[id], "instances": counts[c.Prop+"."+id]})
	}
	var fnames []string
	for f := range c.funcs {
		fnames = append(fnames, f)
	}
	sort.Strings(fnames)
	samples := c.Obs
	if len(samples) > 60 {
		samples = samples[:60]
	}
	nPk, nRoot := 0, 0
	lt, st := 0.0, 0.0
	if c.W != nil {
		nPk, nRoot = len(c.W.All), len(c.W.Roots)
		lt, st = c.W.LoadTime.Seconds(), c.W.SSATime.Seconds()
	}
	ev := map[string]interface{}{
		"property_id": c.Prop,
		"tier":        c.Tier,
		"seed":        seed,
		"level":       "other",
		"coverage": map[string]interface{}{
			"explanation":         "static analysis of /repo's current source (go/packages type-check + go/ssa); each obligation is one rule instance (rule + function + construct) decided over all CFG paths / call sites / abstract values of the named construct; nothing is executed. A violated or undecided obligation, an unresolved anchor, a rule matching fewer constructs than confirmed by hand, a failed self-test fixture or an analyser panic fails the check.",
			"obligations":         nObs,
			"discharged":          discharged,
			"evaluations":         len(c.Obs),
			"distinct_nontrivial": len(distinct),
			"rule":                "one evaluation per obligation; distinct = distinct (rule, function, construct) keys that matched real code of /repo on this run (engine bookkeeping obligations excluded)",
			"samples":             samples,
			"rules":               rules,
			"functions_analysed":  fnames,
			"packages_loaded":     nPk,
			"root_packages":       nRoot,
			"fixtures":            c.Fixtures,
			"notes":               c.Notes,
			"known_findings_hit":  len(knownHit),
			"load_s":              lt,
			"ssa_s":               st,
			"exhaustive":          false,
			"inlining_depth":      c.Depth,
			"checker_cmd":         fmt.Sprintf("/verif/bin/kgv check -prop %s -tier %s", c.Prop, c.Tier),
			"trusted_base":        []string{"go/types", "golang.org/x/tools/go/ssa v0.29.0", "kgv rule tables"},
		},
		"assumptions": []string{
			"go/types and go/ssa (x/tools v0.29.0) lower the source faithfully",
			"each rule is a structural necessary condition of the property, not the behavioural statement itself",
			"dependencies behave as documented (net/http, client-go, x/time/rate, golib maxinflight)",
		},
		"wall_s":     time.Since(started).Seconds(),
		"violations": len(viol),
	}
	if cov, ok := ev["coverage"].(map[string]interface{}); ok {
		for k, v := range c.Extra {
			cov[k] = v
		}
	}
	b, _ := json.MarshalIndent(ev, "", " ")
	if err := os.WriteFile(filepath.Join(evdir, c.Prop+".json"), b, 0o644); err != nil {
		fmt.Printf("ERROR writing evidence: %v\n", err)
		return 2
	}
	fmt.Printf("%s %s: obligations=%d discharged=%d known=%d violations=%d fixtures=%d wall=%.1fs\n",
		c.Prop, c.Tier, nObs, discharged, len(knownHit), len(viol), len(c.Fixtures), time.Since(started).Seconds())
	if len(viol) > 0 {
		return 1
	}
	return 0
}
