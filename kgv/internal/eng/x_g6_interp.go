package eng

import (
	"fmt"
	"go/constant"

	"golang.org/x/tools/go/ssa"
)

// ---------------------------------------------------------------------------------------
// Observation hooks for the path-enumerating interpreter (added for C08, second refactoring
// corpus).
//
// Rules of the form "in scenario X every path does Y / no path does Z" are decided by forcing:
// the scenario pins parameters, loads and call results to concrete values, the interpreter
// enumerates the feasible paths through the anchor function and the same-package functions it
// calls, and the rule inspects what each path executed. That is insensitive to how the code is
// spread over helpers, to the form of the branches (if / switch / named condition / flipped
// comparison) and to the way results travel (tuple results, boolean signals). PathResult.Calls
// tells WHICH calls a path executed; the hooks below let a rule also record WITH WHAT VALUES:
// PinCall is consulted for every executed call with the path state, so it can evaluate the
// call's arguments (Eval) and file them in the state (Note), which is copied along the path
// like memory and can be read from PathResult.Final (Noted / NotedSeq).

// (Interp.Eval is declared in x_g4_trace.go.)

const noteSep = "\x00note:"

// Note records an observation under key in the state of the current path.
func (s *State) Note(key string, v AV) { s.mem[noteSep+key] = v }

// Noted returns the observation recorded under key on this path.
func (s *State) Noted(key string) (AV, bool) { v, ok := s.mem[noteSep+key]; return v, ok }

// NoteNext appends an observation to the sequence kept under key on this path.
func (s *State) NoteNext(key string, v AV) {
	n := 0
	if c, ok := s.mem[noteSep+key+"#n"]; ok && c.K == ConstV {
		if i, exact := constant.Int64Val(c.C); exact {
			n = int(i)
		}
	}
	s.mem[fmt.Sprintf("%s%s#%d", noteSep, key, n)] = v
	s.mem[noteSep+key+"#n"] = AVInt(int64(n + 1))
}

// NotedSeq returns the observations appended under key on this path, in order.
func (s *State) NotedSeq(key string) []AV {
	var out []AV
	for i := 0; ; i++ {
		v, ok := s.mem[fmt.Sprintf("%s%s#%d", noteSep, key, i)]
		if !ok {
			return out
		}
		out = append(out, v)
	}
}

// IsInt reports whether a is the integer constant i.
func (a AV) IsInt(i int64) bool {
	if a.K != ConstV || a.C == nil || a.C.Kind() != constant.Int {
		return false
	}
	v, exact := constant.Int64Val(a.C)
	return exact && v == i
}

// CallKey names a call instruction for Note keys.
func CallKey(c ssa.CallInstruction) string { return fmt.Sprintf("%p", c) }
