package eng

import (
	"golang.org/x/tools/go/ssa"
)

// ---------------------------------------------------------------------------------------
// Additional lifting helpers (rules C05/C06/C09). They complement interproc.go: everything
// here is derived from LiftSites/GuardSites, i.e. only helpers whose complete set of callers
// is known are crossed, and every "for all call sites" is a conjunction.

// LiftMust extends a must-pass predicate over instructions: a plain call of a repository
// function that executes an instruction satisfying pred on every path from its entry to an
// exit (recursively, depth ≤ LiftDepth) counts as pred. Use it as the Avoid predicate of a
// "every path passes P" query so that moving P into a helper keeps the verdict.
func LiftMust(pred func(ssa.Instruction) bool) func(ssa.Instruction) bool {
	return liftPred(pred, LiftDepth)
}

// LiftMay extends a may-reach predicate over instructions: a plain call, go or defer of a
// repository function in which an instruction satisfying pred is reachable from the entry
// (recursively, depth ≤ LiftDepth) counts as pred. Use it as the Target predicate of a
// "no path reaches P" query so that moving P into a helper does not hide it.
func LiftMay(pred func(ssa.Instruction) bool) func(ssa.Instruction) bool {
	return liftMay(pred, LiftDepth, map[*ssa.Function]int{})
}

func liftMay(pred func(ssa.Instruction) bool, depth int, memo map[*ssa.Function]int) func(ssa.Instruction) bool {
	var px func(i ssa.Instruction, d int) bool
	px = func(i ssa.Instruction, d int) bool {
		if pred(i) {
			return true
		}
		c, ok := i.(ssa.CallInstruction)
		if !ok || d <= 0 {
			return false
		}
		f := c.Common().StaticCallee()
		if f == nil {
			if mc, ok := c.Common().Value.(*ssa.MakeClosure); ok {
				f, _ = mc.Fn.(*ssa.Function)
			}
		}
		if f == nil || !Analysable(f) {
			return false
		}
		if r, ok := memo[f]; ok {
			return r == 1
		}
		memo[f] = 0
		if ReachFromEntry(f, PathQuery{Target: func(j ssa.Instruction) bool { return px(j, d-1) }}) != nil {
			memo[f] = 1
			return true
		}
		return false
	}
	return func(i ssa.Instruction) bool { return px(i, depth) }
}

// ParamIndex returns the position of p among its function's parameters (receiver included), -1 if none.
func ParamIndex(p *ssa.Parameter) int {
	if p == nil || p.Parent() == nil {
		return -1
	}
	for i, q := range p.Parent().Params {
		if q == p {
			return i
		}
	}
	return -1
}

// UpArg is the argument bound to a helper's parameter at one of its call sites.
type UpArg struct {
	Site ssa.CallInstruction
	Arg  ssa.Value
}

// UpArgSites returns, for a parameter of a liftable helper (see LiftSites), the argument bound
// to it at every call site; nil when the helper's callers are not completely known.
func (w *World) UpArgSites(p *ssa.Parameter) []UpArg {
	if w == nil || p == nil {
		return nil
	}
	fn := p.Parent()
	sites := w.LiftSites(fn)
	idx := ParamIndex(p)
	if len(sites) == 0 || idx < 0 {
		return nil
	}
	var out []UpArg
	for _, s := range sites {
		args := s.Common().Args
		if idx >= len(args) {
			return nil
		}
		out = append(out, UpArg{s, args[idx]})
	}
	return out
}

// UpPath is an access path continued through helper parameters into a caller.
type UpPath struct {
	Root ssa.Value     // the root in the outermost caller reached
	Path []string      // field names from Root to the value
	Fn   *ssa.Function // the function Root lives in
	Hops []ssa.Value   // the values whose access paths were concatenated (innermost first)
}

// AccessPathsUp returns the access path of v; when the path is rooted at a parameter of a
// liftable helper it is continued into the argument of every call site (one UpPath per
// chain of call sites, depth ≤ LiftDepth). For a value that is not rooted at such a
// parameter the result is the single path AccessPath(v).
func (w *World) AccessPathsUp(v ssa.Value) []UpPath {
	return w.accessPathsUp(v, nil, nil, LiftDepth)
}

func (w *World) accessPathsUp(v ssa.Value, suffix []string, hops []ssa.Value, depth int) []UpPath {
	root, path := AccessPath(v)
	full := append(append([]string{}, path...), suffix...)
	hops = append(append([]ssa.Value{}, hops...), v)
	var fn *ssa.Function
	switch r := root.(type) {
	case *ssa.Parameter:
		fn = r.Parent()
		if depth > 0 {
			if ups := w.UpArgSites(r); len(ups) > 0 {
				var out []UpPath
				for _, u := range ups {
					out = append(out, w.accessPathsUp(u.Arg, full, hops, depth-1)...)
				}
				return out
			}
		}
	case ssa.Instruction:
		fn = r.Parent()
	case *ssa.FreeVar:
		fn = r.Parent()
	}
	return []UpPath{{Root: root, Path: full, Fn: fn, Hops: hops}}
}

// OwnedBy reports whether fn runs only as part of one of the roots: it is a root, a closure
// nested in an owned function, or a liftable helper (complete set of callers known) every
// call site of which lies in an owned function (depth ≤ LiftDepth).
func (w *World) OwnedBy(fn *ssa.Function, roots ...*ssa.Function) bool {
	return w.ownedBy(fn, roots, LiftDepth, map[*ssa.Function]bool{})
}

func (w *World) ownedBy(fn *ssa.Function, roots []*ssa.Function, depth int, busy map[*ssa.Function]bool) bool {
	if fn == nil {
		return false
	}
	for _, r := range roots {
		if r != nil && fn == r {
			return true
		}
	}
	if busy[fn] {
		return false
	}
	busy[fn] = true
	defer delete(busy, fn)
	if p := fn.Parent(); p != nil {
		// a closure runs under the control of the function that creates it only when it does
		// not escape: immediately called / deferred / go, or handed straight to a call
		if len(w.GuardSites(fn)) > 0 && w.ownedBy(p, roots, depth, busy) {
			return true
		}
		return false
	}
	if depth <= 0 {
		return false
	}
	sites := w.LiftSites(fn)
	if len(sites) == 0 {
		return false
	}
	for _, s := range sites {
		if !w.ownedBy(s.Parent(), roots, depth-1, busy) {
			return false
		}
	}
	return true
}

// ReachFromEntryUp reports whether target can be reached from the entry of root without
// traversing a cut edge, where target may sit in a helper of root's Region: then target must
// be reachable inside the helper and some call site of the helper that belongs to root's
// Region must be reachable in turn (call sites in functions outside the Region do not run as
// part of root and are ignored). cut is consulted for the edges of every function crossed.
// The result is conservative for "unreachable" verdicts: a Region function whose callers are
// not completely known counts as reachable.
func (w *World) ReachFromEntryUp(root *ssa.Function, target ssa.Instruction, cut func(from *ssa.BasicBlock, succIdx int) bool) bool {
	region := map[*ssa.Function]bool{}
	for _, f := range w.Region(root) {
		region[f] = true
	}
	return w.reachUp(root, target, cut, LiftDepth, region)
}

func (w *World) reachUp(root *ssa.Function, target ssa.Instruction, cut func(from *ssa.BasicBlock, succIdx int) bool, depth int, region map[*ssa.Function]bool) bool {
	fn := target.Parent()
	if fn == nil || !region[fn] {
		return false // does not run as part of root
	}
	if ReachFromEntry(fn, PathQuery{Target: func(i ssa.Instruction) bool { return i == target }, BlockEdge: cut}) == nil {
		return false
	}
	if fn == root {
		return true
	}
	sites := w.GuardSites(fn)
	if len(sites) == 0 || depth <= 0 {
		return true
	}
	for _, s := range sites {
		if w.reachUp(root, s, cut, depth-1, region) {
			return true
		}
	}
	return false
}

// ResolveUp follows a value that is a parameter of a liftable helper into its call sites:
// when every call site binds the parameter to the same value (after resolving that one in
// turn, depth ≤ LiftDepth) that value is returned, otherwise v itself. It lets a rule compare
// "is the parameter n of the anchor function" when n was handed down to an extracted helper.
func (w *World) ResolveUp(v ssa.Value) ssa.Value {
	return w.resolveUp(v, LiftDepth)
}

func (w *World) resolveUp(v ssa.Value, depth int) ssa.Value {
	p, ok := v.(*ssa.Parameter)
	if !ok || depth <= 0 {
		return v
	}
	ups := w.UpArgSites(p)
	if len(ups) == 0 {
		return v
	}
	var same ssa.Value
	for _, u := range ups {
		x := w.resolveUp(u.Arg, depth-1)
		if same != nil && x != same {
			return v
		}
		same = x
	}
	if same == nil {
		return v
	}
	return same
}

// GuardsUp returns the guards of ins in its own function followed by the guards of the
// (transitive) guard sites of that function when it is a helper with a completely known
// set of callers and exactly one site at each level (so that the chain is unambiguous).
// complete=false when a level has several sites or unknown callers (only the guards
// collected so far are returned); stop ends the chain at a given anchor function.
func (w *World) GuardsUp(ins ssa.Instruction, stop *ssa.Function) (gs []Guard, complete bool) {
	cur := ins
	for d := 0; d <= LiftDepth; d++ {
		gs = append(gs, GuardsOf(cur)...)
		fn := cur.Parent()
		if fn == stop {
			return gs, true
		}
		sites := w.GuardSites(fn)
		if len(sites) != 1 {
			return gs, false
		}
		cur = sites[0]
	}
	return gs, false
}
