package eng

import (
	"go/token"

	"golang.org/x/tools/go/ssa"
)

// ---------------------------------------------------------------------------------------
// Forward flow of one value (added for C10: "who operates on the table manager.clusters").
//
// A rule that asks "which instructions operate on the object at address A" used to match the
// address expression at the operating instruction (`m.clusters.Store(…)`). Turning a method
// into a function that takes the field it needs (`store(&m.clusters, …)`), or a closure into
// a function with an extra parameter, moves the operation to a place where the address is a
// parameter. FlowDown follows the value from where it is formed to every instruction that
// finally uses it, across phis, conversions, single-use local cells, closure bindings and the
// parameters of repository functions it is handed to, and reports what it could not follow.

// FlowUse is one use of a tracked value.
type FlowUse struct {
	// Ins uses V, an alias of the tracked value in Ins's own function.
	Ins ssa.Instruction
	V   ssa.Value
	// Sites are the calls through which the value was handed down, outermost first
	// (Sites[0] lies in the function the flow started in; a closure binding adds no site).
	Sites []ssa.CallInstruction
}

// Fn returns the function the use executes in.
func (u FlowUse) Fn() *ssa.Function { return u.Ins.Parent() }

// FlowDown follows root forward for at most depth call levels. uses are the instructions that
// consume the value in a way the caller has to classify: calls of functions outside the
// repository (or without body) that take it as receiver/argument, stores *through* it, loads
// from it, sub-addressing. escapes are the places where the value leaves what can be followed:
// it is stored into memory, returned, converted to an interface, sent, handed to a dynamic or
// interface call, or the depth is exhausted.
func (w *World) FlowDown(root ssa.Value, depth int) (uses, escapes []FlowUse) {
	type key struct {
		v    ssa.Value
		site ssa.CallInstruction // innermost site: a helper entered through two calls is walked twice
	}
	seen := map[key]bool{}
	var walk func(v ssa.Value, sites []ssa.CallInstruction, depth int)
	walk = func(v ssa.Value, sites []ssa.CallInstruction, depth int) {
		k := key{v: v}
		if len(sites) > 0 {
			k.site = sites[len(sites)-1]
		}
		if v == nil || seen[k] {
			return
		}
		seen[k] = true
		refs := v.Referrers()
		if refs == nil {
			return
		}
		for _, r := range *refs {
			u := FlowUse{Ins: r, V: v, Sites: sites}
			switch n := r.(type) {
			case *ssa.DebugRef:
			case *ssa.Phi:
				walk(n, sites, depth)
			case *ssa.ChangeType:
				walk(n, sites, depth)
			case *ssa.Convert:
				walk(n, sites, depth)
			case *ssa.MakeClosure:
				fn, _ := n.Fn.(*ssa.Function)
				if fn == nil {
					escapes = append(escapes, u)
					continue
				}
				for i, b := range n.Bindings {
					if b == v && i < len(fn.FreeVars) {
						walk(fn.FreeVars[i], sites, depth)
					}
				}
			case *ssa.Store:
				if n.Addr == v && n.Val != v {
					uses = append(uses, u) // a write through the tracked address
					continue
				}
				// the value itself is stored: follow a local cell that is only loaded again
				if al, ok := n.Addr.(*ssa.Alloc); ok && localCellOnlyLoaded(al) {
					for _, rr := range *al.Referrers() {
						if ld, isLd := rr.(*ssa.UnOp); isLd && ld.Op == token.MUL {
							walk(ld, sites, depth)
						}
					}
					continue
				}
				escapes = append(escapes, u)
			case ssa.CallInstruction:
				cc := n.Common()
				if cc.Value == v && !cc.IsInvoke() {
					uses = append(uses, u) // the tracked value is called
					continue
				}
				callee := cc.StaticCallee()
				if cc.IsInvoke() || callee == nil {
					escapes = append(escapes, u)
					continue
				}
				if callee.Blocks == nil || !IsRepoPkg(pkgPathOf(callee)) {
					uses = append(uses, u)
					continue
				}
				if depth <= 0 {
					escapes = append(escapes, u)
					continue
				}
				down := append(append([]ssa.CallInstruction{}, sites...), n)
				for i, a := range cc.Args {
					if a == v && i < len(callee.Params) {
						walk(callee.Params[i], down, depth-1)
					}
				}
			case *ssa.Return, *ssa.MakeInterface, *ssa.Send, *ssa.MapUpdate:
				escapes = append(escapes, u)
			default:
				// loads, field/index addressing, comparisons, …
				uses = append(uses, u)
			}
		}
	}
	walk(root, nil, depth)
	return uses, escapes
}

// localCellOnlyLoaded: the alloc is a plain local variable — every referrer is a store into it
// or a load from it (no address taken, no closure capture).
func localCellOnlyLoaded(al *ssa.Alloc) bool {
	if al.Referrers() == nil {
		return false
	}
	for _, r := range *al.Referrers() {
		switch n := r.(type) {
		case *ssa.DebugRef:
		case *ssa.Store:
			if n.Addr != ssa.Value(al) {
				return false
			}
		case *ssa.UnOp:
			if n.Op != token.MUL {
				return false
			}
		default:
			return false
		}
	}
	return true
}

// Value returns what the interpreter knows about v at the end of a path (PathResult.Final).
func (s *State) Value(v ssa.Value) (AV, bool) {
	if s == nil {
		return AV{}, false
	}
	av, ok := s.env[v]
	return av, ok
}
