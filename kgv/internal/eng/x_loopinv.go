package eng

import (
	"go/token"

	"golang.org/x/tools/go/ssa"
)

// LoopInvariant reports whether v provably has the same value on every iteration of l:
// it is defined outside the loop, is a constant, or is a pure operation (arithmetic,
// conversion, field/index address, load through an invariant address that the loop does not
// store to, static call) over invariant operands. Unknown shapes are "not invariant".
func LoopInvariant(v ssa.Value, l *Loop) bool {
	return loopInv(v, l, map[ssa.Value]bool{}, 0)
}

func loopInv(v ssa.Value, l *Loop, seen map[ssa.Value]bool, depth int) bool {
	if v == nil || depth > 12 {
		return false
	}
	switch v.(type) {
	case *ssa.Const, *ssa.Global, *ssa.Function, *ssa.Parameter, *ssa.FreeVar, *ssa.Builtin:
		return true
	}
	ins, ok := v.(ssa.Instruction)
	if !ok {
		return false
	}
	if ins.Block() == nil || !l.Blocks[ins.Block()] {
		return true
	}
	if seen[v] {
		return false
	}
	seen[v] = true
	all := func(ops ...ssa.Value) bool {
		for _, o := range ops {
			if o != nil && !loopInv(o, l, seen, depth+1) {
				return false
			}
		}
		return true
	}
	switch n := v.(type) {
	case *ssa.BinOp:
		return all(n.X, n.Y)
	case *ssa.UnOp:
		if n.Op == token.MUL {
			if !all(n.X) {
				return false
			}
			// a load: invariant only if nothing in the loop stores through the same address value
			for b := range l.Blocks {
				for _, i := range b.Instrs {
					if st, ok := i.(*ssa.Store); ok && st.Addr == n.X {
						return false
					}
				}
			}
			return true
		}
		if n.Op == token.ARROW {
			return false
		}
		return all(n.X)
	case *ssa.Convert:
		return all(n.X)
	case *ssa.ChangeType:
		return all(n.X)
	case *ssa.ChangeInterface:
		return all(n.X)
	case *ssa.MakeInterface:
		return all(n.X)
	case *ssa.FieldAddr:
		return all(n.X)
	case *ssa.Field:
		return all(n.X)
	case *ssa.IndexAddr:
		return all(n.X, n.Index)
	case *ssa.Index:
		return all(n.X, n.Index)
	case *ssa.Slice:
		return all(n.X, n.Low, n.High, n.Max)
	case *ssa.Extract:
		return all(n.Tuple)
	case *ssa.Call:
		if n.Call.IsInvoke() {
			return false
		}
		if n.Call.StaticCallee() == nil {
			if _, isB := n.Call.Value.(*ssa.Builtin); !isB {
				return false
			}
		}
		return all(n.Call.Args...)
	}
	return false // Phi, Next, Lookup with commaok, Alloc, …
}
