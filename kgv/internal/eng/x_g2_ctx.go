package eng

import (
	"go/token"
	"go/types"

	"golang.org/x/tools/go/ssa"
)

// ---------------------------------------------------------------------------------------
// Context-carrying value origin (added for C02/C12, second wave of refactorings).
//
// Slicer.Leaves inlines repository callees but reports bare SSA values: a leaf found inside
// a callee has lost the call through which the callee was entered, so a rule cannot ask
// "and what was that callee's parameter bound to". Compound refactorings (method → function
// taking the fields it needs, helper returning a tuple of objects, temporary strategy object
// replaced by direct arguments) move exactly the constructs a rule needs to relate — "the
// table that is read is the receiver's own", "the config handed to the wrapper is the
// endpoint's own" — to opposite sides of a call. CtxLeaves is the same backward slice with
// the downward call context kept for every leaf, and ResolveCtx maps a value of a leaf's
// function back through that context (parameters → arguments, captured variables → bound
// cells, fields of objects built on the way → the values stored into them) and, at the top,
// through the complete site lists of liftable helpers (ResolveUp).

// DFrame is one level of downward inlining: Callee entered through Call.
type DFrame struct {
	Call   *ssa.Call
	Callee *ssa.Function
	Parent *DFrame
}

// CtxVal is a value together with the context its function was entered through (nil: the
// function the query started in, or one reached by going up through call sites).
type CtxVal struct {
	V  ssa.Value
	Fr *DFrame
}

type dframeKey struct {
	call   *ssa.Call
	parent *DFrame
}

type ctxKey struct {
	v  ssa.Value
	fr *DFrame
}

// CtxLeaves returns the leaves of the backward slice of v (a value living in the function
// entered through fr) with their contexts. Results of repository functions are followed into
// the callee's return statements for at most depth nested calls; a parameter of an inlined
// callee continues in the argument of its call; with up, a parameter of a liftable helper at
// the top continues in the arguments of all its call sites (union). Values satisfying stop are
// reported as leaves and not expanded.
func (w *World) CtxLeaves(v ssa.Value, fr *DFrame, stop func(ssa.Value) bool, depth int, up bool) []CtxVal {
	return w.ctxLeaves(v, fr, stop, depth, up, false)
}

// CtxLeavesArgs is CtxLeaves with data dependence through calls: the result of a call that
// is not followed into its callee (a dependency's constructor, an interface method, a call
// beyond the depth bound) derives from the call's receiver and arguments. A followed call is
// described by what its callee returns.
func (w *World) CtxLeavesArgs(v ssa.Value, fr *DFrame, stop func(ssa.Value) bool, depth int, up bool) []CtxVal {
	return w.ctxLeaves(v, fr, stop, depth, up, true)
}

func (w *World) ctxLeaves(v ssa.Value, fr *DFrame, stop func(ssa.Value) bool, depth int, up, args bool) []CtxVal {
	frames := map[dframeKey]*DFrame{}
	seen := map[ctxKey]bool{}
	emitted := map[ctxKey]bool{}
	var out []CtxVal
	sl := &Slicer{W: w, Depth: 0}
	emit := func(x ssa.Value, f *DFrame) {
		k := ctxKey{x, f}
		if !emitted[k] {
			emitted[k] = true
			out = append(out, CtxVal{x, f})
		}
	}
	frDepth := func(f *DFrame) int {
		n := 0
		for ; f != nil; f = f.Parent {
			n++
		}
		return n
	}
	var rec func(v ssa.Value, f *DFrame, ups int)
	rec = func(v ssa.Value, f *DFrame, ups int) {
		k := ctxKey{v, f}
		if v == nil || seen[k] {
			return
		}
		seen[k] = true
		// with args the base slice must hand every call back to us (it would otherwise expand an
		// unfollowed call into its operands and drop the call): stop at call results as well
		stop2 := stop
		if args {
			stop2 = func(x ssa.Value) bool {
				if stop != nil && stop(x) {
					return true
				}
				cc, _ := CallResultOf(x)
				if cc == nil {
					return false
				}
				if b, isB := cc.Call.Value.(*ssa.Builtin); isB && b.Name() == "append" {
					return false
				}
				return true
			}
		}
		for _, l := range sl.Leaves(v, stop2) {
			if stop != nil && stop(l) {
				emit(l, f)
				continue
			}
			// (with args: the operands of a call are visited below, once it is known that the
			// call is not followed into its callee)
			switch n := l.(type) {
			case *ssa.Parameter:
				if f != nil && n.Parent() == f.Callee {
					if i := ParamIndex(n); i >= 0 && i < len(f.Call.Call.Args) {
						rec(f.Call.Call.Args[i], f.Parent, ups)
						continue
					}
				}
				if f == nil && up && ups < LiftDepth {
					if sites := w.UpArgSites(n); len(sites) > 0 {
						for _, s := range sites {
							rec(s.Arg, nil, ups+1)
						}
						continue
					}
				}
			case *ssa.Call, *ssa.Extract:
				call, idx := CallResultOf(l)
				if call == nil || frDepth(f) >= depth {
					break
				}
				g := call.Call.StaticCallee()
				if g == nil || !Analysable(g) {
					break
				}
				recursive := false
				for x := f; x != nil; x = x.Parent {
					if x.Callee == g {
						recursive = true
					}
				}
				if recursive {
					break
				}
				fk := dframeKey{call, f}
				nf := frames[fk]
				if nf == nil {
					nf = &DFrame{Call: call, Callee: g, Parent: f}
					frames[fk] = nf
				}
				if idx < 0 {
					idx = 0
				}
				found := false
				for _, b := range g.Blocks {
					if b == g.Recover || len(b.Instrs) == 0 {
						continue
					}
					r, ok := b.Instrs[len(b.Instrs)-1].(*ssa.Return)
					if !ok {
						continue
					}
					if vals := ReturnResults(r); idx < len(vals) {
						found = true
						rec(vals[idx], nf, ups)
					}
				}
				if found {
					continue
				}
			}
			if args {
				if cc, _ := CallResultOf(l); cc != nil && (len(cc.Call.Args) > 0 || cc.Call.IsInvoke()) {
					// not followed: represented by its operands
					if cc.Call.IsInvoke() || cc.Call.StaticCallee() == nil {
						rec(cc.Call.Value, f, ups)
					}
					for _, a := range cc.Call.Args {
						rec(a, f, ups)
					}
					continue
				}
			}
			emit(l, f)
		}
	}
	rec(v, fr, 0)
	return out
}

// frameOfFn returns the frame through which fn was entered (ok=false: fn is not on the chain,
// i.e. it is the top function or unrelated).
func frameOfFn(fn *ssa.Function, fr *DFrame) (*DFrame, bool) {
	for f := fr; f != nil; f = f.Parent {
		if f.Callee == fn {
			return f, true
		}
	}
	return nil, false
}

// ResolveCtx rewrites x, a value living in the function entered through fr, towards its
// definition: conversions and single-store spills are stripped, a parameter of an inlined
// callee becomes the argument of its call (a value of the parent context), a captured
// variable becomes the value stored into the captured cell, a load of a field of an object
// that was built on the way (`&T{f: v}` with exactly one store to f) becomes v, and — at the
// top of the context, with up — a parameter of a liftable helper becomes the value every one of
// its call sites binds it to (World.ResolveUp). The result is the first value that cannot be
// rewritten further.
func (w *World) ResolveCtx(x ssa.Value, fr *DFrame, up bool) CtxVal {
	for i := 0; i < 64 && x != nil; i++ {
		switch n := x.(type) {
		case *ssa.ChangeType:
			x = n.X
			continue
		case *ssa.ChangeInterface:
			x = n.X
			continue
		case *ssa.Parameter:
			if f, ok := frameOfFn(n.Parent(), fr); ok {
				if k := ParamIndex(n); k >= 0 && k < len(f.Call.Call.Args) {
					x, fr = f.Call.Call.Args[k], f.Parent
					continue
				}
			}
			if fr == nil && up {
				if r := w.ResolveUp(n); r != ssa.Value(n) {
					x = r
					continue
				}
			}
		case *ssa.Call, *ssa.Extract:
			// the result of a repository function with a single return statement (a constructor,
			// a naming helper): the returned value, in the callee's context
			call, idx := CallResultOf(x)
			if call == nil {
				break
			}
			// only objects: a pointer to a struct built by a constructor
			if pt, isPtr := x.Type().Underlying().(*types.Pointer); !isPtr {
				break
			} else if _, isStruct := pt.Elem().Underlying().(*types.Struct); !isStruct {
				break
			}
			g := call.Call.StaticCallee()
			if g == nil || !Analysable(g) {
				break
			}
			if _, onChain := frameOfFn(g, fr); onChain {
				break
			}
			var rets []*ssa.Return
			for _, b := range g.Blocks {
				if b == g.Recover || len(b.Instrs) == 0 {
					continue
				}
				if r, ok := b.Instrs[len(b.Instrs)-1].(*ssa.Return); ok {
					rets = append(rets, r)
				}
			}
			if idx < 0 {
				idx = 0
			}
			if len(rets) != 1 || idx >= len(rets[0].Results) {
				break
			}
			x, fr = ReturnResults(rets[0])[idx], &DFrame{Call: call, Callee: g, Parent: fr}
			continue
		case *ssa.UnOp:
			if n.Op != token.MUL {
				break
			}
			switch cell := n.X.(type) {
			case *ssa.Alloc:
				if sv := singleStoreShared(cell); sv != nil {
					x = sv
					continue
				}
			case *ssa.FreeVar:
				if bound, pf := freeVarBinding(cell); bound != nil {
					if al, ok := bound.(*ssa.Alloc); ok {
						if sv := singleStoreShared(al); sv != nil {
							x = sv
							if f, ok := frameOfFn(pf, fr); ok {
								fr = f
							} else if f, ok := frameOfFn(cell.Parent(), fr); ok {
								fr = f.Parent
							}
							continue
						}
					}
				}
			case *ssa.FieldAddr:
				base := w.ResolveCtx(cell.X, fr, up)
				if al, ok := base.V.(*ssa.Alloc); ok {
					if sv := singleFieldStore(al, cell.Field); sv != nil {
						x, fr = sv, base.Fr
						if f, ok := frameOfFn(al.Parent(), base.Fr); ok {
							fr = f
						}
						continue
					}
				}
			}
		}
		break
	}
	return CtxVal{x, fr}
}

// freeVarBinding returns the value bound to captured variable fv at the single MakeClosure
// that creates its function, and the function holding that MakeClosure.
func freeVarBinding(fv *ssa.FreeVar) (ssa.Value, *ssa.Function) {
	fn := fv.Parent()
	idx := -1
	for k, x := range fn.FreeVars {
		if x == fv {
			idx = k
		}
	}
	p := fn.Parent()
	if p == nil || idx < 0 {
		return nil, nil
	}
	var bound ssa.Value
	n := 0
	for _, pf := range WithClosures(outermost(p)) {
		Instrs(pf, func(ins ssa.Instruction) {
			if mc, ok := ins.(*ssa.MakeClosure); ok && mc.Fn == ssa.Value(fn) && idx < len(mc.Bindings) {
				bound = mc.Bindings[idx]
				p = pf
				n++
			}
		})
	}
	if n != 1 {
		return nil, nil
	}
	return bound, p
}

// singleFieldStore returns the only value stored into field number `field` of the object
// allocated by a (stores through &a.field in a's function and its closures); nil when there
// is none, more than one, or the object is overwritten as a whole.
func singleFieldStore(a *ssa.Alloc, field int) ssa.Value {
	if a.Referrers() == nil {
		return nil
	}
	var val ssa.Value
	n := 0
	for _, r := range *a.Referrers() {
		switch u := r.(type) {
		case *ssa.FieldAddr:
			if u.X != ssa.Value(a) || u.Field != field || u.Referrers() == nil {
				continue
			}
			for _, rr := range *u.Referrers() {
				if st, ok := rr.(*ssa.Store); ok && st.Addr == ssa.Value(u) {
					val = st.Val
					n++
				}
			}
		case *ssa.Store:
			if u.Addr == ssa.Value(a) {
				return nil // whole-object store
			}
		}
	}
	if n != 1 {
		return nil
	}
	return val
}

// UpVals returns the caller-side values v may stand for: v itself, or — while v is a
// parameter of a liftable helper (complete set of call sites known) — the arguments bound to
// it at every call site, transitively (depth ≤ LiftDepth). Conversions and single-store spills
// are stripped on the way. A rule that must hold for the helper's parameter holds when it
// holds for every returned value.
func (w *World) UpVals(v ssa.Value) []ssa.Value {
	var out []ssa.Value
	seen := map[ssa.Value]bool{}
	var rec func(v ssa.Value, depth int)
	rec = func(v ssa.Value, depth int) {
		for i := 0; i < 16; i++ {
			switch n := v.(type) {
			case *ssa.ChangeType:
				v = n.X
				continue
			case *ssa.UnOp:
				if a, ok := n.X.(*ssa.Alloc); ok && n.Op == token.MUL {
					if sv := singleStore(a); sv != nil {
						v = sv
						continue
					}
				}
				// a variable captured by a function literal that only reads it
				if fv, ok := n.X.(*ssa.FreeVar); ok && n.Op == token.MUL {
					if bound, _ := freeVarBinding(fv); bound != nil {
						if a, isA := bound.(*ssa.Alloc); isA {
							if sv := singleStoreShared(a); sv != nil {
								v = sv
								continue
							}
						}
					}
				}
			}
			break
		}
		if seen[v] {
			return
		}
		seen[v] = true
		if p, ok := v.(*ssa.Parameter); ok && depth > 0 {
			if sites := w.UpArgSites(p); len(sites) > 0 {
				for _, s := range sites {
					rec(s.Arg, depth-1)
				}
				return
			}
		}
		out = append(out, v)
	}
	rec(v, LiftDepth)
	return out
}

// SitesUp lifts ins to the instructions of anchor (or of one of anchor's closures) under which
// it executes — like SitesIn, but a chain may also end in a closure nested in anchor. nil when
// some chain does not end there or the callers are not completely known.
func (w *World) SitesUp(anchor *ssa.Function, ins ssa.Instruction) []ssa.Instruction {
	own := map[*ssa.Function]bool{}
	for _, f := range WithClosures(anchor) {
		own[f] = true
	}
	var out []ssa.Instruction
	seen := map[ssa.Instruction]bool{}
	var up func(i ssa.Instruction, depth int) bool
	up = func(i ssa.Instruction, depth int) bool {
		if i == nil || i.Parent() == nil || depth < 0 {
			return false
		}
		if own[i.Parent()] {
			if !seen[i] {
				seen[i] = true
				out = append(out, i)
			}
			return true
		}
		sites := w.GuardSites(i.Parent())
		if len(sites) == 0 {
			return false
		}
		for _, s := range sites {
			if !up(s.(ssa.Instruction), depth-1) {
				return false
			}
		}
		return true
	}
	if !up(ins, LiftDepth+2) {
		return nil
	}
	return out
}

// SingleStoreOf returns the only value stored into local cell a, which closures may capture
// but only read (nil: none, several, or written through a captured reference).
func SingleStoreOf(a *ssa.Alloc) ssa.Value { return singleStoreShared(a) }

// SingleFieldStoreOf returns the only value stored into field number `field` of the object
// allocated by a (nil: none, several, or the object is overwritten as a whole).
func SingleFieldStoreOf(a *ssa.Alloc, field int) ssa.Value { return singleFieldStore(a, field) }
