package eng

import (
	"go/token"

	"golang.org/x/tools/go/ssa"
)

// ---------------------------------------------------------------------------------------
// Lock regions across helpers (function summaries).
//
// LockStates (lockreg.go) is intra-procedural: it only sees Lock/RLock/Unlock/RUnlock calls
// written in the function itself. A behaviour-preserving extraction moves such calls into
// helpers, in particular into helpers that hand the lock over to their caller:
//
//	func (t *T) rlockEntry(k string) (*rec, bool) {   // on success the read lock is HELD
//		t.mu.RLock()
//		r, ok := t.m[k]
//		if !ok { t.mu.RUnlock(); return nil, false }
//		return r, true
//	}
//	func (t *T) use(k string) { r, ok := t.rlockEntry(k); if !ok { return }; defer t.mu.RUnlock(); r.n++ }
//
// LockStatesIP runs the same must-dataflow but applies, at a call of a repository function
// that (transitively) operates on the mutex, the callee's summary: the state of the mutex at
// each of its returns. When the returns disagree, the summary is keyed by a result that tells
// them apart — a boolean result that is a constant at every return ("acquires the lock when
// it returns true"), or a pointer/interface result that is the nil constant at some returns —
// and the caller's state stays *pending* until a branch on that very result decides it.

// lkState is the dataflow fact: a definite state, or a state pending on a call's result.
type lkState struct {
	s    LockState
	pend *ssa.Call // non-nil: the state is t when result idx of pend is true / non-nil, f otherwise
	idx  int
	nilK bool // the key is nil-ness (t: non-nil, f: nil) instead of a boolean
	t, f LockState
	dr   int8 // a deferred release of the mutex is registered: 0 no, 1 on all paths, 2 on some
}

func (a lkState) definite() LockState {
	if a.pend != nil {
		return LockMixed
	}
	return a.s
}

func meetLk(a, b lkState) lkState {
	dr := a.dr
	if a.dr != b.dr {
		dr = 2
	}
	a.dr, b.dr = 0, 0
	if a == b {
		a.dr = dr
		return a
	}
	return lkState{s: LockMixed, dr: dr}
}

// LockEffect is the summary of one function with respect to one mutex, for a given state at
// its entry.
type LockEffect struct {
	Touches    bool // the function (transitively) operates on the mutex
	MayRelease bool // some release of the mutex can execute during a call (incl. deferred ones)
	Uniform    bool // every return leaves the mutex in state State
	State      LockState
	Keyed      bool // otherwise: the state is decided by result KeyIdx
	KeyIdx     int
	KeyNil     bool      // key is nil-ness of the result (OnTrue: non-nil, OnFalse: nil); else its boolean value
	OnTrue     LockState // state when the key result is true / non-nil
	OnFalse    LockState // state when the key result is false / nil
}

type lockSumKey struct {
	fn    *ssa.Function
	entry LockState
}

// lockIP carries the memo tables of one analysis (one LockSpec).
type lockIP struct {
	sp      LockSpec
	sums    map[lockSumKey]*LockEffect
	touches map[*ssa.Function]int // 0 unknown, 1 no, 2 yes, 3 in progress
	relMemo map[*ssa.Function]int
}

const lockIPDepth = 4

func newLockIP(sp LockSpec) *lockIP {
	return &lockIP{sp: sp, sums: map[lockSumKey]*LockEffect{}, touches: map[*ssa.Function]int{}, relMemo: map[*ssa.Function]int{}}
}

// calleeOf returns the repository function with a body that a plain call runs (static callee
// or an immediately applied function literal).
func lockCallee(c ssa.CallInstruction) *ssa.Function {
	f := c.Common().StaticCallee()
	if f == nil {
		if mc, ok := c.Common().Value.(*ssa.MakeClosure); ok {
			f, _ = mc.Fn.(*ssa.Function)
		}
	}
	if f == nil || f.Blocks == nil {
		return nil
	}
	if p := pkgPathOf(f); !IsRepoPkg(p) && p != "fx" { // "fx": the import-free fixture package
		return nil
	}
	return f
}

// touchesMutex: fn or a function it calls (depth-bounded) operates on the mutex.
func (ip *lockIP) touchesMutex(fn *ssa.Function, depth int) bool {
	switch ip.touches[fn] {
	case 1, 3:
		return false
	case 2:
		return true
	}
	ip.touches[fn] = 3
	res := false
	for _, b := range fn.Blocks {
		for _, ins := range b.Instrs {
			if _, ok := ip.sp.op(ins); ok {
				res = true
			}
			if d, ok := ins.(*ssa.Defer); ok && ip.deferredRelease(d) {
				res = true
			}
			if c, ok := ins.(ssa.CallInstruction); ok && depth > 0 {
				if g := lockCallee(c); g != nil && g != fn && ip.touchesMutex(g, depth-1) {
					res = true
				}
			}
		}
	}
	if res {
		ip.touches[fn] = 2
	} else {
		ip.touches[fn] = 1
	}
	return res
}

// deferredRelease: `defer mu.Unlock()` / `defer mu.RUnlock()` on the mutex.
func (ip *lockIP) deferredRelease(d *ssa.Defer) bool {
	if !IsCall(d, "(*sync.RWMutex).Unlock", "(*sync.Mutex).Unlock", "(*sync.RWMutex).RUnlock") {
		if x, ok := ExtraLockNames[FullName(d)]; !ok || x != LockNone {
			return false
		}
	}
	r := Receiver(d)
	return r != nil && ip.sp.IsMutex(r)
}

// mayRelease: a call of fn can release the mutex (directly, deferred, or in a callee).
func (ip *lockIP) mayRelease(fn *ssa.Function, depth int) bool {
	switch ip.relMemo[fn] {
	case 1, 3:
		return false
	case 2:
		return true
	}
	ip.relMemo[fn] = 3
	res := false
	for _, b := range fn.Blocks {
		for _, ins := range b.Instrs {
			if ip.sp.IsRelease(ins) {
				res = true
			}
			if d, ok := ins.(*ssa.Defer); ok && ip.deferredRelease(d) {
				res = true
			}
			if c, ok := ins.(ssa.CallInstruction); ok && depth > 0 {
				if _, isGo := ins.(*ssa.Go); isGo {
					continue
				}
				if g := lockCallee(c); g != nil && g != fn && ip.mayRelease(g, depth-1) {
					res = true
				}
			}
		}
	}
	if res {
		ip.relMemo[fn] = 2
	} else {
		ip.relMemo[fn] = 1
	}
	return res
}

// flow runs the dataflow over fn with the given entry state and returns the state before
// every instruction.
func (ip *lockIP) flow(fn *ssa.Function, entry LockState, depth int) map[ssa.Instruction]lkState {
	if len(fn.Blocks) == 0 {
		return nil
	}
	in := map[*ssa.BasicBlock]lkState{}
	out := map[*ssa.BasicBlock]lkState{}
	known := map[*ssa.BasicBlock]bool{}
	step := func(ins ssa.Instruction, s lkState) lkState {
		if ns, ok := ip.sp.op(ins); ok {
			return lkState{s: ns, dr: s.dr}
		}
		if d, ok := ins.(*ssa.Defer); ok {
			if ip.deferredRelease(d) {
				s.dr = 1
			}
			return s
		}
		c, ok := ins.(*ssa.Call)
		if !ok || depth <= 0 {
			return s
		}
		g := lockCallee(c)
		if g == nil || g == fn || !ip.touchesMutex(g, lockIPDepth) {
			return s
		}
		eff := ip.effect(g, s.definite(), depth-1)
		switch {
		case eff == nil:
			return lkState{s: LockMixed, dr: s.dr}
		case eff.Uniform:
			return lkState{s: eff.State, dr: s.dr}
		case eff.Keyed:
			return lkState{pend: c, idx: eff.KeyIdx, nilK: eff.KeyNil, t: eff.OnTrue, f: eff.OnFalse, dr: s.dr}
		}
		return lkState{s: LockMixed, dr: s.dr}
	}
	transfer := func(b *ssa.BasicBlock, s lkState) lkState {
		for _, ins := range b.Instrs {
			s = step(ins, s)
		}
		return s
	}
	// the state on the edge p -> b: a pending state is decided by a branch on its key result
	onEdge := func(p, b *ssa.BasicBlock) lkState {
		s := out[p]
		if s.pend == nil || len(p.Instrs) == 0 || len(p.Succs) != 2 || p.Succs[0] == p.Succs[1] {
			return s
		}
		iff, ok := p.Instrs[len(p.Instrs)-1].(*ssa.If)
		if !ok {
			return s
		}
		isKey := func(v ssa.Value) bool {
			e, ok := v.(*ssa.Extract)
			if ok {
				return e.Tuple == ssa.Value(s.pend) && e.Index == s.idx
			}
			return v == ssa.Value(s.pend) && s.idx == 0
		}
		for _, r := range ImpliedRels(iff.Cond, p.Succs[0] == b) {
			switch {
			case !s.nilK && (r.Op == token.EQL || r.Op == token.NEQ) && isKey(r.X) && (IsBoolConst(r.Y, true) || IsBoolConst(r.Y, false)):
				if IsBoolConst(r.Y, true) == (r.Op == token.EQL) {
					return lkState{s: s.t, dr: s.dr}
				}
				return lkState{s: s.f, dr: s.dr}
			case s.nilK && (r.Op == token.EQL || r.Op == token.NEQ) && ((isKey(r.X) && IsNilConst(r.Y)) || (isKey(r.Y) && IsNilConst(r.X))):
				if r.Op == token.NEQ {
					return lkState{s: s.t, dr: s.dr}
				}
				return lkState{s: s.f, dr: s.dr}
			}
		}
		return s
	}
	changed := true
	for iter := 0; changed && iter < 50; iter++ {
		changed = false
		for _, b := range fn.Blocks {
			if b == fn.Recover {
				continue
			}
			var s lkState
			first := true
			if b == fn.Blocks[0] {
				s, first = lkState{s: entry}, false
			}
			for _, p := range b.Preds {
				if !known[p] {
					continue
				}
				e := onEdge(p, b)
				if first {
					s, first = e, false
				} else {
					s = meetLk(s, e)
				}
			}
			if first {
				continue
			}
			o := transfer(b, s)
			if !known[b] || in[b] != s || out[b] != o {
				known[b], in[b], out[b] = true, s, o
				changed = true
			}
		}
	}
	res := map[ssa.Instruction]lkState{}
	for _, b := range fn.Blocks {
		if !known[b] {
			continue
		}
		s := in[b]
		for _, ins := range b.Instrs {
			res[ins] = s
			s = step(ins, s)
		}
	}
	return res
}

// effect computes (memoised) the summary of fn for the given entry state.
func (ip *lockIP) effect(fn *ssa.Function, entry LockState, depth int) *LockEffect {
	key := lockSumKey{fn, entry}
	if e, ok := ip.sums[key]; ok {
		return e // nil while in progress (recursion): unknown
	}
	ip.sums[key] = nil
	eff := &LockEffect{Touches: ip.touchesMutex(fn, lockIPDepth), MayRelease: ip.mayRelease(fn, lockIPDepth)}
	if !eff.Touches {
		eff.Uniform, eff.State = true, entry
		ip.sums[key] = eff
		return eff
	}
	states := ip.flow(fn, entry, depth)
	type retInfo struct {
		ret *ssa.Return
		st  LockState
		res []ssa.Value
	}
	var rets []retInfo
	for _, b := range fn.Blocks {
		if b == fn.Recover || len(b.Instrs) == 0 {
			continue
		}
		ret, ok := b.Instrs[len(b.Instrs)-1].(*ssa.Return)
		if !ok {
			continue
		}
		s, reached := states[ret]
		if !reached {
			continue
		}
		st := s.definite()
		switch s.dr {
		case 1:
			st = LockNone
		case 2:
			st = LockMixed
		}
		rets = append(rets, retInfo{ret, st, ReturnResults(ret)})
	}
	if len(rets) == 0 {
		eff.Uniform, eff.State = true, LockMixed
		ip.sums[key] = eff
		return eff
	}
	uniform := true
	for _, r := range rets[1:] {
		if r.st != rets[0].st {
			uniform = false
		}
	}
	if uniform {
		eff.Uniform, eff.State = true, rets[0].st
		ip.sums[key] = eff
		return eff
	}
	nres := fn.Signature.Results().Len()
	// a boolean result that is a constant at every return and separates the states
	for i := nres - 1; i >= 0 && !eff.Keyed; i-- {
		if !isBoolType(fn.Signature.Results().At(i).Type()) {
			continue
		}
		var st [2]LockState
		var seen [2]bool
		ok := true
		for _, r := range rets {
			if i >= len(r.res) || !isBoolConstVal(r.res[i]) {
				ok = false
				break
			}
			k := 0
			if IsBoolConst(r.res[i], true) {
				k = 1
			}
			if !seen[k] {
				seen[k], st[k] = true, r.st
			} else {
				st[k] = meetLock(st[k], r.st)
			}
		}
		if ok && seen[0] && seen[1] {
			eff.Keyed, eff.KeyIdx, eff.KeyNil, eff.OnTrue, eff.OnFalse = true, i, false, st[1], st[0]
		}
	}
	// a pointer-like result that is the nil constant at some returns: a non-nil result can only
	// come from the other returns
	for i := 0; i < nres && !eff.Keyed; i++ {
		var nonNil, all LockState
		nNil, nOther := 0, 0
		for k, r := range rets {
			if i >= len(r.res) {
				nNil, nOther = 0, 0
				break
			}
			if k == 0 {
				all = r.st
			} else {
				all = meetLock(all, r.st)
			}
			if IsNilConst(r.res[i]) {
				nNil++
				continue
			}
			if nOther == 0 {
				nonNil = r.st
			} else {
				nonNil = meetLock(nonNil, r.st)
			}
			nOther++
		}
		if nNil > 0 && nOther > 0 && nonNil != LockMixed {
			eff.Keyed, eff.KeyIdx, eff.KeyNil, eff.OnTrue, eff.OnFalse = true, i, true, nonNil, all
		}
	}
	if !eff.Keyed {
		eff.Uniform, eff.State = true, LockMixed
	}
	ip.sums[key] = eff
	return eff
}

// LockRegions is the inter-procedural lock-region analysis for one mutex.
type LockRegions struct{ ip *lockIP }

// NewLockRegions prepares the analysis (summaries are memoised in the returned object).
func NewLockRegions(sp LockSpec) *LockRegions { return &LockRegions{newLockIP(sp)} }

// States returns, for every instruction of fn, the must-held state of the mutex immediately
// before it, given the state at fn's entry; calls of helpers that operate on the mutex are
// applied through their summaries.
func (lr *LockRegions) States(fn *ssa.Function, entry LockState) map[ssa.Instruction]LockState {
	res := map[ssa.Instruction]LockState{}
	for ins, s := range lr.ip.flow(fn, entry, lockIPDepth) {
		res[ins] = s.definite()
	}
	return res
}

// Effect returns the summary of fn for the given entry state (nil for bodiless functions).
func (lr *LockRegions) Effect(fn *ssa.Function, entry LockState) *LockEffect {
	if fn == nil || fn.Blocks == nil {
		return nil
	}
	return lr.ip.effect(fn, entry, lockIPDepth)
}

// MayRelease reports whether ins can release the mutex: a non-deferred release written in
// place, or a plain call of a repository function during which a release can execute.
func (lr *LockRegions) MayRelease(ins ssa.Instruction) bool {
	if lr.ip.sp.IsRelease(ins) {
		return true
	}
	c, ok := ins.(*ssa.Call)
	if !ok {
		return false
	}
	g := lockCallee(c)
	return g != nil && lr.ip.mayRelease(g, lockIPDepth)
}

// ReleasedBetween is eng.ReleasedBetween with helper calls that may release the mutex counted
// as releases.
func (lr *LockRegions) ReleasedBetween(v ssa.Value, use ssa.Instruction, defOf func(ssa.Value) ssa.Instruction) ssa.Instruction {
	return lr.releasedBetween(v, use, defOf, map[ssa.Value]bool{})
}

func (lr *LockRegions) releasedBetween(v ssa.Value, use ssa.Instruction, defOf func(ssa.Value) ssa.Instruction, seen map[ssa.Value]bool) ssa.Instruction {
	if seen[v] {
		return nil
	}
	seen[v] = true
	if p, ok := v.(*ssa.Phi); ok {
		if r := lr.releaseOnPath(p, use); r != nil {
			return r
		}
		for i, e := range p.Edges {
			pred := p.Block().Preds[i]
			term := pred.Instrs[len(pred.Instrs)-1]
			if r := lr.releasedBetween(e, term, defOf, seen); r != nil {
				return r
			}
		}
		return nil
	}
	d := defOf(v)
	if d == nil {
		return nil
	}
	return lr.releaseOnPath(d, use)
}

// releaseOnPath finds a (possible) release r with a path d → r → use that does not pass d again.
func (lr *LockRegions) releaseOnPath(d ssa.Instruction, use ssa.Instruction) ssa.Instruction {
	isD := func(i ssa.Instruction) bool { return i == d }
	fn := d.Parent()
	for _, b := range fn.Blocks {
		for _, r := range b.Instrs {
			if r == d || r == use || !lr.MayRelease(r) {
				continue
			}
			r := r
			if ReachAfter(d, PathQuery{Target: func(i ssa.Instruction) bool { return i == r }, Avoid: isD}) == nil {
				continue
			}
			if ReachAfter(r, PathQuery{Target: func(i ssa.Instruction) bool { return i == use }, Avoid: isD}) != nil {
				return r
			}
		}
	}
	return nil
}

// ReleaseFromEntry finds a (possible) release on a path from fn's entry to use.
func (lr *LockRegions) ReleaseFromEntry(fn *ssa.Function, use ssa.Instruction) ssa.Instruction {
	for _, b := range fn.Blocks {
		for _, r := range b.Instrs {
			if r == use || !lr.MayRelease(r) {
				continue
			}
			r := r
			if ReachFromEntry(fn, PathQuery{Target: func(i ssa.Instruction) bool { return i == r }}) == nil {
				continue
			}
			if ReachAfter(r, PathQuery{Target: func(i ssa.Instruction) bool { return i == use }}) != nil {
				return r
			}
		}
	}
	return nil
}
