package eng

import (
	"fmt"
	"go/ast"
	"go/parser"
	"go/token"
	"go/types"

	"golang.org/x/tools/go/ssa"
	"golang.org/x/tools/go/ssa/ssautil"
)

// BuildFixture type-checks one import-free source file (package fx) and lowers it to SSA.
// Fixtures are the self-tests of the rule templates: a bad variant on which the template
// must fire and a good variant on which it must be silent.
func BuildFixture(src string) (*ssa.Package, *token.FileSet, error) {
	fset := token.NewFileSet()
	f, err := parser.ParseFile(fset, "fx.go", src, parser.SkipObjectResolution)
	if err != nil {
		return nil, nil, fmt.Errorf("fixture parse: %v", err)
	}
	pkg := types.NewPackage("fx", "fx")
	sp, _, err := ssautil.BuildPackage(&types.Config{}, fset, pkg, []*ast.File{f}, ssa.InstantiateGenerics)
	if err != nil {
		return nil, nil, fmt.Errorf("fixture build: %v", err)
	}
	return sp, fset, nil
}

// FxFunc returns function name of a fixture package.
func FxFunc(p *ssa.Package, name string) *ssa.Function { return p.Func(name) }

// FxMethod returns method typ.name of a fixture package.
func FxMethod(p *ssa.Package, typ, name string) *ssa.Function {
	o := p.Pkg.Scope().Lookup(typ)
	if o == nil {
		return nil
	}
	n, ok := o.Type().(*types.Named)
	if !ok {
		return nil
	}
	for i := 0; i < n.NumMethods(); i++ {
		if n.Method(i).Name() == name {
			return p.Prog.FuncValue(n.Method(i))
		}
	}
	return nil
}
