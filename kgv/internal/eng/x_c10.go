package eng

import (
	"go/token"
	"go/types"

	"golang.org/x/tools/go/ssa"
)

// ---------------------------------------------------------------------------------------
// Implied facts (extension of A2, added for C10/C15).
//
// GuardsOf gives the if-edges that dominate an instruction. A guard condition is often not
// a comparison itself but a boolean computed from comparisons: the phi of `a && b`, or the
// result of a small same-repository predicate helper (`if m.owns(name, cluster) {…}`).
// FactsAt expands such conditions into the relational facts they imply:
//
//   - `!x` flips the wanted truth value;
//   - a comparison gives its (possibly negated) relation;
//   - a boolean phi that can take the wanted truth value on exactly one incoming edge
//     implies that edge's value and every guard of the predecessor block (this is how
//     `a && b == true` yields both `a` and `b`); with several feasible edges the facts
//     common to all of them are kept;
//   - a call to a repository function returning one bool implies, for the wanted truth
//     value, the facts common to every return statement that can produce it (the return
//     value's own facts plus the guards of the returning block), up to `depth` nested calls.
//
// Facts found inside a callee mention the callee's SSA values; CallEnv.Resolve maps the
// callee's parameters back to the actual arguments of the call.

// CallEnv binds the parameters of an expanded callee to the arguments of its call site.
type CallEnv struct {
	Call   *ssa.Call
	Callee *ssa.Function
	Parent *CallEnv
}

// Resolve maps v, while it is a parameter of an expanded callee, to the actual argument
// at the call site (transitively). It returns the value and the environment it lives in
// (nil: the function the query started in).
func (e *CallEnv) Resolve(v ssa.Value) (ssa.Value, *CallEnv) {
	for e != nil {
		p, ok := v.(*ssa.Parameter)
		if !ok || p.Parent() != e.Callee {
			return v, e
		}
		idx := -1
		for i, q := range e.Callee.Params {
			if q == p {
				idx = i
			}
		}
		args := e.Call.Call.Args
		if idx < 0 || idx >= len(args) {
			return v, e
		}
		v = args[idx]
		e = e.Parent
	}
	return v, nil
}

// Fact is a relation known to hold, stated over the SSA values of the function identified
// by Env (nil: the function of the queried instruction).
type Fact struct {
	Rel Rel
	Env *CallEnv
}

// X returns the left operand with callee parameters resolved to call-site arguments.
func (f Fact) X() ssa.Value { v, _ := f.Env.Resolve(f.Rel.X); return v }

// Y returns the right operand with callee parameters resolved to call-site arguments.
func (f Fact) Y() ssa.Value { v, _ := f.Env.Resolve(f.Rel.Y); return v }

type factKey struct {
	v      ssa.Value
	branch bool
	env    *CallEnv
}

type factState struct {
	memo  map[factKey][]Fact
	busy  map[factKey]bool
	bmemo map[blockKey][]Fact
}

type blockKey struct {
	b   *ssa.BasicBlock
	env *CallEnv
}

// FactsAt returns the facts implied by the guards of ins, expanding boolean phis and
// predicate helpers up to depth nested calls.
func FactsAt(ins ssa.Instruction, depth int) []Fact {
	st := &factState{memo: map[factKey][]Fact{}, busy: map[factKey]bool{}, bmemo: map[blockKey][]Fact{}}
	return st.blockFacts(ins.Block(), nil, depth)
}

// ImpliedFacts returns the facts implied by "cond has truth value branch".
func ImpliedFacts(cond ssa.Value, branch bool, depth int) []Fact {
	st := &factState{memo: map[factKey][]Fact{}, busy: map[factKey]bool{}, bmemo: map[blockKey][]Fact{}}
	return st.implied(cond, branch, nil, depth)
}

func (st *factState) blockFacts(b *ssa.BasicBlock, env *CallEnv, depth int) []Fact {
	k := blockKey{b, env}
	if fs, ok := st.bmemo[k]; ok {
		return fs
	}
	st.bmemo[k] = nil
	var out []Fact
	for _, g := range GuardsOfBlock(b) {
		out = append(out, st.implied(g.If.Cond, g.Branch, env, depth)...)
	}
	st.bmemo[k] = out
	return out
}

func isBoolType(t types.Type) bool {
	b, ok := t.Underlying().(*types.Basic)
	return ok && b.Info()&types.IsBoolean != 0
}

func (st *factState) implied(cond ssa.Value, branch bool, env *CallEnv, depth int) []Fact {
	for {
		if u, ok := cond.(*ssa.UnOp); ok && u.Op == token.NOT {
			cond = u.X
			branch = !branch
			continue
		}
		break
	}
	k := factKey{cond, branch, env}
	if fs, ok := st.memo[k]; ok {
		return fs
	}
	if st.busy[k] {
		return nil
	}
	st.busy[k] = true
	defer delete(st.busy, k)

	self := Fact{Rel{token.EQL, cond, boolConst(branch)}, env}
	var out []Fact
	switch n := cond.(type) {
	case *ssa.Const:
		// nothing
	case *ssa.BinOp:
		switch n.Op {
		case token.EQL, token.NEQ, token.LSS, token.LEQ, token.GTR, token.GEQ:
			r := RelOf(n, branch)
			out = append(out, Fact{r, env})
			// comparison of a boolean with a boolean constant: descend into the boolean
			if r.Op == token.EQL || r.Op == token.NEQ {
				for _, side := range [][2]ssa.Value{{r.X, r.Y}, {r.Y, r.X}} {
					c, isC := side[1].(*ssa.Const)
					if !isC || c.Value == nil || !isBoolType(c.Type()) || !isBoolType(side[0].Type()) {
						continue
					}
					want := IsBoolConst(c, true)
					if r.Op == token.NEQ {
						want = !want
					}
					out = append(out, st.implied(side[0], want, env, depth)...)
				}
			}
		case token.AND:
			if isBoolType(n.Type()) && branch {
				out = append(out, st.implied(n.X, true, env, depth)...)
				out = append(out, st.implied(n.Y, true, env, depth)...)
			}
			out = append(out, self)
		case token.OR:
			if isBoolType(n.Type()) && !branch {
				out = append(out, st.implied(n.X, false, env, depth)...)
				out = append(out, st.implied(n.Y, false, env, depth)...)
			}
			out = append(out, self)
		default:
			out = append(out, self)
		}
	case *ssa.Phi:
		out = append(out, self)
		var sets [][]Fact
		for i, e := range n.Edges {
			if IsBoolConst(e, !branch) {
				continue // this edge cannot produce the wanted truth value
			}
			var fs []Fact
			if _, isC := e.(*ssa.Const); !isC {
				fs = append(fs, st.implied(e, branch, env, depth)...)
			}
			if i < len(n.Block().Preds) {
				pred := n.Block().Preds[i]
				fs = append(fs, st.blockFacts(pred, env, depth)...)
				// the condition of the edge pred -> phi block itself
				if iff, ok := pred.Instrs[len(pred.Instrs)-1].(*ssa.If); ok && pred.Succs[0] != pred.Succs[1] {
					if pred.Succs[0] == n.Block() {
						fs = append(fs, st.implied(iff.Cond, true, env, depth)...)
					} else if pred.Succs[1] == n.Block() {
						fs = append(fs, st.implied(iff.Cond, false, env, depth)...)
					}
				}
			}
			sets = append(sets, fs)
		}
		out = append(out, intersectFacts(sets)...)
	case *ssa.Call:
		out = append(out, self)
		callee := n.Call.StaticCallee()
		if callee == nil || callee.Blocks == nil || depth <= 0 || callee.Pkg == nil {
			break
		}
		if !IsRepoPkg(callee.Pkg.Pkg.Path()) && callee.Pkg != n.Parent().Pkg {
			break // only repository helpers (or, for fixtures, helpers of the same package)
		}
		if res := callee.Signature.Results(); res.Len() != 1 || !isBoolType(res.At(0).Type()) {
			break
		}
		rec := false
		for e := env; e != nil; e = e.Parent {
			if e.Callee == callee {
				rec = true
			}
		}
		if rec {
			break
		}
		nenv := &CallEnv{Call: n, Callee: callee, Parent: env}
		var sets [][]Fact
		for _, b := range callee.Blocks {
			if b == callee.Recover || len(b.Instrs) == 0 {
				continue
			}
			r, ok := b.Instrs[len(b.Instrs)-1].(*ssa.Return)
			if !ok || len(r.Results) != 1 || !Reachable(callee, b) {
				continue
			}
			if IsBoolConst(r.Results[0], !branch) {
				continue
			}
			var fs []Fact
			if _, isC := r.Results[0].(*ssa.Const); !isC {
				fs = append(fs, st.implied(r.Results[0], branch, nenv, depth-1)...)
			}
			fs = append(fs, st.blockFacts(b, nenv, depth-1)...)
			sets = append(sets, fs)
		}
		out = append(out, intersectFacts(sets)...)
	default:
		out = append(out, self)
	}
	st.memo[k] = out
	return out
}

func sameOperand(a, b ssa.Value) bool {
	if a == b {
		return true
	}
	ca, ok1 := a.(*ssa.Const)
	cb, ok2 := b.(*ssa.Const)
	if ok1 && ok2 {
		if ca.Value == nil || cb.Value == nil {
			return ca.Value == nil && cb.Value == nil && types.Identical(ca.Type(), cb.Type())
		}
		return ca.Value.ExactString() == cb.Value.ExactString() && types.Identical(ca.Type(), cb.Type())
	}
	return false
}

func sameFact(a, b Fact) bool {
	return a.Env == b.Env && a.Rel.Op == b.Rel.Op && sameOperand(a.Rel.X, b.Rel.X) && sameOperand(a.Rel.Y, b.Rel.Y)
}

// intersectFacts keeps the facts present in every set (one set: that set).
func intersectFacts(sets [][]Fact) []Fact {
	if len(sets) == 0 {
		return nil
	}
	out := sets[0]
	for _, s := range sets[1:] {
		var keep []Fact
		for _, f := range out {
			for _, g := range s {
				if sameFact(f, g) {
					keep = append(keep, f)
					break
				}
			}
		}
		out = keep
	}
	return out
}

// ---------------------------------------------------------------------------------------
// Small structural helpers shared by the C10/C15 rules.

// SameValue reports whether a and b denote the same value: the same SSA value, or two
// side-effect-free reads of the same location (loads of the same field/element address
// expressions built from the same SSA operands: `s[i]` read twice, `x.f` read twice).
// It does not look for intervening stores; use it on locals and on immutable-by-convention
// fields only.
func SameValue(a, b ssa.Value) bool { return sameValueDepth(a, b, 6) }

func sameValueDepth(a, b ssa.Value, d int) bool {
	if a == b {
		return true
	}
	if d == 0 || a == nil || b == nil {
		return false
	}
	switch x := a.(type) {
	case *ssa.Const:
		return sameOperand(a, b)
	case *ssa.UnOp:
		y, ok := b.(*ssa.UnOp)
		if !ok || x.Op != y.Op || x.Op != token.MUL {
			return false
		}
		// loads of single-store spill cells: compare the stored values
		if ax, ok := x.X.(*ssa.Alloc); ok {
			if ay, ok := y.X.(*ssa.Alloc); ok && ax != ay {
				sa, sb := singleStore(ax), singleStore(ay)
				return sa != nil && sb != nil && sameValueDepth(sa, sb, d-1)
			}
		}
		return sameValueDepth(x.X, y.X, d-1)
	case *ssa.FieldAddr:
		y, ok := b.(*ssa.FieldAddr)
		return ok && x.Field == y.Field && sameValueDepth(x.X, y.X, d-1)
	case *ssa.Field:
		y, ok := b.(*ssa.Field)
		return ok && x.Field == y.Field && sameValueDepth(x.X, y.X, d-1)
	case *ssa.IndexAddr:
		y, ok := b.(*ssa.IndexAddr)
		return ok && sameValueDepth(x.X, y.X, d-1) && sameValueDepth(x.Index, y.Index, d-1)
	case *ssa.Index:
		y, ok := b.(*ssa.Index)
		return ok && sameValueDepth(x.X, y.X, d-1) && sameValueDepth(x.Index, y.Index, d-1)
	case *ssa.ChangeType:
		y, ok := b.(*ssa.ChangeType)
		return ok && sameValueDepth(x.X, y.X, d-1)
	}
	return false
}

// FieldBase returns the base value of a load of field typ.name (v = *(&base.name) or
// base.name), or nil when v is not such a load.
func FieldBase(v ssa.Value, typ, name string) ssa.Value {
	if !FieldLoadOf(v, typ, name) {
		return nil
	}
	switch n := v.(type) {
	case *ssa.UnOp:
		if fa, ok := n.X.(*ssa.FieldAddr); ok {
			return fa.X
		}
	case *ssa.Field:
		return n.X
	}
	return nil
}

// Outermost returns the top-level function enclosing fn (fn itself if it is not a closure).
func Outermost(fn *ssa.Function) *ssa.Function { return outermost(fn) }

// FuncOfValue resolves a function value to the declared function it denotes: a function,
// a closure (its body), or a bound method value (the method). nil when unknown.
func (w *World) FuncOfValue(v ssa.Value) *ssa.Function {
	for {
		switch n := v.(type) {
		case *ssa.ChangeType:
			v = n.X
			continue
		case *ssa.MakeInterface:
			v = n.X
			continue
		case *ssa.Function:
			return n
		case *ssa.MakeClosure:
			fn, _ := n.Fn.(*ssa.Function)
			if fn == nil {
				return nil
			}
			if fn.Synthetic != "" {
				if o, ok := fn.Object().(*types.Func); ok {
					if f := w.Prog.FuncValue(o); f != nil {
						return f
					}
				}
				// bound wrapper: the single static call inside is the method
				for _, ci := range Calls(fn) {
					if f := ci.Common().StaticCallee(); f != nil {
						return f
					}
				}
			}
			return fn
		}
		return nil
	}
}

// CycleAvoiding returns a block of fn that lies on a CFG cycle none of whose blocks
// contains an instruction satisfying cut (nil: every cycle of fn passes a cut instruction).
// A block containing a cut instruction is treated as removed from the graph.
func CycleAvoiding(fn *ssa.Function, cut func(ssa.Instruction) bool) *ssa.BasicBlock {
	removed := map[*ssa.BasicBlock]bool{}
	for _, b := range fn.Blocks {
		for _, ins := range b.Instrs {
			if cut(ins) {
				removed[b] = true
				break
			}
		}
	}
	for _, b := range fn.Blocks {
		if removed[b] || b == fn.Recover {
			continue
		}
		seen := map[*ssa.BasicBlock]bool{}
		work := []*ssa.BasicBlock{}
		for _, s := range b.Succs {
			if !removed[s] {
				work = append(work, s)
			}
		}
		for len(work) > 0 {
			x := work[len(work)-1]
			work = work[:len(work)-1]
			if x == b {
				return b
			}
			if seen[x] {
				continue
			}
			seen[x] = true
			for _, s := range x.Succs {
				if !removed[s] {
					work = append(work, s)
				}
			}
		}
	}
	return nil
}
