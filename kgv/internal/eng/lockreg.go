package eng

import (
	"golang.org/x/tools/go/ssa"
)

// ---------------------------------------------------------------------------------------
// A7 lock regions.

// LockState is the must-held state of one mutex at a program point.
type LockState int

// Lock states.
const (
	LockNone LockState = iota
	LockShared
	LockExcl
	LockMixed // held on some incoming paths only / in different modes: treated as not held
)

func (s LockState) String() string {
	return [...]string{"not held", "held shared", "held exclusive", "held on some paths only"}[s]
}

// LockSpec identifies the operations on one mutex.
type LockSpec struct {
	// IsMutex recognises the mutex operand (receiver of Lock/RLock/Unlock/RUnlock).
	IsMutex func(v ssa.Value) bool
}

// ExtraLockNames lets fixtures declare their own mutex type (callee full name -> effect).
var ExtraLockNames map[string]LockState

func (sp LockSpec) op(ins ssa.Instruction) (LockState, bool) {
	c, ok := ins.(*ssa.Call) // deferred releases keep the mutex held to the exit: ignored
	if !ok {
		return 0, false
	}
	var st LockState
	if x, ok := ExtraLockNames[FullName(c)]; ok && ExtraLockNames != nil {
		r := Receiver(c)
		if r == nil || !sp.IsMutex(r) {
			return 0, false
		}
		return x, true
	}
	switch {
	case IsCall(c, "(*sync.RWMutex).Lock", "(*sync.Mutex).Lock"):
		st = LockExcl
	case IsCall(c, "(*sync.RWMutex).RLock"):
		st = LockShared
	case IsCall(c, "(*sync.RWMutex).Unlock", "(*sync.Mutex).Unlock", "(*sync.RWMutex).RUnlock"):
		st = LockNone
	default:
		return 0, false
	}
	r := Receiver(c)
	if r == nil || !sp.IsMutex(r) {
		return 0, false
	}
	return st, true
}

// IsRelease reports whether ins is a non-deferred release of the mutex.
func (sp LockSpec) IsRelease(ins ssa.Instruction) bool {
	st, ok := sp.op(ins)
	return ok && st == LockNone
}

// IsAcquire reports whether ins is a non-deferred acquisition of the mutex.
func (sp LockSpec) IsAcquire(ins ssa.Instruction) bool {
	st, ok := sp.op(ins)
	return ok && st != LockNone
}

func meetLock(a, b LockState) LockState {
	if a == b {
		return a
	}
	return LockMixed
}

// LockStates computes, for every instruction of fn, the state of the mutex immediately
// before it (forward must-dataflow; joins of different states give LockMixed).
func LockStates(fn *ssa.Function, sp LockSpec) map[ssa.Instruction]LockState {
	in := map[*ssa.BasicBlock]LockState{}
	out := map[*ssa.BasicBlock]LockState{}
	known := map[*ssa.BasicBlock]bool{}
	if len(fn.Blocks) == 0 {
		return nil
	}
	transfer := func(b *ssa.BasicBlock, s LockState) LockState {
		for _, ins := range b.Instrs {
			if ns, ok := sp.op(ins); ok {
				s = ns
			}
		}
		return s
	}
	changed := true
	for iter := 0; changed && iter < 50; iter++ {
		changed = false
		for _, b := range fn.Blocks {
			var s LockState
			first := true
			if b == fn.Blocks[0] {
				s, first = LockNone, false
			}
			for _, p := range b.Preds {
				if !known[p] {
					continue
				}
				if first {
					s, first = out[p], false
				} else {
					s = meetLock(s, out[p])
				}
			}
			if first {
				continue // unreachable so far
			}
			o := transfer(b, s)
			if !known[b] || in[b] != s || out[b] != o {
				known[b], in[b], out[b] = true, s, o
				changed = true
			}
		}
	}
	res := map[ssa.Instruction]LockState{}
	for _, b := range fn.Blocks {
		if !known[b] {
			continue
		}
		s := in[b]
		for _, ins := range b.Instrs {
			res[ins] = s
			if ns, ok := sp.op(ins); ok {
				s = ns
			}
		}
	}
	return res
}

// ReleasedBetween reports whether some non-deferred release of the mutex can execute
// between the definition of value v and instruction use, along the value-flow of v:
// for a phi, on the way from the phi to the use, or — recursively — between an incoming
// value's definition and the end of the corresponding predecessor block. Paths that
// re-execute the definition are excluded (the value is overwritten there). defOf maps a
// value to the instruction that "binds" it to the guarded structure (e.g. the map lookup
// of an Extract, or the map update that published a fresh object); values for which it
// returns nil are unconstrained.
func ReleasedBetween(v ssa.Value, use ssa.Instruction, sp LockSpec, defOf func(ssa.Value) ssa.Instruction) ssa.Instruction {
	return releasedBetween(v, use, sp, defOf, map[ssa.Value]bool{})
}

func releasedBetween(v ssa.Value, use ssa.Instruction, sp LockSpec, defOf func(ssa.Value) ssa.Instruction, seen map[ssa.Value]bool) ssa.Instruction {
	if seen[v] {
		return nil
	}
	seen[v] = true
	if p, ok := v.(*ssa.Phi); ok {
		if r := releaseOnPath(p, use, sp); r != nil {
			return r
		}
		for i, e := range p.Edges {
			pred := p.Block().Preds[i]
			term := pred.Instrs[len(pred.Instrs)-1]
			if r := releasedBetween(e, term, sp, defOf, seen); r != nil {
				return r
			}
		}
		return nil
	}
	d := defOf(v)
	if d == nil {
		return nil
	}
	return releaseOnPath(d, use, sp)
}

// releaseOnPath finds a release r with a path d → r → use that does not pass d again.
func releaseOnPath(d ssa.Instruction, use ssa.Instruction, sp LockSpec) ssa.Instruction {
	notD := func(i ssa.Instruction) bool { return i == d }
	var found ssa.Instruction
	fn := d.Parent()
	for _, b := range fn.Blocks {
		for _, r := range b.Instrs {
			if found != nil || !sp.IsRelease(r) {
				continue
			}
			reachR := ReachAfter(d, PathQuery{Target: func(i ssa.Instruction) bool { return i == r }, Avoid: notD}) != nil
			if !reachR {
				continue
			}
			if r == use {
				continue
			}
			reachU := ReachAfter(r, PathQuery{Target: func(i ssa.Instruction) bool { return i == use }, Avoid: notD}) != nil
			if reachU {
				found = r
			}
		}
	}
	return found
}
