// Package eng is the shared analysis library of kgv: loading the resolved program,
// anchor lookup, CFG/path/guard queries, value origin, and the obligation/evidence model.
package eng

import (
	"fmt"
	"go/token"
	"go/types"
	"os"
	"sort"
	"strings"
	"time"

	"golang.org/x/tools/go/packages"
	"golang.org/x/tools/go/ssa"
	"golang.org/x/tools/go/ssa/ssautil"
)

// RepoModule is the module path of the analysed repository.
const RepoModule = "github.com/kubewharf/kubegateway"

// RuntimeModule is the staging module that is part of the repository.
const RuntimeModule = "github.com/kubewharf/apiserver-runtime"

// World is the loaded, type-checked program lowered to SSA.
type World struct {
	Dir      string
	Roots    []*packages.Package
	All      map[string]*packages.Package
	Prog     *ssa.Program
	Fset     *token.FileSet
	LoadTime time.Duration
	SSATime  time.Duration

	funcsByPkg map[string][]*ssa.Function
	pdomCache  map[*ssa.Function]*PostDom
	allFuncs   []*ssa.Function
	cidx       *callerIndex
	invoked    map[string][]*types.Interface
}

// Load type-checks ./pkg/... ./plugin/... ./cmd/... of the repository at dir (with all
// dependencies from source) and builds SSA for everything. Any package error is returned:
// a verdict that was not computed on a fully resolved program is never a pass.
func Load(dir string, patterns ...string) (*World, error) {
	if len(patterns) == 0 {
		patterns = []string{"./pkg/...", "./plugin/...", "./cmd/..."}
	}
	t0 := time.Now()
	env := []string{}
	for _, e := range os.Environ() {
		if strings.HasPrefix(e, "GOWORK=") || strings.HasPrefix(e, "GOFLAGS=") ||
			strings.HasPrefix(e, "GOPROXY=") || strings.HasPrefix(e, "GOSUMDB=") ||
			strings.HasPrefix(e, "GOTOOLCHAIN=") {
			continue
		}
		env = append(env, e)
	}
	env = append(env, "GOWORK=off", "GOFLAGS=-mod=mod", "GOPROXY=off", "GOSUMDB=off", "GOTOOLCHAIN=local")
	cfg := &packages.Config{
		Mode:  packages.LoadAllSyntax,
		Dir:   dir,
		Env:   env,
		Tests: false,
	}
	pkgs, err := packages.Load(cfg, patterns...)
	if err != nil {
		return nil, fmt.Errorf("packages.Load: %v", err)
	}
	if len(pkgs) == 0 {
		return nil, fmt.Errorf("packages.Load matched zero packages in %s", dir)
	}
	w := &World{Dir: dir, Roots: pkgs, All: map[string]*packages.Package{}, pdomCache: map[*ssa.Function]*PostDom{}}
	var errs []string
	packages.Visit(pkgs, nil, func(p *packages.Package) {
		w.All[p.PkgPath] = p
		for _, e := range p.Errors {
			errs = append(errs, fmt.Sprintf("%s: %v", p.PkgPath, e))
		}
		if p.Fset != nil {
			w.Fset = p.Fset
		}
	})
	if len(errs) > 0 {
		sort.Strings(errs)
		if len(errs) > 10 {
			errs = errs[:10]
		}
		return nil, fmt.Errorf("package errors (%d shown): %s", len(errs), strings.Join(errs, "; "))
	}
	w.LoadTime = time.Since(t0)
	t1 := time.Now()
	prog, _ := ssautil.AllPackages(pkgs, ssa.InstantiateGenerics)
	prog.Build()
	w.Prog = prog
	w.SSATime = time.Since(t1)
	Current = w
	return w, nil
}

// IsRepoPkg reports whether path belongs to the analysed repository (main or staging module).
func IsRepoPkg(path string) bool {
	return path == RepoModule || strings.HasPrefix(path, RepoModule+"/") ||
		path == RuntimeModule || strings.HasPrefix(path, RuntimeModule+"/")
}

// RepoPackages returns the SSA packages of the repository, sorted by path.
func (w *World) RepoPackages() []*ssa.Package {
	var out []*ssa.Package
	for _, p := range w.Prog.AllPackages() {
		if IsRepoPkg(p.Pkg.Path()) {
			out = append(out, p)
		}
	}
	sort.Slice(out, func(i, j int) bool { return out[i].Pkg.Path() < out[j].Pkg.Path() })
	return out
}

// Pkg returns the SSA package with the given path, or nil.
func (w *World) Pkg(path string) *ssa.Package {
	p, ok := w.All[path]
	if !ok || p.Types == nil {
		return nil
	}
	return w.Prog.Package(p.Types)
}

// FuncsOf returns every function with a body whose source lives in package path:
// package-level functions, methods of its named types, and all nested closures.
func (w *World) FuncsOf(path string) []*ssa.Function {
	if w.funcsByPkg == nil {
		w.funcsByPkg = map[string][]*ssa.Function{}
	}
	if fs, ok := w.funcsByPkg[path]; ok {
		return fs
	}
	p := w.Pkg(path)
	if p == nil {
		return nil
	}
	seen := map[*ssa.Function]bool{}
	var out []*ssa.Function
	var add func(f *ssa.Function)
	add = func(f *ssa.Function) {
		if f == nil || seen[f] || f.Blocks == nil {
			return
		}
		if f.Synthetic != "" && !strings.HasPrefix(f.Synthetic, "package init") {
			// wrappers/bound thunks have no source of their own
			if f.Syntax() == nil {
				return
			}
		}
		seen[f] = true
		out = append(out, f)
		for _, a := range f.AnonFuncs {
			add(a)
		}
	}
	var names []string
	for n := range p.Members {
		names = append(names, n)
	}
	sort.Strings(names)
	for _, n := range names {
		switch m := p.Members[n].(type) {
		case *ssa.Function:
			add(m)
		case *ssa.Type:
			t := m.Type()
			for _, tt := range []types.Type{t, types.NewPointer(t)} {
				ms := w.Prog.MethodSets.MethodSet(tt)
				for i := 0; i < ms.Len(); i++ {
					sel := ms.At(i)
					fn := w.Prog.MethodValue(sel)
					if fn == nil || fn.Pkg != p {
						continue
					}
					if fn.Synthetic != "" { // promoted/wrapper methods
						continue
					}
					add(fn)
				}
			}
		}
	}
	w.funcsByPkg[path] = out
	return out
}

// AllRepoFuncs returns the functions of every repository package.
func (w *World) AllRepoFuncs() []*ssa.Function {
	if w.allFuncs != nil {
		return w.allFuncs
	}
	for _, p := range w.RepoPackages() {
		w.allFuncs = append(w.allFuncs, w.FuncsOf(p.Pkg.Path())...)
	}
	return w.allFuncs
}

// Func returns the package-level function path.name, or nil.
func (w *World) Func(path, name string) *ssa.Function {
	p := w.Pkg(path)
	if p == nil {
		return nil
	}
	return p.Func(name)
}

// Named returns the named type path.name, or nil.
func (w *World) Named(path, name string) *types.Named {
	p, ok := w.All[path]
	if !ok || p.Types == nil {
		return nil
	}
	o := p.Types.Scope().Lookup(name)
	if o == nil {
		return nil
	}
	tn, ok := o.(*types.TypeName)
	if !ok {
		return nil
	}
	n, _ := tn.Type().(*types.Named)
	return n
}

// Method returns the declared method (value or pointer receiver) of path.typ, or nil.
func (w *World) Method(path, typ, name string) *ssa.Function {
	n := w.Named(path, typ)
	if n == nil {
		return nil
	}
	for _, t := range []types.Type{n, types.NewPointer(n)} {
		ms := w.Prog.MethodSets.MethodSet(t)
		for i := 0; i < ms.Len(); i++ {
			sel := ms.At(i)
			if sel.Obj().Name() != name {
				continue
			}
			// only methods declared on the type itself (not promoted)
			if len(sel.Index()) != 1 {
				continue
			}
			fn := w.Prog.MethodValue(sel)
			if fn != nil && fn.Synthetic == "" {
				return fn
			}
			if fn != nil && fn.Synthetic != "" {
				// pointer-receiver wrapper of a value method: find the declared function
				if f := w.Prog.FuncValue(sel.Obj().(*types.Func)); f != nil {
					return f
				}
			}
		}
	}
	return nil
}

// Interface returns the underlying interface of path.name, or nil.
func (w *World) Interface(path, name string) *types.Interface {
	n := w.Named(path, name)
	if n == nil {
		return nil
	}
	i, _ := n.Underlying().(*types.Interface)
	return i
}

// Implementers returns the named types declared in repository packages whose pointer or
// value method set implements iface, sorted by name.
func (w *World) Implementers(iface *types.Interface) []*types.Named {
	var out []*types.Named
	for _, p := range w.RepoPackages() {
		sc := p.Pkg.Scope()
		for _, n := range sc.Names() {
			tn, ok := sc.Lookup(n).(*types.TypeName)
			if !ok || tn.IsAlias() {
				continue
			}
			named, ok := tn.Type().(*types.Named)
			if !ok {
				continue
			}
			if _, isIface := named.Underlying().(*types.Interface); isIface {
				continue
			}
			if types.Implements(named, iface) || types.Implements(types.NewPointer(named), iface) {
				out = append(out, named)
			}
		}
	}
	sort.Slice(out, func(i, j int) bool { return out[i].String() < out[j].String() })
	return out
}

// DeclaredMethod returns the SSA function for method name declared directly on named
// (either receiver kind), or nil if the method is promoted/absent.
func (w *World) DeclaredMethod(named *types.Named, name string) *ssa.Function {
	for i := 0; i < named.NumMethods(); i++ {
		m := named.Method(i)
		if m.Name() == name {
			return w.Prog.FuncValue(m)
		}
	}
	return nil
}

// Pos formats a position relative to the repository root.
func (w *World) Pos(p token.Pos) (file string, line int) {
	if !p.IsValid() || w.Fset == nil {
		return "", 0
	}
	pp := w.Fset.Position(p)
	f := pp.Filename
	if strings.HasPrefix(f, w.Dir+"/") {
		f = f[len(w.Dir)+1:]
	}
	return f, pp.Line
}
