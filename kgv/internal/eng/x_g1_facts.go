package eng

import (
	"go/token"

	"golang.org/x/tools/go/ssa"
)

// ---------------------------------------------------------------------------------------
// Facts through the results of extracted helpers (added for C01).
//
// HoldsAt expands named conditions and predicate helpers. When a guard block is moved into a
// helper that reports its outcome through one of several results
//
//	attrs, picker, reason, err := route(ctx, cluster)      // err == nil ⇒ the match succeeded
//	picker, ok := d.match(cluster, attrs, w, req)          // ok == true ⇒ the match succeeded
//
// the fact a rule looks for ("the error of call X is nil") is stated inside the helper, over
// the helper's own values. HoldsAtX adds the facts implied by boolean results of multi-result
// helpers (ExpandTupleFacts); NilImplies decides the nil-ness counterpart: "v == nil implies
// that some base value is nil", following v through the results of helpers.

// HoldsAtX is HoldsAt over the facts at ins extended by what the boolean results of
// multi-result helpers imply (ExpandTupleFacts), lifted through the guard sites of extracted
// helpers and callbacks like HoldsAt.
func HoldsAtX(ins ssa.Instruction, pred func(Rel) bool) bool {
	return holdsAtX(ins, pred, LiftDepth)
}

func holdsAtX(ins ssa.Instruction, pred func(Rel) bool, depth int) bool {
	if ins == nil || ins.Block() == nil {
		return false
	}
	for _, g := range GuardsOf(ins) {
		if pred(g.Rel()) {
			return true
		}
	}
	for _, f := range ExpandTupleFacts(FactsAt(ins, LiftDepth), LiftDepth) {
		if pred(relOfFact(f)) {
			return true
		}
	}
	if Current == nil || depth <= 0 || ins.Parent() == nil {
		return false
	}
	sites := Current.GuardSites(ins.Parent())
	if len(sites) == 0 {
		return false
	}
	for _, s := range sites {
		if !holdsAtX(s, pred, depth-1) {
			return false
		}
	}
	return true
}

// NilRel interprets r as a comparison with nil: it returns the compared value and whether the
// relation states that it IS nil.
func NilRel(r Rel) (v ssa.Value, isNil bool, ok bool) {
	switch {
	case IsNilConst(r.Y):
		v = r.X
	case IsNilConst(r.X):
		v = r.Y
	default:
		return nil, false, false
	}
	switch r.Op {
	case token.EQL:
		return v, true, true
	case token.NEQ:
		return v, false, true
	}
	return nil, false, false
}

// ProvablyNonNil reports whether v cannot be nil when instruction at executes: a freshly made
// value, or a value some guard of `at` compares unequal to nil.
func ProvablyNonNil(v ssa.Value, at ssa.Instruction) bool {
	switch v.(type) {
	case *ssa.MakeInterface, *ssa.Alloc, *ssa.MakeClosure, *ssa.Function, *ssa.FieldAddr, *ssa.IndexAddr, *ssa.MakeMap, *ssa.MakeChan, *ssa.MakeSlice:
		return true
	}
	if at == nil {
		return false
	}
	return guardedByIntra(at, func(r Rel) bool {
		x, isNil, ok := NilRel(r)
		return ok && !isNil && x == v
	})
}

// NilImplies reports whether "v == nil" implies "b == nil" for some value b accepted by base:
//
//   - v itself is accepted by base;
//   - v is the result of a repository helper every return of which either yields a provably
//     non-nil value in that position, hands on a value whose nil-ness implies the same, or
//     executes only where such a value is known to be nil (HoldsAtX);
//   - v is a phi / a local cell all of whose incoming values qualify in the same way;
//   - v is a parameter of a liftable helper and the argument at every call site qualifies.
func NilImplies(v ssa.Value, base func(ssa.Value) bool) bool {
	return nilImplies(v, base, LiftDepth+1, map[ssa.Value]bool{})
}

func nilImplies(v ssa.Value, base func(ssa.Value) bool, depth int, busy map[ssa.Value]bool) bool {
	for {
		switch x := v.(type) {
		case *ssa.ChangeInterface:
			v = x.X
			continue
		case *ssa.ChangeType:
			v = x.X
			continue
		}
		break
	}
	if v == nil || busy[v] {
		return false
	}
	if base(v) {
		return true
	}
	if depth <= 0 {
		return false
	}
	busy[v] = true
	defer delete(busy, v)
	// yields(val, at): the value `val` produced at instruction `at` is fine as a source of v
	yields := func(val ssa.Value, at ssa.Instruction) bool {
		if ProvablyNonNil(val, at) {
			return true
		}
		if !IsNilConst(val) && nilImplies(val, base, depth-1, busy) {
			return true
		}
		return at != nil && HoldsAtX(at, func(r Rel) bool {
			x, isNil, ok := NilRel(r)
			return ok && isNil && nilImplies(x, base, depth-1, busy)
		})
	}
	switch x := v.(type) {
	case *ssa.Phi:
		for i, e := range x.Edges {
			var at ssa.Instruction
			if i < len(x.Block().Preds) {
				p := x.Block().Preds[i]
				at = p.Instrs[len(p.Instrs)-1]
			}
			if !yields(e, at) {
				return false
			}
		}
		return len(x.Edges) > 0
	case *ssa.UnOp:
		if x.Op != token.MUL {
			return false
		}
		cell, ok := x.X.(*ssa.Alloc)
		if !ok || cell.Referrers() == nil {
			return false
		}
		n := 0
		for _, r := range *cell.Referrers() {
			switch u := r.(type) {
			case *ssa.Store:
				if u.Addr != ssa.Value(cell) {
					return false
				}
				n++
				if !yields(u.Val, u) {
					return false
				}
			case *ssa.UnOp, *ssa.DebugRef:
			default:
				return false
			}
		}
		return n > 0
	case *ssa.Parameter:
		if Current == nil {
			return false
		}
		ups := Current.UpArgSites(x)
		for _, u := range ups {
			if !yields(u.Arg, u.Site) {
				return false
			}
		}
		return len(ups) > 0
	}
	call, idx := CallResultOf(v)
	if call == nil {
		return false
	}
	h := call.Call.StaticCallee()
	if h == nil || !Analysable(h) {
		return false
	}
	if idx < 0 {
		idx = 0
	}
	n := 0
	for _, b := range h.Blocks {
		if b == h.Recover || len(b.Instrs) == 0 || !Reachable(h, b) {
			continue
		}
		ret, ok := b.Instrs[len(b.Instrs)-1].(*ssa.Return)
		if !ok {
			continue
		}
		res := ReturnResults(ret)
		if idx >= len(res) {
			return false
		}
		n++
		if !yields(res[idx], ret) {
			return false
		}
	}
	return n > 0
}
